(** Directory entries and the directory wire codec (src/directory.rs), on decompressed bytes. *)
Require Import PM.Base PM.Varint.
Open Scope N_scope.

Record entry := mkEntry { e_id : N; e_off : N; e_len : N; e_run : N }.

Definition entry_eqb (a b : entry) : bool :=
  (e_id a =? e_id b) && (e_off a =? e_off b) && (e_len a =? e_len b) && (e_run a =? e_run b).

(** ** Reading a column of [n] varints.
    The Rust loops run [for _ in 0..n] with [n] read from the input (up to 2^64).  Every varint
    read consumes at least one byte, so the model recurses on a fuel equal to the number of
    remaining bytes: when the fuel is exhausted with [n > 0] the remaining input is empty and the
    reader's answer is the UnexpectedEof that [rd []] returns. *)
Section Col.
  Variable rd : bytes -> outcome (N * bytes).
  Fixpoint read_n (fuel : nat) (n : N) (bs : bytes) : outcome (list N * bytes) :=
    if n =? 0 then Ok ([], bs) else
    match fuel with
    | O => Err EEof
    | S f =>
      do (v, r) <- rd bs;
      do (vs, r') <- read_n f (n - 1) r;
      Ok (v :: vs, r')
    end.
End Col.

(** running id sum, [last_id.checked_add(tmp)] *)
Fixpoint sum_ids (last : N) (deltas : list N) : outcome (list N) :=
  match deltas with
  | [] => Ok []
  | d :: r => do id <- cadd64 last d; do ids <- sum_ids id r; Ok (id :: ids)
  end.

(** [tile_id.checked_add(run_length)] must exist *)
Fixpoint check_runs (ids runs : list N) : outcome unit :=
  match ids, runs with
  | id :: ir, rn :: rr => do _ <- cadd64 id rn; check_runs ir rr
  | _, _ => Ok tt
  end.

Fixpoint check_lens (lens : list N) : outcome unit :=
  match lens with
  | [] => Ok tt
  | l :: r => if l =? 0 then Err EInvalid else check_lens r
  end.

(** offsets: [if i > 0 && val == 0 { prev.offset + prev.length } else { val - 1 }], both checked *)
Fixpoint rebuild_offsets (first : bool) (prev_off prev_len : N) (vals lens : list N) : outcome (list N) :=
  match vals, lens with
  | v :: vr, l :: lr =>
    do off <- (if negb first && (v =? 0) then cadd64 prev_off prev_len else csub64 v 1);
    do offs <- rebuild_offsets false off l vr lr;
    Ok (off :: offs)
  | _, _ => Ok []
  end.

Fixpoint zip4 (ids offs lens runs : list N) : list entry :=
  match ids, offs, lens, runs with
  | i :: ir, o :: or, l :: lr, r :: rr => mkEntry i o l r :: zip4 ir or lr rr
  | _, _, _, _ => []
  end.

(** [Directory::from_reader_impl] after decompression.  The per-element checks are applied after
    the column they belong to has been read; the Rust code interleaves them with the reads, which
    changes only which [Err] is reported, never whether one is. *)
Definition decode_dir_plain (bs : bytes) : outcome (list entry) :=
  do (n, r0) <- read_varint64 bs;
  do (deltas, r1) <- read_n read_varint64 (length r0) n r0;
  do ids <- sum_ids 0 deltas;
  do (runs, r2) <- read_n read_varint32 (length r1) n r1;
  do _ <- check_runs ids runs;
  do (lens, r3) <- read_n read_varint32 (length r2) n r2;
  do _ <- check_lens lens;
  do (vals, _) <- read_n read_varint64 (length r3) n r3;
  do offs <- rebuild_offsets true 0 0 vals lens;
  Ok (zip4 ids offs lens runs).

(** ** Encoder, [Directory::to_writer_impl] before compression.
    [entry.tile_id - last_id], [entry.offset + 1] and [entry.offset + length] are unchecked in Rust. *)
Fixpoint enc_ids (last : N) (es : list entry) : outcome bytes :=
  match es with
  | [] => Ok []
  | e :: r => do d <- sub64 (e_id e) last; do rest <- enc_ids (e_id e) r; Ok (write_varint d ++ rest)
  end.
Fixpoint enc_runs (es : list entry) : bytes :=
  match es with [] => [] | e :: r => write_varint (e_run e) ++ enc_runs r end.
Fixpoint enc_lens (es : list entry) : outcome bytes :=
  match es with
  | [] => Ok []
  | e :: r => if e_len e =? 0 then Err EInvalid else do rest <- enc_lens r; Ok (write_varint (e_len e) ++ rest)
  end.
Fixpoint enc_offs (first : bool) (next_byte : N) (es : list entry) : outcome bytes :=
  match es with
  | [] => Ok []
  | e :: r =>
    do v <- (if negb first && (e_off e =? next_byte) then Ok 0 else add64 (e_off e) 1);
    do nb <- add64 (e_off e) (e_len e);
    do rest <- enc_offs false nb r;
    Ok (write_varint v ++ rest)
  end.

Definition encode_dir_plain (es : list entry) : outcome bytes :=
  do ids <- enc_ids 0 es;
  do lens <- enc_lens es;
  do offs <- enc_offs true 0 es;
  Ok (write_varint (nlen es) ++ ids ++ enc_runs es ++ lens ++ offs).

(** ** The PMTiles v3 directory encoding written from the specification text: five sections of
    varints — count; delta-coded ids; run lengths; lengths; offsets where 0 means "contiguous with
    the previous entry" and anything else is offset + 1. *)
Fixpoint spec_deltas (last : N) (ids : list N) : list N :=
  match ids with [] => [] | i :: r => (i - last) :: spec_deltas i r end.
Fixpoint spec_offsets (prev : option entry) (es : list entry) : list N :=
  match es with
  | [] => []
  | e :: r =>
    (match prev with
     | Some p => if e_off e =? e_off p + e_len p then 0 else e_off e + 1
     | None => e_off e + 1
     end) :: spec_offsets (Some e) r
  end.
Definition varints (l : list N) : bytes := concat (map write_varint l).
Definition spec_encode_dir (es : list entry) : bytes :=
  write_varint (nlen es) ++ varints (spec_deltas 0 (map e_id es)) ++ varints (map e_run es)
  ++ varints (map e_len es) ++ varints (spec_offsets None es).

(** ** validity of a directory (property C05's domain) *)
Definition entry_ok (e : entry) : Prop :=
  e_id e + e_run e < two64 /\ 1 <= e_len e /\ e_len e < two32 /\ e_run e < two32 /\
  e_off e + e_len e < two64 /\ e_off e + 1 < two64.
(** strictly ascending with non-overlapping runs: the next id is past the previous id and past the
    previous run *)
Fixpoint ascending (last : option entry) (es : list entry) : Prop :=
  match es with
  | [] => True
  | e :: r =>
    (match last with
     | Some p => e_id p < e_id e /\ e_id p + e_run p <= e_id e
     | None => True
     end) /\ ascending (Some e) r
  end.
Definition valid_dir (es : list entry) : Prop := Forall entry_ok es /\ ascending None es.

Definition entry_okb (e : entry) : bool :=
  (e_id e + e_run e <? two64) && (1 <=? e_len e) && (e_len e <? two32) && (e_run e <? two32) &&
  (e_off e + e_len e <? two64) && (e_off e + 1 <? two64).
Fixpoint ascendingb (last : option entry) (es : list entry) : bool :=
  match es with
  | [] => true
  | e :: r =>
    (match last with
     | Some p => (e_id p <? e_id e) && (e_id p + e_run p <=? e_id e)
     | None => true
     end) && ascendingb (Some e) r
  end.
Definition valid_dirb (es : list entry) : bool := forallb entry_okb es && ascendingb None es.

(** ** single-directory lookup, [find_entry_for_tile_id]; [tile_id + run_length] is unchecked *)
Fixpoint find_entry (es : list entry) (id : N) : outcome (option entry) :=
  match es with
  | [] => Ok None
  | e :: r =>
    if e_run e =? 0 then find_entry r id else
    do hi <- add64 (e_id e) (e_run e);
    if (e_id e <=? id) && (id <? hi) then Ok (Some e) else find_entry r id
  end.

(** ** With compression: [Directory::from_reader] / [to_writer] (and the async twins, which differ only
    in the encoder used). The decoder reads lazily from the decompressed stream. *)
Require Import PM.Oracles.
Section WithCtx.
  Context (cx : ctx).
  Definition decode_dir (c : compression) (bs : bytes) : outcome (list entry) :=
    do (plain, _) <- decompress_lazy cx c bs;
    decode_dir_plain plain.
  (** [compress(..)?] is called before any entry is looked at *)
  Definition encode_dir (asy : bool) (c : compression) (es : list entry) : outcome bytes :=
    do _ <- compress cx asy c [];
    do plain <- encode_dir_plain es;
    compress cx asy c plain.
End WithCtx.
