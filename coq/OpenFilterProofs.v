(** C11 at the archive level: a range-filtered open equals the full open restricted to the range. *)
Require Import PM.Base PM.Oracles PM.Params PM.Float PM.Header PM.Directory PM.Stream PM.TileManager PM.TileManagerProofs
               PM.DirWriter PM.DirReader PM.LookupProofs PM.FilterProofs PM.Hilbert PM.Archive.
From Coq Require Import ZifyN ZifyBool ZifyNat.
Open Scope N_scope.

Lemma aget_of_in {V} (l : list (N * V)) k v : keys_nodup l -> In (k, v) l -> aget k l = Some v.
Proof.
  unfold keys_nodup. induction l as [|[k' v'] r IH]; intros Hnd Hin; [destruct Hin|].
  cbn [akeys map fst] in Hnd. inversion Hnd as [|? ? Hni Hnd']; subst. cbn [aget].
  destruct Hin as [E|Hin].
  - injection E as -> ->. now rewrite N.eqb_refl.
  - destruct (N.eqb_spec k k') as [->|]; [|now apply IH].
    exfalso. apply Hni. change (In k' (map fst r)). apply in_map_iff. exists (k', v). auto.
Qed.
Lemma in_of_aget {V} (l : list (N * V)) k v : aget k l = Some v -> In (k, v) l.
Proof.
  induction l as [|[k' v'] r IH]; [discriminate|]. cbn [aget].
  destruct (N.eqb_spec k k') as [->|]; [intros E; injection E as ->; now left|right; auto].
Qed.

(** ** the result lists have distinct keys *)
Lemma expand_run_nodup r e acc : keys_nodup acc -> keys_nodup (expand_run r e acc).
Proof.
  intros H. unfold expand_run.
  set (f := fun st : N * list (N * (N * N)) => let '(i, a) := st in (i + 1, if in_range r i then aset i (e_off e, e_len e) a else a)).
  assert (G : forall n, keys_nodup (snd (N.iter n f (e_id e, acc)))).
  { intros n. induction n as [|n IH] using N.peano_ind; [exact H|].
    rewrite N.iter_succ. destruct (N.iter n f (e_id e, acc)) as [i a]. cbn [f snd] in *.
    destruct (in_range r i); [now apply nodup_aset|exact IH]. }
  apply G.
Qed.
Lemma walk_nodup rec lo r : (forall o l a a', keys_nodup a -> rec o l a = Ok a' -> keys_nodup a') ->
  forall es acc t, keys_nodup acc -> walk_entries rec lo r es acc = Ok t -> keys_nodup t.
Proof.
  intros Hrec. induction es as [|e rest IH]; intros acc t Hn H; cbn [walk_entries] in H.
  - now injection H as <-.
  - destruct (e_run e =? 0).
    + destruct (range_end_inc r <? e_id e); [now apply (IH acc)|].
      destruct (cadd64 lo (e_off e)) as [o| |]; cbn [bind] in H; try discriminate.
      destruct (rec o (e_len e) acc) as [a'| |] eqn:Er; cbn [bind] in H; try discriminate.
      apply (IH a'); [now apply (Hrec o (e_len e) acc)|exact H].
    + apply (IH (expand_run r e acc)); [now apply expand_run_nodup|exact H].
Qed.
Lemma read_dir_rec_nodup cx : forall fuel c img o l lo r acc t, keys_nodup acc ->
  read_dir_rec cx fuel c img o l lo r acc = Ok t -> keys_nodup t.
Proof.
  induction fuel as [|f IH]; intros c img o l lo r acc t Hn H; [discriminate|]. cbn [read_dir_rec] in H.
  destruct (decode_dir cx c (section img o l)) as [es| |]; cbn [bind] in H; try discriminate.
  eapply walk_nodup; [|exact Hn|exact H]. intros o' l' a a' Ha Hr. now apply (IH c img o' l' lo r a).
Qed.

(** ** registering the tiles *)
Lemma register_tiles_spec d : forall l s s', keys_nodup l -> register_tiles d l s = Ok s' ->
  backing s' = backing s /\ data_by_hash s' = data_by_hash s /\ ids_by_hash s' = ids_by_hash s /\
  forall id, aget id (tile_by_id s') =
    match aget id l with Some (off, len) => Some (TOffLen (d + off) len) | None => aget id (tile_by_id s) end.
Proof.
  induction l as [|[id0 [off len]] r IH]; intros s s' Hnd H; cbn [register_tiles] in H.
  - injection H as <-. repeat split; reflexivity.
  - unfold cadd64 in H. destruct (d + off <? two64); cbn [bind] in H; [|discriminate].
    unfold add_offset_tile in H. destruct (len =? 0); cbn [bind] in H; [discriminate|].
    unfold keys_nodup in Hnd. cbn [akeys map fst] in Hnd. inversion Hnd as [|? ? Hni Hnd']; subst.
    destruct (IH _ s' Hnd' H) as (A & B & C & D). cbn [backing data_by_hash ids_by_hash tile_by_id] in *.
    repeat split; try assumption. intros id. rewrite D. cbn [aget].
    destruct (N.eqb_spec id id0) as [->|Hn].
    + assert (E : aget id0 r = None) by (apply aget_none_notin; exact Hni). rewrite E. apply aget_aset_eq.
    + destruct (aget id r) as [[o l]|]; [reflexivity|]. now apply aget_aset_neq.
Qed.
Lemma register_tiles_ok d : forall l s, (forall id off len, In (id, (off, len)) l -> d + off < two64 /\ len <> 0) ->
  exists s', register_tiles d l s = Ok s'.
Proof.
  induction l as [|[id0 [off len]] r IH]; intros s H; cbn [register_tiles]; [eauto|].
  destruct (H id0 off len (or_introl eq_refl)) as [H1 H2].
  unfold cadd64. destruct (N.ltb_spec (d + off) two64); [|lia]. cbn [bind].
  unfold add_offset_tile. destruct (N.eqb_spec len 0); [contradiction|]. cbn [bind].
  apply IH. intros id1 off1 len1 Hi. apply (H id1 off1 len1). now right.
Qed.
Lemma register_tiles_inv d : forall l s s', register_tiles d l s = Ok s' ->
  forall id off len, In (id, (off, len)) l -> d + off < two64 /\ len <> 0.
Proof.
  induction l as [|[id0 [off0 len0]] r IH]; intros s s' H id off len Hin; [destruct Hin|].
  cbn [register_tiles] in H. unfold cadd64 in H. destruct (N.ltb_spec (d + off0) two64); cbn [bind] in H; [|discriminate].
  unfold add_offset_tile in H. destruct (N.eqb_spec len0 0); cbn [bind] in H; [discriminate|].
  destruct Hin as [E|Hin]; [injection E as <- <- <-; auto|]. now apply (IH _ s' H id off len).
Qed.

Definition settings_eq (p q : pmtiles) : Prop :=
  p_ttype p = p_ttype q /\ p_tcomp p = p_tcomp q /\ p_icomp p = p_icomp q /\
  p_minz p = p_minz q /\ p_maxz p = p_maxz q /\ p_cz p = p_cz q /\
  p_min_lon p = p_min_lon q /\ p_min_lat p = p_min_lat q /\ p_max_lon p = p_max_lon q /\ p_max_lat p = p_max_lat q /\
  p_clon p = p_clon q /\ p_clat p = p_clat q /\ p_meta p = p_meta q.

Section WithCtx.
  Context (cx : ctx).

  (** C11: whenever the full open succeeds (on an archive whose leaves respect their pointers), the
      partial open succeeds, reports the same settings and metadata, and every lookup returns what the
      full open returns for ids inside the range and 'no such tile' outside it *)
  Theorem from_reader_filter img r pf h rest :
    decode_header img = Ok (h, rest) ->
    tree_ok cx (depth_fuel_of max_dir_depth) (h_icomp h) img (h_root_off h) (h_root_len h) (h_leaf_off h) 0 = true ->
    from_reader cx img full_range = Ok pf ->
    exists pp, from_reader cx img r = Ok pp /\ settings_eq pp pf /\
      forall id, get_tile (p_tm pp) id = if in_range r id then get_tile (p_tm pf) id else Ok None.
  Proof.
    intros Hh Hok H. unfold from_reader in *. rewrite Hh in *. cbn [bind] in *.
    destruct (if h_meta_len h =? 0 then Ok empty_object else read_meta cx (h_icomp h) (section img (h_meta_off h) (h_meta_len h)))
      as [meta| |]; cbn [bind] in *; try discriminate.
    destruct (read_directories cx (h_icomp h) img (h_root_off h) (h_root_len h) (h_leaf_off h) full_range) as [tf| |] eqn:Ef;
      cbn [bind] in H; try discriminate.
    destruct (read_directories_filter cx (h_icomp h) img (h_root_off h) (h_root_len h) (h_leaf_off h) r tf Hok Ef) as (tp & Ep & HR).
    rewrite Ep. cbn [bind].
    destruct (register_tiles (h_data_off h) tf (tm_empty (Some img))) as [sf| |] eqn:Rf; cbn [bind] in H; try discriminate.
    injection H as <-.
    assert (Nf : keys_nodup tf) by (eapply read_dir_rec_nodup; [|exact Ef]; constructor).
    assert (Np : keys_nodup tp) by (eapply read_dir_rec_nodup; [|exact Ep]; constructor).
    destruct (register_tiles_ok (h_data_off h) tp (tm_empty (Some img))) as (sp & Rp).
    { intros id off len Hin. apply (register_tiles_inv _ _ _ _ Rf id off len).
      apply in_of_aget. pose proof (aget_of_in _ _ _ Np Hin) as Hg. rewrite HR in Hg.
      destruct (in_range r id); [exact Hg|discriminate]. }
    rewrite Rp. cbn [bind]. eexists. split; [reflexivity|]. split; [repeat split|].
    cbn [p_tm].
    destruct (register_tiles_spec _ _ _ _ Nf Rf) as (Bf & Df & If & Tf).
    destruct (register_tiles_spec _ _ _ _ Np Rp) as (Bp & Dp & Ip & Tp).
    intros id. unfold get_tile. rewrite Tp, Tf, HR. cbn [tm_empty tile_by_id aget].
    destruct (in_range r id); [|reflexivity].
    destruct (aget id tf) as [[off len]|]; [|reflexivity].
    cbn [tile_content]. now rewrite Bp, Bf.
  Qed.
End WithCtx.
