(** What the leaf-spill of write_directories must satisfy (C06), independent of how it loops. *)
Require Import PM.Base PM.Oracles PM.Params PM.Directory PM.Stream PM.DirWriter.
Open Scope N_scope.

Section WithCtx.
  Context (cx : ctx) (c : compression).

  (** [ptrs] and the leaf section [leaves] describe the consecutive chunks [chs]: each pointer has
      run length 0, carries its leaf's first tile id, its offset inside the leaf section and its exact
      byte length; leaves follow each other without gaps and fill the section exactly *)
  Fixpoint ptrs_ok (ptrs : list entry) (chs : list (list entry)) (leaves : bytes) (off : N) : Prop :=
    match ptrs, chs with
    | [], [] => off = nlen leaves
    | p :: pr, ch :: cr =>
      (match ch with [] => False | first :: _ => e_id p = e_id first end) /\
      e_run p = 0 /\ e_off p = off /\ 1 <= e_len p /\ off + e_len p <= nlen leaves /\
      decode_dir cx c (section leaves off (e_len p)) = Ok ch /\
      ptrs_ok pr cr leaves (off + e_len p)
    | _, _ => False
    end.

  (** resolving a root directory and a leaf section the way the specification prescribes: an entry
      with run length 0 is replaced by the entries of the leaf it points to (one level, as the
      writer produces), everything else is kept *)
  Fixpoint resolve_root (es : list entry) (leaves : bytes) : outcome (list entry) :=
    match es with
    | [] => Ok []
    | e :: r =>
      do rest <- resolve_root r leaves;
      if e_run e =? 0 then
        do l <- decode_dir cx c (section leaves (e_off e) (e_len e)); Ok (l ++ rest)
      else Ok (e :: rest)
    end.
End WithCtx.

(** bytes of the stream before position [p] (zero-extended if the stream is shorter) *)
Definition prefix_of (img : bytes) (p : N) : bytes := firstn (N.to_nat p) (pad_to (N.to_nat p) img).
