(** C11: the hypothesis [tree_ok] of the partial-open theorem holds for every spec-valid directory tree ([wf_dir]),
    hence for every archive this library writes (C02) and every valid foreign archive (C03). *)
From Coq Require Import List NArith Lia Bool.
Require Import PM.Base PM.Oracles PM.Params PM.Directory PM.Stream PM.TileManager PM.DirReader PM.FilterProofs
  PM.Header PM.Archive PM.OpenFilterProofs PM.SpecLookup PM.SpecLookupProofs.
Import ListNotations.
Open Scope N_scope.

Section ValidTree.
  Context (cx : ctx) (c : compression) (img : bytes) (leaf_off : N).

  Lemma wf_entries_ids (sub : N -> N -> N -> N -> Prop) : forall es hi lo, wf_entries leaf_off sub es hi ->
    (match es with [] => True | e :: _ => lo <= e_id e end) -> Forall (fun e => lo <= e_id e /\ e_id e < hi) es.
  Proof.
    induction es as [|e r IH]; intros hi lo H Hlo; [constructor|]. pose proof (wf_entries_bounds leaf_off sub _ _ H) as [Hgt Hlt].
    cbn [wf_entries] in H. destruct H as (_ & _ & Hr). inversion Hlt as [|? ? He Hlt']; subst.
    constructor; [split; assumption|]. apply (IH hi lo Hr). destruct r as [|e2 r2]; [exact I|]. inversion Hgt; subst. lia.
  Qed.

  Lemma wf_dir_tree_ok : forall fuel off len lo hi, wf_dir cx c img leaf_off fuel off len lo hi ->
    forall fuel', (fuel' <= fuel)%nat -> tree_ok cx fuel' c img off len leaf_off lo = true.
  Proof.
    induction fuel as [|f IH]; intros off len lo hi Hwf fuel' Hle; [destruct Hwf|].
    destruct fuel' as [|f']; [reflexivity|]. cbn [wf_dir] in Hwf. destruct Hwf as (es & Hd & Hhi & Hlo & Hes).
    cbn [tree_ok]. rewrite Hd. apply forallb_forall. intros e He.
    pose proof (wf_entries_ids _ es hi lo Hes Hlo) as Hids. rewrite Forall_forall in Hids. destruct (Hids e He) as [I1 I2].
    destruct (N.leb_spec lo (e_id e)); [|lia]. destruct (N.ltb_spec (e_id e) two64); [|lia]. cbn [andb].
    destruct (N.eqb_spec (e_run e) 0) as [E0|]; [|reflexivity].
    (* a pointer: its leaf is valid below it *)
    assert (Hsub : exists o nb, cadd64 leaf_off (e_off e) = Ok o /\ wf_dir cx c img leaf_off f o (e_len e) (e_id e) nb).
    { clear -Hes He E0. induction es as [|x r IHr]; [destruct He|]. cbn [wf_entries] in Hes. destruct Hes as (_ & Hx & Hr).
      destruct He as [<-|He]; [|now apply IHr]. rewrite E0 in Hx. cbn [N.eqb] in Hx. destruct Hx as (o & Ho & Hw). eauto. }
    destruct Hsub as (o & nb & Ho & Hw). rewrite Ho. apply (IH o (e_len e) (e_id e) nb Hw). lia.
  Qed.
End ValidTree.

(** the partial-open theorem for spec-valid archives *)
Theorem partial_open_valid cx img r pf h rest :
  decode_header img = Ok (h, rest) -> max_dir_depth = Some 3 ->
  wf_dir cx (h_icomp h) img (h_leaf_off h) 4 (h_root_off h) (h_root_len h) 0 two64 ->
  from_reader cx img full_range = Ok pf ->
  exists pp, from_reader cx img r = Ok pp /\ settings_eq pp pf /\
    forall id, get_tile (p_tm pp) id = if in_range r id then get_tile (p_tm pf) id else Ok None.
Proof.
  intros Hd Hdepth Hwf Hf. apply (from_reader_filter cx img r pf h rest Hd); [|exact Hf].
  rewrite Hdepth. cbn [depth_fuel_of]. change (S (N.to_nat 3)) with 4%nat.
  now apply (wf_dir_tree_ok cx (h_icomp h) img (h_leaf_off h) 4 _ _ 0 two64 Hwf).
Qed.
