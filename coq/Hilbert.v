(** Tile ids (src/util/tile_id.rs) over the LUT automaton of hilbert_2d 1.1.0 (Variant::Hilbert),
    and the PMTiles v3 reference Hilbert algorithm as the specification. *)
Require Import PM.Base.
Open Scope N_scope.

(** ** hilbert_2d::xy2h_discrete — LUTS_YX2H[lut][q_y][q_x] *)
Definition yx2h (l : N) (qy qx : bool) : N :=
  match l, qy, qx with
  | 0, false, false => 0 | 0, false, true => 3 | 0, true, false => 1 | 0, true, true => 2
  | 1, false, false => 0 | 1, false, true => 1 | 1, true, false => 3 | 1, true, true => 2
  | 2, false, false => 2 | 2, false, true => 3 | 2, true, false => 1 | 2, true, true => 0
  | 3, false, false => 2 | 3, false, true => 1 | 3, true, false => 3 | 3, true, true => 0
  | 4, false, false => 3 | 4, false, true => 0 | 4, true, false => 2 | 4, true, true => 1
  | 5, false, false => 1 | 5, false, true => 0 | 5, true, false => 2 | 5, true, true => 3
  | 6, false, false => 3 | 6, false, true => 2 | 6, true, false => 0 | 6, true, true => 1
  | _, false, false => 1 | _, false, true => 2 | _, true, false => 0 | _, true, true => 3
  end.
(** next_lut_index (also what next_lut_index_variant does for Variant::Hilbert) *)
Definition next_lut (l q : N) : N := if q =? 0 then N.lxor l 1 else if q =? 3 then N.lxor l 2 else l.

(** processes bit [steps], then steps-1, ..., 0; [h] is the accumulated curve position ([curve_p << 2 | q]) *)
Fixpoint xy2h_loop (steps : nat) (l x y h : N) : N :=
  let q := yx2h l (N.testbit y (N.of_nat steps)) (N.testbit x (N.of_nat steps)) in
  let h' := 4 * h + q in
  match steps with O => h' | S s => xy2h_loop s (next_lut l q) x y h' end.
(** [order >= 1]; [steps = order - 1] clipped to ORDER_MAX - 1 = 31; bits of x, y above [steps] are ignored *)
Definition xy2h (x y : N) (order : nat) : N :=
  match order with O => 0 | S s => xy2h_loop (Nat.min s 31) 0 x y 0 end.

(** ** hilbert_2d::h2xy_discrete — LUTS_H2XY[lut][quadrant] = (x bit, y bit) *)
Definition h2xy_lut (l q : N) : N * N :=
  match l, q with
  | 0, 0 => (0,0) | 0, 1 => (0,1) | 0, 2 => (1,1) | 0, _ => (1,0)
  | 1, 0 => (0,0) | 1, 1 => (1,0) | 1, 2 => (1,1) | 1, _ => (0,1)
  | 2, 0 => (1,1) | 2, 1 => (0,1) | 2, 2 => (0,0) | 2, _ => (1,0)
  | 3, 0 => (1,1) | 3, 1 => (1,0) | 3, 2 => (0,0) | 3, _ => (0,1)
  | 4, 0 => (1,0) | 4, 1 => (1,1) | 4, 2 => (0,1) | 4, _ => (0,0)
  | 5, 0 => (1,0) | 5, 1 => (0,0) | 5, 2 => (0,1) | 5, _ => (1,1)
  | 6, 0 => (0,1) | 6, 1 => (1,1) | 6, 2 => (1,0) | 6, _ => (0,0)
  | _, 0 => (0,1) | _, 1 => (0,0) | _, 2 => (1,0) | _, _ => (1,1)
  end.
(** [s] = steps / 2: crumb index processed now, then s-1, ..., 0 *)
Fixpoint h2xy_loop (s : nat) (l h x y : N) : N * N :=
  let q := (h / 4 ^ N.of_nat s) mod 4 in
  let '(bx, by_) := h2xy_lut l q in
  let x' := 2 * x + bx in
  let y' := 2 * y + by_ in
  match s with O => (x', y') | S s' => h2xy_loop s' (next_lut l q) h x' y' end.
Definition h2xy (h : N) (order : nat) : N * N :=
  match order with O => (0, 0) | S s => h2xy_loop (Nat.min s 31) 0 h 0 0 end.

(** ** util::tile_id *)
(** [4u64.pow(i)] panics on overflow in the checked build *)
Definition pow4_64 (i : N) : outcome N := if 4 ^ i <? two64 then Ok (4 ^ i) else Crash Overflow.
(** [(1..z).map(|i| 4u64.pow(i)).sum::<u64>()], evaluated left to right *)
Fixpoint sum_pow4 (k : nat) (i acc : N) : outcome N :=
  match k with
  | O => Ok acc
  | S k' => do p <- pow4_64 i; do acc' <- add64 acc p; sum_pow4 k' (i + 1) acc'
  end.
Definition base_id (z : N) : outcome N :=
  do s <- sum_pow4 (N.to_nat z - 1) 1 0; add64 1 s.

(** [z : u8], [x y : u64] *)
Definition tile_id (z x y : N) : outcome N :=
  if z =? 0 then Ok 0 else
  do b <- base_id z;
  add64 b (xy2h x y (N.to_nat z)).

(** [find_z]: scan cumulative zoom sizes for i in 1..MAX_Z *)
Fixpoint find_z_loop (k : nat) (i acc id : N) : option N :=
  match k with
  | O => None
  | S k' =>
    let acc' := acc + 4 ^ i in
    if id <? acc' then Some i else find_z_loop k' (i + 1) acc' id
  end.
Definition find_z (max_z : N) (id : N) : outcome N :=
  match find_z_loop (N.to_nat max_z - 1) 1 1 id with
  | Some z => Ok z
  | None => Err EMaxZ
  end.
Definition zxy (max_z : N) (id : N) : outcome (N * N * N) :=
  if id =? 0 then Ok (0, 0, 0) else
  do z <- find_z max_z id;
  do b <- base_id z;
  do h <- sub64 id b;
  let '(x, y) := h2xy h (N.to_nat z) in
  Ok (z, x, y).

(** the grid guard of PMTiles::get_tile ([is_in_grid]) *)
Definition in_grid (z x y : N) : bool := (z <? 32) && (x / 2 ^ z =? 0) && (y / 2 ^ z =? 0).

(** ** Specification: the PMTiles v3 reference algorithm (zxy_to_tileid of the spec's reference
    implementation): d += s*s*((3*rx) xor ry), then rotate. *)
Definition digit (rx ry : bool) : N := N.lxor (3 * N.b2n rx) (N.b2n ry).
Definition rot (n x y : N) (rx ry : bool) : N * N :=
  if ry then (x, y) else
  if rx then (n - 1 - y, n - 1 - x) else (y, x).
Fixpoint ref_loop (k : nat) (n x y d : N) : N :=
  match k with
  | O => d
  | S k' =>
    let rx := N.testbit x (N.of_nat k') in
    let ry := N.testbit y (N.of_nat k') in
    let d' := d + 2 ^ N.of_nat k' * 2 ^ N.of_nat k' * digit rx ry in
    let '(x', y') := rot n x y rx ry in
    ref_loop k' n x' y' d'
  end.
Definition hilbert_spec (z : nat) (x y : N) : N := ref_loop z (2 ^ N.of_nat z) x y 0.
(** first id of zoom z: (4^z - 1) / 3 *)
Definition zoom_base (z : N) : N := (4 ^ z - 1) / 3.
Definition spec_tile_id (z x y : N) : N := zoom_base z + hilbert_spec (N.to_nat z) x y.
