(** C06: the leaf-directory spill of util::write_directories. *)
Require Import PM.Base PM.Varint PM.Oracles PM.Params PM.Directory PM.DirectoryProofs PM.Stream PM.DirWriter
               PM.StreamProofs PM.SpillSpec.
From Coq Require Import ZifyN ZifyBool ZifyNat.
Open Scope N_scope.

(** * chunks *)
Lemma chunks_fuel_concat {A} : forall fuel k (l : list A), (1 <= k)%nat -> (length l <= fuel)%nat ->
  concat (chunks_fuel fuel k l) = l.
Proof.
  induction fuel as [|f IH]; intros k l Hk Hl.
  - destruct l; [reflexivity|cbn in Hl; lia].
  - cbn [chunks_fuel]. destruct l as [|x r]; [reflexivity|].
    cbn [concat]. rewrite IH; [apply firstn_skipn|assumption|].
    rewrite skipn_length. cbn [length] in *. lia.
Qed.
Lemma chunks_concat {A} k (l : list A) : (1 <= k)%nat -> concat (chunks k l) = l.
Proof. intros. apply chunks_fuel_concat; auto. Qed.
Lemma chunks_fuel_nonempty {A} : forall fuel k (l : list A), (1 <= k)%nat -> Forall (fun ch => ch <> []) (chunks_fuel fuel k l).
Proof.
  induction fuel as [|f IH]; intros k l Hk; [constructor|].
  cbn [chunks_fuel]. destruct l as [|x r]; [constructor|]. constructor; [|now apply IH].
  destruct k; [lia|]. cbn. discriminate.
Qed.

(** * validity of sublists *)
Lemma Forall_firstn' {A} (P : A -> Prop) n : forall l, Forall P l -> Forall P (firstn n l).
Proof. induction n; intros l H; [constructor|]. destruct l; [constructor|]. inversion H; subst. cbn. constructor; auto. Qed.
Lemma Forall_skipn' {A} (P : A -> Prop) n : forall l, Forall P l -> Forall P (skipn n l).
Proof. induction n; intros l H; [exact H|]. destruct l; [constructor|]. inversion H; subst. cbn. auto. Qed.
Lemma ascending_weaken : forall es last, ascending last es -> ascending None es.
Proof. intros [|e r] last H; [exact I|]. cbn in *. tauto. Qed.
Lemma ascending_skipn : forall n es last, ascending last es -> ascending None (skipn n es).
Proof.
  induction n as [|n IH]; intros es last H; [now apply ascending_weaken with last|].
  destruct es as [|e r]; [exact I|]. cbn [skipn]. apply (IH r (Some e)). cbn in H. tauto.
Qed.
Lemma ascending_firstn : forall n es last, ascending last es -> ascending last (firstn n es).
Proof.
  induction n as [|n IH]; intros es last H; [exact I|].
  destruct es as [|e r]; [exact I|]. cbn [firstn ascending] in *. split; [tauto|]. apply IH. tauto.
Qed.
Lemma valid_dir_firstn n es : valid_dir es -> valid_dir (firstn n es).
Proof. intros [Hok Ha]. split; [now apply Forall_firstn'|now apply ascending_firstn]. Qed.
Lemma valid_dir_skipn n es : valid_dir es -> valid_dir (skipn n es).
Proof. intros [Hok Ha]. split; [now apply Forall_skipn'|now apply ascending_skipn with None]. Qed.
Lemma chunks_fuel_valid : forall fuel k es, valid_dir es -> Forall valid_dir (chunks_fuel fuel k es).
Proof.
  induction fuel as [|f IH]; intros k es Hv; [constructor|].
  cbn [chunks_fuel]. destruct es as [|e r] eqn:E; [constructor|]. rewrite <- E in *.
  constructor; [now apply valid_dir_firstn|]. apply IH. now apply valid_dir_skipn.
Qed.

(** * sections of a concatenation *)
Lemma section_app_mid (a b c : bytes) : section (a ++ b ++ c) (nlen a) (nlen b) = b.
Proof.
  unfold section, nlen. rewrite !app_length.
  destruct (N.leb_spec (N.of_nat (length a + (length b + length c))) (N.of_nat (length a))) as [H|H].
  - assert (length b = 0)%nat by lia. destruct b; [reflexivity|cbn in *; lia].
  - rewrite Nat2N.id. rewrite skipn_exact by reflexivity.
    replace (N.to_nat (N.min (N.of_nat (length b)) (N.of_nat (length a + (length b + length c)) - N.of_nat (length a)))) with (length b) by lia.
    apply firstn_exact. reflexivity.
Qed.

Lemma section_write_at img pos bs : section (write_at img pos bs) pos (nlen bs) = bs.
Proof.
  unfold write_at. set (p := N.to_nat pos). set (pre := firstn p (pad_to p img)).
  assert (Lpre : length pre = p) by apply firstn_pad_length.
  replace pos with (nlen pre) by (unfold nlen; lia). apply section_app_mid.
Qed.
(** the bytes before a position, zero-extended when the image is shorter *)
Definition before (img : bytes) (pos : N) : bytes := firstn (N.to_nat pos) (pad_to (N.to_nat pos) img).
Lemma before_write_at img pos bs : before (write_at img pos bs) pos = before img pos.
Proof.
  unfold before. set (p := N.to_nat pos).
  assert (L : (p <= length (write_at img pos bs))%nat) by (rewrite write_at_length; fold p; lia).
  assert (E : pad_to p (write_at img pos bs) = write_at img pos bs).
  { unfold pad_to. replace (p - length (write_at img pos bs))%nat with 0%nat by lia. cbn. apply app_nil_r. }
  rewrite E. apply write_at_prefix.
Qed.
Lemma before_ws_write st bs : before (ws_img (ws_write st bs)) (ws_pos st) = before (ws_img st) (ws_pos st).
Proof. unfold ws_write, ws_write_gen. destruct bs; [reflexivity|]. cbn [ws_img]. apply before_write_at. Qed.
Lemma section_ws_write st bs : section (ws_img (ws_write st bs)) (ws_pos st) (nlen bs) = bs.
Proof.
  unfold ws_write, ws_write_gen. destruct bs as [|x r].
  - unfold section, nlen. cbn. destruct (_ <=? _); [reflexivity|]. rewrite N.min_0_l. reflexivity.
  - cbn [ws_img]. apply section_write_at.
Qed.

Section WithCtx.
  Context (cx : ctx).
  Hypothesis Hinv : codec_inv cx.

  (** * one directory written through the codec writer *)
  Lemma write_dir_spec asy c es st st' n : write_dir cx asy c es st = Ok (st', n) ->
    exists z, encode_dir cx asy c es = Ok z /\ n = nlen z /\
              ws_img st' = ws_img (ws_write st z) /\ ws_pos st' = ws_pos st + nlen z.
  Proof.
    unfold write_dir, encode_dir.
    destruct (compress cx asy c []) as [x| |]; cbn [bind]; try discriminate.
    destruct (encode_dir_plain es) as [plain| |]; cbn [bind]; try discriminate.
    destruct (compress cx asy c plain) as [z| |]; cbn [bind]; try discriminate.
    intros H. injection H as <- <-. exists z. repeat split.
    all: try apply ws_write_dir_img; try apply ws_write_dir_pos.
  Qed.
  Lemma write_dir_ok asy c es st z : encode_dir cx asy c es = Ok z ->
    exists st', write_dir cx asy c es st = Ok (st', nlen z) /\ ws_img st' = ws_img (ws_write st z) /\ ws_pos st' = ws_pos st + nlen z.
  Proof.
    unfold write_dir, encode_dir.
    destruct (compress cx asy c []) as [x| |]; cbn [bind]; try discriminate.
    destruct (encode_dir_plain es) as [plain| |]; cbn [bind]; try discriminate.
    intros Hz. rewrite Hz. cbn [bind]. eexists. split; [reflexivity|]. split; [apply ws_write_dir_img|apply ws_write_dir_pos].
  Qed.

  (** * the leaves *)
  (** what [build_leaves] appends for a list of chunks starting at leaf-section offset [off] *)
  Fixpoint leaves_spec (c : compression) (cs : list (list entry)) (off : N) : outcome (list bytes * list entry) :=
    match cs with
    | [] => Ok ([], [])
    | ch :: r =>
      match ch with
      | [] => leaves_spec c r off
      | first :: _ =>
        do blob <- encode_dir cx false c ch;
        do (bs, ps) <- leaves_spec c r (off + nlen blob);
        Ok (blob :: bs, mkEntry (e_id first) off (nlen blob mod two32) 0 :: ps)
      end
    end.
  Lemma build_leaves_spec c : forall cs off rl rp,
    build_leaves cx c cs off rl rp =
    (do (bs, ps) <- leaves_spec c cs off; Ok (rev rl ++ bs, rev rp ++ ps)).
  Proof.
    induction cs as [|ch r IH]; intros off rl rp; cbn [build_leaves leaves_spec bind].
    - now rewrite !app_nil_r.
    - destruct ch as [|first rest]; [apply IH|].
      destruct (encode_dir cx false c (first :: rest)) as [blob| |]; cbn [bind]; try reflexivity.
      rewrite IH. destruct (leaves_spec c r (off + nlen blob)) as [[bs ps]| |]; cbn [bind]; try reflexivity.
      cbn [rev]. now rewrite <- !app_assoc.
  Qed.

  (** pointers and leaf section describe the chunks: SpillSpec.ptrs_ok *)
  Lemma leaves_spec_ok c : c <> CUnknown -> forall cs off pre bs ps,
    Forall valid_dir cs -> Forall (fun ch => ch <> []) cs -> Forall (fun ch => nlen ch < two64) cs ->
    leaves_spec c cs off = Ok (bs, ps) -> off = nlen pre ->
    Forall (fun b => 1 <= nlen b < two32) bs ->
    ptrs_ok cx c ps cs (pre ++ concat bs) off.
  Proof.
    intros Hc. induction cs as [|ch r IH]; intros off pre bs ps Hv Hne Hlen H Hoff Hsmall.
    - cbn in H. injection H as <- <-. cbn [concat ptrs_ok]. rewrite app_nil_r. exact Hoff.
    - inversion Hv as [|? ? Hvch Hvr]; subst. inversion Hne as [|? ? Hnch Hner]; subst.
      inversion Hlen as [|? ? Hlch Hlr]; subst.
      cbn [leaves_spec] in H. destruct ch as [|first rest]; [congruence|].
      destruct (encode_dir cx false c (first :: rest)) as [blob| |] eqn:Eb; cbn [bind] in H; try discriminate.
      destruct (leaves_spec c r (nlen pre + nlen blob)) as [[bs' ps']| |] eqn:El; cbn [bind] in H; try discriminate.
      injection H as <- <-. inversion Hsmall as [|? ? Hb Hbs]; subst.
      cbn [ptrs_ok concat e_id e_run e_off e_len].
      assert (Em : nlen blob mod two32 = nlen blob) by (apply N.mod_small; lia). rewrite Em.
      split; [reflexivity|]. split; [reflexivity|]. split; [reflexivity|]. split; [lia|].
      split; [unfold nlen; rewrite !app_length; lia|].
      split.
      + rewrite section_app_mid.
        destruct (dir_roundtrip cx false c (first :: rest) Hinv Hc Hvch Hlch) as (b' & Hb' & Hd).
        rewrite Eb in Hb'. injection Hb' as <-. exact Hd.
      + replace (pre ++ blob ++ concat bs') with ((pre ++ blob) ++ concat bs') by now rewrite app_assoc.
        apply (IH (nlen pre + nlen blob) (pre ++ blob) bs' ps'); try assumption.
        unfold nlen. rewrite app_length. lia.
  Qed.

  (** * the doubling loop and write_directories *)
  (** what a successful spill looks like: a final leaf size [k >= 1], the leaves of the chunks of size
      [k], their pointers, and a root directory holding exactly the pointers, within the budget, written
      at [start]; the stream is positioned right after the root and nothing before [start] changed *)
  Definition spilled (asy : bool) (c : compression) (es : list entry) (start : N) (st0 st' : wstream) (leaf_data : bytes) : Prop :=
    exists (k : nat) blobs ptrs root,
      (1 <= k)%nat /\ leaves_spec c (chunks k es) 0 = Ok (blobs, ptrs) /\ leaf_data = concat blobs /\
      encode_dir cx asy c ptrs = Ok root /\ nlen root <= max_root_dir_length /\
      ws_pos st' = start + nlen root /\ section (ws_img st') start (nlen root) = root /\
      before (ws_img st') start = before (ws_img st0) start.

  Lemma leaf_loop_spec asy c es start : forall fuel leaf_size st st' ld,
    leaf_loop cx fuel asy c es leaf_size st start = Ok (st', ld) -> spilled asy c es start st st' ld.
  Proof.
    induction fuel as [|f IH]; intros ls st st' ld H; [discriminate|].
    cbn [leaf_loop] in H. destruct (N.eqb_spec ls 0) as [|Hls]; [discriminate|].
    rewrite build_leaves_spec in H. cbn [rev app] in H.
    set (k := N.to_nat (N.min ls (N.max 1 (nlen es)))) in *.
    destruct (leaves_spec c (chunks k es) 0) as [[blobs ptrs]| |] eqn:El; cbn [bind] in H; try discriminate.
    destruct (write_dir cx asy c ptrs (ws_seek st start)) as [[st2 n]| |] eqn:Ew; cbn [bind] in H; try discriminate.
    destruct (write_dir_spec asy c ptrs _ _ _ Ew) as (root & Hroot & _ & Himg & Hpos).
    cbn [ws_seek ws_pos] in Hpos. unfold ws_tell in H. cbn [ws_log_ev ws_pos] in H.
    unfold sub64 in H. rewrite Hpos in H.
    destruct (N.leb_spec start (start + nlen root)) as [_|]; [|lia]. cbn [bind] in H.
    replace (start + nlen root - start) with (nlen root) in H by lia.
    assert (Hsec : section (ws_img st2) start (nlen root) = root).
    { rewrite Himg. apply (section_ws_write (ws_seek st start) root). }
    assert (Hbef : before (ws_img st2) start = before (ws_img st) start).
    { rewrite Himg. apply (before_ws_write (ws_seek st start) root). }
    destruct (N.leb_spec (nlen root) max_root_dir_length) as [Hfit|Hbig].
    - inversion H. subst st' ld. clear H.
      exists k, blobs, ptrs, root. cbn [ws_log_ev ws_img ws_pos].
      repeat split; try assumption; try reflexivity. unfold k. lia.
    - destruct (2 * ls <? two64); [|discriminate].
      specialize (IH _ _ _ _ H). destruct IH as (k' & b' & p' & r' & A1 & A2 & A3 & A4 & A5 & A6 & A7 & A8).
      exists k', b', p', r'. repeat split; try assumption.
      rewrite A8. cbn [ws_log_ev ws_img]. exact Hbef.
  Qed.

  Theorem write_directories_spec asy c es ss st st' ld :
    write_directories cx asy c es ss st = Ok (st', ld) ->
    let start := ws_pos st in
    (exists root, encode_dir cx asy c es = Ok root /\ nlen root <= max_root_dir_length /\ ld = [] /\
                  ws_pos st' = start + nlen root /\ section (ws_img st') start (nlen root) = root /\
                  before (ws_img st') start = before (ws_img st) start)
    \/
    (exists root0, encode_dir cx asy c es = Ok root0 /\ max_root_dir_length < nlen root0 /\ spilled asy c es start st st' ld).
  Proof.
    unfold write_directories, ws_tell. intros H. cbv zeta.
    set (st0 := ws_log_ev st EvPos) in *.
    assert (P0 : ws_pos st0 = ws_pos st) by reflexivity. assert (I0 : ws_img st0 = ws_img st) by reflexivity.
    destruct (write_dir cx asy c es st0) as [[st1 n]| |] eqn:Ew; cbn [bind] in H; try discriminate.
    destruct (write_dir_spec asy c es _ _ _ Ew) as (root & Hroot & _ & Himg & Hpos).
    rewrite P0 in Hpos. unfold sub64 in H. cbn [ws_log_ev ws_pos] in H. rewrite Hpos in H.
    destruct (N.leb_spec (ws_pos st) (ws_pos st + nlen root)) as [_|]; [|lia]. cbn [bind] in H.
    replace (ws_pos st + nlen root - ws_pos st) with (nlen root) in H by lia.
    assert (Hsec : section (ws_img st1) (ws_pos st) (nlen root) = root) by (rewrite Himg, <- P0; apply (section_ws_write st0 root)).
    assert (Hbef : before (ws_img st1) (ws_pos st) = before (ws_img st) (ws_pos st)) by (rewrite Himg, <- P0, <- I0; apply (before_ws_write st0 root)).
    destruct (N.leb_spec (nlen root) max_root_dir_length) as [Hfit|Hbig].
    - pose proof (f_equal (fun o => match o with Ok (a, b) => Some (a, b) | _ => None end) H) as E. cbn beta iota in E.
      injection E as <- <-. clear H.
      left. exists root. cbn [ws_img ws_pos]. repeat split; try assumption; try reflexivity.
    - right. exists root. split; [assumption|]. split; [assumption|].
      apply leaf_loop_spec in H. destruct H as (k' & b' & p' & r' & A1 & A2 & A3 & A4 & A5 & A6 & A7 & A8).
      exists k', b', p', r'. repeat split; try assumption. rewrite A8. cbn [ws_img]. exact Hbef.
  Qed.
End WithCtx.
