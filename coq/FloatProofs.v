(** The coordinate round trip of src/header/lat_lng.rs over IEEE-754 binary64 (Flocq):
    for every stored value i (an i32), [stored_of_deg (deg_of_stored i) = i]. *)
From Coq Require Import ZArith Reals Lia Lra Psatz.
From Flocq Require Import Core BinarySingleNaN Relative.
Require Import PM.Params PM.Float.
Open Scope R_scope.
#[local] Existing Instance Hprec.
#[local] Existing Instance Hmax.

Notation fx := (FLT_exp (-1074) 53).
Notation rnd := (round radix2 fx ZnearestE).

Lemma fexp_eq : SpecFloat.fexp prec emax = fx. Proof. reflexivity. Qed.

Definition u : R := / 2 * bpow radix2 (- 53 + 1).
Lemma u_val : u = / 9007199254740992.
Proof. unfold u. simpl bpow. change (Z.pow_pos 2 52) with 4503599627370496%Z. field. Qed.

Lemma tiny_le (x : R) : 1 / 20000000 <= Rabs x -> bpow radix2 (-1074 + 53 - 1) <= Rabs x.
Proof.
  intros H. apply Rle_trans with (2 := H).
  apply Rle_trans with (bpow radix2 (-30)).
  - apply bpow_le. lia.
  - simpl bpow. change (Z.pow_pos 2 30) with 1073741824%Z. lra.
Qed.

Lemma rel (x : R) : 1 / 20000000 <= Rabs x -> exists e, Rabs e <= u /\ rnd x = x * (1 + e).
Proof. intros H. unfold u. apply (relative_error_N_FLT_ex radix2 (-1074) 53 ltac:(lia) (fun x => negb (Z.even x))). now apply tiny_le. Qed.

(** the real-number core: two roundings stay within 2^-20 of the integer *)
Lemma core (i : Z) : (Z.abs i <= 2147483648)%Z ->
  Rabs (rnd (rnd (IZR i / 10000000) * 10000000) - IZR i) <= / 1000000
  /\ Rabs (rnd (IZR i / 10000000)) <= 1000 /\ Rabs (rnd (rnd (IZR i / 10000000) * 10000000)) <= 3000000000.
Proof.
  intros Hi.
  destruct (Z.eq_dec i 0) as [->|Hn].
  { replace (0 / 10000000) with 0 by field. rewrite round_0 by typeclasses eauto.
    rewrite Rmult_0_l, round_0 by typeclasses eauto. rewrite Rminus_0_r, Rabs_R0. lra. }
  assert (Hi1 : 1 <= Rabs (IZR i)).
  { rewrite <- abs_IZR. apply IZR_le. lia. }
  assert (Hi2 : Rabs (IZR i) <= 2147483648).
  { rewrite <- abs_IZR. apply IZR_le. lia. }
  set (I := IZR i) in *.
  destruct (rel (I / 10000000)) as [e1 [He1 E1]].
  { unfold Rdiv. rewrite Rabs_mult, (Rabs_pos_eq (/ 10000000)) by lra. lra. }
  rewrite E1.
  replace (I / 10000000 * (1 + e1) * 10000000) with (I * (1 + e1)) by field.
  rewrite u_val in He1.
  assert (A1 : Rabs (1 + e1) <= 1 + / 9007199254740992).
  { eapply Rle_trans; [apply Rabs_triang|]. rewrite Rabs_R1. lra. }
  assert (B1 : 1 - / 9007199254740992 <= Rabs (1 + e1)).
  { revert He1. unfold Rabs. repeat destruct Rcase_abs; lra. }
  destruct (rel (I * (1 + e1))) as [e2 [He2 E2]].
  { rewrite Rabs_mult. apply Rle_trans with (1 * (1 - / 9007199254740992)); [lra|].
    apply Rmult_le_compat; lra. }
  rewrite E2. rewrite u_val in He2.
  assert (A2 : Rabs (1 + e2) <= 1 + / 9007199254740992).
  { eapply Rle_trans; [apply Rabs_triang|]. rewrite Rabs_R1. lra. }
  split; [|split].
  - replace (I * (1 + e1) * (1 + e2) - I) with (I * (e1 + e2 + e1 * e2)) by ring.
    rewrite Rabs_mult.
    assert (Rabs (e1 + e2 + e1 * e2) <= 3 * / 9007199254740992).
    { eapply Rle_trans; [apply Rabs_triang|]. eapply Rle_trans; [apply Rplus_le_compat; [apply Rabs_triang|apply Rle_refl]|].
      rewrite Rabs_mult.
      assert (Rabs e1 * Rabs e2 <= / 9007199254740992 * 1).
      { apply Rmult_le_compat; try apply Rabs_pos; lra. }
      lra. }
    apply Rle_trans with (2147483648 * (3 * / 9007199254740992)); [|lra].
    apply Rmult_le_compat; try apply Rabs_pos; lra.
  - rewrite Rabs_mult. unfold Rdiv. rewrite Rabs_mult, (Rabs_pos_eq (/ 10000000)) by lra.
    apply Rle_trans with (2147483648 * / 10000000 * (1 + / 9007199254740992)); [|lra].
    apply Rmult_le_compat; try apply Rabs_pos; try lra.
  - rewrite 2 Rabs_mult.
    apply Rle_trans with (2147483648 * (1 + / 9007199254740992) * (1 + / 9007199254740992)); [|lra].
    apply Rmult_le_compat; try apply Rabs_pos; try lra.
    + apply Rmult_le_pos; apply Rabs_pos.
    + apply Rmult_le_compat; try apply Rabs_pos; lra.
Qed.

Lemma big : forall x, x <= 3000000000 -> x < bpow radix2 emax.
Proof.
  intros x H. apply Rle_lt_trans with (1 := H).
  apply Rlt_le_trans with (bpow radix2 32).
  - simpl bpow. change (Z.pow_pos 2 32) with 4294967296%Z. lra.
  - apply bpow_le. lia.
Qed.

Lemma fmt_Z (z : Z) : (Z.abs z <= 2147483648)%Z -> generic_format radix2 fx (IZR z).
Proof.
  intros H. apply generic_format_FLT. exists (Float radix2 z 0).
  - unfold F2R. simpl. ring.
  - simpl. change (2 ^ 53)%Z with 9007199254740992%Z. lia.
  - simpl. lia.
Qed.

Lemma of_Z_ok (z : Z) : (Z.abs z <= 2147483648)%Z -> B2R (of_Z z) = IZR z /\ is_finite (of_Z z) = true.
Proof.
  intros H. unfold of_Z.
  generalize (binary_normalize_correct prec emax Hprec Hmax mode_NE z 0 false).
  cbv zeta. rewrite fexp_eq. simpl round_mode.
  replace (F2R {| Fnum := z; Fexp := 0 |}) with (IZR z) by (unfold F2R; simpl; ring).
  rewrite round_generic by (try typeclasses eauto; now apply fmt_Z).
  rewrite Rlt_bool_true.
  - intros [A [B _]]. now split.
  - apply big. rewrite <- abs_IZR. apply Rle_trans with 2147483648; [apply IZR_le; lia | lra].
Qed.

Lemma FAC_ok : B2R FAC = 10000000 /\ is_finite FAC = true.
Proof. apply (of_Z_ok 10000000). lia. Qed.

Lemma round_FIX0_int (rndf : R -> Z) {Hv : Valid_rnd rndf} (z : Z) : round radix2 (FIX_exp 0) rndf (IZR z) = IZR z.
Proof.
  apply round_generic; [assumption|].
  apply generic_format_FIX. exists (Float radix2 z 0); [unfold F2R; simpl; ring | reflexivity].
Qed.

Lemma round_FIX0 (rndf : R -> Z) (x : R) : round radix2 (FIX_exp 0) rndf x = IZR (rndf x).
Proof.
  unfold round, scaled_mantissa, cexp, FIX_exp, F2R. cbn [Fnum Fexp].
  change (bpow radix2 (- 0)) with 1. change (bpow radix2 0) with 1. now rewrite !Rmult_1_r.
Qed.

(** the in-range [as i32] of a finite float is its truncation *)
Lemma cast_i32_finite (f : f64) (z : Z) : is_finite f = true -> Btrunc f = z ->
  (i32_min <= z <= i32_max)%Z -> cast_i32 f = z.
Proof.
  intros Hf Ht Hz. unfold cast_i32. destruct f; try discriminate; rewrite Ht; lia.
Qed.

Theorem stored_roundtrip (i : Z) : (- 2147483648 <= i < 2147483648)%Z -> stored_of_deg (deg_of_stored i) = i.
Proof.
  intros Hi. assert (Hi' : (Z.abs i <= 2147483648)%Z) by lia.
  destruct (core i Hi') as [C1 [C2 C3]].
  destruct (of_Z_ok i Hi') as [Vi Fi]. destruct FAC_ok as [Vf Ff].
  unfold stored_of_deg, round_away, deg_of_stored.
  (* division *)
  generalize (Bdiv_correct prec emax Hprec Hmax mode_NE (of_Z i) FAC).
  rewrite fexp_eq, Vi, Vf. simpl round_mode.
  intros HD. specialize (HD ltac:(lra)).
  rewrite Rlt_bool_true in HD by (apply big; lra).
  destruct HD as [D1 [D2 _]]. rewrite Fi in D2.
  (* multiplication *)
  generalize (Bmult_correct prec emax Hprec Hmax mode_NE (Bdiv mode_NE (of_Z i) FAC) FAC).
  rewrite fexp_eq, D1, Vf. simpl round_mode.
  rewrite Rlt_bool_true by (apply big; lra).
  intros [M1 [M2 _]]. rewrite D2, Ff in M2.
  set (w := Bmult mode_NE (Bdiv mode_NE (of_Z i) FAC) FAC) in *.
  (* nearbyint, ties away *)
  destruct (Bnearbyint_correct prec emax Hmax mode_NA w) as [N1 [N3 _]].
  simpl round_mode in N1. rewrite M1 in N1.
  assert (N2 : B2R (Bnearbyint mode_NA w) = IZR i).
  { rewrite N1, round_FIX0. rewrite (Znearest_imp _ _ i); [reflexivity|].
    eapply Rle_lt_trans; [apply C1|lra]. }
  apply cast_i32_finite.
  - rewrite N3. exact M2.
  - apply eq_IZR. rewrite Btrunc_correct, N2; [|exact Hmax]. apply round_FIX0_int. apply valid_rnd_ZR.
  - unfold i32_min, i32_max. lia.
Qed.

(** the behaviour before the fix (truncation toward zero): stored 21 came back as 20 *)
Lemma trunc_refuted : stored_of_deg_trunc (deg_of_stored 21) = 20%Z.
Proof. vm_compute. reflexivity. Qed.
Lemma round_fixes_witness : stored_of_deg (deg_of_stored 21) = 21%Z.
Proof. vm_compute. reflexivity. Qed.

(** every stored value decodes to a finite number (never NaN or an infinity) *)
Lemma deg_of_stored_finite (i : Z) : (- 2147483648 <= i < 2147483648)%Z -> is_finite (deg_of_stored i) = true.
Proof.
  intros Hi. assert (Hi' : (Z.abs i <= 2147483648)%Z) by lia.
  destruct (core i Hi') as [C1 [C2 C3]].
  destruct (of_Z_ok i Hi') as [Vi Fi]. destruct FAC_ok as [Vf Ff].
  unfold deg_of_stored.
  generalize (Bdiv_correct prec emax Hprec Hmax mode_NE (of_Z i) FAC).
  rewrite fexp_eq, Vi, Vf. simpl round_mode.
  intros HD. specialize (HD ltac:(lra)).
  rewrite Rlt_bool_true in HD by (apply big; lra).
  destruct HD as [_ [D2 _]]. now rewrite Fi in D2.
Qed.
