(** The coordinate round trip of src/header/lat_lng.rs over IEEE-754 binary64 (Flocq):
    for every stored value i (an i32), [stored_of_deg (deg_of_stored i) = i]. *)
From Coq Require Import ZArith Reals Lia Lra Psatz.
From Flocq Require Import Core BinarySingleNaN Relative Sterbenz Mult_error.
Require Import PM.Params PM.Float.
Open Scope R_scope.
#[local] Existing Instance Hprec.
#[local] Existing Instance Hmax.

Notation fx := (FLT_exp (-1074) 53).
Notation rnd := (round radix2 fx ZnearestE).

Lemma fexp_eq : SpecFloat.fexp prec emax = fx. Proof. reflexivity. Qed.

Definition u : R := / 2 * bpow radix2 (- 53 + 1).
Lemma u_val : u = / 9007199254740992.
Proof. unfold u. simpl bpow. change (Z.pow_pos 2 52) with 4503599627370496%Z. field. Qed.

Lemma tiny_le (x : R) : 1 / 20000000 <= Rabs x -> bpow radix2 (-1074 + 53 - 1) <= Rabs x.
Proof.
  intros H. apply Rle_trans with (2 := H).
  apply Rle_trans with (bpow radix2 (-30)).
  - apply bpow_le. lia.
  - simpl bpow. change (Z.pow_pos 2 30) with 1073741824%Z. lra.
Qed.

Lemma rel (x : R) : 1 / 20000000 <= Rabs x -> exists e, Rabs e <= u /\ rnd x = x * (1 + e).
Proof. intros H. unfold u. apply (relative_error_N_FLT_ex radix2 (-1074) 53 ltac:(lia) (fun x => negb (Z.even x))). now apply tiny_le. Qed.

(** the real-number core: two roundings stay within 2^-20 of the integer *)
Lemma core (i : Z) : (Z.abs i <= 2147483648)%Z ->
  Rabs (rnd (rnd (IZR i / 10000000) * 10000000) - IZR i) <= / 1000000
  /\ Rabs (rnd (IZR i / 10000000)) <= 1000 /\ Rabs (rnd (rnd (IZR i / 10000000) * 10000000)) <= 3000000000.
Proof.
  intros Hi.
  destruct (Z.eq_dec i 0) as [->|Hn].
  { replace (0 / 10000000) with 0 by field. rewrite round_0 by typeclasses eauto.
    rewrite Rmult_0_l, round_0 by typeclasses eauto. rewrite Rminus_0_r, Rabs_R0. lra. }
  assert (Hi1 : 1 <= Rabs (IZR i)).
  { rewrite <- abs_IZR. apply IZR_le. lia. }
  assert (Hi2 : Rabs (IZR i) <= 2147483648).
  { rewrite <- abs_IZR. apply IZR_le. lia. }
  set (I := IZR i) in *.
  destruct (rel (I / 10000000)) as [e1 [He1 E1]].
  { unfold Rdiv. rewrite Rabs_mult, (Rabs_pos_eq (/ 10000000)) by lra. lra. }
  rewrite E1.
  replace (I / 10000000 * (1 + e1) * 10000000) with (I * (1 + e1)) by field.
  rewrite u_val in He1.
  assert (A1 : Rabs (1 + e1) <= 1 + / 9007199254740992).
  { eapply Rle_trans; [apply Rabs_triang|]. rewrite Rabs_R1. lra. }
  assert (B1 : 1 - / 9007199254740992 <= Rabs (1 + e1)).
  { revert He1. unfold Rabs. repeat destruct Rcase_abs; lra. }
  destruct (rel (I * (1 + e1))) as [e2 [He2 E2]].
  { rewrite Rabs_mult. apply Rle_trans with (1 * (1 - / 9007199254740992)); [lra|].
    apply Rmult_le_compat; lra. }
  rewrite E2. rewrite u_val in He2.
  assert (A2 : Rabs (1 + e2) <= 1 + / 9007199254740992).
  { eapply Rle_trans; [apply Rabs_triang|]. rewrite Rabs_R1. lra. }
  split; [|split].
  - replace (I * (1 + e1) * (1 + e2) - I) with (I * (e1 + e2 + e1 * e2)) by ring.
    rewrite Rabs_mult.
    assert (Rabs (e1 + e2 + e1 * e2) <= 3 * / 9007199254740992).
    { eapply Rle_trans; [apply Rabs_triang|]. eapply Rle_trans; [apply Rplus_le_compat; [apply Rabs_triang|apply Rle_refl]|].
      rewrite Rabs_mult.
      assert (Rabs e1 * Rabs e2 <= / 9007199254740992 * 1).
      { apply Rmult_le_compat; try apply Rabs_pos; lra. }
      lra. }
    apply Rle_trans with (2147483648 * (3 * / 9007199254740992)); [|lra].
    apply Rmult_le_compat; try apply Rabs_pos; lra.
  - rewrite Rabs_mult. unfold Rdiv. rewrite Rabs_mult, (Rabs_pos_eq (/ 10000000)) by lra.
    apply Rle_trans with (2147483648 * / 10000000 * (1 + / 9007199254740992)); [|lra].
    apply Rmult_le_compat; try apply Rabs_pos; try lra.
  - rewrite 2 Rabs_mult.
    apply Rle_trans with (2147483648 * (1 + / 9007199254740992) * (1 + / 9007199254740992)); [|lra].
    apply Rmult_le_compat; try apply Rabs_pos; try lra.
    + apply Rmult_le_pos; apply Rabs_pos.
    + apply Rmult_le_compat; try apply Rabs_pos; lra.
Qed.

Lemma big : forall x, x <= 3000000000 -> x < bpow radix2 emax.
Proof.
  intros x H. apply Rle_lt_trans with (1 := H).
  apply Rlt_le_trans with (bpow radix2 32).
  - simpl bpow. change (Z.pow_pos 2 32) with 4294967296%Z. lra.
  - apply bpow_le. lia.
Qed.

Lemma fmt_Z (z : Z) : (Z.abs z <= 2147483648)%Z -> generic_format radix2 fx (IZR z).
Proof.
  intros H. apply generic_format_FLT. exists (Float radix2 z 0).
  - unfold F2R. simpl. ring.
  - simpl. change (2 ^ 53)%Z with 9007199254740992%Z. lia.
  - simpl. lia.
Qed.

Lemma fmt_Zbig (z : Z) : (Z.abs z <= 4000000000)%Z -> generic_format radix2 fx (IZR z).
Proof.
  intros H. apply generic_format_FLT. exists (Float radix2 z 0).
  - unfold F2R. simpl. ring.
  - simpl. change (2 ^ 53)%Z with 9007199254740992%Z. lia.
  - simpl. lia.
Qed.

Lemma of_Z_ok (z : Z) : (Z.abs z <= 2147483648)%Z -> B2R (of_Z z) = IZR z /\ is_finite (of_Z z) = true.
Proof.
  intros H. unfold of_Z.
  generalize (binary_normalize_correct prec emax Hprec Hmax mode_NE z 0 false).
  cbv zeta. rewrite fexp_eq. simpl round_mode.
  replace (F2R {| Fnum := z; Fexp := 0 |}) with (IZR z) by (unfold F2R; simpl; ring).
  rewrite round_generic by (try typeclasses eauto; now apply fmt_Z).
  rewrite Rlt_bool_true.
  - intros [A [B _]]. now split.
  - apply big. rewrite <- abs_IZR. apply Rle_trans with 2147483648; [apply IZR_le; lia | lra].
Qed.

Lemma FAC_ok : B2R FAC = 10000000 /\ is_finite FAC = true.
Proof. apply (of_Z_ok 10000000). lia. Qed.


Lemma F_one_ok : B2R F_one = 1 /\ is_finite F_one = true. Proof. apply (of_Z_ok 1). lia. Qed.
Lemma F_zero_ok : B2R F_zero = 0 /\ is_finite F_zero = true. Proof. apply (of_Z_ok 0). lia. Qed.
Lemma fmt_half0 : generic_format radix2 fx (/ 2).
Proof.
  apply generic_format_FLT. exists (Float radix2 1 (-1)).
  - unfold F2R. cbn [Fnum Fexp]. change (bpow radix2 (-1)) with (/ 2). lra.
  - cbn [Fnum]. vm_compute. reflexivity.
  - cbn [Fexp]. lia.
Qed.
Lemma F_half_ok : B2R F_half = / 2 /\ is_finite F_half = true.
Proof.
  unfold F_half. destruct (of_Z_ok 1 ltac:(lia)) as [V1 F1]. destruct (of_Z_ok 2 ltac:(lia)) as [V2 F2].
  generalize (Bdiv_correct prec emax Hprec Hmax mode_NE (of_Z 1) (of_Z 2)).
  rewrite fexp_eq, V1, V2. simpl round_mode. intros HD. specialize (HD ltac:(lra)).
  replace (1 / 2) with (/ 2) in HD by lra.
  rewrite round_generic in HD by (try typeclasses eauto; apply fmt_half0).
  rewrite Rlt_bool_true in HD by (apply big; rewrite Rabs_pos_eq; lra).
  destruct HD as [D1 [D2 _]]. rewrite F1 in D2. split; assumption.
Qed.

(** the integer nearest to a representable number differs from it by a representable number *)
Lemma fmt_int_diff (P : R) : generic_format radix2 fx P -> Rabs P <= 3000000000 ->
  generic_format radix2 fx (IZR (ZnearestA P) - P).
Proof.
  intros HP Hb. set (n := ZnearestA P).
  pose proof (Znearest_half (Zle_bool 0) P) as Hh. fold n in Hh.
  destruct (Z.eq_dec n 0) as [E|E].
  - rewrite E. replace (0 - P) with (- P) by ring. now apply generic_format_opp.
  - assert (H1 : 1 <= Rabs (IZR n)). { rewrite <- abs_IZR. apply IZR_le. lia. }
    assert (H2 : / 2 <= Rabs P).
    { apply Rabs_le_inv in Hh. revert H1. unfold Rabs. repeat destruct Rcase_abs; lra. }
    assert (Hn : (Z.abs n <= 4000000000)%Z).
    { apply le_IZR. rewrite abs_IZR. apply Rabs_le_inv in Hh. apply Rabs_le_inv in Hb. apply Rabs_le.
      change (IZR 4000000000) with 4000000000. lra. }
    replace (IZR n - P) with (IZR n + - P) by ring.
    apply generic_format_plus; try typeclasses eauto.
    + now apply fmt_Zbig.
    + now apply generic_format_opp.
    + apply Rle_trans with (bpow radix2 0).
      * change (bpow radix2 0) with 1. replace (IZR n + - P) with (- (P - IZR n)) by ring. rewrite Rabs_Ropp. lra.
      * apply bpow_le. apply Z.min_glb.
        -- apply Z.le_trans with 1%Z; [lia|]. apply mag_ge_bpow. change (bpow radix2 (1 - 1)) with 1. exact H1.
        -- rewrite mag_opp. apply mag_ge_bpow. change (bpow radix2 (0 - 1)) with (/ 2). exact H2.
Qed.

Lemma round_FIX0_int (rndf : R -> Z) {Hv : Valid_rnd rndf} (z : Z) : round radix2 (FIX_exp 0) rndf (IZR z) = IZR z.
Proof.
  apply round_generic; [assumption|].
  apply generic_format_FIX. exists (Float radix2 z 0); [unfold F2R; simpl; ring | reflexivity].
Qed.

Lemma round_FIX0 (rndf : R -> Z) (x : R) : round radix2 (FIX_exp 0) rndf x = IZR (rndf x).
Proof.
  unfold round, scaled_mantissa, cexp, FIX_exp, F2R. cbn [Fnum Fexp].
  change (bpow radix2 (- 0)) with 1. change (bpow radix2 0) with 1. now rewrite !Rmult_1_r.
Qed.

(** the in-range [as i32] of a finite float is its truncation *)
Lemma cast_i32_finite (f : f64) (z : Z) : is_finite f = true -> Btrunc f = z ->
  (i32_min <= z <= i32_max)%Z -> cast_i32 f = z.
Proof.
  intros Hf Ht Hz. unfold cast_i32. destruct f; try discriminate; rewrite Ht; lia.
Qed.

(** the test for "the rounded product lies exactly halfway between two integers" is exact *)
Lemma tie_test (p : f64) : is_finite p = true -> Rabs (B2R p) <= 3000000000 ->
  B2R (round_away p) = IZR (ZnearestA (B2R p)) /\ is_finite (round_away p) = true /\
  Beqb (Babs (Bminus mode_NE (round_away p) p)) F_half = Req_bool (Rabs (IZR (ZnearestA (B2R p)) - B2R p)) (/ 2).
Proof.
  intros Fp Hb. unfold round_away.
  destruct (Bnearbyint_correct prec emax Hmax mode_NA p) as [N1 [N3 _]].
  simpl round_mode in N1. rewrite round_FIX0 in N1. rewrite Fp in N3.
  set (r := Bnearbyint mode_NA p) in *. set (n := ZnearestA (B2R p)) in *.
  split; [exact N1|]. split; [exact N3|].
  pose proof (Znearest_half (Zle_bool 0) (B2R p)) as Hh. fold n in Hh.
  generalize (Bminus_correct prec emax Hprec Hmax mode_NE r p N3 Fp).
  rewrite fexp_eq, N1. simpl round_mode.
  rewrite (round_generic radix2 fx ZnearestE (IZR n - B2R p)) by
    (try typeclasses eauto; apply fmt_int_diff; [apply generic_format_B2R|exact Hb]).
  rewrite Rlt_bool_true.
  - intros [S1 [S2 _]]. destruct F_half_ok as [Vh Fh].
    rewrite Beqb_correct by (rewrite ?is_finite_Babs; assumption).
    now rewrite B2R_Babs, S1, Vh.
  - apply big. replace (IZR n - B2R p) with (- (B2R p - IZR n)) by ring. rewrite Rabs_Ropp. lra.
Qed.

Theorem stored_roundtrip (i : Z) : (- 2147483648 <= i < 2147483648)%Z -> stored_of_deg (deg_of_stored i) = i.
Proof.
  intros Hi. assert (Hi' : (Z.abs i <= 2147483648)%Z) by lia.
  destruct (core i Hi') as [C1 [C2 C3]].
  destruct (of_Z_ok i Hi') as [Vi Fi]. destruct FAC_ok as [Vf Ff].
  unfold stored_of_deg, round_away, deg_of_stored.
  (* division *)
  generalize (Bdiv_correct prec emax Hprec Hmax mode_NE (of_Z i) FAC).
  rewrite fexp_eq, Vi, Vf. simpl round_mode.
  intros HD. specialize (HD ltac:(lra)).
  rewrite Rlt_bool_true in HD by (apply big; lra).
  destruct HD as [D1 [D2 _]]. rewrite Fi in D2.
  (* multiplication *)
  generalize (Bmult_correct prec emax Hprec Hmax mode_NE (Bdiv mode_NE (of_Z i) FAC) FAC).
  rewrite fexp_eq, D1, Vf. simpl round_mode.
  rewrite Rlt_bool_true by (apply big; lra).
  intros [M1 [M2 _]]. rewrite D2, Ff in M2.
  set (w := Bmult mode_NE (Bdiv mode_NE (of_Z i) FAC) FAC) in *.
  (* nearbyint, ties away *)
  destruct (Bnearbyint_correct prec emax Hmax mode_NA w) as [N1 [N3 _]].
  simpl round_mode in N1. rewrite M1 in N1.
  assert (N2 : B2R (Bnearbyint mode_NA w) = IZR i).
  { rewrite N1, round_FIX0. rewrite (Znearest_imp _ _ i); [reflexivity|].
    eapply Rle_lt_trans; [apply C1|lra]. }
  (* the rounded product is nowhere near a half: the correction branch is not taken *)
  destruct (tie_test w ltac:(rewrite M2; reflexivity) ltac:(rewrite M1; exact C3)) as [_ [_ T]].
  unfold round_away in T. rewrite T, M1.
  rewrite (Znearest_imp _ _ i) by (eapply Rle_lt_trans; [apply C1|lra]).
  rewrite Req_bool_false.
  2:{ apply Rabs_le_inv in C1. unfold Rabs. destruct Rcase_abs; lra. }
  apply cast_i32_finite.
  - rewrite N3. exact M2.
  - apply eq_IZR. rewrite Btrunc_correct, N2; [|exact Hmax]. apply round_FIX0_int. apply valid_rnd_ZR.
  - unfold i32_min, i32_max. lia.
Qed.

(** the behaviour before the fix (truncation toward zero): stored 21 came back as 20 *)
Lemma trunc_refuted : stored_of_deg_trunc (deg_of_stored 21) = 20%Z.
Proof. vm_compute. reflexivity. Qed.
Lemma round_fixes_witness : stored_of_deg (deg_of_stored 21) = 21%Z.
Proof. vm_compute. reflexivity. Qed.

(** every stored value decodes to a finite number (never NaN or an infinity) *)
Lemma deg_of_stored_finite (i : Z) : (- 2147483648 <= i < 2147483648)%Z -> is_finite (deg_of_stored i) = true.
Proof.
  intros Hi. assert (Hi' : (Z.abs i <= 2147483648)%Z) by lia.
  destruct (core i Hi') as [C1 [C2 C3]].
  destruct (of_Z_ok i Hi') as [Vi Fi]. destruct FAC_ok as [Vf Ff].
  unfold deg_of_stored.
  generalize (Bdiv_correct prec emax Hprec Hmax mode_NE (of_Z i) FAC).
  rewrite fexp_eq, Vi, Vf. simpl round_mode.
  intros HD. specialize (HD ltac:(lra)).
  rewrite Rlt_bool_true in HD by (apply big; lra).
  destruct HD as [_ [D2 _]]. now rewrite Fi in D2.
Qed.
