(** The header codec (Header.v): exactly 127 bytes, lossless in both directions, rejections. *)
Require Import PM.Base PM.Oracles PM.Params PM.Float PM.FloatProofs PM.Header.
From Coq Require Import ZArith Lia ZifyN ZifyBool ZifyNat.
Open Scope N_scope.
Arguments N.add : simpl never. Arguments N.mul : simpl never. Arguments N.ltb : simpl never.
Arguments N.leb : simpl never. Arguments N.eqb : simpl never. Arguments N.sub : simpl never.
Arguments N.div : simpl never. Arguments N.modulo : simpl never. Arguments N.pow : simpl never.
Ltac Zify.zify_post_hook ::= Z.div_mod_to_equations.

(** * little-endian fields *)
Lemma le_bytes_length n v : length (le_bytes n v) = n.
Proof. revert v. induction n as [|n IH]; intros v; cbn [le_bytes length]; [reflexivity|now rewrite IH]. Qed.

Lemma le_value_le_bytes n : forall v, v < 256 ^ N.of_nat n -> le_value (le_bytes n v) = v.
Proof.
  induction n as [|n IH]; intros v Hv.
  - cbn in *. lia.
  - cbn [le_bytes le_value]. rewrite IH.
    + pose proof (N.div_mod v 256). lia.
    + replace (N.of_nat (S n)) with (N.of_nat n + 1) in Hv by lia.
      rewrite N.pow_add_r, N.pow_1_r in Hv.
      apply N.div_lt_upper_bound; lia.
Qed.

Lemma le_bytes_le_value : forall x, wf_bytes x -> le_bytes (length x) (le_value x) = x.
Proof.
  induction x as [|b x IH]; intros Hw; [reflexivity|].
  inversion Hw as [|? ? Hb Hx]; subst. cbn [length le_bytes le_value].
  replace ((b + 256 * le_value x) mod 256) with b.
  - replace ((b + 256 * le_value x) / 256) with (le_value x); [now rewrite IH|].
    apply N.div_unique with b; lia.
  - apply N.mod_unique with (le_value x); lia.
Qed.

Lemma le_value_bound : forall x, wf_bytes x -> le_value x < 256 ^ N.of_nat (length x).
Proof.
  induction x as [|b x IH]; intros Hw; [cbn; lia|].
  inversion Hw as [|? ? Hb Hx]; subst. specialize (IH Hx). cbn [length le_value].
  replace (N.of_nat (S (length x))) with (N.of_nat (length x) + 1) by lia.
  rewrite N.pow_add_r, N.pow_1_r. lia.
Qed.

Lemma le_bytes_wf n : forall v, wf_bytes (le_bytes n v).
Proof.
  induction n as [|n IH]; intros v; cbn [le_bytes]; constructor; [|apply IH].
  apply N.mod_lt. lia.
Qed.

Lemma wf_app a b : wf_bytes (a ++ b) <-> wf_bytes a /\ wf_bytes b.
Proof. unfold wf_bytes. apply Forall_app. Qed.

(** * the primitive takers and their inverses *)
Lemma split_at_app n a r : length a = n -> split_at n (a ++ r) = Ok (a, r).
Proof.
  intros <-. unfold split_at. rewrite app_length.
  assert (E : Nat.leb (length a) (length a + length r) = true) by (apply Nat.leb_le; lia). rewrite E.
  rewrite firstn_app, Nat.sub_diag, firstn_all, skipn_app, Nat.sub_diag, skipn_all. cbn. now rewrite app_nil_r.
Qed.
Lemma split_at_inv n b a r : split_at n b = Ok (a, r) -> b = a ++ r /\ length a = n.
Proof.
  unfold split_at. destruct (Nat.leb n (length b)) eqn:E; [|discriminate].
  intros H. injection H as <- <-. apply Nat.leb_le in E. split; [now rewrite firstn_skipn|].
  rewrite firstn_length. lia.
Qed.

Lemma take_u64_app v r : v < two64 -> take_u64 (le_bytes 8 v ++ r) = Ok (v, r).
Proof.
  intros Hv. unfold take_u64. rewrite split_at_app by apply le_bytes_length. cbn [bind].
  rewrite le_value_le_bytes; [reflexivity|]. exact Hv.
Qed.
Lemma take_u64_inv b v r : wf_bytes b -> take_u64 b = Ok (v, r) -> b = le_bytes 8 v ++ r /\ v < two64.
Proof.
  intros Hw. unfold take_u64. destruct (split_at 8 b) as [[x r']| |] eqn:E; cbn [bind]; try discriminate.
  intros H. injection H as <- <-. apply split_at_inv in E. destruct E as [-> Hl].
  apply wf_app in Hw. destruct Hw as [Hx _]. split.
  - f_equal. rewrite <- Hl. symmetry. now apply le_bytes_le_value.
  - pose proof (le_value_bound x Hx) as Hb. rewrite Hl in Hb. exact Hb.
Qed.

Definition i32_ok (z : Z) : Prop := (i32_min <= z <= i32_max)%Z.
Lemma i32_of_bytes_bytes z : i32_ok z -> i32_of_bytes (i32_bytes z) = z.
Proof.
  unfold i32_ok, i32_min, i32_max. intros Hz. unfold i32_of_bytes, i32_bytes.
  rewrite le_value_le_bytes by (change (256 ^ N.of_nat 4) with 4294967296; lia).
  rewrite Z2N.id by lia.
  destruct (Z.ltb_spec (z mod 4294967296) 2147483648); lia.
Qed.
Lemma i32_bytes_of_bytes x : wf_bytes x -> length x = 4%nat -> i32_bytes (i32_of_bytes x) = x /\ i32_ok (i32_of_bytes x).
Proof.
  intros Hw Hl. pose proof (le_value_bound x Hw) as Hb. rewrite Hl in Hb.
  change (256 ^ N.of_nat 4) with 4294967296 in Hb.
  unfold i32_of_bytes, i32_bytes, i32_ok, i32_min, i32_max.
  set (v := le_value x) in *.
  destruct (Z.ltb_spec (Z.of_N v) 2147483648) as [Hlt|Hge].
  - split; [|lia]. replace (Z.to_N (Z.of_N v mod 4294967296)) with v by lia.
    rewrite <- Hl. now apply le_bytes_le_value.
  - split; [|lia]. replace (Z.to_N ((Z.of_N v - 4294967296) mod 4294967296)) with v by lia.
    rewrite <- Hl. now apply le_bytes_le_value.
Qed.
Lemma i32_bytes_length z : length (i32_bytes z) = 4%nat.
Proof. apply le_bytes_length. Qed.
Lemma take_i32_app z r : i32_ok z -> take_i32 (i32_bytes z ++ r) = Ok (z, r).
Proof.
  intros Hz. unfold take_i32. rewrite split_at_app by apply i32_bytes_length. cbn [bind].
  now rewrite i32_of_bytes_bytes.
Qed.
Lemma take_i32_inv b z r : wf_bytes b -> take_i32 b = Ok (z, r) -> b = i32_bytes z ++ r /\ i32_ok z.
Proof.
  intros Hw. unfold take_i32. destruct (split_at 4 b) as [[x r']| |] eqn:E; cbn [bind]; try discriminate.
  intros H. injection H as <- <-. apply split_at_inv in E. destruct E as [-> Hl].
  apply wf_app in Hw. destruct Hw as [Hx _].
  destruct (i32_bytes_of_bytes x Hx Hl) as [E1 E2]. split; [now rewrite E1|exact E2].
Qed.
Lemma take_u8_inv b v r : take_u8 b = Ok (v, r) -> b = [v] ++ r.
Proof. destruct b; cbn; [discriminate|]. intros H. now injection H as <- <-. Qed.

Lemma bytes_eqb_eq a b : bytes_eqb a b = true <-> a = b.
Proof.
  revert b. induction a as [|x a IH]; intros [|y b]; cbn; try (split; [discriminate|discriminate]); [tauto|].
  rewrite Bool.andb_true_iff, N.eqb_eq, IH. split; [intros [-> ->]; reflexivity|intros H; injection H; auto].
Qed.

Lemma comp_code_inv n c : comp_of_code n = Ok c -> n = comp_code c.
Proof.
  unfold comp_of_code.
  repeat match goal with |- context [?a =? ?b] => destruct (N.eqb_spec a b) as [->|?] end;
    intros H; try discriminate; injection H as <-; reflexivity.
Qed.
Lemma comp_code_ok c : comp_of_code (comp_code c) = Ok c.
Proof. destruct c; reflexivity. Qed.
Lemma ttype_code_inv n c : ttype_of_code n = Ok c -> n = ttype_code c.
Proof.
  unfold ttype_of_code.
  repeat match goal with |- context [?a =? ?b] => destruct (N.eqb_spec a b) as [->|?] end;
    intros H; try discriminate; injection H as <-; reflexivity.
Qed.
Lemma ttype_code_ok c : ttype_of_code (ttype_code c) = Ok c.
Proof. destruct c; reflexivity. Qed.

(** * length *)
Lemma stored_bytes_length s : length (stored_bytes s) = 127%nat.
Proof.
  unfold stored_bytes. repeat rewrite app_length. rewrite !le_bytes_length, !i32_bytes_length. reflexivity.
Qed.
Theorem encode_stored_length s b : encode_stored s = Ok b -> length b = 127%nat.
Proof.
  unfold encode_stored. destruct (negb (s_version s =? 3)); [discriminate|].
  intros H. injection H as <-. apply stored_bytes_length.
Qed.

(** * decode after encode *)
Theorem decode_encode_stored s rest : sheader_ok s -> s_version s = 3 -> header_bytes = 127 ->
  exists b, encode_stored s = Ok b /\ decode_stored (b ++ rest) = Ok (s, rest).
Proof.
  intros Hok Hv Hhb. unfold sheader_ok in Hok.
  destruct Hok as (H1 & H2 & H3 & H4 & H5 & H6 & H7 & H8 & H9 & H10 & H11 & Hz1 & Hz2 & Hz3 & I1 & I2 & I3 & I4 & I5 & I6).
  pose proof (stored_bytes_length s) as HL.
  unfold encode_stored. rewrite Hv. change (3 =? 3) with true. cbn [negb].
  eexists. split; [reflexivity|].
  unfold decode_stored. rewrite Hhb. change (N.to_nat 127) with 127%nat.
  rewrite split_at_app by exact HL. cbn [bind].
  unfold stored_bytes. rewrite Hv.
  repeat rewrite <- app_assoc.
  rewrite (split_at_app 7 magic) by reflexivity. cbn [bind].
  assert (Em : bytes_eqb magic magic = true) by (apply bytes_eqb_eq; reflexivity). rewrite Em. cbn [negb].
  cbn [app take_u8 bind]. change (3 =? 3) with true. cbn [negb].
  repeat (rewrite take_u64_app by assumption; cbn [bind]).
  cbn [app take_u8 bind].
  destruct (s_clustered s) eqn:Ecl; change (1 =? 0) with false; change (1 =? 1) with true; change (0 =? 0) with true; cbn [bind].
  all: repeat (first [rewrite comp_code_ok | rewrite ttype_code_ok | rewrite take_i32_app by assumption]; cbn [bind app take_u8]);
  rewrite <- (app_nil_r (i32_bytes (s_clat s))), take_i32_app by assumption; cbn [bind];
  destruct s; cbn in *; subst; reflexivity.
Qed.

(** * encode after decode *)
Ltac inv_step H Hw :=
  match type of H with
  | bind (split_at 7 ?b) _ = Ok _ =>
    let E := fresh "E" in destruct (split_at 7 b) as [[? ?]| |] eqn:E; cbn [bind] in H; try discriminate;
    apply split_at_inv in E; destruct E as [-> ?]; apply wf_app in Hw; destruct Hw as [? Hw]
  | bind (take_u64 ?b) _ = Ok _ =>
    let E := fresh "E" in destruct (take_u64 b) as [[? ?]| |] eqn:E; cbn [bind] in H; try discriminate;
    apply (take_u64_inv _ _ _ Hw) in E; destruct E as [-> ?]; apply wf_app in Hw; destruct Hw as [_ Hw]
  | bind (take_i32 ?b) _ = Ok _ =>
    let E := fresh "E" in destruct (take_i32 b) as [[? ?]| |] eqn:E; cbn [bind] in H; try discriminate;
    apply (take_i32_inv _ _ _ Hw) in E; destruct E as [-> ?]; apply wf_app in Hw; destruct Hw as [_ Hw]
  | bind (take_u8 ?b) _ = Ok _ =>
    let E := fresh "E" in destruct (take_u8 b) as [[? ?]| |] eqn:E; cbn [bind] in H; try discriminate;
    apply take_u8_inv in E; subst b; apply wf_app in Hw; destruct Hw as [? Hw]
  | bind (comp_of_code ?n) _ = Ok _ =>
    let E := fresh "E" in destruct (comp_of_code n) eqn:E; cbn [bind] in H; try discriminate;
    apply comp_code_inv in E; subst n
  | bind (ttype_of_code ?n) _ = Ok _ =>
    let E := fresh "E" in destruct (ttype_of_code n) eqn:E; cbn [bind] in H; try discriminate;
    apply ttype_code_inv in E; subst n
  | (if negb (bytes_eqb ?m magic) then _ else _) = Ok _ =>
    let E := fresh "E" in destruct (bytes_eqb m magic) eqn:E; cbn [negb] in H; try discriminate;
    apply bytes_eqb_eq in E; subst m
  | (if negb (?v =? 3) then _ else _) = Ok _ =>
    destruct (N.eqb_spec v 3); cbn [negb] in H; try discriminate; subst v
  | bind (if ?cl =? 0 then Ok false else if ?cl =? 1 then Ok true else Err EInvalid) _ = Ok _ =>
    destruct (N.eqb_spec cl 0); [subst cl|destruct (N.eqb_spec cl 1); [subst cl|discriminate]]; cbn [bind] in H
  end.

Theorem encode_decode_stored b s rest : wf_bytes b -> header_bytes = 127 ->
  decode_stored b = Ok (s, rest) ->
  exists hb, b = hb ++ rest /\ encode_stored s = Ok hb /\ sheader_ok s.
Proof.
  intros Hw Hhb H. unfold decode_stored in H. rewrite Hhb in H. change (N.to_nat 127) with 127%nat in H.
  destruct (split_at 127 b) as [[hb rest']| |] eqn:E0; cbn [bind] in H; try discriminate.
  apply split_at_inv in E0. destruct E0 as [-> Hlen]. apply wf_app in Hw. destruct Hw as [Hw _].
  exists hb.
  repeat inv_step H Hw.
  all: injection H as <- <-.
  all: assert (Hb : b = []) by
    (revert Hlen; repeat rewrite app_length; rewrite !le_bytes_length, !i32_bytes_length; cbn [length];
     destruct b; [reflexivity|cbn [length]; lia]).
  all: subst b; rewrite !app_nil_r.
  all: split; [reflexivity|]; split;
    [unfold encode_stored, stored_bytes; cbn; repeat rewrite <- app_assoc; reflexivity|].
  all: unfold sheader_ok; cbn;
    repeat match goal with Hx : wf_bytes [_] |- _ => inversion Hx; subst; clear Hx end;
    repeat match goal with Hi : i32_ok _ |- _ => destruct Hi end;
    repeat split; assumption.
Qed.

(** * with degrees: the public header *)
Definition quantize_coord (d : f64) : f64 := deg_of_stored (stored_of_deg d).

Lemma to_of_stored s : sheader_ok s -> to_stored (of_stored s) = s.
Proof.
  intros Hok. unfold sheader_ok in Hok.
  destruct Hok as (_ & _ & _ & _ & _ & _ & _ & _ & _ & _ & _ & _ & _ & _ & I1 & I2 & I3 & I4 & I5 & I6).
  unfold i32_min, i32_max in *.
  destruct s; unfold to_stored, of_stored; cbn in *.
  rewrite !stored_roundtrip by lia. reflexivity.
Qed.

(** C09: a header always serialises to exactly 127 bytes *)
Theorem header_length h b : encode_header h = Ok b -> length b = 127%nat.
Proof. apply encode_stored_length. Qed.

(** C09: parsing any valid 127-byte header and serialising it again reproduces the same bytes —
    for every one of the 2^32 values of each stored coordinate *)
Theorem header_enc_dec b h rest : wf_bytes b -> header_bytes = 127 ->
  decode_header b = Ok (h, rest) -> exists hb, b = hb ++ rest /\ encode_header h = Ok hb /\ length hb = 127%nat.
Proof.
  intros Hw Hhb H. unfold decode_header in H.
  destruct (decode_stored b) as [[s r]| |] eqn:E; cbn [bind] in H; try discriminate.
  injection H as <- <-.
  destruct (encode_decode_stored b s r Hw Hhb E) as (hb & -> & He & Hok).
  exists hb. split; [reflexivity|]. unfold encode_header. rewrite to_of_stored by assumption.
  split; [exact He|]. now apply encode_stored_length with s.
Qed.

(** the i32 stored for a coordinate is always in range (the cast saturates) *)
Lemma cast_i32_range f : i32_ok (cast_i32 f).
Proof.
  unfold i32_ok, cast_i32, i32_min, i32_max.
  destruct f as [s|s| |s m e]; try (destruct s); lia.
Qed.
Lemma stored_of_deg_range d : i32_ok (stored_of_deg d).
Proof.
  unfold stored_of_deg. cbv zeta.
  destruct (BinarySingleNaN.Beqb _ _); [|apply cast_i32_range].
  destruct (andb _ _); [apply cast_i32_range|]. destruct (andb _ _); apply cast_i32_range.
Qed.

(** what survives of the field values of a header that is written *)
Definition header_fields_ok (h : header) : Prop :=
  h_version h = 3 /\
  h_root_off h < two64 /\ h_root_len h < two64 /\ h_meta_off h < two64 /\ h_meta_len h < two64 /\
  h_leaf_off h < two64 /\ h_leaf_len h < two64 /\ h_data_off h < two64 /\ h_data_len h < two64 /\
  h_addressed h < two64 /\ h_entries h < two64 /\ h_contents h < two64 /\
  h_minz h < 256 /\ h_maxz h < 256 /\ h_cz h < 256.
Definition quantize (h : header) : header :=
  mkH (h_version h) (h_root_off h) (h_root_len h) (h_meta_off h) (h_meta_len h)
      (h_leaf_off h) (h_leaf_len h) (h_data_off h) (h_data_len h)
      (h_addressed h) (h_entries h) (h_contents h) (h_clustered h)
      (h_icomp h) (h_tcomp h) (h_ttype h) (h_minz h) (h_maxz h)
      (quantize_coord (h_min_lon h)) (quantize_coord (h_min_lat h))
      (quantize_coord (h_max_lon h)) (quantize_coord (h_max_lat h))
      (h_cz h) (quantize_coord (h_clon h)) (quantize_coord (h_clat h)).

(** C09: parsing the serialisation returns equal field values (coordinates as the stored multiple of 1e-7) *)
Theorem header_dec_enc h rest : header_fields_ok h -> header_bytes = 127 ->
  exists b, encode_header h = Ok b /\ length b = 127%nat /\ decode_header (b ++ rest) = Ok (quantize h, rest).
Proof.
  intros Hf Hhb. unfold header_fields_ok in Hf.
  destruct Hf as (Hv & H1 & H2 & H3 & H4 & H5 & H6 & H7 & H8 & H9 & H10 & H11 & Z1 & Z2 & Z3).
  assert (Hok : sheader_ok (to_stored h)).
  { unfold sheader_ok, to_stored; cbn.
    pose proof (stored_of_deg_range (h_min_lon h)). pose proof (stored_of_deg_range (h_min_lat h)).
    pose proof (stored_of_deg_range (h_max_lon h)). pose proof (stored_of_deg_range (h_max_lat h)).
    pose proof (stored_of_deg_range (h_clon h)). pose proof (stored_of_deg_range (h_clat h)).
    unfold i32_ok in *. repeat split; try assumption; lia. }
  destruct (decode_encode_stored (to_stored h) rest Hok) as (b & Hb & Hd); [exact Hv|exact Hhb|].
  exists b. split; [exact Hb|]. split; [now apply encode_stored_length with (to_stored h)|].
  unfold decode_header. rewrite Hd. cbn [bind]. reflexivity.
Qed.

(** * rejections *)
Theorem header_short b : (length b < 127)%nat -> header_bytes = 127 -> exists e, decode_header b = Err e.
Proof.
  intros Hl Hhb. unfold decode_header, decode_stored, split_at. rewrite Hhb. change (N.to_nat 127) with 127%nat.
  assert (E : Nat.leb 127 (length b) = false) by (apply Nat.leb_gt; lia). rewrite E. cbn. eauto.
Qed.

(** whatever the parser accepts starts with the magic "PMTiles" and version 3 and carries a
    clustered byte of 0/1, compression codes 0..4 and a tile-type code 0..5 — i.e. a wrong magic, a
    version other than 3, an unknown compression or tile-type code are all rejected with an error *)
Theorem header_accepts_only_valid b h rest : wf_bytes b -> header_bytes = 127 ->
  decode_header b = Ok (h, rest) ->
  firstn 8 b = magic ++ [3] /\
  nth 96 b 0 <= 1 /\ nth 97 b 0 <= 4 /\ nth 98 b 0 <= 4 /\ nth 99 b 0 <= 5 /\
  nth 97 b 0 = comp_code (h_icomp h) /\ nth 98 b 0 = comp_code (h_tcomp h) /\ nth 99 b 0 = ttype_code (h_ttype h).
Proof.
  intros Hw Hhb H. unfold decode_header in H.
  destruct (decode_stored b) as [[s r]| |] eqn:E; cbn [bind] in H; try discriminate.
  injection H as <- <-.
  destruct (encode_decode_stored b s r Hw Hhb E) as (hb & -> & He & Hok).
  unfold encode_stored in He. destruct (N.eqb_spec (s_version s) 3) as [Hv|]; cbn [negb] in He; [|discriminate].
  injection He as <-. unfold stored_bytes, magic. rewrite Hv.
  cbn [le_bytes app nth firstn of_stored h_icomp h_tcomp h_ttype].
  repeat split; try reflexivity.
  - destruct (s_clustered s); lia.
  - destruct (s_icomp s); cbn; lia.
  - destruct (s_tcomp s); cbn; lia.
  - destruct (s_ttype s); cbn; lia.
Qed.

Lemma split_at_cases n b : (exists a r, split_at n b = Ok (a, r)) \/ split_at n b = Err EEof.
Proof. unfold split_at. destruct (Nat.leb n (length b)); eauto. Qed.

Theorem header_rejects_magic b : firstn 7 b <> magic -> exists e, decode_header b = Err e.
Proof.
  intros Hm. unfold decode_header, decode_stored.
  destruct (split_at_cases (N.to_nat header_bytes) b) as [(hb & rest & E0)|E0]; rewrite E0; cbn [bind]; eauto.
  destruct (split_at_cases 7 hb) as [(m & r & E1)|E1]; rewrite E1; cbn [bind]; eauto.
  destruct (bytes_eqb m magic) eqn:Em; cbn [negb bind]; eauto.
  exfalso. apply Hm. apply bytes_eqb_eq in Em. subst m.
  apply split_at_inv in E0. destruct E0 as [-> _]. apply split_at_inv in E1. destruct E1 as [-> Hl].
  rewrite <- app_assoc. rewrite <- Hl. rewrite firstn_app, Nat.sub_diag. cbn [firstn]. rewrite app_nil_r.
  apply firstn_all.
Qed.
