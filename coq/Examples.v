(** Heavy evaluated examples (non-vacuity checks that need the VM); compiled by make on every run, kept apart from
    Props/ so that coqchk can re-check the property theorems without re-evaluating them. *)
Require Import PM.Base PM.Oracles PM.Params PM.Float PM.Header PM.HeaderProofs PM.Directory PM.Stream PM.TileManager PM.TileManagerProofs
               PM.DirWriter PM.DirReader PM.Archive PM.FinishSpec.
Open Scope N_scope.

(** non-vacuity of the spill case: 4200 distinct tiles do not fit the root; the image has a 13-byte root of
    pointers and 16805 bytes of leaf directories, and reads back *)
Example C01_spill_example :
  let tm := fold_left (fun s i => match add_tile ctx_id s (3 * N.of_nat i) [N.of_nat i mod 256; N.of_nat i / 256] with Ok s' => s' | _ => s end)
                      (seq 0 4200) (tm_empty None) in
  let p := mkPM TPng CNone CGzip 0 3 1 (of_Z 0) (of_Z 0) (of_Z 0) (of_Z 0) (of_Z 0) (of_Z 0) [123; 125] tm in
  (do img <- to_bytes ctx_id false p; do (h, _) <- decode_header img; do p' <- from_reader ctx_id img full_range;
   Ok (h_root_len h, h_leaf_len h, get_tile (p_tm p') 0, get_tile (p_tm p') (3 * 4199), get_tile (p_tm p') 4, num_tiles (p_tm p')))
  = Ok (13, 16805, Ok (Some [0; 0]), Ok (Some [103; 16]), Ok None, 4200).
Proof. vm_compute. reflexivity. Qed.
