(** C04: an archive opened from spec-valid bytes represents a map — the one the specification's lookup defines —
    so every edit history may also start from (or continue with) such an open. *)
From Coq Require Import List NArith Lia Bool.
Require Import PM.Base PM.Oracles PM.Params PM.Directory PM.Stream PM.Header PM.TileManager PM.TileManagerProofs
  PM.DirReader PM.Archive PM.OpenFilterProofs PM.History PM.HistoryProofs PM.ReopenProofs PM.SpecLookup PM.SpecLookupProofs.
Import ListNotations.
Open Scope N_scope.

Lemma aget_map_val {V W} (f : N -> V -> W) : forall (l : list (N * V)) id,
  aget id (map (fun kv => (fst kv, f (fst kv) (snd kv))) l) = option_map (f id) (aget id l).
Proof.
  induction l as [|[k v] r IH]; intros id; [reflexivity|]. cbn [map aget fst snd].
  destruct (N.eqb_spec id k) as [->|]; [reflexivity|apply IH].
Qed.

Section OpenRep.
  Context (cx : ctx).

  (** a store of reader-backed tiles, all of which can be read, represents the map of their contents *)
  Lemma rep_of_store p : Inv cx (p_tm p) ->
    (forall id t, aget id (tile_by_id (p_tm p)) = Some t -> exists o l, t = TOffLen o l) ->
    (forall id t, aget id (tile_by_id (p_tm p)) = Some t -> exists b, tile_content (p_tm p) t = Ok (Some b)) ->
    exists m, Rep cx p m /\ forall id, get_tile (p_tm p) id = Ok (aget id m).
  Proof.
    intros HI Hsh Hrd. set (s := p_tm p) in *.
    set (f := fun (_ : N) (t : tile) => match tile_content s t with Ok (Some b) => b | _ => [] end).
    set (m := map (fun kv => (fst kv, f (fst kv) (snd kv))) (tile_by_id s)).
    assert (Hv : forall id, get_tile s id = Ok (aget id m)).
    { intros id. unfold m. rewrite aget_map_val. unfold get_tile. destruct (aget id (tile_by_id s)) as [t|] eqn:Et; [|reflexivity].
      cbn [option_map]. destruct (Hrd id t Et) as (b & Hb). unfold f. now rewrite Hb. }
    exists m. split; [|exact Hv].
    apply rep_of_views; try assumption.
    unfold keys_nodup, akeys, m. rewrite map_map. cbn [fst]. apply HI.
  Qed.

  (** opening spec-valid bytes whose addressed tile ranges lie inside the file *)
  Theorem open_rep img h rest meta :
    decode_header img = Ok (h, rest) -> max_dir_depth = Some 3 ->
    (if h_meta_len h =? 0 then Ok empty_object else read_meta cx (h_icomp h) (section img (h_meta_off h) (h_meta_len h))) = Ok meta ->
    wf_dir cx (h_icomp h) img (h_leaf_off h) 4 (h_root_off h) (h_root_len h) 0 two64 ->
    (forall id o l, spec_lookup cx (h_icomp h) img (h_leaf_off h) 4 (h_root_off h) (h_root_len h) id = Ok (Some (o, l)) ->
                    h_data_off h + o < two64 /\ l <> 0 /\ exists b, read_at img (h_data_off h + o) l = Ok b) ->
    exists p' m, from_reader cx img full_range = Ok p' /\ Rep cx p' m /\ p_meta p' = meta /\
      forall id, exists r, spec_lookup cx (h_icomp h) img (h_leaf_off h) 4 (h_root_off h) (h_root_len h) id = Ok r /\
        match r with
        | Some (o, l) => exists b, read_at img (h_data_off h + o) l = Ok b /\ aget id m = Some b
        | None => aget id m = None
        end.
  Proof.
    intros Hd Hdepth Hmeta Hwf Hoff.
    destruct (open_meets_spec cx img h rest meta Hd Hdepth Hmeta Hwf) as (p' & Hfr & Hm & _ & _ & _ & _ & _ & _ & _ & _ & _ & _ & _ & _ & Hget).
    { intros id o l H. destruct (Hoff id o l H) as (A & B & _). split; assumption. }
    destruct (from_reader_shape cx img full_range p' Hfr) as [HI Hsh].
    destruct (rep_of_store p' HI Hsh) as (m & HR & Hv).
    { intros id t Et. destruct (Hget id) as (r & R & G). unfold get_tile in G. rewrite Et in G.
      destruct r as [[o l]|].
      - destruct (Hoff id o l R) as (_ & _ & b & Hb). rewrite Hb in G. cbn [bind] in G. eauto.
      - destruct (Hsh id t Et) as (o & l & ->). cbn [tile_content] in G. destruct (backing (p_tm p')); [|discriminate].
        destruct (read_at b o l); cbn [bind] in G; discriminate. }
    exists p', m. split; [exact Hfr|]. split; [exact HR|]. split; [exact Hm|].
    intros id. destruct (Hget id) as (r & R & G). exists r. split; [exact R|]. rewrite Hv in G.
    destruct r as [[o l]|].
    - destruct (Hoff id o l R) as (_ & _ & b & Hb). exists b. split; [exact Hb|]. rewrite Hb in G. cbn [bind] in G. now injection G.
    - now injection G.
  Qed.
End OpenRep.
