(** C02: the archive the writer produces is spec-valid in the sense of SpecLookup.wf_dir (the formal validity
    C03 quantifies over), with or without leaf directories. *)
From Coq Require Import List NArith Lia Bool Sorting.Sorted.
Require Import PM.Base PM.Oracles PM.Params PM.Directory PM.DirectoryProofs PM.Stream PM.StreamProofs PM.Header PM.HeaderProofs
  PM.TileManager PM.TileManagerProofs PM.DirWriter PM.DirReader PM.Archive PM.FinishSpec PM.FinishProofs PM.SpillSpec PM.SpillProofs
  PM.PlaceProofs PM.ReadBackProofs PM.RoundTripProofs PM.SpillRoundTrip PM.TotalityProofs PM.SpecLookup PM.SpecLookupProofs.
Import ListNotations.
Open Scope N_scope.

Lemma ascending_app_bound : forall a last x b, ascending last (a ++ x :: b) -> Forall (fun e => e_id e + e_run e <= e_id x /\ e_id e < e_id x) a.
Proof.
  induction a as [|e a' IH]; intros last x b H; [constructor|]. cbn [app ascending] in H. destruct H as [_ H].
  specialize (IH (Some e) x b H). constructor; [|exact IH].
  destruct a' as [|y a'']; cbn [app ascending] in H.
  - destruct H as [[H1 H2] _]. lia.
  - destruct H as [[H1 H2] _]. inversion IH as [|? ? [Hy1 Hy2] _]; subst. lia.
Qed.
Lemma ascending_app_r : forall a last b, ascending last (a ++ b) -> ascending None b.
Proof.
  induction a as [|e a' IH]; intros last b H; [cbn [app] in H; now apply ascending_weaken with last|].
  cbn [app ascending] in H. destruct H as [_ H]. now apply (IH (Some e)).
Qed.

Section WrittenValid.
  Context (cx : ctx) (c : compression) (img : bytes) (lo : N).

  (** a valid pointer-free entry list whose runs end at or before [hi] is a valid directory body below [hi] *)
  Lemma tile_entries_wf sub : forall es hi last, ascending last es -> Forall entry_ok es ->
    Forall (fun e => e_run e <> 0) es -> Forall (fun e => e_id e + e_run e <= hi) es ->
    wf_entries lo sub es hi.
  Proof.
    induction es as [|e r IH]; intros hi last Ha Hok Hnp Hhi; [exact I|].
    cbn [ascending] in Ha. destruct Ha as [_ Ha]. inversion Hok as [|? ? _ Hok']; subst.
    inversion Hnp as [|? ? Hn1 Hnp']; subst. inversion Hhi as [|? ? Hh1 Hhi']; subst.
    cbn [wf_entries]. destruct (N.eqb_spec (e_run e) 0) as [|_]; [contradiction|].
    destruct r as [|e2 r2].
    - split; [lia|]. split; [exact Hh1|exact I].
    - cbn [ascending] in Ha. destruct Ha as [[A1 A2] Ha]. split; [exact A1|]. split; [exact A2|].
      apply (IH hi (Some e)); try assumption. cbn [ascending]. split; [split; assumption|exact Ha].
  Qed.

  (** the pointers of a spill, with their leaves placed at [lo] in the image, form a valid directory body *)
  Lemma pointer_entries_wf : forall ptrs chs leaves off hi,
    ptrs_ok cx c ptrs chs leaves off ->
    (forall o l, o + l <= nlen leaves -> 1 <= l -> section img (lo + o) l = section leaves o l) ->
    lo + nlen leaves < two64 -> hi <= two64 ->
    ascending None (concat chs) -> Forall entry_ok (concat chs) -> Forall (fun e => e_run e <> 0) (concat chs) ->
    Forall (fun e => e_id e + e_run e <= hi) (concat chs) ->
    wf_entries lo (wf_dir cx c img lo 3) ptrs hi.
  Proof.
    induction ptrs as [|p pr IH]; intros chs leaves off hi Hp Hsec Hlo Hhi Hasc Hok Hnp Hb; [exact I|].
    destruct chs as [|ch cr]; [destruct Hp|]. cbn [ptrs_ok] in Hp.
    destruct ch as [|first rest]; [destruct Hp as [[] _]|].
    destruct Hp as (Hid & Hrun & Hoff & Hlen & Hin & Hdec & Hrest). subst off.
    cbn [concat] in Hasc, Hok, Hnp, Hb.
    apply Forall_app in Hok. destruct Hok as [Hok1 Hok2]. apply Forall_app in Hnp. destruct Hnp as [Hnp1 Hnp2].
    apply Forall_app in Hb. destruct Hb as [Hb1 Hb2].
    assert (Hasc2 : ascending None (concat cr)) by (now apply (ascending_app_r (first :: rest) None)).
    assert (Hasc1 : ascending None (first :: rest)).
    { clear -Hasc. revert Hasc. generalize (@None entry). generalize (first :: rest) as l. induction l as [|e l IHl]; intros o H; [exact I|].
      cbn [app ascending] in *. destruct H as [H1 H2]. split; [exact H1|]. now apply IHl. }
    (* the bound of this pointer: the next pointer's id, i.e. the first id of the next chunk *)
    set (nb := match pr with [] => hi | p' :: _ => e_id p' end).
    assert (Hnb : nb <= hi /\ Forall (fun e => e_id e + e_run e <= nb /\ (e_id e < nb)) (first :: rest)).
    { unfold nb. destruct pr as [|p2 pr2].
      - split; [lia|]. apply Forall_forall. intros e He. rewrite Forall_forall in Hb1, Hnp1. specialize (Hb1 e He). specialize (Hnp1 e He). cbv beta in *. lia.
      - destruct cr as [|ch2 cr2]; [destruct Hrest|]. cbn [ptrs_ok] in Hrest. destruct ch2 as [|f2 r2]; [destruct Hrest as [[] _]|].
        destruct Hrest as (Hid2 & _). rewrite Hid2. cbn [concat] in Hasc, Hb2.
        rewrite <- app_comm_cons in Hasc. split.
        + inversion Hb2 as [|? ? Hf2 _]; subst. rewrite Forall_forall in Hnp2. assert (e_run f2 <> 0) by (apply Hnp2; cbn [concat]; now left). lia.
        + exact (ascending_app_bound (first :: rest) None f2 (r2 ++ concat cr2) Hasc). }
    destruct Hnb as [Hnb1 Hnb2].
    cbn [wf_entries]. fold nb. rewrite Hrun. cbn [N.eqb]. split; [|split].
    - inversion Hnb2 as [|? ? [_ Hf] _]; subst. rewrite Hid. exact Hf.
    - exists (lo + e_off p). split; [unfold cadd64; destruct (N.ltb_spec (lo + e_off p) two64); [reflexivity|lia]|].
      cbn [wf_dir]. exists (first :: rest). split; [rewrite Hsec by assumption; exact Hdec|]. split; [lia|]. split; [lia|].
      apply (tile_entries_wf _ (first :: rest) nb None); try assumption.
      eapply Forall_impl; [|exact Hnb2]. cbv beta. intros e [H1 _]. exact H1.
    - apply (IH cr leaves (e_off p + e_len p) hi); assumption.
  Qed.
End WrittenValid.

Lemma spec_finish_tile_only tiles : Forall (fun e => e_run e <> 0) (fr_dir (spec_finish tiles)).
Proof.
  assert (Edir : fr_dir (spec_finish tiles) = runs (fst (place tiles [] 0)) None) by (unfold spec_finish; destruct (place tiles [] 0); reflexivity).
  rewrite Edir. apply runs_no_pointers. exact I.
Qed.

Section Written.
  Context (cx : ctx).
  Hypothesis Hinv : codec_inv cx.

  (** every archive the writer returns is spec-valid: its header decodes, the root directory sits at 127 within the
      budget, and the directory tree satisfies [wf_dir] *)
  Theorem written_is_valid asy p tiles U root0 img :
    Inv cx (p_tm p) -> logical (p_tm p) = Ok tiles ->
    hash_inj_on cx U -> (forall c, In c U -> nlen c < two32) ->
    Forall (fun t => In (snd t) U /\ fst t < two63 /\ 1 <= nlen (snd t)) tiles -> nlen tiles + 1 < two32 ->
    StronglySorted (fun a b => fst a < fst b) tiles ->
    p_icomp p <> CUnknown ->
    p_minz p < 256 -> p_maxz p < 256 -> p_cz p < 256 ->
    header_bytes = 127 ->
    encode_dir cx asy (p_icomp p) (fr_dir (spec_finish tiles)) = Ok root0 ->
    (forall k blobs ptrs, leaves_spec cx (p_icomp p) (chunks k (fr_dir (spec_finish tiles))) 0 = Ok (blobs, ptrs) ->
                          Forall (fun b => 1 <= nlen b < two32) blobs) ->
    (forall mb, compress cx asy (p_icomp p) (p_meta p) = Ok mb ->
                127 + nlen root0 + nlen mb + nlen (fr_data (spec_finish tiles)) + 1 < two64) ->
    to_bytes cx asy p = Ok img ->
    exists h rest, decode_header img = Ok (h, rest) /\ h_icomp h = p_icomp p /\ h_root_off h = 127 /\
      h_root_len h <= max_root_dir_length /\
      wf_dir cx (p_icomp p) img (h_leaf_off h) 4 (h_root_off h) (h_root_len h) 0 two64.
  Proof.
    intros HI Hlog Hinj Hsmall Htiles Hcnt Hsorted Hc Z1 Z2 Z3 Hhb Hroot Hblob Hsize Hto.
    assert (Hfin : finish cx (p_tm p) = Ok (spec_finish tiles)).
    { apply (finish_is_spec cx (p_tm p) tiles U); try assumption.
      eapply Forall_impl; [|exact Htiles]. intros t (A & B & _). split; assumption. }
    set (res := spec_finish tiles) in *.
    assert (exists mb, compress cx asy (p_icomp p) (p_meta p) = Ok mb) as (mb & Hmb)
      by (unfold compress; destruct (p_icomp p); try congruence; eauto).
    specialize (Hsize mb Hmb).
    destruct (spec_finish_facts tiles) as (Hvd & Hnes & C1 & C2 & C3); try assumption.
    { eapply Forall_impl; [|exact Htiles]. intros t (A & B & C). split; [exact B|]. split; [exact C|now apply Hsmall]. }
    { fold res. lia. }
    fold res in Hvd, Hnes, C1, C2, C3.
    pose proof (spec_finish_tile_only tiles) as Hnp. fold res in Hnp.
    assert (Hends : Forall (fun e => e_id e + e_run e <= two64) (fr_dir res)).
    { destruct Hvd as [Hok _]. eapply Forall_impl; [|exact Hok]. cbv beta. intros e He. unfold entry_ok in He. lia. }
    destruct (N.le_gt_cases (nlen root0) max_root_dir_length) as [Hfit|Hbig].
    - (* the directory is the root *)
      set (h := mkH 3 127 (nlen root0) (127 + nlen root0) (nlen mb) (127 + nlen root0 + nlen mb) 0
                   (127 + nlen root0 + nlen mb) (nlen (fr_data res))
                   (fr_addressed res) (fr_entries res) (fr_contents res) true
                   (p_icomp p) (p_tcomp p) (p_ttype p) (p_minz p) (p_maxz p)
                   (p_min_lon p) (p_min_lat p) (p_max_lon p) (p_max_lat p) (p_cz p) (p_clon p) (p_clat p)).
      assert (Hfo : header_fields_ok h) by (unfold header_fields_ok, h; cbn; unfold two64 in *; repeat split; lia).
      destruct (header_dec_enc h (root0 ++ mb ++ fr_data res) Hfo Hhb) as (hb & Hhbe & Lhb & Hhd).
      assert (Himg : img = hb ++ root0 ++ mb ++ fr_data res).
      { pose proof (to_bytes_fits cx asy p res root0 mb Hfin Hroot Hfit Hmb Hhb ltac:(lia) hb Hhbe) as E. congruence. }
      exists (quantize h), (root0 ++ mb ++ fr_data res). rewrite Himg. split; [exact Hhd|]. cbn [quantize h_icomp h_root_off h_root_len h_leaf_off h].
      split; [reflexivity|]. split; [reflexivity|]. split; [exact Hfit|].
      assert (Hnn : nlen (fr_dir res) < two64) by (unfold nlen, two64, two32 in *; lia).
      destruct (dir_roundtrip cx asy (p_icomp p) (fr_dir res) Hinv Hc Hvd Hnn) as (root' & Hr' & Hdec).
      rewrite Hroot in Hr'. injection Hr' as <-.
      cbn [wf_dir]. exists (fr_dir res). split.
      + assert (Nhb : nlen hb = 127) by (unfold nlen; rewrite Lhb; reflexivity). rewrite <- Nhb, section_app_mid. exact Hdec.
      + split; [lia|]. split; [destruct (fr_dir res); [exact I|lia]|].
        destruct Hvd as [Hok Ha]. now apply (tile_entries_wf _ _ (fr_dir res) two64 None).
    - (* leaf directories *)
      destruct (to_bytes_spill cx asy p res root0 mb img Hfin Hroot Hbig Hmb Hhb Hto)
        as (k & blobs & ptrs & root & junk & hb & Hk & Hl & Hr & Hfit & Hsz & Hh & Himg).
      specialize (Hblob k blobs ptrs Hl). set (L := concat blobs) in *.
      set (cs := chunks k (fr_dir res)) in *.
      assert (Hcc : concat cs = fr_dir res) by (now apply chunks_concat).
      assert (Hcv : Forall valid_dir cs) by (apply chunks_fuel_valid; exact Hvd).
      assert (Hcn : Forall (fun ch => ch <> []) cs) by (now apply chunks_fuel_nonempty).
      assert (Hcl : Forall (fun ch => nlen ch < two64) cs).
      { eapply Forall_impl; [|apply (chunks_fuel_len (length (fr_dir res)) k (fr_dir res))]. cbv beta. intros ch Hch.
        unfold nlen, two64, two32 in *. lia. }
      pose proof (leaves_spec_ok cx Hinv (p_icomp p) Hc cs 0 [] blobs ptrs Hcv Hcn Hcl Hl eq_refl Hblob) as Hpo. cbn [app] in Hpo. fold L in Hpo.
      destruct (leaves_spec_ptrs cx (p_icomp p) cs 0 blobs ptrs Hl) as (Pok & Pasc & Prun & _).
      { rewrite Hcc. apply Hvd. } { rewrite Hcc. apply Hvd. } { exact Hblob. } { fold L. lia. }
      assert (Hpn : nlen ptrs < two64).
      { pose proof (leaves_spec_count cx (p_icomp p) cs 0 blobs ptrs Hl) as E1. pose proof (blobs_count blobs Hblob) as E2. fold L in E2.
        unfold nlen, two64 in *. lia. }
      destruct (dir_roundtrip cx asy (p_icomp p) ptrs Hinv Hc (conj Pok Pasc) Hpn) as (root' & Hr' & Hdec).
      rewrite Hr in Hr'. injection Hr' as <-.
      match type of Hh with encode_header ?h0 = _ => set (h := h0) in * end.
      assert (Hfo : header_fields_ok h) by (unfold header_fields_ok, h; cbn; fold L; unfold two64 in *; repeat split; lia).
      destruct (header_dec_enc h (root ++ mb ++ L ++ fr_data res ++ junk) Hfo Hhb) as (hb' & Hhbe & Lhb & Hhd).
      rewrite Hh in Hhbe. injection Hhbe as Ehb. subst hb'.
      exists (quantize h), (root ++ mb ++ L ++ fr_data res ++ junk). rewrite Himg. split; [exact Hhd|].
      cbn [quantize h_icomp h_root_off h_root_len h_leaf_off h].
      split; [reflexivity|]. split; [reflexivity|]. split; [exact Hfit|].
      assert (Nhb : nlen hb = 127) by (unfold nlen; rewrite Lhb; reflexivity).
      cbn [wf_dir]. exists ptrs. split; [rewrite <- Nhb, section_app_mid; exact Hdec|]. split; [lia|].
      split; [destruct ptrs; [exact I|lia]|].
      apply (pointer_entries_wf cx (p_icomp p) _ (127 + nlen root + nlen mb) ptrs cs L 0 two64 Hpo).
      + intros o l Hol Hl1.
        replace (hb ++ root ++ mb ++ L ++ fr_data res ++ junk) with ((hb ++ root ++ mb) ++ L ++ fr_data res ++ junk) by now rewrite <- !app_assoc.
        replace (127 + nlen root + nlen mb) with (nlen (hb ++ root ++ mb)) by (unfold nlen in *; rewrite !app_length; lia).
        rewrite section_shift. now apply section_app_l.
      + lia.
      + lia.
      + rewrite Hcc. apply Hvd.
      + rewrite Hcc. apply Hvd.
      + rewrite Hcc. exact Hnp.
      + rewrite Hcc. exact Hends.
  Qed.
End Written.
