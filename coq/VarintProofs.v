Require Import PM.Base PM.Varint.
From Coq Require Import ZifyN ZifyBool ZifyNat.
Open Scope N_scope.
Ltac Zify.zify_post_hook ::= Z.div_mod_to_equations.
Arguments N.add : simpl never. Arguments N.mul : simpl never. Arguments N.ltb : simpl never.
Arguments N.div : simpl never. Arguments N.modulo : simpl never. Arguments N.pow : simpl never.

Lemma two64_pow : two64 = 2 ^ 64. Proof. reflexivity. Qed.
Lemma two32_pow : two32 = 2 ^ 32. Proof. reflexivity. Qed.

Lemma dec_enc f : forall n sh acc rest,
  n < 2 ^ (7 * N.of_nat (S f)) -> n * 2 ^ sh < 2 ^ 64 ->
  dec (S f) (enc (S f) n ++ rest) sh acc = Ok (acc + n * 2 ^ sh, rest).
Proof.
  induction f as [|f IH]; intros n sh acc rest Hn Hs.
  - change (2 ^ (7 * N.of_nat 1)) with 128 in Hn.
    cbn [enc]. assert (E : (n <? 128) = true) by lia. rewrite E. cbn [app dec]. rewrite E.
    rewrite (N.mod_small n 128) by lia. rewrite two64_pow, N.mod_small by lia. reflexivity.
  - cbn [enc]. destruct (n <? 128) eqn:E.
    + cbn [app dec]. rewrite E. rewrite (N.mod_small n 128) by lia.
      rewrite two64_pow, N.mod_small by lia. reflexivity.
    + cbn [app dec]. fold (enc (S f)).
      assert (E2 : (128 + n mod 128 <? 128) = false) by lia. rewrite E2.
      replace ((128 + n mod 128) mod 128) with (n mod 128)
        by (rewrite N.add_mod by lia; rewrite N.mod_same by lia; rewrite N.add_0_l; now rewrite !N.mod_mod by lia).
      assert (P7 : 2 ^ (sh + 7) = 2 ^ sh * 128) by (rewrite N.pow_add_r; reflexivity).
      assert (Hq : n / 128 * 2 ^ (sh + 7) <= n * 2 ^ sh).
      { rewrite P7. replace (n / 128 * (2 ^ sh * 128)) with (128 * (n / 128) * 2 ^ sh) by lia.
        apply N.mul_le_mono_r. apply N.mul_div_le. lia. }
      assert (Hm : n mod 128 * 2 ^ sh <= n * 2 ^ sh).
      { apply N.mul_le_mono_r. apply N.mod_le. lia. }
      rewrite two64_pow, (N.mod_small (n mod 128 * 2 ^ sh)) by lia.
      change (dec (S f) (enc (S f) (n / 128) ++ rest) (sh + 7) (acc + n mod 128 * 2 ^ sh)
              = Ok (acc + n * 2 ^ sh, rest)).
      rewrite IH.
      * f_equal. f_equal. rewrite P7.
        rewrite (N.div_mod n 128) at 3 by lia. lia.
      * replace (7 * N.of_nat (S (S f))) with (7 * N.of_nat (S f) + 7) in Hn by lia.
        rewrite N.pow_add_r in Hn. change (2 ^ 7) with 128 in Hn.
        apply N.div_lt_upper_bound; lia.
      * lia.
Qed.

Theorem varint64_roundtrip n rest :
  n < two64 -> read_varint64 (write_varint n ++ rest) = Ok (n, rest).
Proof.
  intros H. unfold read_varint64, write_varint. rewrite two64_pow in H.
  change 10%nat with (S 9). rewrite dec_enc.
  - f_equal. f_equal. rewrite N.pow_0_r. lia.
  - apply N.lt_le_trans with (1 := H). apply N.pow_le_mono_r; lia.
  - rewrite N.pow_0_r. lia.
Qed.

(** the 10-byte encoding of a value below 2^32 uses at most 5 bytes, so the 5-byte reader reads it too *)
Lemma enc_fuel_irrel f g : forall n, n < 2 ^ (7 * N.of_nat (S f)) -> (f <= g)%nat -> enc (S g) n = enc (S f) n.
Proof.
  revert g. induction f as [|f IH]; intros g n Hn Hg.
  - change (2 ^ (7 * N.of_nat 1)) with 128 in Hn. cbn [enc].
    assert (E : (n <? 128) = true) by lia. now rewrite E.
  - destruct g as [|g]; [lia|]. cbn [enc]. destruct (n <? 128) eqn:E; [reflexivity|].
    f_equal. fold (enc (S g)). fold (enc (S f)). apply IH; [|lia].
    replace (7 * N.of_nat (S (S f))) with (7 * N.of_nat (S f) + 7) in Hn by lia.
    rewrite N.pow_add_r in Hn. change (2 ^ 7) with 128 in Hn.
    apply N.div_lt_upper_bound; lia.
Qed.

Theorem varint32_roundtrip n rest :
  n < two32 -> read_varint32 (write_varint n ++ rest) = Ok (n, rest).
Proof.
  intros H. unfold read_varint32, write_varint. rewrite two32_pow in H.
  change 10%nat with (S 9).
  rewrite (enc_fuel_irrel 4 9) by (try lia; apply N.lt_le_trans with (1 := H); apply N.pow_le_mono_r; lia).
  rewrite dec_enc.
  - cbn [bind]. f_equal. f_equal. rewrite N.pow_0_r, two32_pow. rewrite N.mod_small; lia.
  - apply N.lt_le_trans with (1 := H). apply N.pow_le_mono_r; lia.
  - rewrite N.pow_0_r. assert (2 ^ 32 < 2 ^ 64) by (apply N.pow_lt_mono_r; lia). lia.
Qed.

Lemma enc_wf f : forall n, wf_bytes (enc f n).
Proof.
  induction f as [|f IH]; intros n; cbn [enc]; [constructor|].
  destruct (n <? 128) eqn:E.
  - constructor; [lia|constructor].
  - constructor; [|apply IH]. assert (n mod 128 < 128) by (apply N.mod_lt; lia). lia.
Qed.
Lemma write_varint_wf n : wf_bytes (write_varint n).
Proof. apply enc_wf. Qed.

Lemma enc_nonempty f n : enc (S f) n <> [].
Proof. cbn [enc]. destruct (n <? 128); discriminate. Qed.

(** the reader never crashes, whatever the bytes *)
Lemma dec_no_crash f : forall bs sh acc c, dec f bs sh acc <> Crash c.
Proof.
  induction f as [|f IH]; intros bs sh acc c; cbn [dec].
  - destruct bs; discriminate.
  - destruct bs as [|b r]; [discriminate|]. destruct (b <? 128); [discriminate|apply IH].
Qed.

(** the reader consumes a non-empty prefix and results are below 2^64 (needs acc bounded) *)
Lemma dec_suffix f : forall bs sh acc v r, dec f bs sh acc = Ok (v, r) ->
  exists p, bs = p ++ r /\ p <> [].
Proof.
  induction f as [|f IH]; intros bs sh acc v r H; cbn [dec] in H.
  - destruct bs; discriminate.
  - destruct bs as [|b t]; [discriminate|]. destruct (b <? 128).
    + injection H as <- <-. exists [b]. split; [reflexivity|discriminate].
    + apply IH in H. destruct H as [p [-> Hp]]. exists (b :: p). split; [reflexivity|discriminate].
Qed.

Lemma read_varint32_lt bs v r : read_varint32 bs = Ok (v, r) -> v < two32.
Proof.
  unfold read_varint32. destruct (dec 5 bs 0 0) as [[v' r']| |]; cbn [bind]; try discriminate.
  intros H. injection H as <- <-. apply N.mod_lt. discriminate.
Qed.

(** decoded u64 values are below 2^64 *)
Lemma term_bound b k sh acc :
  sh = 7 * k -> sh <= 63 -> acc < 2 ^ sh ->
  acc + ((b mod 128) * 2 ^ sh) mod two64 < 2 ^ (sh + 7) /\
  acc + ((b mod 128) * 2 ^ sh) mod two64 < two64.
Proof.
  intros Hk Hsh63 Hacc.
  assert (Hb : b mod 128 < 128) by (apply N.mod_lt; lia).
  destruct (N.eq_dec sh 63) as [E63|N63].
  - rewrite E63 in *. clear E63.
    assert (Hdiv : ((b mod 128) * 2 ^ 63) mod two64 = ((b mod 128) mod 2) * 2 ^ 63).
    { rewrite two64_pow. replace (2 ^ 64) with (2 * 2 ^ 63) by reflexivity.
      rewrite N.mul_mod_distr_r by lia. reflexivity. }
    rewrite Hdiv.
    assert (Hq : (b mod 128) mod 2 < 2) by (apply N.mod_lt; lia).
    rewrite two64_pow.
    replace (2 ^ (63 + 7)) with (2 ^ 63 * 128) by reflexivity.
    replace (2 ^ 64) with (2 * 2 ^ 63) by reflexivity.
    assert (0 < 2 ^ 63) by (apply N.neq_0_lt_0; apply N.pow_nonzero; lia). nia.
  - assert (Hp : 0 < 2 ^ sh) by (apply N.neq_0_lt_0; apply N.pow_nonzero; lia).
    assert (Hlt : (b mod 128) * 2 ^ sh < 2 ^ (sh + 7)).
    { rewrite N.pow_add_r. change (2 ^ 7) with 128. nia. }
    assert (Hle : 2 ^ (sh + 7) <= 2 ^ 64) by (apply N.pow_le_mono_r; lia).
    rewrite two64_pow, N.mod_small by lia.
    assert (acc + b mod 128 * 2 ^ sh < 2 ^ (sh + 7)).
    { rewrite N.pow_add_r. change (2 ^ 7) with 128. nia. }
    lia.
Qed.

Lemma dec_bound f : forall bs sh acc v r,
  sh = 7 * N.of_nat (10 - f) -> (f <= 10)%nat -> acc < 2 ^ sh ->
  dec f bs sh acc = Ok (v, r) -> v < two64.
Proof.
  induction f as [|f IH]; intros bs sh acc v r Hsh Hf Hacc H; cbn [dec] in H.
  - destruct bs; discriminate.
  - destruct bs as [|b t]; [discriminate|].
    assert (Hsh63 : sh <= 63) by lia.
    destruct (term_bound b _ sh acc Hsh Hsh63 Hacc) as [T1 T2].
    destruct (b <? 128).
    + injection H as <- <-. exact T2.
    + eapply IH; [| |exact T1|exact H].
      * clear - Hsh Hf. lia.
      * lia.
Qed.

Lemma read_varint64_lt bs v r : read_varint64 bs = Ok (v, r) -> v < two64.
Proof. unfold read_varint64. apply dec_bound; cbn; lia. Qed.
