(** Where finish's specification layout puts each tile: the (offset, length) of every tile addresses
    exactly its content inside the tile-data section (used by C01 / C02). *)
Require Import PM.Base PM.Oracles PM.Directory PM.Stream PM.StreamProofs PM.IO PM.IOProofs PM.TileManager PM.FinishSpec PM.FinishProofs PM.SpillProofs.
From Coq Require Import ZifyN ZifyBool ZifyNat.
Open Scope N_scope.

Lemma find_seen_some c seen off : find_seen c seen = Some off -> In (c, off) seen.
Proof.
  induction seen as [|[c' o] r IH]; [discriminate|]. cbn [find_seen].
  destruct (beq c c') eqn:E; [apply beq_true in E; subst; intros H; injection H as ->; now left|right; auto].
Qed.

Lemma sum_lengths_concat (ds : list bytes) : nlen (concat ds) = sum_lengths ds.
Proof.
  induction ds as [|d r IH]; [reflexivity|]. cbn [concat sum_lengths fold_right].
  unfold nlen in *. rewrite app_length. unfold sum_lengths in IH. lia.
Qed.

(** [pre] is the data already laid out (length [pos]); every seen content sits at its recorded offset in it *)
Definition seen_ok (seen : list (bytes * N)) (pre : bytes) : Prop :=
  forall c off, In (c, off) seen -> off + nlen c <= nlen pre /\ section pre off (nlen c) = c.

Lemma section_app_left (a b : bytes) off len : off + len <= nlen a -> section (a ++ b) off len = section a off len.
Proof.
  intros H. unfold section, nlen in *. rewrite app_length.
  destruct (N.leb_spec (N.of_nat (length a)) off) as [H1|H1].
  - assert (len = 0) by lia. subst. destruct (_ <=? _); [reflexivity|]. rewrite N.min_0_l. reflexivity.
  - destruct (N.leb_spec (N.of_nat (length a + length b)) off); [lia|].
    replace (N.min len (N.of_nat (length a + length b) - off)) with len by lia.
    replace (N.min len (N.of_nat (length a) - off)) with len by lia.
    rewrite skipn_app. rewrite firstn_app.
    replace (N.to_nat len - length (skipn (N.to_nat off) a))%nat with 0%nat by (rewrite skipn_length; lia).
    cbn [firstn]. now rewrite app_nil_r.
Qed.

Theorem place_slices : forall tiles seen pos pre,
  pos = nlen pre -> seen_ok seen pre ->
  let pl := fst (place tiles seen pos) in
  let ds := snd (place tiles seen pos) in
  length pl = length tiles /\
  Forall2 (fun t p => fst (fst p) = fst t /\ snd p = nlen (snd t) /\
                      snd (fst p) + snd p <= nlen (pre ++ concat ds) /\
                      section (pre ++ concat ds) (snd (fst p)) (snd p) = snd t) tiles pl.
Proof.
  induction tiles as [|[id c] r IH]; intros seen pos pre Hpos Hseen; cbv zeta.
  - cbn. split; [reflexivity|constructor].
  - cbn [place]. destruct (find_seen c seen) as [off|] eqn:Ef.
    + specialize (IH seen pos pre Hpos Hseen). cbv zeta in IH.
      destruct (place r seen pos) as [pl ds]. cbn [fst snd] in *. destruct IH as [IL IF].
      split; [cbn [length]; now rewrite IL|]. constructor; [|exact IF].
      cbn [fst snd]. destruct (Hseen c off (find_seen_some _ _ _ Ef)) as [Hb Hs].
      repeat split; try reflexivity.
      * unfold nlen in *. rewrite app_length. lia.
      * rewrite section_app_left by assumption. exact Hs.
    + assert (Hseen' : seen_ok ((c, pos) :: seen) (pre ++ c)).
      { intros c' off' [E|Hin].
        - injection E as <- <-. subst pos. split; [unfold nlen; rewrite app_length; lia|].
          rewrite <- (app_nil_r (pre ++ c)), <- app_assoc. apply section_app_mid.
        - destruct (Hseen c' off' Hin) as [Hb Hs]. split; [unfold nlen in *; rewrite app_length; lia|].
          now rewrite section_app_left. }
      specialize (IH ((c, pos) :: seen) (pos + nlen c) (pre ++ c)). cbv zeta in IH.
      destruct (place r ((c, pos) :: seen) (pos + nlen c)) as [pl ds]. cbn [fst snd] in *.
      destruct IH as [IL IF]; [subst pos; unfold nlen; rewrite app_length; lia|exact Hseen'|].
      split; [cbn [length]; now rewrite IL|]. cbn [concat]. rewrite app_assoc.
      constructor; [|exact IF]. cbn [fst snd].
      repeat split; try reflexivity.
      * subst pos. unfold nlen. rewrite !app_length. lia.
      * subst pos. rewrite <- app_assoc. apply section_app_mid.
  Qed.
