(** C18: the bytes written from the starting position P on are the archive that would be written at position 0. *)
From Coq Require Import List NArith Lia Bool.
Require Import PM.Base PM.Oracles PM.Params PM.Directory PM.Stream PM.StreamProofs PM.Header PM.HeaderProofs
  PM.TileManager PM.DirWriter PM.Archive PM.SpillSpec PM.SpillProofs PM.WriterLogProofs PM.RoundTripProofs.
Import ListNotations.
Open Scope N_scope.

(** the bytes of an image from position [d] on (nothing if the image is shorter) *)
Definition tail_from (d : nat) (img : bytes) : bytes := skipn d img.

Lemma skipn_repeat {A} (x : A) n k : skipn k (repeat x n) = repeat x (n - k).
Proof. revert k. induction n as [|n IH]; intros k; [now destruct k|]. destruct k; [reflexivity|]. cbn [repeat skipn]. apply IH. Qed.
Lemma firstn_repeat {A} (x : A) n k : firstn k (repeat x n) = repeat x (Nat.min k n).
Proof. revert k. induction n as [|n IH]; intros k; [now destruct k|]. destruct k; [reflexivity|]. cbn [repeat firstn Nat.min]. f_equal. apply IH. Qed.

(** a write at or after [d] acts on the tail alone *)
Lemma tail_write_at (d : nat) img pos bs : (d <= N.to_nat pos)%nat ->
  tail_from d (write_at img pos bs) = write_at (tail_from d (pad_to d img)) (pos - N.of_nat d) bs.
Proof.
  intros Hd. unfold tail_from, write_at. set (p := N.to_nat pos).
  replace (N.to_nat (pos - N.of_nat d)) with (p - d)%nat by lia. set (q := (p - d)%nat).
  assert (Lf : length (firstn p (pad_to p img)) = p) by apply firstn_pad_length.
  rewrite skipn_app, Lf. replace (d - p)%nat with 0%nat by lia. cbn [skipn].
  f_equal; [|f_equal].
  - (* the part before the write *)
    unfold pad_to. destruct (Nat.le_gt_cases p (length img)) as [H1|H1].
    + replace (p - length img)%nat with 0%nat by lia. replace (d - length img)%nat with 0%nat by lia. cbn [repeat]. rewrite !app_nil_r.
      rewrite skipn_length. replace (q - (length img - d))%nat with 0%nat by lia. cbn [repeat]. rewrite app_nil_r.
      unfold q. rewrite skipn_firstn_comm. reflexivity.
    + rewrite firstn_all2 by (rewrite app_length, repeat_length; lia).
      destruct (Nat.le_gt_cases d (length img)) as [H2|H2].
      * replace (d - length img)%nat with 0%nat by lia. cbn [repeat]. rewrite app_nil_r.
        rewrite skipn_app. replace (d - length img)%nat with 0%nat by lia. cbn [skipn].
        rewrite skipn_length. rewrite firstn_all2 by (rewrite app_length, skipn_length, repeat_length; lia).
        f_equal. f_equal. lia.
      * rewrite skipn_app. rewrite (skipn_all2 img) by lia. cbn [app]. rewrite skipn_repeat.
        rewrite (skipn_all2 (img ++ repeat 0 (d - length img))) by (rewrite app_length, repeat_length; lia).
        cbn [length app]. rewrite Nat.sub_0_r. rewrite firstn_all2 by (rewrite repeat_length; lia). f_equal. lia.
  - (* the part after the write *)
    rewrite skipn_skipn'. unfold pad_to. destruct (Nat.le_gt_cases d (length img)) as [H2|H2].
    + replace (d - length img)%nat with 0%nat by lia. cbn [repeat]. rewrite app_nil_r. f_equal. lia.
    + rewrite (skipn_all2 img) by lia. symmetry. apply skipn_all2. rewrite app_length, repeat_length. lia.
Qed.
Lemma tail_pad_idem d img : tail_from d (pad_to d (pad_to d img)) = tail_from d (pad_to d img).
Proof. unfold pad_to at 1. rewrite pad_to_length. replace (d - Nat.max d (length img))%nat with 0%nat by lia. cbn [repeat]. now rewrite app_nil_r. Qed.
Lemma pad_write_at d img pos bs : (d <= N.to_nat pos)%nat -> bs <> [] -> pad_to d (write_at img pos bs) = write_at img pos bs.
Proof.
  intros Hd Hb. unfold pad_to. rewrite write_at_length. destruct bs; [congruence|]. cbn [length].
  replace (d - Nat.max (N.to_nat pos + S (length bs)) (length img))%nat with 0%nat by lia. cbn [repeat]. apply app_nil_r.
Qed.

(** what lies behind the starting position [P] while the archive is being built: a 127-byte hole (whatever was
    there), then the content [X] written so far, then whatever else the stream holds *)
Definition building_at (P : N) (st : wstream) (X : bytes) : Prop :=
  ws_pos st = P + 127 + nlen X /\
  (X = [] \/ exists H J, length H = 127%nat /\ tail_from (N.to_nat P) (pad_to (N.to_nat P) (ws_img st)) = H ++ X ++ J).

Lemma building_at_write P st X bs : building_at P st X -> building_at P (ws_write st bs) (X ++ bs).
Proof.
  intros [Hp Hi]. split; [rewrite ws_write_pos, Hp; unfold nlen; rewrite app_length; lia|].
  destruct bs as [|b0 br] eqn:Eb; [rewrite app_nil_r; exact Hi|]. rewrite <- Eb. right.
  assert (Hne : bs <> []) by (rewrite Eb; discriminate).
  unfold ws_write, ws_write_gen. rewrite Eb. rewrite <- Eb. cbn [ws_img].
  rewrite pad_write_at by (try assumption; rewrite Hp; lia).
  rewrite tail_write_at by (rewrite Hp; lia). rewrite Hp.
  replace (P + 127 + nlen X - N.of_nat (N.to_nat P)) with (127 + nlen X) by lia.
  set (T := tail_from (N.to_nat P) (pad_to (N.to_nat P) (ws_img st))) in *.
  destruct Hi as [->|(H & J & LH & Hi)].
  - (* first content: the hole is whatever was there *)
    cbn [nlen length app]. rewrite N.add_0_r. unfold write_at. change (N.to_nat 127) with 127%nat.
    exists (firstn 127 (pad_to 127 T)), (skipn (127 + length bs) T). split; [apply firstn_pad_length|reflexivity].
  - exists H, (skipn (length bs) J). split; [exact LH|]. rewrite Hi.
    replace (H ++ X ++ J) with ((H ++ X) ++ J) by now rewrite <- app_assoc.
    replace (127 + nlen X) with (nlen (H ++ X)) by (unfold nlen; rewrite app_length; lia).
    rewrite write_at_mid. now rewrite <- !app_assoc.
Qed.
Lemma building_at_same P st st' X : ws_img st' = ws_img st -> ws_pos st' = ws_pos st -> building_at P st X -> building_at P st' X.
Proof. intros Hi Hp [A B]. split; [now rewrite Hp|now rewrite Hi]. Qed.
Lemma building_at_reset P st X : building_at P st X -> building_at P (ws_seek st (P + 127)) [].
Proof. intros _. split; [cbn [ws_seek ws_pos]; change (nlen (@nil N)) with 0; lia|now left]. Qed.
Lemma building_at_header P st X hb : building_at P st X -> length hb = 127%nat ->
  exists J, tail_from (N.to_nat P) (pad_to (N.to_nat P) (ws_img (ws_write (ws_seek st P) hb))) = hb ++ X ++ J.
Proof.
  intros [Hp Hi] Hl. unfold ws_write, ws_write_gen. destruct hb as [|h0 hr] eqn:Eh; [discriminate|]. rewrite <- Eh in *.
  assert (Hne : hb <> []) by (rewrite Eh; discriminate).
  cbn [ws_seek ws_img ws_pos]. rewrite pad_write_at by (try assumption; lia). rewrite tail_write_at by lia.
  replace (P - N.of_nat (N.to_nat P)) with 0 by lia.
  set (T := tail_from (N.to_nat P) (pad_to (N.to_nat P) (ws_img st))) in *.
  unfold write_at. cbn [N.to_nat firstn app Nat.add]. rewrite Hl.
  destruct Hi as [->|(H & J & LH & Hi)].
  - exists (skipn 127 T). reflexivity.
  - exists J. rewrite Hi. now rewrite (skipn_exact H (X ++ J) _ LH).
Qed.

Section TwoRuns.
  Context (cx : ctx).

  (** one directory written behind the content so far, in two streams at once *)
  Lemma write_dir_two asy c es P1 st1 X1 st1' n : building_at P1 st1 X1 -> write_dir cx asy c es st1 = Ok (st1', n) ->
    exists z, encode_dir cx asy c es = Ok z /\ n = nlen z /\ building_at P1 st1' (X1 ++ z) /\
      forall P2 st2 X2, building_at P2 st2 X2 ->
        exists st2', write_dir cx asy c es st2 = Ok (st2', nlen z) /\ building_at P2 st2' (X2 ++ z).
  Proof.
    intros B1 H. destruct (write_dir_spec cx asy c es st1 st1' n H) as (z & Hz & -> & Hi & Hp).
    exists z. split; [exact Hz|]. split; [reflexivity|]. split.
    - apply (building_at_same P1 (ws_write st1 z)); [exact Hi|now rewrite Hp, ws_write_pos|]. now apply building_at_write.
    - intros P2 st2 X2 B2. destruct (write_dir_ok cx asy c es st2 z Hz) as (st2' & Hw & Hi2 & Hp2).
      exists st2'. split; [exact Hw|].
      apply (building_at_same P2 (ws_write st2 z)); [exact Hi2|now rewrite Hp2, ws_write_pos|]. now apply building_at_write.
  Qed.

  Lemma leaf_loop_two asy c es : forall fuel ls P1 st1 X1 st1' ld, building_at P1 st1 X1 ->
    leaf_loop cx fuel asy c es ls st1 (P1 + 127) = Ok (st1', ld) ->
    exists root, building_at P1 st1' root /\
      forall P2 st2 X2, building_at P2 st2 X2 ->
        exists st2', leaf_loop cx fuel asy c es ls st2 (P2 + 127) = Ok (st2', ld) /\ building_at P2 st2' root.
  Proof.
    induction fuel as [|f IH]; intros ls P1 st1 X1 st1' ld B1 H; [discriminate|].
    cbn [leaf_loop] in H. destruct (N.eqb_spec ls 0) as [|Hls]; [discriminate|].
    destruct (build_leaves cx c (chunks (N.to_nat (N.min ls (N.max 1 (nlen es)))) es) 0 [] []) as [[leaves ptrs]| |] eqn:El; cbn [bind] in H; try discriminate.
    destruct (write_dir cx asy c ptrs (ws_seek st1 (P1 + 127))) as [[st1b n]| |] eqn:Ew; cbn [bind] in H; try discriminate.
    destruct (write_dir_two asy c ptrs P1 _ [] _ _ (building_at_reset P1 st1 X1 B1) Ew) as (z & Hz & -> & B1b & Hother). cbn [app] in B1b.
    unfold ws_tell in H. cbn [ws_log_ev ws_pos] in H. destruct B1b as [Pb Ib]. rewrite Pb in H.
    unfold sub64 in H. destruct (N.leb_spec (P1 + 127) (P1 + 127 + nlen z)); [|lia]. cbn [bind] in H.
    replace (P1 + 127 + nlen z - (P1 + 127)) with (nlen z) in H by lia.
    assert (Step2 : forall P2 st2 X2, building_at P2 st2 X2 ->
              exists st2b, write_dir cx asy c ptrs (ws_seek st2 (P2 + 127)) = Ok (st2b, nlen z) /\ building_at P2 st2b z).
    { intros P2 st2 X2 B2. destruct (Hother P2 _ [] (building_at_reset P2 st2 X2 B2)) as (st2b & Hw2 & B2b). eauto. }
    destruct (N.leb_spec (nlen z) max_root_dir_length) as [Hfit|Hbig].
    - injection H as <- <-. exists z. split; [split; assumption|].
      intros P2 st2 X2 B2. destruct (Step2 P2 st2 X2 B2) as (st2b & Hw2 & [Pb2 Ib2]).
      cbn [leaf_loop]. destruct (N.eqb_spec ls 0); [contradiction|]. rewrite El. cbn [bind]. rewrite Hw2. cbn [bind].
      unfold ws_tell. cbn [ws_log_ev ws_pos]. rewrite Pb2. unfold sub64.
      destruct (N.leb_spec (P2 + 127) (P2 + 127 + nlen z)); [|lia]. cbn [bind].
      replace (P2 + 127 + nlen z - (P2 + 127)) with (nlen z) by lia.
      destruct (N.leb_spec (nlen z) max_root_dir_length); [|lia].
      eexists. split; [reflexivity|]. split; assumption.
    - destruct (2 * ls <? two64) eqn:E2; [|discriminate].
      destruct (IH (2 * ls) P1 _ z st1' ld (conj Pb Ib : building_at P1 (ws_log_ev st1b EvPos) z) H) as (root & B1' & Hrest).
      exists root. split; [exact B1'|].
      intros P2 st2 X2 B2. destruct (Step2 P2 st2 X2 B2) as (st2b & Hw2 & [Pb2 Ib2]).
      destruct (Hrest P2 (ws_log_ev st2b EvPos) z (conj Pb2 Ib2)) as (st2' & Hl2 & B2').
      exists st2'. split; [|exact B2'].
      cbn [leaf_loop]. destruct (N.eqb_spec ls 0); [contradiction|]. rewrite El. cbn [bind]. rewrite Hw2. cbn [bind].
      unfold ws_tell. cbn [ws_log_ev ws_pos]. rewrite Pb2. unfold sub64.
      destruct (N.leb_spec (P2 + 127) (P2 + 127 + nlen z)); [|lia]. cbn [bind].
      replace (P2 + 127 + nlen z - (P2 + 127)) with (nlen z) by lia.
      destruct (N.leb_spec (nlen z) max_root_dir_length); [lia|]. rewrite E2. exact Hl2.
  Qed.

  Lemma write_directories_two asy c es ss P1 st1 st1' ld : building_at P1 st1 [] ->
    write_directories cx asy c es ss st1 = Ok (st1', ld) ->
    exists root, building_at P1 st1' root /\
      forall P2 st2, building_at P2 st2 [] ->
        exists st2', write_directories cx asy c es ss st2 = Ok (st2', ld) /\ building_at P2 st2' root.
  Proof.
    intros B1 H. unfold write_directories, ws_tell in H.
    assert (B1e : building_at P1 (ws_log_ev st1 EvPos) []) by (destruct B1; split; assumption).
    destruct (write_dir cx asy c es (ws_log_ev st1 EvPos)) as [[st1b n]| |] eqn:Ew; cbn [bind] in H; try discriminate.
    destruct (write_dir_two asy c es P1 _ [] _ _ B1e Ew) as (z & Hz & -> & B1b & Hother). cbn [app] in B1b.
    destruct B1 as [P0 _]. change (nlen (@nil N)) with 0 in P0. rewrite N.add_0_r in P0.
    cbn [ws_log_ev ws_pos] in H. rewrite P0 in H. destruct B1b as [Pb Ib]. rewrite Pb in H.
    unfold sub64 in H. destruct (N.leb_spec (P1 + 127) (P1 + 127 + nlen z)); [|lia]. cbn [bind] in H.
    replace (P1 + 127 + nlen z - (P1 + 127)) with (nlen z) in H by lia.
    assert (Step2 : forall P2 st2, building_at P2 st2 [] ->
              exists st2b, write_dir cx asy c es (ws_log_ev st2 EvPos) = Ok (st2b, nlen z) /\ building_at P2 st2b z /\ ws_pos st2 = P2 + 127).
    { intros P2 st2 B2. assert (B2e : building_at P2 (ws_log_ev st2 EvPos) []) by (destruct B2; split; assumption).
      destruct (Hother P2 _ [] B2e) as (st2b & Hw2 & B2b). exists st2b. split; [exact Hw2|]. split; [exact B2b|].
      destruct B2 as [Q _]. change (nlen (@nil N)) with 0 in Q. lia. }
    destruct (N.leb_spec (nlen z) max_root_dir_length) as [Hfit|Hbig].
    - injection H as <- <-. exists z. split; [split; assumption|].
      intros P2 st2 B2. destruct (Step2 P2 st2 B2) as (st2b & Hw2 & [Pb2 Ib2] & Q2).
      unfold write_directories, ws_tell. rewrite Hw2. cbn [bind ws_log_ev ws_pos]. rewrite Q2, Pb2. unfold sub64.
      destruct (N.leb_spec (P2 + 127) (P2 + 127 + nlen z)); [|lia]. cbn [bind].
      replace (P2 + 127 + nlen z - (P2 + 127)) with (nlen z) by lia.
      destruct (N.leb_spec (nlen z) max_root_dir_length); [|lia].
      eexists. split; [reflexivity|]. split; assumption.
    - destruct (leaf_loop_two asy c es 65 _ P1 _ z st1' ld (conj Pb Ib : building_at P1 (ws_log_ev st1b EvPos) z) H) as (root & B1' & Hrest).
      exists root. split; [exact B1'|].
      intros P2 st2 B2. destruct (Step2 P2 st2 B2) as (st2b & Hw2 & [Pb2 Ib2] & Q2).
      destruct (Hrest P2 (ws_log_ev st2b EvPos) z (conj Pb2 Ib2)) as (st2' & Hl2 & B2').
      exists st2'. split; [|exact B2'].
      unfold write_directories, ws_tell. rewrite Hw2. cbn [bind ws_log_ev ws_pos]. rewrite Q2, Pb2. unfold sub64.
      destruct (N.leb_spec (P2 + 127) (P2 + 127 + nlen z)); [|lia]. cbn [bind].
      replace (P2 + 127 + nlen z - (P2 + 127)) with (nlen z) by lia.
      destruct (N.leb_spec (nlen z) max_root_dir_length); [lia|]. exact Hl2.
  Qed.
End TwoRuns.

Section StartPos.
  Context (cx : ctx).

  (** the archive written at position P and the archive written into an empty stream: the same header and the same
      content behind it *)
  Theorem to_writer_vs_to_bytes asy p st st' : to_writer cx asy p st = Ok st' -> header_bytes = 127 ->
    let P := ws_pos st in
    exists b hb X J1 J2, to_bytes cx asy p = Ok b /\ length hb = 127%nat /\ b = hb ++ X ++ J2 /\
      tail_from (N.to_nat P) (pad_to (N.to_nat P) (ws_img st')) = hb ++ X ++ J1 /\
      ws_pos st' = P + 127 + nlen X.
  Proof.
    intros H Hhb. cbv zeta. unfold to_bytes. unfold to_writer in *.
    destruct (finish cx (p_tm p)) as [res| |]; cbn [bind] in *; try discriminate.
    unfold ws_tell at 1 in H. unfold ws_tell at 1. cbn [ws_new ws_log_ev ws_pos] in *.
    set (P := ws_pos st) in *.
    unfold cadd64 in *. rewrite Hhb in *.
    destruct (N.ltb_spec (P + 127) two64) as [HP|]; [|discriminate]. cbn [bind] in H.
    destruct (N.ltb_spec (0 + 127) two64); [|lia]. cbn [bind].
    set (s1 := ws_seek (ws_log_ev st EvPos) (P + 127)) in *.
    set (t1 := ws_seek (ws_log_ev (ws_new [] 0) EvPos) (0 + 127)).
    assert (B1 : building_at P s1 []) by (split; [cbn; lia|now left]).
    assert (C1 : building_at 0 t1 []) by (split; [reflexivity|now left]).
    destruct (write_directories cx asy (p_icomp p) (fr_dir res) None s1) as [[s2 ld]| |] eqn:Ew; cbn [bind] in H; try discriminate.
    destruct (write_directories_two cx asy (p_icomp p) (fr_dir res) None P s1 s2 ld B1 Ew) as (root & B2 & Hother).
    destruct (Hother 0 t1 C1) as (t2 & Ew2 & C2). rewrite Ew2. cbn [bind].
    unfold ws_tell in *. cbn [ws_log_ev ws_pos ws_img] in *.
    destruct B2 as [P2 I2]. destruct C2 as [Q2 K2]. rewrite P2 in H. rewrite Q2.
    unfold sub64, add64 in *.
    destruct (N.leb_spec P (P + 127 + nlen root)); [|lia]. cbn [bind] in H.
    destruct (N.leb_spec 0 (0 + 127 + nlen root)); [|lia]. cbn [bind].
    replace (P + 127 + nlen root - P) with (127 + nlen root) in H by lia.
    replace (0 + 127 + nlen root - 0) with (127 + nlen root) by lia.
    destruct (N.leb_spec 127 (127 + nlen root)); [|lia]. cbn [bind] in *.
    replace (127 + nlen root - 127) with (nlen root) in * by lia.
    destruct (N.ltb_spec (127 + nlen root) two64); [|discriminate]. cbn [bind] in *.
    destruct (compress cx asy (p_icomp p) (p_meta p)) as [mb| |]; cbn [bind] in *; try discriminate.
    set (s3 := ws_write_codec cx asy (p_icomp p) (ws_log_ev s2 EvPos) (p_meta p) mb) in *.
    set (t3 := ws_write_codec cx asy (p_icomp p) (ws_log_ev t2 EvPos) (p_meta p) mb).
    assert (B3 : building_at P s3 (root ++ mb)).
    { apply (building_at_same P (ws_write s2 mb)); [unfold s3; rewrite ws_write_codec_img; unfold ws_write, ws_write_gen; destruct mb; reflexivity
                                                 |unfold s3; rewrite ws_write_codec_pos, ws_write_pos; reflexivity|].
      apply building_at_write. split; assumption. }
    assert (C3 : building_at 0 t3 (root ++ mb)).
    { apply (building_at_same 0 (ws_write t2 mb)); [unfold t3; rewrite ws_write_codec_img; unfold ws_write, ws_write_gen; destruct mb; reflexivity
                                                 |unfold t3; rewrite ws_write_codec_pos, ws_write_pos; reflexivity|].
      apply building_at_write. split; assumption. }
    destruct B3 as [P3 I3]. destruct C3 as [Q3 K3]. rewrite P3 in H. rewrite Q3.
    replace (nlen (root ++ mb)) with (nlen root + nlen mb) in H |- * by (unfold nlen; rewrite app_length; lia).
    destruct (N.leb_spec P (P + 127 + (nlen root + nlen mb))); [|lia]. cbn [bind] in H.
    destruct (N.leb_spec 0 (0 + 127 + (nlen root + nlen mb))); [|lia]. cbn [bind].
    replace (P + 127 + (nlen root + nlen mb) - P) with (127 + nlen root + nlen mb) in H by lia.
    replace (0 + 127 + (nlen root + nlen mb) - 0) with (127 + nlen root + nlen mb) by lia.
    destruct (N.leb_spec (127 + nlen root) (127 + nlen root + nlen mb)); [|lia]. cbn [bind] in *.
    replace (127 + nlen root + nlen mb - (127 + nlen root)) with (nlen mb) in * by lia.
    destruct (N.ltb_spec (127 + nlen root + nlen mb) two64); [|discriminate]. cbn [bind] in *.
    (* the leaf section *)
    set (s4 := ws_write (ws_log_ev s3 EvPos) ld) in *.
    set (t4 := ws_write (ws_log_ev t3 EvPos) ld).
    assert (B4 : building_at P s4 ((root ++ mb) ++ ld)) by (apply building_at_write; split; assumption).
    assert (C4 : building_at 0 t4 ((root ++ mb) ++ ld)) by (apply building_at_write; split; assumption).
    destruct B4 as [P4 I4]. destruct C4 as [Q4 K4]. cbn [ws_log_ev ws_pos ws_img] in *. rewrite P4 in H. rewrite Q4.
    replace (nlen ((root ++ mb) ++ ld)) with (nlen root + nlen mb + nlen ld) in H |- * by (unfold nlen; rewrite !app_length; lia).
    destruct (N.leb_spec P (P + 127 + (nlen root + nlen mb + nlen ld))); [|lia]. cbn [bind] in H.
    destruct (N.leb_spec 0 (0 + 127 + (nlen root + nlen mb + nlen ld))); [|lia]. cbn [bind].
    replace (P + 127 + (nlen root + nlen mb + nlen ld) - P) with (127 + nlen root + nlen mb + nlen ld) in H by lia.
    replace (0 + 127 + (nlen root + nlen mb + nlen ld) - 0) with (127 + nlen root + nlen mb + nlen ld) by lia.
    destruct (N.leb_spec (127 + nlen root + nlen mb) (127 + nlen root + nlen mb + nlen ld)); [|lia]. cbn [bind] in *.
    replace (127 + nlen root + nlen mb + nlen ld - (127 + nlen root + nlen mb)) with (nlen ld) in * by lia.
    destruct (N.ltb_spec (127 + nlen root + nlen mb + nlen ld) two64); [|discriminate]. cbn [bind] in *.
    match type of H with context [encode_header ?h] => destruct (encode_header h) as [hb| |] eqn:Hh end; cbn [bind] in *; try discriminate.
    destruct (N.ltb_spec (P + (127 + nlen root + nlen mb + nlen ld)) two64); [|discriminate]. cbn [bind] in H.
    destruct (N.ltb_spec (P + (127 + nlen root + nlen mb + nlen ld) + nlen (fr_data res)) two64); [|discriminate]. cbn [bind] in H.
    destruct (N.ltb_spec (0 + (127 + nlen root + nlen mb + nlen ld)) two64); [|lia]. cbn [bind].
    destruct (N.ltb_spec (0 + (127 + nlen root + nlen mb + nlen ld) + nlen (fr_data res)) two64); [|lia]. cbn [bind].
    injection H as H.
    set (s5 := ws_write (ws_log_ev s4 EvPos) (fr_data res)) in *.
    set (t5 := ws_write (ws_log_ev t4 EvPos) (fr_data res)).
    assert (B5 : building_at P s5 (((root ++ mb) ++ ld) ++ fr_data res)) by (apply building_at_write; split; assumption).
    assert (C5 : building_at 0 t5 (((root ++ mb) ++ ld) ++ fr_data res)) by (apply building_at_write; split; assumption).
    assert (Lhb : length hb = 127%nat) by (now apply header_length with (1 := Hh)).
    destruct (building_at_header P s5 _ hb B5 Lhb) as (J1 & HJ1).
    destruct (building_at_header 0 t5 _ hb C5 Lhb) as (J2 & HJ2).
    set (X := ((root ++ mb) ++ ld) ++ fr_data res) in *.
    eexists _, hb, X, J1, J2. split; [reflexivity|]. split; [exact Lhb|].
    assert (Ei : forall s e, ws_img (ws_seek (if asy then ws_log_ev (ws_write (ws_seek s 0) hb) EvFlush else ws_write (ws_seek s 0) hb) e)
                           = ws_img (ws_write (ws_seek s 0) hb)) by (intros; destruct asy; reflexivity).
    split.
    - rewrite Ei. cbn [N.to_nat pad_to tail_from] in HJ2. unfold pad_to, tail_from in HJ2. cbn [Nat.sub repeat skipn] in HJ2.
      rewrite app_nil_r in HJ2. exact HJ2.
    - rewrite <- H. split.
      + assert (Ei' : forall e, ws_img (ws_seek (if asy then ws_log_ev (ws_write (ws_seek s5 P) hb) EvFlush else ws_write (ws_seek s5 P) hb) e)
                              = ws_img (ws_write (ws_seek s5 P) hb)) by (intros; destruct asy; reflexivity).
        rewrite Ei'. exact HJ1.
      + cbn [ws_seek ws_pos]. unfold X, nlen. rewrite !app_length. fold (nlen root) (nlen mb) (nlen ld) (nlen (fr_data res)). unfold nlen. lia.
  Qed.
End StartPos.

(** the statement in plain terms: the [n] bytes of the stream from P on are the first [n] bytes of the archive written
    at position 0, where [n] is the archive's length as the header declares it (the stream is left at P + n) *)
Corollary to_writer_bytes_from_start cx asy p st st' : to_writer cx asy p st = Ok st' -> header_bytes = 127 ->
  let P := ws_pos st in
  exists b n, to_bytes cx asy p = Ok b /\ ws_pos st' = P + n /\ n <= nlen b /\ 127 <= n /\
    firstn (N.to_nat n) (skipn (N.to_nat P) (ws_img st')) = firstn (N.to_nat n) b.
Proof.
  intros H Hhb. cbv zeta. destruct (to_writer_vs_to_bytes cx asy p st st' H Hhb) as (b & hb & X & J1 & J2 & Hb & Lhb & -> & Ht & Hp).
  exists (hb ++ X ++ J2), (127 + nlen X). split; [exact Hb|]. split; [rewrite Hp; lia|].
  split; [unfold nlen; rewrite !app_length; lia|]. split; [lia|].
  assert (Hn : N.to_nat (127 + nlen X) = length (hb ++ X)) by (rewrite app_length; unfold nlen; lia).
  (* the stream is at least P bytes long, so no padding is involved *)
  assert (Hpad : pad_to (N.to_nat (ws_pos st)) (ws_img st') = ws_img st').
  { unfold pad_to. destruct (Nat.le_gt_cases (N.to_nat (ws_pos st)) (length (ws_img st'))) as [Hle|Hgt].
    - replace (N.to_nat (ws_pos st) - length (ws_img st'))%nat with 0%nat by lia. cbn [repeat]. apply app_nil_r.
    - exfalso. unfold tail_from, pad_to in Ht.
      assert (L : length (skipn (N.to_nat (ws_pos st)) (ws_img st' ++ repeat 0 (N.to_nat (ws_pos st) - length (ws_img st')))) = 0%nat)
        by (rewrite skipn_length, app_length, repeat_length; lia).
      rewrite Ht, !app_length in L. lia. }
  rewrite Hpad in Ht. unfold tail_from in Ht. rewrite Ht, Hn.
  replace (hb ++ X ++ J1) with ((hb ++ X) ++ J1) by now rewrite <- app_assoc.
  replace (hb ++ X ++ J2) with ((hb ++ X) ++ J2) by now rewrite <- app_assoc.
  now rewrite !(firstn_exact (hb ++ X) _ _ eq_refl).
Qed.
