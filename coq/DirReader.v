(** util::read_directories / read_dir_rec (src/util/read_directories.rs) *)
Require Import PM.Base PM.Oracles PM.Params PM.Directory PM.Stream PM.TileManager.
Open Scope N_scope.

Inductive bound := Incl (n : N) | Excl (n : N) | Unb.
Record range := mkRange { r_start : bound; r_end : bound }.
Definition full_range : range := mkRange Unb Unb.

(** [RangeBounds::contains] *)
Definition in_range (r : range) (id : N) : bool :=
  (match r_start r with Incl s => s <=? id | Excl s => s <? id | Unb => true end) &&
  (match r_end r with Incl e => id <=? e | Excl e => id <? e | Unb => true end).
(** [range_end_inc(..).unwrap_or(u64::MAX)], with [saturating_sub] *)
Definition range_end_inc (r : range) : N :=
  match r_end r with Incl v => v | Excl v => v - 1 | Unb => u64_max end.

(** expansion of one run into the result map (later insertions overwrite earlier ones) *)
Definition expand_run (r : range) (e : entry) (acc : list (N * (N * N))) : list (N * (N * N)) :=
  snd (N.iter (e_run e)
         (fun st => let '(i, a) := st in
                    (i + 1, if in_range r i then aset i (e_off e, e_len e) a else a))
         (e_id e, acc)).

(** the loop over the entries of one directory; [rec] reads the leaf a pointer entry refers to *)
Fixpoint walk_entries (rec : N -> N -> list (N * (N * N)) -> outcome (list (N * (N * N))))
         (leaf_off : N) (r : range) (l : list entry) (acc : list (N * (N * N))) : outcome (list (N * (N * N))) :=
  match l with
  | [] => Ok acc
  | e :: rest =>
    if e_run e =? 0 then
      (* skip leaf directory, if it starts after range *)
      if range_end_inc r <? e_id e then walk_entries rec leaf_off r rest acc else
      do lo <- cadd64 leaf_off (e_off e);
      do acc' <- rec lo (e_len e) acc;
      walk_entries rec leaf_off r rest acc'
    else walk_entries rec leaf_off r rest (expand_run r e acc)
  end.

Section WithCtx.
  Context (cx : ctx).

  (** [depth_fuel] = how many more levels may be entered: MAX_DIR_DEPTH + 1 at the root *)
  Fixpoint read_dir_rec (depth_fuel : nat) (c : compression) (img : bytes) (dir_off dir_len leaf_off : N)
           (r : range) (acc : list (N * (N * N))) : outcome (list (N * (N * N))) :=
    match depth_fuel with
    | O => Err EInvalid                       (* "Leaf directories are nested too deeply." *)
    | S f =>
      do es <- decode_dir cx c (section img dir_off dir_len);
      walk_entries (fun lo len a => read_dir_rec f c img lo len leaf_off r a) leaf_off r es acc
    end.

  Definition depth_fuel_of (d : option N) : nat :=
    match d with Some k => S (N.to_nat k) | None => 1000 end.

  Definition read_directories (c : compression) (img : bytes) (root_off root_len leaf_off : N) (r : range)
    : outcome (list (N * (N * N))) :=
    read_dir_rec (depth_fuel_of max_dir_depth) c img root_off root_len leaf_off r [].
End WithCtx.
