
val negb : bool -> bool

type nat =
| O
| S of nat

val fst : ('a1 * 'a2) -> 'a1

val snd : ('a1 * 'a2) -> 'a2

val length : 'a1 list -> nat

val app : 'a1 list -> 'a1 list -> 'a1 list

type comparison =
| Eq
| Lt
| Gt

type positive =
| XI of positive
| XO of positive
| XH

type n =
| N0
| Npos of positive

module Pos :
 sig
  type mask =
  | IsNul
  | IsPos of positive
  | IsNeg
 end

module Coq_Pos :
 sig
  val succ : positive -> positive

  val add : positive -> positive -> positive

  val add_carry : positive -> positive -> positive

  val pred_double : positive -> positive

  type mask = Pos.mask =
  | IsNul
  | IsPos of positive
  | IsNeg

  val succ_double_mask : mask -> mask

  val double_mask : mask -> mask

  val double_pred_mask : positive -> mask

  val sub_mask : positive -> positive -> mask

  val sub_mask_carry : positive -> positive -> mask

  val mul : positive -> positive -> positive

  val iter : ('a1 -> 'a1) -> 'a1 -> positive -> 'a1

  val pow : positive -> positive -> positive

  val compare_cont : comparison -> positive -> positive -> comparison

  val compare : positive -> positive -> comparison

  val eqb : positive -> positive -> bool

  val of_succ_nat : nat -> positive
 end

module N :
 sig
  val succ_double : n -> n

  val double : n -> n

  val add : n -> n -> n

  val sub : n -> n -> n

  val mul : n -> n -> n

  val compare : n -> n -> comparison

  val eqb : n -> n -> bool

  val leb : n -> n -> bool

  val ltb : n -> n -> bool

  val pow : n -> n -> n

  val pos_div_eucl : positive -> n -> n * n

  val div_eucl : n -> n -> n * n

  val div : n -> n -> n

  val modulo : n -> n -> n

  val of_nat : nat -> n
 end

val concat : 'a1 list list -> 'a1 list

val map : ('a1 -> 'a2) -> 'a1 list -> 'a2 list

val forallb : ('a1 -> bool) -> 'a1 list -> bool

type bytes = n list

type err =
| EEof
| EInvalid
| EOther
| ECodec
| EJson
| EInput
| EMaxZ
| EIo

type crash =
| Overflow
| CapacityOverflow
| OutOfFuel
| IndexOob
| OracleMiss

type 'a outcome =
| Ok of 'a
| Err of err
| Crash of crash

val bind : 'a1 outcome -> ('a1 -> 'a2 outcome) -> 'a2 outcome

val two64 : n

val two32 : n

val add64 : n -> n -> n outcome

val sub64 : n -> n -> n outcome

val cadd64 : n -> n -> n outcome

val csub64 : n -> n -> n outcome

val nlen : 'a1 list -> n

val enc : nat -> n -> bytes

val write_varint : n -> bytes

val dec : nat -> bytes -> n -> n -> (n * bytes) outcome

val read_varint64 : bytes -> (n * bytes) outcome

val read_varint32 : bytes -> (n * bytes) outcome

type entry = { e_id : n; e_off : n; e_len : n; e_run : n }

val read_n :
  (bytes -> (n * bytes) outcome) -> nat -> n -> bytes -> (n list * bytes)
  outcome

val sum_ids : n -> n list -> n list outcome

val check_runs : n list -> n list -> unit outcome

val check_lens : n list -> unit outcome

val rebuild_offsets : bool -> n -> n -> n list -> n list -> n list outcome

val zip4 : n list -> n list -> n list -> n list -> entry list

val decode_dir_plain : bytes -> entry list outcome

val enc_ids : n -> entry list -> bytes outcome

val enc_runs : entry list -> bytes

val enc_lens : entry list -> bytes outcome

val enc_offs : bool -> n -> entry list -> bytes outcome

val encode_dir_plain : entry list -> bytes outcome

val spec_deltas : n -> n list -> n list

val spec_offsets : entry option -> entry list -> n list

val varints : n list -> bytes

val spec_encode_dir : entry list -> bytes

val entry_okb : entry -> bool

val ascendingb : entry option -> entry list -> bool

val valid_dirb : entry list -> bool

val find_entry : entry list -> n -> entry option outcome
