(** PMTiles::from_reader_impl / to_writer_impl / get_tile (src/pmtiles.rs) as pure functions over an
    ideal stream. *)
Require Import PM.Base PM.Oracles PM.Params PM.Float PM.Header PM.Directory PM.Stream
               PM.TileManager PM.DirWriter PM.DirReader PM.Hilbert.
From Coq Require Import ZArith.
Open Scope N_scope.

Record pmtiles := mkPM {
  p_ttype : tile_type; p_tcomp : compression; p_icomp : compression;
  p_minz : N; p_maxz : N; p_cz : N;
  p_min_lon : f64; p_min_lat : f64; p_max_lon : f64; p_max_lat : f64; p_clon : f64; p_clat : f64;
  p_meta : bytes;            (* canonical serialisation of the JSON-object metadata *)
  p_tm : tm
}.

Definition empty_object : bytes := [123; 125].   (* "{}" *)

Section WithCtx.
  Context (cx : ctx).

  (** [read_meta_data(_async)]: the whole decompressed section must be one JSON value, an object *)
  Definition read_meta (c : compression) (sec : bytes) : outcome bytes :=
    do plain <- decompress_all cx c sec;
    do v <- json_parse cx plain;
    match v with
    | Some m => Ok m
    | None => Err EInvalid      (* "PMTiles' metadata must be JSON Object" *)
    end.

  Fixpoint register_tiles (data_off : N) (l : list (N * (N * N))) (s : tm) : outcome tm :=
    match l with
    | [] => Ok s
    | (id, (off, len)) :: r =>
      do o <- cadd64 data_off off;
      do s' <- add_offset_tile s id o len;
      register_tiles data_off r s'
    end.

  Definition from_reader (img : bytes) (r : range) : outcome pmtiles :=
    do (h, _) <- decode_header img;
    do meta <- (if h_meta_len h =? 0 then Ok empty_object
                else read_meta (h_icomp h) (section img (h_meta_off h) (h_meta_len h)));
    do tiles <- read_directories cx (h_icomp h) img (h_root_off h) (h_root_len h) (h_leaf_off h) r;
    do s <- register_tiles (h_data_off h) tiles (tm_empty (Some img));
    Ok (mkPM (h_ttype h) (h_tcomp h) (h_icomp h) (h_minz h) (h_maxz h) (h_cz h)
             (h_min_lon h) (h_min_lat h) (h_max_lon h) (h_max_lat h) (h_clon h) (h_clat h) meta s).

  (** [to_writer_impl] / [to_async_writer_impl] ([asy]) into a stream positioned anywhere *)
  Definition to_writer (asy : bool) (p : pmtiles) (st : wstream) : outcome wstream :=
    do res <- finish cx (p_tm p);
    let '(st, start_pos) := ws_tell st in
    do hdr_end <- cadd64 start_pos header_bytes;           (* seek(Current(127)) *)
    let st := ws_seek st hdr_end in
    let root_off := header_bytes in
    do (st, leaf_data) <- write_directories cx asy (p_icomp p) (fr_dir res) None st;
    let '(st, pos) := ws_tell st in
    do t <- sub64 pos start_pos; do root_len <- sub64 t root_off;
    do meta_off <- add64 root_off root_len;
    do mbytes <- compress cx asy (p_icomp p) (p_meta p);
    let st := ws_write_codec cx asy (p_icomp p) st (p_meta p) mbytes in
    let '(st, pos) := ws_tell st in
    do t <- sub64 pos start_pos; do meta_len <- sub64 t meta_off;
    do leaf_off <- add64 meta_off meta_len;
    let st := ws_write st leaf_data in
    let '(st, pos) := ws_tell st in
    do t <- sub64 pos start_pos; do leaf_len <- sub64 t leaf_off;
    do data_off <- add64 leaf_off leaf_len;
    let st := ws_write st (fr_data res) in
    let data_len := nlen (fr_data res) in
    let h := mkH 3 root_off root_len meta_off meta_len leaf_off leaf_len data_off data_len
                 (fr_addressed res) (fr_entries res) (fr_contents res) true
                 (p_icomp p) (p_tcomp p) (p_ttype p) (p_minz p) (p_maxz p)
                 (p_min_lon p) (p_min_lat p) (p_max_lon p) (p_max_lat p) (p_cz p) (p_clon p) (p_clat p) in
    let st := ws_seek st start_pos in
    do hb <- encode_header h;
    let st := ws_write st hb in
    let st := if asy then ws_log_ev st EvFlush else st in   (* Header::to_async_writer flushes *)
    do t <- add64 start_pos data_off; do endp <- add64 t data_len;
    Ok (ws_seek st endp).

  (** writing into a fresh, empty in-memory stream *)
  Definition to_bytes (asy : bool) (p : pmtiles) : outcome bytes :=
    do st <- to_writer asy p (ws_new [] 0); Ok (ws_img st).

  (** [PMTiles::get_tile(x, y, z)] with the grid guard; [get_tile_by_id] is [get_tile] of the store *)
  Definition get_tile_xyz (p : pmtiles) (x y z : N) : outcome (option bytes) :=
    if negb (in_grid z x y) then Ok None else
    do id <- tile_id z x y;
    get_tile (p_tm p) id.
End WithCtx.

Definition pm_new (b : option bytes) : pmtiles :=
  mkPM TUnknown CUnknown CGzip 0 0 0 (of_Z 0) (of_Z 0) (of_Z 0) (of_Z 0) (of_Z 0) (of_Z 0)
       empty_object (tm_empty b).
