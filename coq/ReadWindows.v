(** C20: which byte windows opening an archive asks the stream for.  [open_windows] mirrors [from_reader]
    / [read_dir_rec] step by step and returns the (offset, length) windows in request order: the 127
    header bytes, the metadata section (if declared non-empty), the root directory, and each leaf
    directory visited; every window is read through seek(Start(offset)) + take(length). *)
Require Import PM.Base PM.Oracles PM.Params PM.Float PM.Header PM.Directory PM.Stream PM.TileManager PM.DirReader PM.Archive.
Open Scope N_scope.

Fixpoint walk_windows (rec : N -> N -> outcome (list (N * N))) (leaf_off : N) (r : range) (l : list entry) : outcome (list (N * N)) :=
  match l with
  | [] => Ok []
  | e :: rest =>
    if e_run e =? 0 then
      if range_end_inc r <? e_id e then walk_windows rec leaf_off r rest else
      do lo <- cadd64 leaf_off (e_off e);
      do w1 <- rec lo (e_len e);
      do w2 <- walk_windows rec leaf_off r rest;
      Ok (w1 ++ w2)
    else walk_windows rec leaf_off r rest
  end.

Section WithCtx.
  Context (cx : ctx).
  Fixpoint dir_windows (fuel : nat) (c : compression) (img : bytes) (off len leaf_off : N) (r : range) : outcome (list (N * N)) :=
    match fuel with
    | O => Err EInvalid
    | S f =>
      do es <- decode_dir cx c (section img off len);
      do ws <- walk_windows (fun lo l => dir_windows f c img lo l leaf_off r) leaf_off r es;
      Ok ((off, len) :: ws)
    end.

  Definition open_windows (img : bytes) (r : range) : outcome (list (N * N)) :=
    do (h, _) <- decode_header img;
    let meta := if h_meta_len h =? 0 then [] else [(h_meta_off h, h_meta_len h)] in
    do ws <- dir_windows (depth_fuel_of max_dir_depth) (h_icomp h) img (h_root_off h) (h_root_len h) (h_leaf_off h) r;
    Ok ((0, header_bytes) :: meta ++ ws).

  (** every directory window is the root window or the window a pointer entry of a visited directory declares *)
  Inductive declared (c : compression) (img : bytes) (leaf_off : N) : nat -> N -> N -> N * N -> Prop :=
  | decl_self fuel off len : declared c img leaf_off (S fuel) off len (off, len)
  | decl_leaf fuel off len es e lo w :
      decode_dir cx c (section img off len) = Ok es -> In e es -> e_run e = 0 -> cadd64 leaf_off (e_off e) = Ok lo ->
      declared c img leaf_off fuel lo (e_len e) w -> declared c img leaf_off (S fuel) off len w.

  Lemma walk_windows_in rec leaf_off r : forall es ws w, walk_windows rec leaf_off r es = Ok ws -> In w ws ->
    exists e lo wl, In e es /\ e_run e = 0 /\ cadd64 leaf_off (e_off e) = Ok lo /\ rec lo (e_len e) = Ok wl /\ In w wl.
  Proof.
    induction es as [|e rest IH]; intros ws w H Hin; cbn [walk_windows] in H.
    - injection H as <-. destruct Hin.
    - destruct (N.eqb_spec (e_run e) 0) as [Hz|Hnz].
      + destruct (range_end_inc r <? e_id e).
        * destruct (IH ws w H Hin) as (e' & lo & wl & A & B). exists e', lo, wl. split; [now right|exact B].
        * destruct (cadd64 leaf_off (e_off e)) as [lo| |] eqn:El; cbn [bind] in H; try discriminate.
          destruct (rec lo (e_len e)) as [w1| |] eqn:Er; cbn [bind] in H; try discriminate.
          destruct (walk_windows rec leaf_off r rest) as [w2| |] eqn:Ew; cbn [bind] in H; try discriminate.
          injection H as <-. apply in_app_or in Hin. destruct Hin as [Hin|Hin].
          -- exists e, lo, w1. repeat split; try assumption. now left.
          -- destruct (IH w2 w eq_refl Hin) as (e' & lo' & wl & A & B). exists e', lo', wl. split; [now right|exact B].
      + destruct (IH ws w H Hin) as (e' & lo & wl & A & B). exists e', lo, wl. split; [now right|exact B].
  Qed.

  Theorem dir_windows_declared : forall fuel c img off len leaf_off r ws w,
    dir_windows fuel c img off len leaf_off r = Ok ws -> In w ws -> declared c img leaf_off fuel off len w.
  Proof.
    induction fuel as [|f IH]; intros c img off len leaf_off r ws w H Hin; [discriminate|].
    cbn [dir_windows] in H.
    destruct (decode_dir cx c (section img off len)) as [es| |] eqn:Ed; cbn [bind] in H; try discriminate.
    destruct (walk_windows _ leaf_off r es) as [ws'| |] eqn:Ew; cbn [bind] in H; try discriminate.
    injection H as <-. destruct Hin as [<-|Hin]; [constructor|].
    destruct (walk_windows_in _ leaf_off r es ws' w Ew Hin) as (e & lo & wl & He & Hz & Hlo & Hr & Hw).
    eapply decl_leaf; eauto.
  Qed.
End WithCtx.
