(** The operation log of the writers: where writes land (C17, C18) and which operations propagate
    their errors (C15). *)
Require Import PM.Base PM.Oracles PM.Params PM.Float PM.Header PM.HeaderProofs PM.Directory PM.Stream PM.TileManager
               PM.DirWriter PM.StreamProofs PM.SpillSpec PM.SpillProofs PM.DirReader PM.Hilbert PM.Archive.
From Coq Require Import ZifyN ZifyBool ZifyNat.
Open Scope N_scope.

Definition write_ge (lo : N) (e : event) : Prop := match e with EvWrite _ pos _ => lo <= pos | _ => True end.
Definition writes_ge (lo : N) (evs : list event) : Prop := Forall (write_ge lo) evs.

(** [st] extends [st0]: its log is [new ++ log st0], the new writes are all at positions >= lo, and its
    image is the replay of the new events (oldest first) on [st0]'s image *)
Definition ext (lo : N) (st0 st : wstream) : Prop :=
  exists new, ws_log st = new ++ ws_log st0 /\ writes_ge lo new /\ ws_img st = replay (rev new) (ws_img st0).

Lemma replay_app a b img : replay (a ++ b) img = replay b (replay a img).
Proof. revert img. induction a as [|e r IH]; intros img; [reflexivity|]. cbn [app replay]. destruct e; apply IH. Qed.

Lemma ext_refl lo st : ext lo st st.
Proof. exists []. repeat split; [constructor]. Qed.
Lemma ext_trans lo a b c : ext lo a b -> ext lo b c -> ext lo a c.
Proof.
  intros (n1 & L1 & W1 & I1) (n2 & L2 & W2 & I2). exists (n2 ++ n1). split; [|split].
  - rewrite L2, L1. now rewrite app_assoc.
  - apply Forall_app. split; assumption.
  - rewrite I2, I1, rev_app_distr, replay_app. reflexivity.
Qed.
Lemma ext_weaken lo lo' a b : lo' <= lo -> ext lo a b -> ext lo' a b.
Proof.
  intros Hl (n & L & W & I). exists n. repeat split; try assumption.
  eapply Forall_impl; [|exact W]. intros e He. destruct e; cbn in *; try exact I0; lia.
Qed.
Lemma ext_ev lo st e : (match e with EvWrite _ _ _ => False | _ => True end) -> ext lo st (ws_log_ev st e).
Proof.
  intros He. exists [e]. repeat split.
  - constructor; [|constructor]. destruct e; cbn; try exact I. destruct He.
  - cbn. destruct e; try reflexivity. destruct He.
Qed.
Lemma ext_seek lo st p : ext lo st (ws_seek st p).
Proof. exists [EvSeek p]. repeat split. constructor; [exact I|constructor]. Qed.
Lemma ext_tell lo st : ext lo st (fst (ws_tell st)).
Proof. apply (ext_ev lo st EvPos). exact I. Qed.
Lemma ext_write_gen lo sw st bs : lo <= ws_pos st -> ext lo st (ws_write_gen sw st bs).
Proof.
  intros Hl. unfold ws_write_gen. destruct bs as [|x r]; [apply ext_refl|].
  exists [EvWrite sw (ws_pos st) (x :: r)]. repeat split. constructor; [exact Hl|constructor].
Qed.
Lemma ext_write lo st bs : lo <= ws_pos st -> ext lo st (ws_write st bs).
Proof. apply ext_write_gen. Qed.

Lemma firstn_pad_le (l p : nat) (img : bytes) : (l <= p)%nat -> firstn l (pad_to p img) = firstn l (pad_to l img).
Proof.
  intros H. unfold pad_to. destruct (Nat.le_gt_cases l (length img)) as [Hle|Hgt].
  - rewrite !firstn_app. replace (l - length img)%nat with 0%nat by lia. reflexivity.
  - replace (p - length img)%nat with ((l - length img) + (p - l))%nat by lia.
    rewrite repeat_app, app_assoc.
    assert (L : length (img ++ repeat 0 (l - length img)) = l) by (rewrite app_length, repeat_length; lia).
    rewrite (firstn_exact _ _ _ L). symmetry. rewrite <- L at 1. apply firstn_all.
Qed.

Lemma before_write_at_ge img pos lo bs : lo <= pos -> before (write_at img pos bs) lo = before img lo.
Proof.
  intros Hl. unfold before. set (l := N.to_nat lo).
  (* the first l bytes of (write_at img pos bs) padded to l are the first l bytes of img padded to l *)
  pose proof (write_at_prefix img pos bs) as Hp. set (p := N.to_nat pos) in *.
  assert (Hlp : (l <= p)%nat) by (unfold l, p; lia).
  assert (L : (p <= length (write_at img pos bs))%nat) by (rewrite write_at_length; fold p; lia).
  assert (E1 : pad_to l (write_at img pos bs) = write_at img pos bs).
  { unfold pad_to. replace (l - length (write_at img pos bs))%nat with 0%nat by lia. cbn. apply app_nil_r. }
  rewrite E1.
  replace (firstn l (write_at img pos bs)) with (firstn l (firstn p (write_at img pos bs)))
    by (rewrite firstn_firstn; f_equal; lia).
  rewrite Hp. rewrite firstn_firstn. replace (Nat.min l p) with l by lia.
  apply firstn_pad_le. exact Hlp.
Qed.

Lemma before_replay lo : forall evs img, writes_ge lo evs -> before (replay evs img) lo = before img lo.
Proof.
  induction evs as [|e r IH]; intros img H; [reflexivity|].
  inversion H as [|? ? He Hr]; subst. cbn [replay]. destruct e; try (now apply IH).
  rewrite IH by assumption. now apply before_write_at_ge.
Qed.

(** nothing before [lo] changes *)
Lemma ext_before lo a b : ext lo a b -> before (ws_img b) lo = before (ws_img a) lo.
Proof.
  intros (n & _ & W & I). rewrite I. apply before_replay. unfold writes_ge in *.
  apply Forall_rev. exact W.
Qed.

Section WithCtx.
  Context (cx : ctx).

  Lemma ext_codec lo asy c st plain z : lo <= ws_pos st -> ext lo st (ws_write_codec cx asy c st plain z).
  Proof.
    intros Hl. unfold ws_write_codec. destruct asy.
    - eapply ext_trans; [now apply ext_write|]. now apply ext_ev.
    - destruct c; try (eapply ext_trans; [now apply ext_write|]; now apply ext_ev).
      all: eapply ext_trans; [now apply ext_write|]; eapply ext_trans; [now apply (ext_ev lo _ EvFlush)|];
        apply ext_write_gen; cbn [ws_log_ev ws_pos]; rewrite ws_write_pos; lia.
  Qed.

  Lemma ext_dir lo asy st z : lo <= ws_pos st -> ext lo st (ws_write_dir asy st z).
  Proof. intros Hl. unfold ws_write_dir. eapply ext_trans; [now apply ext_write|]. apply ext_ev. now destruct asy. Qed.

  Lemma write_dir_ext lo asy c es st st' n : lo <= ws_pos st -> write_dir cx asy c es st = Ok (st', n) ->
    ext lo st st' /\ ws_pos st <= ws_pos st'.
  Proof.
    intros Hl H. unfold write_dir in H.
    destruct (compress cx asy c []) as [x| |]; cbn [bind] in H; try discriminate.
    destruct (encode_dir_plain es) as [plain| |]; cbn [bind] in H; try discriminate.
    destruct (compress cx asy c plain) as [z| |]; cbn [bind] in H; try discriminate.
    inversion H; subst. split; [now apply ext_dir|]. rewrite ws_write_dir_pos. lia.
  Qed.

  Lemma leaf_loop_ext asy c es start : forall fuel ls st st' ld,
    leaf_loop cx fuel asy c es ls st start = Ok (st', ld) -> ext start st st' /\ start <= ws_pos st'.
  Proof.
    induction fuel as [|f IH]; intros ls st st' ld H; [discriminate|].
    cbn [leaf_loop] in H. destruct (ls =? 0); [discriminate|].
    destruct (build_leaves cx c _ 0 [] []) as [[leaves ptrs]| |]; cbn [bind] in H; try discriminate.
    destruct (write_dir cx asy c ptrs (ws_seek st start)) as [[st2 n]| |] eqn:Ew; cbn [bind] in H; try discriminate.
    assert (Hs0 : start <= ws_pos (ws_seek st start)) by (cbn; lia).
    destruct (write_dir_ext start asy c ptrs _ _ _ Hs0 Ew) as [E2 P2]. cbn [ws_seek ws_pos] in P2.
    unfold ws_tell in H. cbn [ws_log_ev ws_pos] in H.
    destruct (sub64 (ws_pos st2) start) as [rl| |]; cbn [bind] in H; try discriminate.
    assert (E3 : ext start st (ws_log_ev st2 EvPos)).
    { eapply ext_trans; [apply ext_seek|]. eapply ext_trans; [exact E2|]. now apply ext_ev. }
    destruct (rl <=? max_root_dir_length).
    - inversion H; subst. split; [exact E3|exact P2].
    - destruct (2 * ls <? two64); [|discriminate].
      destruct (IH _ _ _ _ H) as [E4 P4]. split; [now apply ext_trans with (ws_log_ev st2 EvPos)|exact P4].
  Qed.

  Lemma write_directories_ext asy c es ss st st' ld :
    write_directories cx asy c es ss st = Ok (st', ld) -> ext (ws_pos st) st st' /\ ws_pos st <= ws_pos st'.
  Proof.
    unfold write_directories, ws_tell. intros H. set (st0 := ws_log_ev st EvPos) in *.
    destruct (write_dir cx asy c es st0) as [[st1 n]| |] eqn:Ew; cbn [bind] in H; try discriminate.
    assert (Hs0 : ws_pos st <= ws_pos st0) by (cbn; lia).
    destruct (write_dir_ext (ws_pos st) asy c es _ _ _ Hs0 Ew) as [E1 P1]. cbn [st0 ws_log_ev ws_pos] in P1.
    cbn [ws_log_ev ws_pos] in H.
    destruct (sub64 (ws_pos st1) (ws_pos st)) as [rl| |]; cbn [bind] in H; try discriminate.
    assert (E2 : ext (ws_pos st) st (ws_log_ev st1 EvPos)).
    { eapply ext_trans; [apply (ext_ev _ st EvPos); exact I|]. eapply ext_trans; [exact E1|]. now apply ext_ev. }
    destruct (rl <=? max_root_dir_length).
    - inversion H; subst. split; [exact E2|exact P1].
    - destruct (leaf_loop_ext asy c es (ws_pos st) _ _ _ _ _ H) as [E3 P3].
      split; [now apply ext_trans with (ws_log_ev st1 EvPos)|exact P3].
  Qed.
End WithCtx.

(** * the archive writer *)
Section Writer.
  Context (cx : ctx).

  (** the shape of a successful [to_writer]: after the initial position query and the seek past the
      header, every write lands at or beyond [P + 127] (state [stm]); then one seek back to [P], ONE
      write of the 127 header bytes, (async: a flush,) and a final seek to the end of the archive, which
      is where the data write had left the stream *)
  Lemma to_writer_shape asy p st st' : to_writer cx asy p st = Ok st' ->
    let P := ws_pos st in
    exists stm hb,
      ext (P + header_bytes) (ws_seek (fst (ws_tell st)) (P + header_bytes)) stm /\
      P + header_bytes <= ws_pos stm /\
      length hb = 127%nat /\
      (exists h, encode_header h = Ok hb /\ h_root_off h = header_bytes /\ P + h_data_off h + h_data_len h = ws_pos stm /\
                 h_meta_off h = h_root_off h + h_root_len h /\ h_leaf_off h = h_meta_off h + h_meta_len h /\
                 h_data_off h = h_leaf_off h + h_leaf_len h) /\
      st' = ws_seek (if asy then ws_log_ev (ws_write (ws_seek stm P) hb) EvFlush else ws_write (ws_seek stm P) hb) (ws_pos stm).
  Proof.
    unfold to_writer. intros H. cbv zeta.
    destruct (finish cx (p_tm p)) as [res| |]; cbn [bind] in H; try discriminate.
    unfold ws_tell in H at 1. cbn [ws_log_ev ws_pos] in H.
    set (P := ws_pos st) in *.
    unfold cadd64 in H. destruct (N.ltb_spec (P + header_bytes) two64) as [HP|]; cbn [bind] in H; [|discriminate].
    set (st1 := ws_seek (ws_log_ev st EvPos) (P + header_bytes)) in *.
    destruct (write_directories cx asy (p_icomp p) (fr_dir res) None st1) as [[st2 leaf]| |] eqn:Ewd; cbn [bind] in H; try discriminate.
    destruct (write_directories_ext cx asy _ _ _ _ _ _ Ewd) as [E2 P2]. cbn [st1 ws_seek ws_pos] in E2, P2. fold st1 in E2.
    unfold ws_tell in H. cbn [ws_log_ev ws_pos ws_img] in H.
    destruct (sub64 (ws_pos st2) P) as [t1| |] eqn:S1; cbn [bind] in H; try discriminate.
    destruct (sub64 t1 header_bytes) as [root_len| |] eqn:S2; cbn [bind] in H; try discriminate.
    destruct (add64 header_bytes root_len) as [meta_off| |] eqn:A1; cbn [bind] in H; try discriminate.
    destruct (compress cx asy (p_icomp p) (p_meta p)) as [mbytes| |]; cbn [bind] in H; try discriminate.
    set (st3 := ws_write_codec cx asy (p_icomp p) (ws_log_ev st2 EvPos) (p_meta p) mbytes) in *.
    assert (E3 : ext (P + header_bytes) st1 st3).
    { eapply ext_trans; [exact E2|]. eapply ext_trans; [apply (ext_ev _ st2 EvPos); exact I|]. apply ext_codec. cbn [ws_log_ev ws_pos]. exact P2. }
    assert (P3 : P + header_bytes <= ws_pos st3) by (unfold st3; rewrite ws_write_codec_pos; cbn [ws_log_ev ws_pos]; lia).
    destruct (sub64 (ws_pos st3) P) as [t2| |] eqn:S3; cbn [bind] in H; try discriminate.
    destruct (sub64 t2 meta_off) as [meta_len| |] eqn:S4; cbn [bind] in H; try discriminate.
    destruct (add64 meta_off meta_len) as [leaf_off| |] eqn:A2; cbn [bind] in H; try discriminate.
    set (st4 := ws_write (ws_log_ev st3 EvPos) leaf) in *.
    assert (E4 : ext (P + header_bytes) st1 st4).
    { eapply ext_trans; [exact E3|]. eapply ext_trans; [apply (ext_ev _ st3 EvPos); exact I|]. apply ext_write. cbn [ws_log_ev ws_pos]. exact P3. }
    assert (P4 : ws_pos st4 = ws_pos st3 + nlen leaf) by (unfold st4; rewrite ws_write_pos; reflexivity).
    destruct (sub64 (ws_pos st4) P) as [t3| |] eqn:S5; cbn [bind] in H; try discriminate.
    destruct (sub64 t3 leaf_off) as [leaf_len| |] eqn:S6; cbn [bind] in H; try discriminate.
    destruct (add64 leaf_off leaf_len) as [data_off| |] eqn:A3; cbn [bind] in H; try discriminate.
    set (st5 := ws_write (ws_log_ev st4 EvPos) (fr_data res)) in *.
    assert (E5 : ext (P + header_bytes) st1 st5).
    { eapply ext_trans; [exact E4|]. eapply ext_trans; [apply (ext_ev _ st4 EvPos); exact I|]. apply ext_write. cbn [ws_log_ev ws_pos]. lia. }
    assert (P5 : ws_pos st5 = ws_pos st4 + nlen (fr_data res)) by (unfold st5; rewrite ws_write_pos; reflexivity).
    match type of H with context [encode_header ?h] => destruct (encode_header h) as [hb| |] eqn:Eh; cbn [bind] in H; try discriminate end.
    destruct (add64 P data_off) as [t4| |] eqn:A4; cbn [bind] in H; try discriminate.
    destruct (add64 t4 (nlen (fr_data res))) as [endp| |] eqn:A5; cbn [bind] in H; try discriminate.
    injection H as <-.
    exists st5, hb. split; [exact E5|]. split; [lia|]. split; [now apply header_length with (h := _) in Eh|].
    (* the final seek goes to where the data write left the stream *)
    assert (Hend : endp = ws_pos st5 /\ P + data_off + nlen (fr_data res) = ws_pos st5 /\
                   meta_off = header_bytes + root_len /\ leaf_off = meta_off + meta_len /\ data_off = leaf_off + leaf_len).
    { unfold sub64, add64 in *.
      repeat match goal with
      | H0 : (if ?b then _ else _) = Ok _ |- _ => destruct b eqn:?; [injection H0 as <-|discriminate]
      end. repeat split; lia. }
    destruct Hend as (Hend & Hd & Hm & Hl & Hdo).
    split.
    - eexists. split; [exact Eh|]. cbn [h_root_off h_data_off h_data_len h_meta_off h_root_len h_leaf_off h_meta_len h_leaf_len].
      repeat split; try assumption; try reflexivity.
    - rewrite Hend. destruct asy; reflexivity.
  Qed.
End Writer.

(** * consequences *)
Lemma before_fresh lo : before [] lo = repeat 0 (N.to_nat lo).
Proof. unfold before, pad_to. cbn [app length]. rewrite Nat.sub_0_r. apply firstn_all2. rewrite repeat_length. lia. Qed.

Section Consequences.
  Context (cx : ctx).

  (** C18: nothing before the starting position changes, the header sits at the starting position, the
      stream is left at the archive's end *)
  Theorem to_writer_start_position asy p st st' : to_writer cx asy p st = Ok st' ->
    let P := ws_pos st in
    before (ws_img st') P = before (ws_img st) P /\
    (exists hb h, length hb = 127%nat /\ section (ws_img st') P 127 = hb /\ encode_header h = Ok hb /\
                  h_root_off h = header_bytes /\ h_meta_off h = h_root_off h + h_root_len h /\
                  h_leaf_off h = h_meta_off h + h_meta_len h /\ h_data_off h = h_leaf_off h + h_leaf_len h /\
                  ws_pos st' = P + h_data_off h + h_data_len h).
  Proof.
    intros H. cbv zeta. destruct (to_writer_shape cx asy p st st' H) as (stm & hb & E & Pm & Lh & Hh & ->).
    set (P := ws_pos st) in *.
    assert (Eimg : ws_img (ws_seek (if asy then ws_log_ev (ws_write (ws_seek stm P) hb) EvFlush else ws_write (ws_seek stm P) hb) (ws_pos stm))
                   = ws_img (ws_write (ws_seek stm P) hb)) by (destruct asy; reflexivity).
    rewrite Eimg. split.
    - pose proof (before_ws_write (ws_seek stm P) hb) as Hb. cbn [ws_seek ws_pos ws_img] in Hb. rewrite Hb.
      assert (E' : ext P (ws_seek (fst (ws_tell st)) (P + header_bytes)) stm) by (apply ext_weaken with (P + header_bytes); [lia|exact E]).
      rewrite (ext_before _ _ _ E'). reflexivity.
    - destruct Hh as (h & Eh & A1 & A2 & A3 & A4 & A5). exists hb, h. split; [exact Lh|]. split.
      + pose proof (section_ws_write (ws_seek stm P) hb) as Hs. cbn [ws_seek ws_pos] in Hs.
        replace 127 with (nlen hb) by (unfold nlen; rewrite Lh; reflexivity). exact Hs.
      + cbn [ws_seek ws_pos]. repeat split; try assumption. lia.
  Qed.

  (** C17 (first half): whatever has been written before the header write — any prefix, any
      fragmentation of the section writes, any partially completed write — is rejected by the reader:
      an image produced by writes at positions >= 127 only never opens *)
  Theorem torn_before_header_rejected evs r : writes_ge 127 evs -> header_bytes = 127 ->
    exists e, from_reader cx (replay evs []) r = Err e.
  Proof.
    intros W Hhb. set (img := replay evs []).
    assert (Hb : before img 127 = repeat 0 127) by (unfold img; rewrite (before_replay 127 evs [] W); apply before_fresh).
    assert (Hd : exists e, decode_header img = Err e).
    { destruct (Nat.lt_ge_cases (length img) 127) as [Hs|Hl]; [now apply header_short|].
      apply header_rejects_magic. unfold before in Hb. change (N.to_nat 127) with 127%nat in Hb.
      assert (Ep : pad_to 127 img = img) by (unfold pad_to; replace (127 - length img)%nat with 0%nat by lia; cbn; apply app_nil_r).
      rewrite Ep in Hb.
      replace (firstn 7 img) with (firstn 7 (firstn 127 img)) by (rewrite firstn_firstn; reflexivity).
      rewrite Hb. cbn. unfold magic. discriminate. }
    destruct Hd as [e He]. unfold from_reader. rewrite He. cbn [bind]. eauto.
  Qed.

  (** C17 (second half) and C15: the header is written by ONE write, after every other write; nothing
      but a flush (async) and a seek follows it, and the very last operation is a propagating seek *)
  Theorem to_writer_log asy p st st' : to_writer cx asy p st = Ok st' ->
    let P := ws_pos st in
    exists mid hb,
      ws_log st' = EvSeek (ws_pos st') :: (if asy then [EvFlush] else []) ++ EvWrite false P hb :: EvSeek P :: mid
                   ++ EvSeek (P + header_bytes) :: EvPos :: ws_log st /\
      writes_ge (P + header_bytes) mid /\ length hb = 127%nat.
  Proof.
    intros H. cbv zeta. destruct (to_writer_shape cx asy p st st' H) as (stm & hb & (mid & L & W & I0) & Pm & Lh & _ & ->).
    exists mid, hb. split; [|split; assumption].
    cbn [ws_seek ws_pos ws_log]. destruct hb as [|b0 hr]; [discriminate|].
    destruct asy; cbn [ws_log ws_log_ev ws_write ws_write_gen ws_seek ws_pos app]; rewrite L; cbn [ws_seek ws_tell ws_log ws_log_ev fst app]; reflexivity.
  Qed.
End Consequences.

(** * fail-stop faults (C15) *)
(** an operation whose error is returned to the caller (everything except writes issued from Drop) *)
Definition propagating (e : event) : bool := match e with EvWrite true _ _ => false | _ => true end.
(** the call's result when the stream fails from operation [k] (0-based, oldest first) on: an error iff
    some operation at or after [k] propagates its error *)
Definition reports_error (evs_oldest_first : list event) (k : nat) : bool := existsb propagating (skipn k evs_oldest_first).

Lemma reports_error_last evs e k : propagating e = true -> (k < length (evs ++ [e]))%nat -> reports_error (evs ++ [e]) k = true.
Proof.
  intros He Hk. unfold reports_error. apply existsb_exists. exists e. split; [|exact He].
  rewrite app_length in Hk. cbn [length] in Hk.
  rewrite skipn_app. apply in_or_app.
  destruct (Nat.le_gt_cases k (length evs)) as [Hle|Hgt].
  - right. replace (k - length evs)%nat with 0%nat by lia. now left.
  - lia.
Qed.
