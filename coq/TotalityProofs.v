(** C06, totality: the leaf-size doubling loop of write_directories always ends with a root directory that fits,
    because one pointer entry always fits — given a codec that does not expand its input absurdly ([codec_size]). *)
From Coq Require Import List NArith Lia Bool.
Require Import PM.Base PM.Oracles PM.Params PM.Varint PM.Directory PM.DirectoryProofs PM.Stream PM.StreamProofs
  PM.DirWriter PM.SpillSpec PM.SpillProofs PM.RoundTripProofs PM.SpillRoundTrip.
Import ListNotations.
Open Scope N_scope.

Lemma enc_length : forall fuel n, (length (enc fuel n) <= fuel)%nat.
Proof. induction fuel as [|f IH]; intros n; cbn [enc]; [cbn; lia|]. destruct (n <? 128); cbn [length]; [lia|]. specialize (IH (n / 128)). lia. Qed.
Lemma varint_length n : (length (write_varint n) <= 10)%nat.
Proof. apply enc_length. Qed.
Lemma varints_length l : (length (varints l) <= 10 * length l)%nat.
Proof.
  unfold varints. induction l as [|x r IH]; [cbn; lia|]. cbn [map concat length]. rewrite app_length. pose proof (varint_length x). lia.
Qed.
Lemma spec_deltas_length : forall ids last, length (spec_deltas last ids) = length ids.
Proof. induction ids as [|i r IH]; intros last; [reflexivity|]. cbn [spec_deltas length]. now rewrite IH. Qed.
Lemma spec_offsets_length : forall es prev, length (spec_offsets prev es) = length es.
Proof. induction es as [|e r IH]; intros prev; [reflexivity|]. cbn [spec_offsets length]. now rewrite IH. Qed.
(** the plain encoding of a directory is at most 10 + 40 bytes per entry *)
Lemma spec_encode_dir_length es : (length (spec_encode_dir es) <= 10 + 40 * length es)%nat.
Proof.
  unfold spec_encode_dir. rewrite !app_length.
  pose proof (varint_length (nlen es)). pose proof (varints_length (spec_deltas 0 (map e_id es))).
  pose proof (varints_length (map e_run es)). pose proof (varints_length (map e_len es)). pose proof (varints_length (spec_offsets None es)).
  rewrite spec_deltas_length in H0. rewrite !map_length in *. rewrite spec_offsets_length in H3. unfold nlen in *. lia.
Qed.

Section Totality.
  Context (cx : ctx).
  Hypothesis Hsize : codec_size cx.

  Lemma encode_dir_total asy c es : c <> CUnknown -> valid_dir es ->
    exists z, encode_dir cx asy c es = Ok z /\ nlen z <= 2 * (10 + 40 * nlen es) + 1024.
  Proof.
    intros Hc Hv. unfold encode_dir. rewrite (encode_is_spec es Hv).
    pose proof (spec_encode_dir_length es) as Hl.
    destruct c; try congruence; cbn [compress bind]; eexists; (split; [reflexivity|]).
    - unfold nlen. lia.
    - pose proof (Hsize asy CGzip (spec_encode_dir es)). unfold nlen in *. lia.
    - pose proof (Hsize asy CBrotli (spec_encode_dir es)). unfold nlen in *. lia.
    - pose proof (Hsize asy CZstd (spec_encode_dir es)). unfold nlen in *. lia.
  Qed.

  Lemma leaves_spec_total c : c <> CUnknown -> forall cs off, Forall valid_dir cs ->
    exists bs ps, leaves_spec cx c cs off = Ok (bs, ps).
  Proof.
    intros Hc. induction cs as [|ch r IH]; intros off Hv; [cbn; eauto|]. inversion Hv as [|? ? Hv1 Hv2]; subst.
    cbn [leaves_spec]. destruct ch as [|first rest]; [now apply IH|].
    destruct (encode_dir_total false c (first :: rest) Hc Hv1) as (blob & -> & _). cbn [bind].
    destruct (IH (off + nlen blob) Hv2) as (bs & ps & ->). cbn [bind]. eauto.
  Qed.

  Lemma chunks_all {A} (l : list A) k : l <> [] -> (length l <= k)%nat -> chunks k l = [l].
  Proof.
    intros Hne Hk. unfold chunks. destruct l as [|x r] eqn:El; [congruence|]. rewrite <- El in *.
    assert (length l = S (length r)) by (rewrite El; reflexivity).
    rewrite H. cbn [chunks_fuel]. rewrite El at 1. rewrite firstn_all2 by lia. rewrite skipn_all2 by lia.
    destruct (length r); reflexivity.
  Qed.

  (** the premises on sizes that the format itself imposes (u32 leaf lengths, u64 offsets) *)
  Definition blobs_fit (c : compression) (es : list entry) : Prop :=
    forall k blobs ptrs, leaves_spec cx c (chunks k es) 0 = Ok (blobs, ptrs) ->
      Forall (fun b => 1 <= nlen b < two32) blobs /\ nlen (concat blobs) + 1 < two64.

  Lemma leaf_loop_total asy c es start : c <> CUnknown -> valid_dir es -> es <> [] -> nlen es < two63 ->
    blobs_fit c es -> 1124 <= max_root_dir_length ->
    forall f ls st, 1 <= ls -> nlen es <= ls * 2 ^ N.of_nat f ->
    exists r, leaf_loop cx (S f) asy c es ls st start = Ok r.
  Proof.
    intros Hc Hv Hne Hn Hbf Hbudget. induction f as [|f IH]; intros ls st Hls Hfuel.
    all: cbn [leaf_loop]; destruct (N.eqb_spec ls 0) as [|_]; [lia|];
      rewrite build_leaves_spec; cbn [rev app];
      set (k := N.to_nat (N.min ls (N.max 1 (nlen es))));
      assert (Hk : (1 <= k)%nat) by (unfold k; lia);
      destruct (leaves_spec_total c Hc (chunks k es) 0 (chunks_fuel_valid _ _ _ Hv)) as (blobs & ptrs & El);
      rewrite El; cbn [bind];
      destruct (Hbf k blobs ptrs El) as [Hb1 Hb2];
      destruct (leaves_spec_ptrs cx c (chunks k es) 0 blobs ptrs El) as (Pok & Pasc & _);
      try (rewrite chunks_concat by exact Hk; apply Hv); try exact Hb1; try lia;
      destruct (encode_dir_total asy c ptrs Hc (conj Pok Pasc)) as (z & Hz & Hzl);
      destruct (write_dir_ok cx asy c ptrs (ws_seek st start) z Hz) as (st2 & Hw & _ & Hp2);
      rewrite Hw; cbn [bind]; unfold ws_tell; cbn [ws_log_ev ws_pos]; rewrite Hp2; cbn [ws_seek ws_pos];
      unfold sub64; destruct (N.leb_spec start (start + nlen z)); [|lia]; cbn [bind];
      replace (start + nlen z - start) with (nlen z) by lia;
      destruct (N.leb_spec (nlen z) max_root_dir_length) as [Hfit|Hbig]; [eauto|].
    - (* no fuel to double: then ls >= n and one pointer fits *)
      exfalso. rewrite N.mul_1_r in Hfuel.
      assert (Ek : chunks k es = [es]) by (apply chunks_all; [exact Hne|unfold k, nlen in *; lia]).
      rewrite Ek in El. cbn [leaves_spec] in El. destruct es as [|first rest]; [congruence|].
      destruct (encode_dir cx false c (first :: rest)); cbn [bind] in El; try discriminate. injection El as <- <-.
      unfold nlen in Hzl, Hbig. cbn [length] in Hzl. lia.
    - (* doubling *)
      assert (Hlt : ls < nlen es).
      { destruct (N.lt_ge_cases ls (nlen es)) as [|Hge]; [assumption|]. exfalso.
        assert (Ek : chunks k es = [es]) by (apply chunks_all; [exact Hne|unfold k, nlen in *; lia]).
        rewrite Ek in El. cbn [leaves_spec] in El. destruct es as [|first rest]; [congruence|].
        destruct (encode_dir cx false c (first :: rest)); cbn [bind] in El; try discriminate. injection El as <- <-.
        unfold nlen in Hzl, Hbig. cbn [length] in Hzl. lia. }
      destruct (N.ltb_spec (2 * ls) two64) as [_|Hov]; [|unfold two63, two64 in *; lia].
      apply IH; [lia|]. rewrite Nat2N.inj_succ, N.pow_succ_r' in Hfuel. lia.
  Qed.

  Theorem write_directories_total asy c es ss st : c <> CUnknown -> valid_dir es -> nlen es < two63 ->
    blobs_fit c es -> 1124 <= max_root_dir_length -> 1 <= default_leaf_size -> ss <> Some 0 ->
    exists r, write_directories cx asy c es ss st = Ok r.
  Proof.
    intros Hc Hv Hn Hbf Hbudget Hdl Hss. unfold write_directories, ws_tell.
    destruct (encode_dir_total asy c es Hc Hv) as (z & Hz & Hzl).
    destruct (write_dir_ok cx asy c es (ws_log_ev st EvPos) z Hz) as (st1 & Hw & _ & Hp1).
    rewrite Hw. cbn [bind ws_log_ev ws_pos]. cbn [ws_log_ev ws_pos] in Hp1. rewrite Hp1.
    unfold sub64. destruct (N.leb_spec (ws_pos st) (ws_pos st + nlen z)); [|lia]. cbn [bind].
    replace (ws_pos st + nlen z - ws_pos st) with (nlen z) by lia.
    destruct (N.leb_spec (nlen z) max_root_dir_length) as [Hfit|Hbig]; [eauto|].
    assert (Hne : es <> []) by (intros ->; unfold nlen in Hzl, Hbig; cbn [length] in Hzl; lia).
    apply (leaf_loop_total asy c es (ws_pos st) Hc Hv Hne Hn Hbf Hbudget 64).
    - destruct ss as [k|]; [destruct (N.eq_dec k 0); [congruence|lia]|exact Hdl].
    - assert (1 <= match ss with Some k => k | None => default_leaf_size end)
        by (destruct ss as [k|]; [destruct (N.eq_dec k 0); [congruence|lia]|exact Hdl]).
      assert (two63 <= 2 ^ N.of_nat 64) by (vm_compute; discriminate). nia.
  Qed.
End Totality.

(** * the whole archive write succeeds *)
Require Import PM.Header PM.HeaderProofs PM.Float PM.TileManager PM.Archive PM.FinishSpec.
Section ToBytesTotal.
  Context (cx : ctx).
  Hypothesis Hsize : codec_size cx.

  Theorem to_bytes_total asy p res mb :
    finish cx (p_tm p) = Ok res -> p_icomp p <> CUnknown ->
    valid_dir (fr_dir res) -> nlen (fr_dir res) < two63 -> blobs_fit cx (p_icomp p) (fr_dir res) ->
    compress cx asy (p_icomp p) (p_meta p) = Ok mb ->
    (forall k blobs ptrs, leaves_spec cx (p_icomp p) (chunks k (fr_dir res)) 0 = Ok (blobs, ptrs) ->
                          16384 + nlen mb + nlen (concat blobs) + nlen (fr_data res) + 1 < two64) ->
    16384 + nlen mb + nlen (fr_data res) + 1 < two64 ->
    fr_addressed res < two64 -> fr_entries res < two64 -> fr_contents res < two64 ->
    p_minz p < 256 -> p_maxz p < 256 -> p_cz p < 256 ->
    header_bytes = 127 -> max_root_dir_length <= 16257 -> 1124 <= max_root_dir_length -> 1 <= default_leaf_size ->
    exists img, to_bytes cx asy p = Ok img.
  Proof.
    intros Hf Hc Hv Hn Hbf Hm Hsum Hsum0 C1 C2 C3 Z1 Z2 Z3 Hhb Hmax Hbudget Hdl.
    unfold to_bytes, to_writer. rewrite Hf. cbn [bind].
    unfold ws_tell at 1. cbn [ws_new ws_log_ev ws_pos].
    unfold cadd64. rewrite Hhb. destruct (N.ltb_spec (0 + 127) two64); [|unfold two64 in *; lia]. cbn [bind].
    set (st1 := ws_seek _ (0 + 127)).
    assert (P1 : ws_pos st1 = 127) by reflexivity.
    destruct (write_directories_total cx Hsize asy (p_icomp p) (fr_dir res) None st1 Hc Hv Hn Hbf Hbudget Hdl ltac:(discriminate)) as ([st2 ld] & Ew).
    rewrite Ew. cbn [bind].
    (* where the stream is after the directories, and how long the leaf section is *)
    assert (Hpos : exists root : bytes, nlen root <= max_root_dir_length /\ ws_pos st2 = 127 + nlen root /\
                                16384 + nlen mb + nlen ld + nlen (fr_data res) + 1 < two64).
    { destruct (write_directories_spec cx asy (p_icomp p) (fr_dir res) None st1 st2 ld Ew) as [(root & _ & Hfit & -> & Hp & _)|(root0 & _ & _ & Hsp)].
      - exists root. rewrite P1 in Hp. repeat split; try assumption. change (nlen (@nil N)) with 0. lia.
      - destruct Hsp as (k & blobs & ptrs & root & _ & Hl & -> & _ & Hfit & Hp & _). exists root. rewrite P1 in Hp.
        repeat split; try assumption. exact (Hsum k blobs ptrs Hl). }
    destruct Hpos as (root & Hfit & P2 & Hs).
    unfold ws_tell. cbn [ws_log_ev ws_pos ws_img]. rewrite P2. unfold sub64, add64.
    destruct (N.leb_spec 0 (127 + nlen root)); [|lia]. cbn [bind]. rewrite N.sub_0_r.
    destruct (N.leb_spec 127 (127 + nlen root)); [|lia]. cbn [bind].
    replace (127 + nlen root - 127) with (nlen root) by lia.
    destruct (N.ltb_spec (127 + nlen root) two64); [|lia]. cbn [bind].
    rewrite Hm. cbn [bind].
    rewrite ws_write_codec_pos. cbn [ws_log_ev ws_pos]. rewrite P2.
    destruct (N.leb_spec 0 (127 + nlen root + nlen mb)); [|lia]. cbn [bind]. rewrite N.sub_0_r.
    destruct (N.leb_spec (127 + nlen root) (127 + nlen root + nlen mb)); [|lia]. cbn [bind].
    replace (127 + nlen root + nlen mb - (127 + nlen root)) with (nlen mb) by lia.
    destruct (N.ltb_spec (127 + nlen root + nlen mb) two64); [|lia]. cbn [bind].
    rewrite ws_write_pos. cbn [ws_log_ev ws_pos]. rewrite ws_write_codec_pos. cbn [ws_log_ev ws_pos]. rewrite P2.
    destruct (N.leb_spec 0 (127 + nlen root + nlen mb + nlen ld)); [|lia]. cbn [bind]. rewrite N.sub_0_r.
    destruct (N.leb_spec (127 + nlen root + nlen mb) (127 + nlen root + nlen mb + nlen ld)); [|lia]. cbn [bind].
    replace (127 + nlen root + nlen mb + nlen ld - (127 + nlen root + nlen mb)) with (nlen ld) by lia.
    destruct (N.ltb_spec (127 + nlen root + nlen mb + nlen ld) two64); [|lia]. cbn [bind].
    match goal with |- context [encode_header ?h0] => set (h := h0) end.
    assert (Hfo : header_fields_ok h).
    { unfold header_fields_ok, h. cbn. unfold two64 in *. repeat split; try lia; assumption. }
    destruct (header_dec_enc h [] Hfo Hhb) as (hb & -> & _). cbn [bind].
    destruct (N.ltb_spec (0 + (127 + nlen root + nlen mb + nlen ld)) two64); [|lia]. cbn [bind].
    destruct (N.ltb_spec (0 + (127 + nlen root + nlen mb + nlen ld) + nlen (fr_data res)) two64); [|lia]. cbn [bind].
    eauto.
  Qed.
End ToBytesTotal.

(** * C01 without the "write succeeds" premise *)
From Coq Require Import Sorting.Sorted.
Require Import PM.TileManagerProofs PM.FinishProofs PM.PlaceProofs PM.ReadBackProofs PM.DirReader.

Lemma spec_finish_facts (tiles : list (N * bytes)) :
  Forall (fun t => fst t < two63 /\ 1 <= nlen (snd t) /\ nlen (snd t) < two32) tiles -> nlen tiles + 1 < two32 ->
  StronglySorted (fun a b => fst a < fst b) tiles -> nlen (fr_data (spec_finish tiles)) + 1 < two64 ->
  valid_dir (fr_dir (spec_finish tiles)) /\ (length (fr_dir (spec_finish tiles)) <= length tiles)%nat /\
  fr_addressed (spec_finish tiles) < two64 /\ fr_entries (spec_finish tiles) < two64 /\ fr_contents (spec_finish tiles) < two64.
Proof.
  intros Htiles Hcnt Hsorted Hdsz. set (res := spec_finish tiles) in *.
  pose proof (place_slices tiles [] 0 [] eq_refl) as Hps. cbv zeta in Hps. cbn [app] in Hps.
  destruct Hps as [_ HF2]; [intros c0 o0 []|].
  assert (Edata : fr_data res = concat (snd (place tiles [] 0))) by (unfold res, spec_finish; destruct (place tiles [] 0); reflexivity).
  assert (Edir : fr_dir res = runs (fst (place tiles [] 0)) None) by (unfold res, spec_finish; destruct (place tiles [] 0); reflexivity).
  set (pl := fst (place tiles [] 0)) in *. set (data := fr_data res) in *. rewrite <- Edata in HF2.
  destruct (pl_of_tiles tiles pl 0 data HF2 Hsorted) as (Hps & Hpok & Hpin & Htin & Huniq).
  { eapply Forall_impl; [|exact Htiles]. intros t (B & C & D). split; [lia|]. split; [exact B|]. split; [exact C|exact D]. }
  { exact Hdsz. }
  assert (Hlen : nlen pl = nlen tiles).
  { unfold nlen. f_equal. clear -HF2. induction HF2; [reflexivity|cbn [length]; now f_equal]. }
  destruct (runs_valid pl None None) as [Hvok Hvasc]; try assumption; try exact I; try reflexivity.
  { cbn [run_of]. lia. }
  assert (Hvd : valid_dir (fr_dir res)) by (rewrite Edir; split; assumption).
  assert (Hnp : Forall (fun e => e_run e <> 0) (fr_dir res)) by (rewrite Edir; apply runs_no_pointers; exact I).
  assert (Hexp : expand (fr_dir res) = pl) by (rewrite Edir, runs_expand by exact I; reflexivity).
  assert (Hnes : (length (fr_dir res) <= length tiles)%nat).
  { assert (length (fr_dir res) <= length (expand (fr_dir res)))%nat.
    { clear -Hnp. induction (fr_dir res) as [|e r IH]; [cbn; lia|]. inversion Hnp; subst. cbn [expand flat_map length].
      rewrite app_length. change (flat_map _ r) with (expand r).
      assert (1 <= length (expand_entry (e_id e) (N.to_nat (e_run e)) (e_off e) (e_len e)))%nat.
      { destruct (N.to_nat (e_run e)) eqn:En; [lia|cbn; lia]. }
      specialize (IH H2). lia. }
    rewrite Hexp in H. unfold nlen in Hlen. lia. }
  split; [exact Hvd|]. split; [exact Hnes|].
  destruct (spec_finish_data tiles) as (_ & Hco & Had). fold res in Hco, Had. rewrite Had, Hco.
  assert (Hen : fr_entries res = nlen (fr_dir res)) by (unfold res, spec_finish; destruct (place tiles [] 0); reflexivity).
  rewrite Hen.
  pose proof (first_occ_length (map snd tiles) []) as Hfo0. rewrite map_length in Hfo0.
  unfold nlen, two64, two32 in *. repeat split; lia.
Qed.

Section RoundTripTotal.
  Context (cx : ctx).
  Hypothesis Hinv : codec_inv cx.
  Hypothesis Hsize : codec_size cx.

  (** C01 in full: the write succeeds and the written bytes open to the same content, whether or not leaf
      directories are needed *)
  Theorem roundtrip_total asy p tiles U :
    Inv cx (p_tm p) -> logical (p_tm p) = Ok tiles ->
    hash_inj_on cx U -> (forall c, In c U -> nlen c < two32) ->
    Forall (fun t => In (snd t) U /\ fst t < two63 /\ 1 <= nlen (snd t)) tiles -> nlen tiles + 1 < two32 ->
    StronglySorted (fun a b => fst a < fst b) tiles ->
    p_icomp p <> CUnknown -> p_meta p <> [] -> json_parse cx (p_meta p) = Ok (Some (p_meta p)) ->
    (forall b z, b <> [] -> compress cx asy (p_icomp p) b = Ok z -> z <> []) ->
    p_minz p < 256 -> p_maxz p < 256 -> p_cz p < 256 ->
    header_bytes = 127 -> max_dir_depth = Some 3 -> max_root_dir_length <= 16257 -> 1124 <= max_root_dir_length -> 1 <= default_leaf_size ->
    blobs_fit cx (p_icomp p) (fr_dir (spec_finish tiles)) ->
    (forall mb, compress cx asy (p_icomp p) (p_meta p) = Ok mb ->
       16384 + nlen mb + nlen (fr_data (spec_finish tiles)) + 1 < two64 /\
       (forall root0, encode_dir cx asy (p_icomp p) (fr_dir (spec_finish tiles)) = Ok root0 ->
                      127 + nlen root0 + nlen mb + nlen (fr_data (spec_finish tiles)) + 1 < two64) /\
       forall k blobs ptrs, leaves_spec cx (p_icomp p) (chunks k (fr_dir (spec_finish tiles))) 0 = Ok (blobs, ptrs) ->
                            16384 + nlen mb + nlen (concat blobs) + nlen (fr_data (spec_finish tiles)) + 1 < two64) ->
    exists img p', to_bytes cx asy p = Ok img /\ from_reader cx img full_range = Ok p' /\
      (forall id c, In (id, c) tiles -> get_tile (p_tm p') id = Ok (Some c)) /\
      (forall id, ~ In id (map fst tiles) -> get_tile (p_tm p') id = Ok None) /\
      p_meta p' = p_meta p /\ p_ttype p' = p_ttype p /\ p_tcomp p' = p_tcomp p /\ p_icomp p' = p_icomp p /\
      p_minz p' = p_minz p /\ p_maxz p' = p_maxz p /\ p_cz p' = p_cz p /\
      p_min_lon p' = quantize_coord (p_min_lon p) /\ p_min_lat p' = quantize_coord (p_min_lat p) /\
      p_max_lon p' = quantize_coord (p_max_lon p) /\ p_max_lat p' = quantize_coord (p_max_lat p) /\
      p_clon p' = quantize_coord (p_clon p) /\ p_clat p' = quantize_coord (p_clat p).
  Proof.
    intros HI Hlog Hinj Hsmall Htiles Hcnt Hsorted Hc Hmne Hjson Hcne Z1 Z2 Z3 Hhb Hdepth Hmax Hbudget Hdl Hbf Hsz.
    assert (Hfin : finish cx (p_tm p) = Ok (spec_finish tiles)).
    { apply (finish_is_spec cx (p_tm p) tiles U); try assumption.
      eapply Forall_impl; [|exact Htiles]. intros t (A & B & _). split; assumption. }
    assert (exists mb, compress cx asy (p_icomp p) (p_meta p) = Ok mb) as (mb & Hmb)
      by (unfold compress; destruct (p_icomp p); try congruence; eauto).
    destruct (Hsz mb Hmb) as (S0 & S1 & S2).
    destruct (spec_finish_facts tiles) as (Hvd & Hnes & C1 & C2 & C3); try assumption.
    { eapply Forall_impl; [|exact Htiles]. intros t (A & B & C). split; [exact B|]. split; [exact C|now apply Hsmall]. }
    { lia. }
    destruct (to_bytes_total cx Hsize asy p (spec_finish tiles) mb Hfin Hc Hvd) as (img & Hto); try assumption.
    { unfold nlen, two63, two32 in *. lia. }
    exists img.
    destruct (encode_dir_total cx Hsize asy (p_icomp p) (fr_dir (spec_finish tiles)) Hc Hvd) as (root0 & Hroot & _).
    destruct (roundtrip_any cx Hinv asy p tiles U root0 img) as (p' & Hrest); try assumption.
    - intros k blobs ptrs Hl. apply (Hbf k blobs ptrs Hl).
    - intros mb' Hmb'. rewrite Hmb in Hmb'. injection Hmb' as <-. now apply S1.
    - exists p'. split; [exact Hto|exact Hrest].
  Qed.
End RoundTripTotal.

(** * C04 / C16: the save itself succeeds *)
Require Import PM.History PM.HistoryProofs PM.ReopenProofs.
Section SaveTotal.
  Context (cx : ctx).
  Hypothesis Hinv : codec_inv cx.
  Hypothesis Hsize : codec_size cx.

  (** the remaining size conditions of a save, on the logical content *)
  Definition save_sizes (asy : bool) (p : pmtiles) : Prop :=
    forall tiles, logical (p_tm p) = Ok tiles ->
      nlen (fr_data (spec_finish tiles)) + 1 < two64 /\
      blobs_fit cx (p_icomp p) (fr_dir (spec_finish tiles)) /\
      forall mb, compress cx asy (p_icomp p) (p_meta p) = Ok mb ->
        16384 + nlen mb + nlen (fr_data (spec_finish tiles)) + 1 < two64 /\
        forall k blobs ptrs, leaves_spec cx (p_icomp p) (chunks k (fr_dir (spec_finish tiles))) 0 = Ok (blobs, ptrs) ->
                             16384 + nlen mb + nlen (concat blobs) + nlen (fr_data (spec_finish tiles)) + 1 < two64.

  Theorem save_total asy p m : Rep cx p m -> save_premises cx asy p m -> save_sizes asy p ->
    max_root_dir_length <= 16257 -> 1124 <= max_root_dir_length -> 1 <= default_leaf_size ->
    exists b, to_bytes cx asy p = Ok b.
  Proof.
    intros HR [U Hinj Hsm Hct Hcnt Hc [Hmne Hjson] Hcne (Z1 & Z2 & Z3) [Hhb Hdepth] _] Hss Hmax Hbudget Hdl.
    destruct (logical_of_rep cx p m HR) as (tiles & Hlog & Hsorted & Hchar).
    destruct (Hss tiles Hlog) as (Hd & Hbf & Hsums).
    assert (Htl : Forall (fun t => In (snd t) U /\ fst t < two63 /\ 1 <= nlen (snd t)) tiles).
    { apply Forall_forall. intros [id c] Hin. cbn [fst snd]. apply (Hct id c). now apply Hchar. }
    assert (Hlen : (length tiles <= length m)%nat).
    { assert (Hnd : NoDup (map fst tiles)).
      { clear -Hsorted. induction Hsorted as [|a r _ IH Hall]; [constructor|]. cbn [map]. constructor; [|exact IH].
        intros Hin. apply in_map_iff in Hin. destruct Hin as (x & E & Hx). rewrite Forall_forall in Hall. specialize (Hall x Hx). lia. }
      rewrite <- (map_length fst tiles), <- (map_length fst m). apply NoDup_incl_length; [exact Hnd|].
      intros id Hin. apply in_map_iff in Hin. destruct Hin as ([i c] & <- & Hx). cbn [fst].
      change (map fst m) with (akeys m). apply aget_in_keys. rewrite (proj1 (Hchar i c) Hx). discriminate. }
    assert (Hfin : finish cx (p_tm p) = Ok (spec_finish tiles)).
    { apply (finish_is_spec cx (p_tm p) tiles U); try assumption; [apply HR| |unfold nlen in *; lia].
      eapply Forall_impl; [|exact Htl]. intros t (A & B & _). split; assumption. }
    assert (exists mb, compress cx asy (p_icomp p) (p_meta p) = Ok mb) as (mb & Hmb)
      by (unfold compress; destruct (p_icomp p); try congruence; eauto).
    destruct (Hsums mb Hmb) as (S0 & S2).
    destruct (spec_finish_facts tiles) as (Hvd & Hnes & C1 & C2 & C3); try assumption.
    { eapply Forall_impl; [|exact Htl]. intros t (A & B & C). split; [exact B|]. split; [exact C|now apply Hsm]. }
    { unfold nlen in *. lia. }
    apply (to_bytes_total cx Hsize asy p (spec_finish tiles) mb Hfin Hc Hvd); try assumption.
    unfold nlen, two63, two32 in *. lia.
  Qed.
End SaveTotal.
