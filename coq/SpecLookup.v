(** The lookup procedure of the PMTiles v3 specification and spec-validity of a directory tree, formalised
    independently of the reader (used by C03; compared with the harness's independent reader in the runs). *)
From Coq Require Import List NArith Bool.
Require Import PM.Base PM.Oracles PM.Directory PM.Stream.
Import ListNotations.
Open Scope N_scope.

(** the specification's search within one directory: the last entry whose tile id is <= the target *)
Fixpoint last_le (es : list entry) (id : N) (best : option entry) : option entry :=
  match es with
  | [] => best
  | e :: r => last_le r id (if e_id e <=? id then Some e else best)
  end.
Section SpecLookup.
  Context (cx : ctx) (c : compression) (img : bytes) (leaf_off : N).

  (** what one entry answers for a target id: a tile entry answers for the ids of its run; a pointer hands the
      question to its leaf directory *)
  Definition resolve_entry (sub : N -> N -> N -> outcome (option (N * N))) (e : entry) (id : N) : outcome (option (N * N)) :=
    if e_run e =? 0 then do o <- cadd64 leaf_off (e_off e); sub o (e_len e) id
    else if id <? e_id e + e_run e then Ok (Some (e_off e, e_len e)) else Ok None.

  (** the lookup procedure of the PMTiles v3 specification, from the directory at [off, off+len) *)
  Fixpoint spec_lookup (fuel : nat) (off len : N) (id : N) : outcome (option (N * N)) :=
    match fuel with
    | O => Err EInvalid
    | S f =>
      do es <- decode_dir cx c (section img off len);
      match last_le es id None with
      | None => Ok None
      | Some e => resolve_entry (spec_lookup f) e id
      end
    end.

  (** spec-validity of the entries of one directory below the bound [hi]: every entry starts before the next one
      (or [hi]); a run ends there at the latest; a leaf pointed to is itself valid and stays between its
      pointer's id and the next entry's *)
  Fixpoint wf_entries (wf_sub : N -> N -> N -> N -> Prop) (es : list entry) (hi : N) : Prop :=
    match es with
    | [] => True
    | e :: r =>
      let nb := match r with [] => hi | e' :: _ => e_id e' end in
      e_id e < nb /\
      (if e_run e =? 0 then exists o, cadd64 leaf_off (e_off e) = Ok o /\ wf_sub o (e_len e) (e_id e) nb
       else e_id e + e_run e <= nb) /\
      wf_entries wf_sub r hi
    end.
  Fixpoint wf_dir (fuel : nat) (off len lo hi : N) : Prop :=
    match fuel with
    | O => False
    | S f => exists es, decode_dir cx c (section img off len) = Ok es /\ hi <= two64 /\
                        (match es with [] => True | e :: _ => lo <= e_id e end) /\ wf_entries (wf_dir f) es hi
    end.

End SpecLookup.
