(** What [finish] must compute, stated on the logical content only: the list of (tile id, content)
    pairs sorted by id.  No hashes, no internal maps. *)
Require Import PM.Base PM.Oracles PM.Directory PM.TileManager.
Open Scope N_scope.

Definition beq (a b : bytes) : bool := if list_eq_dec N.eq_dec a b then true else false.

(** resolve the tiles of a store, in the given order, to their contents ([None] contents are skipped) *)
Fixpoint resolve (s : tm) (l : list (N * tile)) : outcome (list (N * bytes)) :=
  match l with
  | [] => Ok []
  | (id, t) :: r =>
    do oc <- tile_content s t;
    do rest <- resolve s r;
    match oc with Some c => Ok ((id, c) :: rest) | None => Ok rest end
  end.
(** the logical content of a store: (id, content) sorted by id *)
Definition logical (s : tm) : outcome (list (N * bytes)) := resolve s (IdSort.sort (tile_by_id s)).

Fixpoint find_seen (c : bytes) (seen : list (bytes * N)) : option N :=
  match seen with
  | [] => None
  | (c', off) :: r => if beq c c' then Some off else find_seen c r
  end.

(** placement: each tile gets (id, offset, length); a content seen before reuses its offset, a new
    content is appended at the running end of the data section *)
Fixpoint place (tiles : list (N * bytes)) (seen : list (bytes * N)) (pos : N)
  : list (N * N * N) * list bytes :=
  match tiles with
  | [] => ([], [])
  | (id, c) :: r =>
    match find_seen c seen with
    | Some off => let '(pl, ds) := place r seen pos in ((id, off, nlen c) :: pl, ds)
    | None => let '(pl, ds) := place r ((c, pos) :: seen) (pos + nlen c) in ((id, pos, nlen c) :: pl, c :: ds)
    end
  end.

(** run-length compression: a tile extends the current run iff its id is the next one and it has the
    same offset and length *)
Fixpoint runs (pl : list (N * N * N)) (cur : option entry) : list entry :=
  match pl with
  | [] => match cur with Some e => [e] | None => [] end
  | (id, off, len) :: r =>
    match cur with
    | Some e =>
      if (id =? e_id e + e_run e) && (off =? e_off e) && (len =? e_len e)
      then runs r (Some (mkEntry (e_id e) (e_off e) (e_len e) (e_run e + 1)))
      else e :: runs r (Some (mkEntry id off len 1))
    | None => runs r (Some (mkEntry id off len 1))
    end
  end.

Definition spec_finish (tiles : list (N * bytes)) : finish_result :=
  let '(pl, ds) := place tiles [] 0 in
  let es := runs pl None in
  mkFR (concat ds) (nlen tiles) (nlen es) (nlen ds) es.

(** distinct contents in first-occurrence order *)
Fixpoint first_occ (l : list bytes) (seen : list bytes) : list bytes :=
  match l with
  | [] => []
  | c :: r => if existsb (beq c) seen then first_occ r seen else c :: first_occ r (c :: seen)
  end.

(** expansion of run-length entries back into per-tile placements *)
Fixpoint expand_entry (id : N) (k : nat) (off len : N) : list (N * N * N) :=
  match k with O => [] | S k' => (id, off, len) :: expand_entry (id + 1) k' off len end.
Definition expand (es : list entry) : list (N * N * N) :=
  flat_map (fun e => expand_entry (e_id e) (N.to_nat (e_run e)) (e_off e) (e_len e)) es.

(** two adjacent entries that could have been merged *)
Definition mergeable (a b : entry) : Prop :=
  e_id b = e_id a + e_run a /\ e_off b = e_off a /\ e_len b = e_len a.
Fixpoint no_mergeable (es : list entry) : Prop :=
  match es with
  | a :: ((b :: _) as r) => ~ mergeable a b /\ no_mergeable r
  | _ => True
  end.

(** ids strictly ascending *)
Fixpoint ids_ascending (l : list (N * bytes)) : Prop :=
  match l with
  | (a, _) :: (((b, _) :: _) as r) => a < b /\ ids_ascending r
  | _ => True
  end.
