(** util::write_directories / only_leaf_pointer_strategy (src/util/write_directories.rs) *)
Require Import PM.Base PM.Oracles PM.Params PM.Directory PM.Stream.
Open Scope N_scope.

(** [slice.chunks(k)], k >= 1 *)
Fixpoint chunks_fuel {A} (fuel : nat) (k : nat) (l : list A) : list (list A) :=
  match fuel with
  | O => []
  | S f => match l with
           | [] => []
           | _ => firstn k l :: chunks_fuel f k (skipn k l)
           end
  end.
Definition chunks {A} (k : nat) (l : list A) : list (list A) := chunks_fuel (length l) k l.

Section WithCtx.
  Context (cx : ctx).

  (** one pass over the chunks: the leaf section so far (reversed list of leaf blobs), its length, and
      the pointer entries (reversed).  Leaf directories are always written with the synchronous
      [to_writer] into an in-memory cursor, in the async variant too. *)
  Fixpoint build_leaves (c : compression) (cs : list (list entry)) (leaf_len : N)
           (rev_leaves : list bytes) (rev_ptrs : list entry) : outcome (list bytes * list entry) :=
    match cs with
    | [] => Ok (rev rev_leaves, rev rev_ptrs)
    | ch :: r =>
      match ch with
      | [] => build_leaves c r leaf_len rev_leaves rev_ptrs      (* [if entries.is_empty() { continue }] *)
      | first :: _ =>
        do blob <- encode_dir cx false c ch;
        let ptr := mkEntry (e_id first) leaf_len (nlen blob mod two32) 0 in   (* [as u32] *)
        build_leaves c r (leaf_len + nlen blob) (blob :: rev_leaves) (ptr :: rev_ptrs)
      end
    end.

  (** the doubling loop; [fuel] bounds the number of doublings (64 suffices: leaf_size is a usize) *)
  Fixpoint leaf_loop (fuel : nat) (asy : bool) (c : compression) (es : list entry) (leaf_size : N)
           (st : wstream) (root_start : N) : outcome (wstream * bytes) :=
    match fuel with
    | O => Crash OutOfFuel
    | S f =>
      if leaf_size =? 0 then Crash IndexOob else          (* chunks(0) panics *)
      (* chunks(k) for k >= len is chunks(len): keeps the unary chunk size small *)
      do (leaves, ptrs) <- build_leaves c (chunks (N.to_nat (N.min leaf_size (N.max 1 (nlen es)))) es) 0 [] [];
      let st1 := ws_seek st root_start in
      do root <- encode_dir cx asy c ptrs;
      let st2 := ws_write st1 root in
      if nlen root <=? max_root_dir_length then Ok (st2, concat leaves)
      else if 2 * leaf_size <? two64 then leaf_loop f asy c es (2 * leaf_size) st2 root_start
      else Crash Overflow
    end.

  (** [write_directories_impl]; [start_size = None] means the default (4096) *)
  Definition write_directories (asy : bool) (c : compression) (es : list entry) (start_size : option N)
             (st : wstream) : outcome (wstream * bytes) :=
    let start_pos := ws_pos st in
    do root <- encode_dir cx asy c es;
    let st1 := ws_write st root in
    if nlen root <=? max_root_dir_length then Ok (st1, [])
    else leaf_loop 65 asy c es (match start_size with Some k => k | None => default_leaf_size end) st1 start_pos.
End WithCtx.
