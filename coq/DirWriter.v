(** util::write_directories / only_leaf_pointer_strategy (src/util/write_directories.rs) *)
Require Import PM.Base PM.Oracles PM.Params PM.Directory PM.Stream.
Open Scope N_scope.

(** [slice.chunks(k)], k >= 1 *)
Fixpoint chunks_fuel {A} (fuel : nat) (k : nat) (l : list A) : list (list A) :=
  match fuel with
  | O => []
  | S f => match l with
           | [] => []
           | _ => firstn k l :: chunks_fuel f k (skipn k l)
           end
  end.
Definition chunks {A} (k : nat) (l : list A) : list (list A) := chunks_fuel (length l) k l.

Section WithCtx.
  Context (cx : ctx).

  (** what a codec writer wrapped around the stream does to it when [plain] is written through it
      and it is then flushed (sync; the encoder is finished by Drop) or closed (async):
      [z] is the complete compressed output.  With [CNone] the writer is the stream itself. *)
  Definition ws_write_codec (asy : bool) (c : compression) (st : wstream) (plain z : bytes) : wstream :=
    if asy then ws_log_ev (ws_write st z) EvClose
    else match c with
         | CNone | CUnknown => ws_log_ev (ws_write st z) EvFlush
         | _ =>
           let t := N.to_nat (N.min (drop_tail cx c plain) (nlen z)) in
           let k := (length z - t)%nat in
           ws_write_gen true (ws_log_ev (ws_write st (firstn k z)) EvFlush) (skipn k z)
         end.

  (** what a directory writer does to the stream: the synchronous [Directory::to_writer] encodes into memory
      and hands the finished bytes to the stream with one [write_all] followed by [flush] (so that no byte
      is left to an encoder's Drop); the asynchronous one streams through the codec writer and closes it *)
  Definition ws_write_dir (asy : bool) (st : wstream) (z : bytes) : wstream :=
    ws_log_ev (ws_write st z) (if asy then EvClose else EvFlush).

  (** [Directory::to_writer(output, compression)] / [to_async_writer] on a stream *)
  Definition write_dir (asy : bool) (c : compression) (es : list entry) (st : wstream) : outcome (wstream * N) :=
    do _ <- compress cx asy c [];
    do plain <- encode_dir_plain es;
    do z <- compress cx asy c plain;
    Ok (ws_write_dir asy st z, nlen z).

  (** the synchronous directory writer before its repair (D6): it streamed through the codec writer, whose
      last bytes are written from Drop *)
  Definition write_dir_streaming (c : compression) (es : list entry) (st : wstream) : outcome (wstream * N) :=
    do _ <- compress cx false c [];
    do plain <- encode_dir_plain es;
    do z <- compress cx false c plain;
    Ok (ws_write_codec false c st plain z, nlen z).

  (** one pass over the chunks: the leaf section so far (reversed list of leaf blobs), its length, and
      the pointer entries (reversed).  Leaf directories are always written with the synchronous
      [to_writer] into an in-memory cursor, in the async variant too. *)
  Fixpoint build_leaves (c : compression) (cs : list (list entry)) (leaf_len : N)
           (rev_leaves : list bytes) (rev_ptrs : list entry) : outcome (list bytes * list entry) :=
    match cs with
    | [] => Ok (rev rev_leaves, rev rev_ptrs)
    | ch :: r =>
      match ch with
      | [] => build_leaves c r leaf_len rev_leaves rev_ptrs      (* [if entries.is_empty() { continue }] *)
      | first :: _ =>
        do blob <- encode_dir cx false c ch;
        let ptr := mkEntry (e_id first) leaf_len (nlen blob mod two32) 0 in   (* [as u32] *)
        build_leaves c r (leaf_len + nlen blob) (blob :: rev_leaves) (ptr :: rev_ptrs)
      end
    end.

  (** the doubling loop; [fuel] bounds the number of doublings (64 suffices: leaf_size is a usize) *)
  Fixpoint leaf_loop (fuel : nat) (asy : bool) (c : compression) (es : list entry) (leaf_size : N)
           (st : wstream) (root_start : N) : outcome (wstream * bytes) :=
    match fuel with
    | O => Crash OutOfFuel
    | S f =>
      if leaf_size =? 0 then Crash IndexOob else          (* chunks(0) panics *)
      (* chunks(k) for k >= len is chunks(len): keeps the unary chunk size small *)
      do (leaves, ptrs) <- build_leaves c (chunks (N.to_nat (N.min leaf_size (N.max 1 (nlen es)))) es) 0 [] [];
      let st1 := ws_seek st root_start in                 (* [output.seek(root_dir_start)] returns the position *)
      do (st2, _) <- write_dir asy c ptrs st1;
      let '(st3, p) := ws_tell st2 in
      do root_len <- sub64 p root_start;
      if root_len <=? max_root_dir_length then Ok (st3, concat leaves)
      else if 2 * leaf_size <? two64 then leaf_loop f asy c es (2 * leaf_size) st3 root_start
      else Crash Overflow
    end.

  (** [write_directories_impl]; [start_size = None] means the default (4096) *)
  Definition write_directories (asy : bool) (c : compression) (es : list entry) (start_size : option N)
             (st : wstream) : outcome (wstream * bytes) :=
    let '(st0, start_pos) := ws_tell st in
    do (st1, _) <- write_dir asy c es st0;
    let '(st2, p) := ws_tell st1 in
    do root_len <- sub64 p start_pos;
    if root_len <=? max_root_dir_length then Ok (st2, [])
    else leaf_loop 65 asy c es (match start_size with Some k => k | None => default_leaf_size end) st2 start_pos.
End WithCtx.
