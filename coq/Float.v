(** IEEE-754 binary64 coordinates (src/header/lat_lng.rs) with Flocq:
    read:  f64::from(i32) / LAT_LONG_FACTOR
    write: (field * LAT_LONG_FACTOR).round(), corrected at exact halves by the sign of the
           multiplication error, then `as i32`                 (Rust's saturating, NaN -> 0 cast) *)
From Coq Require Import ZArith.
From Flocq Require Import Core BinarySingleNaN Binary Bits.
Require Import PM.Params.

Notation prec := 53%Z.
Notation emax := 1024%Z.
#[global] Instance Hprec : Prec_gt_0 prec. Proof. reflexivity. Defined.
#[global] Instance Hmax : Prec_lt_emax prec emax. Proof. reflexivity. Defined.

Definition f64 := BinarySingleNaN.binary_float prec emax.

(** exact conversion of a (small) integer, as [f64::from(i32)] and the literal 10_000_000.0 *)
Definition of_Z (z : Z) : f64 := BinarySingleNaN.binary_normalize prec emax Hprec Hmax mode_NE z 0 false.
Definition FAC : f64 := of_Z (Z.of_N lat_long_factor).

Definition deg_of_stored (i : Z) : f64 := BinarySingleNaN.Bdiv mode_NE (of_Z i) FAC.

Definition i32_min : Z := (-2147483648)%Z.
Definition i32_max : Z := 2147483647%Z.
(** Rust [as i32] on f64: NaN -> 0, saturating, otherwise truncation toward zero *)
Definition cast_i32 (f : f64) : Z :=
  match f with
  | BinarySingleNaN.B754_nan => 0%Z
  | BinarySingleNaN.B754_infinity s => if s then i32_min else i32_max
  | _ => Z.max i32_min (Z.min i32_max (BinarySingleNaN.Btrunc f))
  end.
(** [f64::round]: to nearest, ties away from zero *)
Definition round_away (f : f64) : f64 := BinarySingleNaN.Bnearbyint mode_NA f.
Definition F_half : f64 := BinarySingleNaN.Bdiv mode_NE (of_Z 1) (of_Z 2).
Definition F_zero : f64 := of_Z 0.
Definition F_one : f64 := of_Z 1.
(** [write_lat_lon]: the product is rounded; when it lies exactly halfway between two integers the
    sign of the multiplication's error (obtained exactly by a fused multiply-add) says on which side
    the exact product lies. *)
Definition stored_of_deg (d : f64) : Z :=
  let p := BinarySingleNaN.Bmult mode_NE d FAC in
  let r := round_away p in
  if BinarySingleNaN.Beqb (BinarySingleNaN.Babs (BinarySingleNaN.Bminus mode_NE r p)) F_half then
    let e := BinarySingleNaN.Bfma mode_NE d FAC (BinarySingleNaN.Bopp p) in
    if andb (BinarySingleNaN.Bltb e F_zero) (BinarySingleNaN.Bltb F_zero p) then
      cast_i32 (BinarySingleNaN.Bminus mode_NE r F_one)
    else if andb (BinarySingleNaN.Bltb F_zero e) (BinarySingleNaN.Bltb p F_zero) then
      cast_i32 (BinarySingleNaN.Bplus mode_NE r F_one)
    else cast_i32 r
  else cast_i32 r.
(** the behaviour before the second fix: the rounded product alone decides (double rounding, D7) *)
Definition stored_of_deg_double_rounding (d : f64) : Z :=
  cast_i32 (round_away (BinarySingleNaN.Bmult mode_NE d FAC)).
(** the behaviour before the fix (truncation), kept to state what was wrong *)
Definition stored_of_deg_trunc (d : f64) : Z :=
  cast_i32 (BinarySingleNaN.Bmult mode_NE d FAC).

(** exchange with the outside world: raw 64-bit patterns *)
Definition f64_of_bits (b : Z) : f64 := B2BSN prec emax (b64_of_bits b).
Definition bits_of_f64 (f : f64) : Z := bits_of_b64 (BSN2B prec emax default_nan_pl64 f).
