(** External components enter the model only through this record of functions; theorems that need
    anything about them take the corresponding law as an explicit premise (no axioms).
    - [comp asy c b]    : bytes produced by the sync ([asy=false]) or async gzip/brotli/zstd encoder
    - [decomp c b]      : the longest prefix the decoder delivers before EOF or a decoding error, and
                          whether the stream ended cleanly (the library's decoders are lazy: a reader
                          that stops early never sees a later error)
    - [json_parse b]    : serde_json: [Err] = not JSON; [Ok None] = JSON but not an object;
                          [Ok (Some m)] = an object, [m] its canonical serialisation (serde_json::to_vec
                          of the key-ordered map)
    - [hash b]          : the 64-bit content hash (AHash with fixed keys)
    - [drop_tail c b]   : see below *)
Require Import PM.Base.
Open Scope N_scope.

Inductive compression := CUnknown | CNone | CGzip | CBrotli | CZstd.
Definition compression_eqb (a b : compression) : bool :=
  match a, b with
  | CUnknown, CUnknown | CNone, CNone | CGzip, CGzip | CBrotli, CBrotli | CZstd, CZstd => true
  | _, _ => false
  end.

Record ctx := mkCtx {
  comp : bool -> compression -> bytes -> bytes;
  decomp : compression -> bytes -> bytes * bool;
  json_parse : bytes -> outcome (option bytes);
  hash : bytes -> N;
  (* how many trailing bytes of [comp false c b] the synchronous encoder emits only when it is
     dropped (after [flush()] has returned); informational for the operation log, no theorem
     depends on its value *)
  drop_tail : compression -> bytes -> N
}.

Section WithCtx.
  Context (cx : ctx).

  (** util::compress / compress_async used as a one-shot function (write everything, flush/close, drop) *)
  Definition compress (asy : bool) (c : compression) (b : bytes) : outcome bytes :=
    match c with
    | CUnknown => Err EOther
    | CNone => Ok b
    | _ => Ok (comp cx asy c b)
    end.

  (** util::decompress as a lazily read stream: what a reader can get out of it *)
  Definition decompress_lazy (c : compression) (b : bytes) : outcome (bytes * bool) :=
    match c with
    | CUnknown => Err EOther
    | CNone => Ok (b, true)
    | _ => Ok (decomp cx c b)
    end.

  (** util::decompress_all / read_to_end: the whole stream or an error *)
  Definition decompress_all (c : compression) (b : bytes) : outcome bytes :=
    do (p, clean) <- decompress_lazy c b;
    if clean then Ok p else Err ECodec.
End WithCtx.

(** Laws (premises of theorems, validated against the libraries by the correspondence runs) *)
Definition codec_inv (cx : ctx) : Prop :=
  forall asy c b, c <> CUnknown -> c <> CNone -> decomp cx c (comp cx asy c b) = (b, true).
Definition codec_wf (cx : ctx) : Prop :=
  forall asy c b, wf_bytes b -> wf_bytes (comp cx asy c b).
(** a compressed stream is never absurdly larger than its input (used for: one leaf pointer always fits the root) *)
Definition codec_size (cx : ctx) : Prop :=
  forall asy c b, nlen (comp cx asy c b) <= 2 * nlen b + 1024.
Definition json_canon (cx : ctx) : Prop :=
  forall b m, json_parse cx b = Ok (Some m) -> json_parse cx m = Ok (Some m).
Definition hash_inj_on (cx : ctx) (S : list bytes) : Prop :=
  forall a b, In a S -> In b S -> hash cx a = hash cx b -> a = b.

Lemma compress_decompress cx asy c b : codec_inv cx -> c <> CUnknown ->
  forall z, compress cx asy c b = Ok z -> decompress_all cx c z = Ok b.
Proof.
  intros Hinv Hc z Hz. unfold compress in Hz. unfold decompress_all, decompress_lazy.
  destruct c; try congruence; injection Hz as <-; cbn [bind]; try reflexivity;
    rewrite Hinv by congruence; reflexivity.
Qed.

Lemma compress_unknown cx asy b : exists e, compress cx asy CUnknown b = Err e.
Proof. eexists; reflexivity. Qed.
Lemma decompress_unknown cx b : exists e, decompress_all cx CUnknown b = Err e.
Proof. eexists; reflexivity. Qed.
Lemma compress_none cx asy b : compress cx asy CNone b = Ok b.
Proof. reflexivity. Qed.
Lemma decompress_none cx b : decompress_all cx CNone b = Ok b.
Proof. reflexivity. Qed.

(** a concrete context satisfying all laws: identity codec, canonical JSON = the bytes, hash = little-endian value *)
Definition ctx_id : ctx :=
  mkCtx (fun _ _ b => b) (fun _ b => (b, true)) (fun b => Ok (Some b))
        (fun b => fold_right (fun x acc => x + 256 * acc + 1) 0 b) (fun _ _ => 0).
Lemma ctx_id_inv : codec_inv ctx_id. Proof. intros asy c b _ _. reflexivity. Qed.
Lemma ctx_id_wf : codec_wf ctx_id. Proof. intros asy c b H. exact H. Qed.
Lemma ctx_id_size : codec_size ctx_id. Proof. intros asy c b. cbn [ctx_id comp]. unfold nlen. lia. Qed.
Lemma ctx_id_json : json_canon ctx_id. Proof. intros b m H. cbn in *. congruence. Qed.
