(** C15 (readers) / C20: the reader over the I/O interface is the reader of Archive.v on an ideal stream; a fault on
    any window it requests makes the open fail; faults never turn into a different success. *)
From Coq Require Import List NArith Lia Bool.
Require Import PM.Base PM.Oracles PM.Params PM.Float PM.Header PM.HeaderProofs PM.Directory PM.Stream PM.StreamProofs PM.TileManager
  PM.DirReader PM.Archive PM.ReadWindows PM.IOReader.
Import ListNotations.
Open Scope N_scope.

Lemma section_prefix img n : section img 0 n = firstn (N.to_nat (N.min n (nlen img))) img.
Proof.
  unfold section. destruct (N.leb_spec (nlen img) 0) as [H|H].
  - unfold nlen in H. destruct img; [now rewrite firstn_nil|cbn [length] in H; lia].
  - rewrite N.sub_0_r. reflexivity.
Qed.

(** the header parser looks at the first 127 bytes only *)
Lemma decode_stored_prefix b : (127 <= length b)%nat -> header_bytes = 127 ->
  decode_stored (firstn 127 b) = (do (s, _) <- decode_stored b; Ok (s, [])).
Proof.
  intros Hl Hhb. unfold decode_stored, split_at at 1 3. rewrite Hhb. change (N.to_nat 127) with 127%nat.
  rewrite firstn_length. replace (Nat.min 127 (length b)) with 127%nat by lia.
  assert (E1 : Nat.leb 127 127 = true) by reflexivity. assert (E2 : Nat.leb 127 (length b) = true) by (apply Nat.leb_le; lia).
  rewrite E1, E2. cbn [bind]. rewrite firstn_firstn. replace (Nat.min 127 127) with 127%nat by reflexivity.
  rewrite skipn_all2 by (rewrite firstn_length; lia).
  (* both sides now run the same parser on [firstn 127 b]; only the returned rest differs *)
  set (hb := firstn 127 b).
  repeat match goal with
         | |- context [match ?x with Ok _ => _ | Err _ => _ | Crash _ => _ end] => fail
         | _ => idtac
         end.
  unfold bind.
  repeat (match goal with
          | |- (match ?x with Ok a => _ | Err e => Err e | Crash c => Crash c end) = (match (match ?x with Ok a' => _ | Err e' => Err e' | Crash c' => Crash c' end) with Ok _ => _ | Err e'' => Err e'' | Crash c'' => Crash c'' end) =>
            destruct x as [[? ?]| |]; try reflexivity
          | |- (if ?b then _ else _) = _ => destruct b; try reflexivity
          | |- (match ?x with Ok a => _ | Err e => Err e | Crash c => Crash c end) = _ => destruct x; try reflexivity
          end).
Qed.

Lemma decode_header_ideal img : header_bytes = 127 ->
  (do hb <- img_fetch img 0 header_bytes; do (h, _) <- decode_header hb; Ok h) = (do (h, _) <- decode_header img; Ok h).
Proof.
  intros Hhb. unfold img_fetch. cbn [bind]. rewrite Hhb, section_prefix.
  destruct (Nat.le_gt_cases 127 (length img)) as [Hl|Hs].
  - replace (N.to_nat (N.min 127 (nlen img))) with 127%nat by (unfold nlen; lia).
    unfold decode_header. rewrite (decode_stored_prefix img Hl Hhb).
    destruct (decode_stored img) as [[s rest]| |]; reflexivity.
  - replace (N.to_nat (N.min 127 (nlen img))) with (length img) by (unfold nlen; lia). rewrite firstn_all.
    destruct (header_short img Hs Hhb) as (e & ->). reflexivity.
Qed.

Lemma walk_entries_ext rec1 rec2 leaf_off r : (forall lo l a, rec1 lo l a = rec2 lo l a) ->
  forall es acc, walk_entries rec1 leaf_off r es acc = walk_entries rec2 leaf_off r es acc.
Proof.
  intros Hx. induction es as [|e rest IH]; intros acc; [reflexivity|]. cbn [walk_entries].
  destruct (e_run e =? 0); [|apply IH]. destruct (range_end_inc r <? e_id e); [apply IH|].
  destruct (cadd64 leaf_off (e_off e)) as [lo| |]; cbn [bind]; try reflexivity. rewrite Hx.
  destruct (rec2 lo (e_len e) acc); cbn [bind]; try reflexivity. apply IH.
Qed.

Section Ideal.
  Context (cx : ctx).

  Lemma read_dir_io_ideal img : forall fuel c off len leaf_off r acc,
    read_dir_io cx (img_fetch img) fuel c off len leaf_off r acc = read_dir_rec cx fuel c img off len leaf_off r acc.
  Proof.
    induction fuel as [|f IH]; intros c off len leaf_off r acc; [reflexivity|].
    cbn [read_dir_io read_dir_rec]. unfold img_fetch at 1. cbn [bind].
    destruct (decode_dir cx c (section img off len)); cbn [bind]; try reflexivity.
    apply walk_entries_ext. intros lo l0 a0. apply IH.
  Qed.

  (** on an ideal stream the I/O reader computes exactly what [from_reader] builds its archive from *)
  Theorem open_io_ideal img r : header_bytes = 127 ->
    from_reader cx img r =
    (do (hm, tiles) <- open_io cx (img_fetch img) r;
     let '(h, meta) := hm in
     do s <- register_tiles (h_data_off h) tiles (tm_empty (Some img));
     Ok (mkPM (h_ttype h) (h_tcomp h) (h_icomp h) (h_minz h) (h_maxz h) (h_cz h)
              (h_min_lon h) (h_min_lat h) (h_max_lon h) (h_max_lat h) (h_clon h) (h_clat h) meta s)).
  Proof.
    intros Hhb. unfold from_reader, open_io.
    pose proof (decode_header_ideal img Hhb) as Hd. cbn [bind img_fetch] in *.
    destruct (decode_header (section img 0 header_bytes)) as [[h x]|e|c]; destruct (decode_header img) as [[h' x']|e'|c']; cbn [bind] in *; try discriminate.
    2: { injection Hd as ->. reflexivity. }
    2: { injection Hd as ->. reflexivity. }
    injection Hd as <-.
    destruct (h_meta_len h =? 0); cbn [bind].
    - rewrite read_dir_io_ideal. unfold read_directories.
      destruct (read_dir_rec cx (depth_fuel_of max_dir_depth) (h_icomp h) img (h_root_off h) (h_root_len h) (h_leaf_off h) r []); reflexivity.
    - destruct (read_meta cx (h_icomp h) (section img (h_meta_off h) (h_meta_len h))); cbn [bind]; try reflexivity.
      rewrite read_dir_io_ideal. unfold read_directories.
      destruct (read_dir_rec cx (depth_fuel_of max_dir_depth) (h_icomp h) img (h_root_off h) (h_root_len h) (h_leaf_off h) r []); reflexivity.
  Qed.
End Ideal.

(** * a failing stream *)
(** [x] is what [y] becomes when some requests fail: the same success, the same crash, or an error *)
Definition degrades {A} (x y : outcome A) : Prop :=
  match x with Ok t => y = Ok t | Crash c => y = Crash c | Err _ => True end.
Lemma degrades_refl {A} (x : outcome A) : degrades x x.
Proof. destruct x; cbn; auto. Qed.
Lemma degrades_bind {A B} (x y : outcome A) (f g : A -> outcome B) :
  degrades x y -> (forall a, degrades (f a) (g a)) -> degrades (bind x f) (bind y g).
Proof. intros H Hf. destruct x as [a|e|c]; cbn in *; [rewrite H; cbn; apply Hf|exact I|rewrite H; reflexivity]. Qed.

Lemma walk_entries_degrades rec1 rec2 leaf_off r : (forall lo l a, degrades (rec1 lo l a) (rec2 lo l a)) ->
  forall es acc, degrades (walk_entries rec1 leaf_off r es acc) (walk_entries rec2 leaf_off r es acc).
Proof.
  intros Hx. induction es as [|e rest IH]; intros acc; [reflexivity|]. cbn [walk_entries].
  destruct (e_run e =? 0); [|apply IH]. destruct (range_end_inc r <? e_id e); [apply IH|].
  apply degrades_bind; [apply degrades_refl|]. intros lo.
  apply degrades_bind; [apply Hx|]. intros a. apply IH.
Qed.

Section Faults.
  Context (cx : ctx) (bad : N -> N -> bool) (fetch : fetcher).

  Lemma fetch_degrades off len : degrades (fail_on bad fetch off len) (fetch off len).
  Proof. unfold fail_on. destruct (bad off len); [exact I|apply degrades_refl]. Qed.

  Lemma read_dir_io_degrades : forall fuel c off len leaf_off r acc,
    degrades (read_dir_io cx (fail_on bad fetch) fuel c off len leaf_off r acc) (read_dir_io cx fetch fuel c off len leaf_off r acc).
  Proof.
    induction fuel as [|f IH]; intros c off len leaf_off r acc; [exact I|]. cbn [read_dir_io].
    apply degrades_bind; [apply fetch_degrades|]. intros sec.
    apply degrades_bind; [apply degrades_refl|]. intros es.
    apply walk_entries_degrades. intros lo l a. apply IH.
  Qed.

  (** faults never turn into a different success, nor into a crash the fault-free run does not have *)
  Theorem open_io_degrades r : degrades (open_io cx (fail_on bad fetch) r) (open_io cx fetch r).
  Proof.
    unfold open_io. apply degrades_bind; [apply fetch_degrades|]. intros hb.
    apply degrades_bind; [apply degrades_refl|]. intros [h x].
    apply degrades_bind.
    - destruct (h_meta_len h =? 0); [apply degrades_refl|]. apply degrades_bind; [apply fetch_degrades|]. intros sec. apply degrades_refl.
    - intros meta. apply degrades_bind; [apply read_dir_io_degrades|]. intros tiles. apply degrades_refl.
  Qed.
End Faults.

(** * a fault on any window the open requests makes it fail *)
Require Import PM.SafetyProofs.

Lemma walk_entries_sub_ok rec leaf_off r : forall es acc t, walk_entries rec leaf_off r es acc = Ok t ->
  forall e lo, In e es -> e_run e = 0 -> (range_end_inc r <? e_id e) = false -> cadd64 leaf_off (e_off e) = Ok lo ->
  exists a a', rec lo (e_len e) a = Ok a'.
Proof.
  induction es as [|x rest IH]; intros acc t H e lo Hin Hz Hns Hlo; [destruct Hin|]. cbn [walk_entries] in H.
  destruct Hin as [->|Hin].
  - rewrite Hz in H. cbn [N.eqb] in H. rewrite Hns, Hlo in H. cbn [bind] in H.
    destruct (rec lo (e_len e) acc) as [a'| |] eqn:Er; cbn [bind] in H; try discriminate. eauto.
  - destruct (e_run x =? 0); [|now apply (IH _ _ H e lo)].
    destruct (range_end_inc r <? e_id x); [now apply (IH _ _ H e lo)|].
    destruct (cadd64 leaf_off (e_off x)) as [lx| |]; cbn [bind] in H; try discriminate.
    destruct (rec lx (e_len x) acc) as [ax| |]; cbn [bind] in H; try discriminate. now apply (IH _ _ H e lo).
Qed.

Lemma walk_windows_in' rec leaf_off r : forall es ws w, walk_windows rec leaf_off r es = Ok ws -> In w ws ->
  exists e lo wl, In e es /\ e_run e = 0 /\ (range_end_inc r <? e_id e) = false /\ cadd64 leaf_off (e_off e) = Ok lo /\
                  rec lo (e_len e) = Ok wl /\ In w wl.
Proof.
  induction es as [|e rest IH]; intros ws w H Hin; cbn [walk_windows] in H.
  - injection H as <-. destruct Hin.
  - destruct (N.eqb_spec (e_run e) 0) as [Hz|Hnz].
    + destruct (range_end_inc r <? e_id e) eqn:Es.
      * destruct (IH ws w H Hin) as (e' & lo & wl & A & B). exists e', lo, wl. split; [now right|exact B].
      * destruct (cadd64 leaf_off (e_off e)) as [lo| |] eqn:El; cbn [bind] in H; try discriminate.
        destruct (rec lo (e_len e)) as [w1| |] eqn:Er; cbn [bind] in H; try discriminate.
        destruct (walk_windows rec leaf_off r rest) as [w2| |] eqn:Ew; cbn [bind] in H; try discriminate.
        injection H as <-. apply in_app_or in Hin. destruct Hin as [Hin|Hin].
        -- exists e, lo, w1. repeat split; try assumption. now left.
        -- destruct (IH w2 w eq_refl Hin) as (e' & lo' & wl & A & B). exists e', lo', wl. split; [now right|exact B].
    + destruct (IH ws w H Hin) as (e' & lo & wl & A & B). exists e', lo, wl. split; [now right|exact B].
Qed.

Section FailStop.
  Context (cx : ctx) (bad : N -> N -> bool).
  Hypothesis json_total : forall b c, json_parse cx b <> Crash c.

  Lemma bad_window_not_ok img : forall fuel c off len leaf_off r ws,
    dir_windows cx fuel c img off len leaf_off r = Ok ws -> (exists w, In w ws /\ bad (fst w) (snd w) = true) ->
    forall acc t, read_dir_io cx (fail_on bad (img_fetch img)) fuel c off len leaf_off r acc <> Ok t.
  Proof.
    induction fuel as [|f IH]; intros c off len leaf_off r ws H (w & Hin & Hbad) acc t; [discriminate|].
    cbn [dir_windows] in H. cbn [read_dir_io]. unfold fail_on at 1.
    destruct (bad off len) eqn:Eb; [cbn [bind]; discriminate|]. unfold img_fetch at 1. cbn [bind].
    destruct (decode_dir cx c (section img off len)) as [es| |]; cbn [bind] in *; try discriminate.
    destruct (walk_windows _ leaf_off r es) as [ws'| |] eqn:Ew; cbn [bind] in H; try discriminate.
    injection H as <-. destruct Hin as [<-|Hin]; [cbn [fst snd] in Hbad; congruence|].
    destruct (walk_windows_in' _ leaf_off r es ws' w Ew Hin) as (e & lo & wl & He & Hz & Hns & Hlo & Hr & Hw).
    intros Hok. destruct (walk_entries_sub_ok _ leaf_off r es acc t Hok e lo He Hz Hns Hlo) as (a & a' & Hsub).
    exact (IH c lo (e_len e) leaf_off r wl Hr (ex_intro _ w (conj Hw Hbad)) a a' Hsub).
  Qed.

  (** C15, readers: if any window the open requests fails, the open returns an error — not a success, not a crash *)
  Theorem open_io_fail_stop img r ws : header_bytes = 127 ->
    open_windows cx img r = Ok ws -> (exists w, In w ws /\ bad (fst w) (snd w) = true) ->
    exists e, open_io cx (fail_on bad (img_fetch img)) r = Err e.
  Proof.
    intros Hhb Hw (w & Hin & Hbad).
    (* not a crash: the fault-free open never crashes *)
    assert (Hnc : forall k, open_io cx (fail_on bad (img_fetch img)) r <> Crash k).
    { intros k Hk. pose proof (open_io_degrades cx bad (img_fetch img) r) as D. rewrite Hk in D. unfold degrades in D.
      pose proof (open_io_ideal cx img r Hhb) as E. rewrite D in E. cbn [bind] in E. exact (from_reader_no_crash cx json_total img r k E). }
    (* not a success *)
    assert (Hno : forall x, open_io cx (fail_on bad (img_fetch img)) r <> Ok x).
    { intros x Hx. unfold open_windows in Hw. unfold open_io in Hx.
      pose proof (decode_header_ideal img Hhb) as Hd. cbn [bind img_fetch] in Hd.
      unfold fail_on at 1 in Hx. destruct (bad 0 header_bytes) eqn:B0; [discriminate|]. unfold img_fetch at 1 in Hx. cbn [bind] in Hx.
      destruct (decode_header (section img 0 header_bytes)) as [[h x0]|e|c]; destruct (decode_header img) as [[h' x']|e'|c'];
        cbn [bind] in *; try discriminate.
      injection Hd as <-.
      destruct (dir_windows cx (depth_fuel_of max_dir_depth) (h_icomp h) img (h_root_off h) (h_root_len h) (h_leaf_off h) r) as [dws| |] eqn:Ed;
        cbn [bind] in Hw; try discriminate.
      injection Hw as <-.
      destruct Hin as [<-|Hin]; [cbn [fst snd] in Hbad; congruence|].
      apply in_app_or in Hin.
      destruct (N.eqb_spec (h_meta_len h) 0) as [Em|Em].
      - destruct Hin as [[]|Hin]. cbn [bind] in Hx.
        destruct (read_dir_io cx (fail_on bad (img_fetch img)) (depth_fuel_of max_dir_depth) (h_icomp h) (h_root_off h) (h_root_len h) (h_leaf_off h) r []) as [t| |] eqn:Er;
          cbn [bind] in Hx; try discriminate.
        exact (bad_window_not_ok img _ _ _ _ _ _ dws Ed (ex_intro _ w (conj Hin Hbad)) [] t Er).
      - destruct Hin as [[<-|[]]|Hin].
        + cbn [fst snd] in Hbad. unfold fail_on in Hx. rewrite Hbad in Hx. cbn [bind] in Hx. discriminate.
        + destruct (fail_on bad (img_fetch img) (h_meta_off h) (h_meta_len h)) as [sec| |]; cbn [bind] in Hx; try discriminate.
          destruct (read_meta cx (h_icomp h) sec) as [meta| |]; cbn [bind] in Hx; try discriminate.
          destruct (read_dir_io cx (fail_on bad (img_fetch img)) (depth_fuel_of max_dir_depth) (h_icomp h) (h_root_off h) (h_root_len h) (h_leaf_off h) r []) as [t| |] eqn:Er;
            cbn [bind] in Hx; try discriminate.
          exact (bad_window_not_ok img _ _ _ _ _ _ dws Ed (ex_intro _ w (conj Hin Hbad)) [] t Er). }
    destruct (open_io cx (fail_on bad (img_fetch img)) r) as [x|e|k]; [elim (Hno x eq_refl)|eauto|elim (Hnc k eq_refl)].
  Qed.
End FailStop.

(** * C20: the open depends on nothing but the windows it requests *)
Lemma walk_agree (recW : N -> N -> outcome (list (N * N))) (recF recI : N -> N -> list (N * (N * N)) -> outcome (list (N * (N * N)))) leaf_off r :
  forall es ws, walk_windows recW leaf_off r es = Ok ws ->
  (forall e lo wl, In e es -> recW lo (e_len e) = Ok wl -> incl wl ws -> forall a, recF lo (e_len e) a = recI lo (e_len e) a) ->
  forall acc, walk_entries recF leaf_off r es acc = walk_entries recI leaf_off r es acc.
Proof.
  induction es as [|e rest IH]; intros ws H Hsub acc; [reflexivity|]. cbn [walk_windows] in H. cbn [walk_entries].
  destruct (e_run e =? 0).
  - destruct (range_end_inc r <? e_id e).
    + apply (IH ws H). intros e' lo wl Hin. apply Hsub. now right.
    + destruct (cadd64 leaf_off (e_off e)) as [lo| |]; cbn [bind] in *; try discriminate.
      destruct (recW lo (e_len e)) as [w1| |] eqn:Er; cbn [bind] in H; try discriminate.
      destruct (walk_windows recW leaf_off r rest) as [w2| |] eqn:Ew; cbn [bind] in H; try discriminate.
      injection H as <-.
      rewrite (Hsub e lo w1 (or_introl eq_refl) Er (incl_appl w2 (incl_refl w1)) acc).
      destruct (recI lo (e_len e) acc); cbn [bind]; try reflexivity.
      apply (IH w2 eq_refl). intros e' lo' wl Hin Hr Hincl. apply (Hsub e' lo' wl); [now right|exact Hr|]. now apply incl_appr.
  - apply (IH ws H). intros e' lo wl Hin. apply Hsub. now right.
Qed.

Section Lazy.
  Context (cx : ctx) (bad : N -> N -> bool).

  Lemma read_dir_io_only_windows img : forall fuel c off len leaf_off r ws,
    dir_windows cx fuel c img off len leaf_off r = Ok ws -> (forall w, In w ws -> bad (fst w) (snd w) = false) ->
    forall acc, read_dir_io cx (fail_on bad (img_fetch img)) fuel c off len leaf_off r acc = read_dir_io cx (img_fetch img) fuel c off len leaf_off r acc.
  Proof.
    induction fuel as [|f IH]; intros c off len leaf_off r ws H Hok acc; [reflexivity|].
    cbn [dir_windows] in H. cbn [read_dir_io].
    destruct (decode_dir cx c (section img off len)) as [es| |] eqn:Ed; cbn [bind] in H; try discriminate.
    destruct (walk_windows _ leaf_off r es) as [ws'| |] eqn:Ew; cbn [bind] in H; try discriminate.
    injection H as <-.
    pose proof (Hok (off, len) (or_introl eq_refl)) as B0. cbn [fst snd] in B0. unfold fail_on at 1. rewrite B0. unfold img_fetch at 1 3. cbn [bind]. rewrite Ed. cbn [bind].
    apply (walk_agree _ _ _ leaf_off r es ws' Ew). intros e lo wl Hin Hr Hincl a.
    apply (IH c lo (e_len e) leaf_off r wl Hr). intros w Hw. apply Hok. right. now apply Hincl.
  Qed.

  (** failing (or altering) anything outside the requested windows does not change the outcome of the open *)
  Theorem open_io_only_windows img r ws : header_bytes = 127 -> open_windows cx img r = Ok ws ->
    (forall w, In w ws -> bad (fst w) (snd w) = false) ->
    open_io cx (fail_on bad (img_fetch img)) r = open_io cx (img_fetch img) r.
  Proof.
    intros Hhb Hw Hok. unfold open_windows in Hw. unfold open_io.
    pose proof (decode_header_ideal img Hhb) as Hd. cbn [bind img_fetch] in Hd.
    destruct (decode_header img) as [[h' x']|e'|c']; cbn [bind] in Hw; try discriminate.
    destruct (dir_windows cx (depth_fuel_of max_dir_depth) (h_icomp h') img (h_root_off h') (h_root_len h') (h_leaf_off h') r) as [dws| |] eqn:Edw;
      cbn [bind] in Hw; try discriminate.
    injection Hw as <-.
    pose proof (Hok (0, header_bytes) (or_introl eq_refl)) as B0. cbn [fst snd] in B0. unfold fail_on at 1. rewrite B0. unfold img_fetch at 1 4. cbn [bind].
    destruct (decode_header (section img 0 header_bytes)) as [[h x]|e|c]; cbn [bind] in *; try discriminate; try reflexivity.
    injection Hd as ->.
    assert (Hdirs : forall w, In w dws -> bad (fst w) (snd w) = false) by (intros w Hin; apply Hok; right; apply in_or_app; now right).
    rewrite (read_dir_io_only_windows img _ _ _ _ _ _ dws Edw Hdirs).
    destruct (N.eqb_spec (h_meta_len h') 0) as [Em|Em]; [reflexivity|].
    assert (B1 : bad (h_meta_off h') (h_meta_len h') = false).
    { apply (Hok (h_meta_off h', h_meta_len h')). right. apply in_or_app. left. destruct (h_meta_len h' =? 0) eqn:E; [apply N.eqb_eq in E; contradiction|now left]. }
    unfold fail_on at 1. rewrite B1. reflexivity.
  Qed.
End Lazy.

(** * C13 at the level of the open: windows served by a fragmenting stream *)
Require Import PM.IO PM.IOProofs.

(** one window served by seek(Start(off)) + take(len) + reads into a [buf]-byte buffer until 0 bytes come back, on a
    stream that splits the transfers of THIS request according to [sched off len] *)
Definition stream_fetch (img : bytes) (sched : N -> N -> list N) (buf : N) : fetcher :=
  fun off len => do (b, _) <- read_to_end (S (N.to_nat len)) buf len (mkRd img off (sched off len) []); Ok b.

Lemma section_min img off len : section img off (N.min len (nlen img - off)) = section img off len.
Proof. unfold section. destruct (nlen img <=? off); [reflexivity|]. now rewrite <- N.min_assoc, N.min_id. Qed.

Lemma stream_fetch_ideal img sched buf off len : 1 <= buf -> stream_fetch img sched buf off len = img_fetch img off len.
Proof.
  intros Hb. unfold stream_fetch, img_fetch.
  destruct (read_to_end_spec (S (N.to_nat len)) buf len (mkRd img off (sched off len) []) Hb) as (s' & Hr & _); [lia|].
  rewrite Hr. cbn [bind rd_img rd_pos]. unfold avail. cbn [rd_img rd_pos]. now rewrite section_min.
Qed.

Section Ext.
  Context (cx : ctx) (f g : fetcher).
  Hypothesis Hfg : forall off len, f off len = g off len.
  Lemma read_dir_io_ext : forall fuel c off len leaf_off r acc,
    read_dir_io cx f fuel c off len leaf_off r acc = read_dir_io cx g fuel c off len leaf_off r acc.
  Proof.
    induction fuel as [|n IH]; intros c off len leaf_off r acc; [reflexivity|]. cbn [read_dir_io]. rewrite Hfg.
    destruct (g off len) as [sec| |]; cbn [bind]; try reflexivity.
    destruct (decode_dir cx c sec); cbn [bind]; try reflexivity.
    apply walk_entries_ext. intros lo l0 a0. apply IH.
  Qed.
  Lemma open_io_ext r : open_io cx f r = open_io cx g r.
  Proof.
    unfold open_io. rewrite Hfg. destruct (g 0 header_bytes) as [hb| |]; cbn [bind]; try reflexivity.
    destruct (decode_header hb) as [[h x]| |]; cbn [bind]; try reflexivity.
    rewrite Hfg. destruct (if h_meta_len h =? 0 then Ok empty_object else do sec <- g (h_meta_off h) (h_meta_len h); read_meta cx (h_icomp h) sec); cbn [bind]; try reflexivity.
    now rewrite read_dir_io_ext.
  Qed.
End Ext.

(** however the stream fragments each request, the open computes what it computes on an in-memory buffer *)
Theorem open_schedule_independent cx img sched buf r : 1 <= buf ->
  open_io cx (stream_fetch img sched buf) r = open_io cx (img_fetch img) r.
Proof. intros Hb. apply open_io_ext. intros off len. now apply stream_fetch_ideal. Qed.

(** * tile lookups over the interface *)
Lemma section_in_range img off len : off + len <= nlen img ->
  section img off len = firstn (N.to_nat len) (skipn (N.to_nat off) img).
Proof.
  intros H. unfold section. destruct (N.leb_spec (nlen img) off) as [A|A].
  - assert (len = 0) by lia. subst. reflexivity.
  - replace (N.min len (nlen img - off)) with len by lia. reflexivity.
Qed.

Theorem get_tile_io_ideal img (s : tm) id : backing s = Some img ->
  (forall off len, aget id (tile_by_id s) = Some (TOffLen off len) -> 1 <= len) ->
  get_tile_io (img_fetch img) s id = get_tile s id.
Proof.
  intros Hb Hl. unfold get_tile_io, get_tile. destruct (aget id (tile_by_id s)) as [[h|off len]|] eqn:Et; try reflexivity.
  cbn [tile_content]. rewrite Hb. unfold img_fetch. cbn [bind]. unfold read_at.
  destruct (N.leb_spec (off + len) (nlen img)) as [Hin|Hout].
  - rewrite section_length by exact Hin. rewrite N.eqb_refl. cbn [bind]. now rewrite section_in_range.
  - cbn [bind]. specialize (Hl off len eq_refl).
    assert (Hne : nlen (section img off len) <> len).
    { unfold section. destruct (N.leb_spec (nlen img) off); [cbn; lia|].
      unfold nlen. rewrite firstn_length, skipn_length. unfold nlen in *. lia. }
    apply N.eqb_neq in Hne. rewrite Hne. reflexivity.
Qed.

(** a fault while fetching a reader-backed tile is an error, never 'no such tile' and never other bytes *)
Theorem get_tile_io_fail_stop (bad : N -> N -> bool) fetch (s : tm) id off len :
  aget id (tile_by_id s) = Some (TOffLen off len) -> bad off len = true ->
  get_tile_io (fail_on bad fetch) s id = Err EOther.
Proof. intros Et Hb. unfold get_tile_io, fail_on. rewrite Et, Hb. reflexivity. Qed.
