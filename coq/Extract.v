(** Extraction of the executable model to OCaml for the correspondence check.
    Only the directives of ExtrOcamlBasic are used (bool, option, unit, list, prod, sumbool, sumor
    mapped to their OCaml counterparts); N, positive, Z, Flocq's binary_float and everything else
    stay Coq datatypes. *)
Require Import PM.Base PM.Varint PM.Oracles PM.Directory PM.Params PM.Stream PM.Float PM.Header
               PM.Hilbert PM.TileManager PM.DirWriter PM.DirReader PM.Archive PM.History PM.FinishSpec PM.ReadWindows PM.IO PM.SpecLookup.
From Coq Require Import ExtrOcamlBasic.
Extraction Language OCaml.
Extraction "extracted/model.ml"
  write_varint read_varint64 read_varint32
  decode_dir_plain encode_dir_plain spec_encode_dir valid_dirb find_entry
  compress decompress_lazy decompress_all decode_dir encode_dir
  encode_header decode_header encode_stored decode_stored to_stored of_stored
  f64_of_bits bits_of_f64 stored_of_deg deg_of_stored stored_of_deg_trunc
  tile_id zxy in_grid hilbert_spec spec_tile_id zoom_base xy2h h2xy
  write_directories read_directories range_end_inc in_range spec_lookup
  finish logical spec_finish
  to_writer to_bytes from_reader get_tile_xyz pm_new
  step run open_windows read_exact read_to_end write_all fetch
  max_z max_root_dir_length header_bytes default_leaf_size.
