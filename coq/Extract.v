(** Extraction of the executable model to OCaml for the correspondence check.
    Only the directives of ExtrOcamlBasic are used (bool, option, unit, list, prod, sumbool, sumor
    mapped to their OCaml counterparts); N, positive, Z and everything else stay Coq datatypes. *)
Require Import PM.Base PM.Varint PM.Oracles PM.Directory.
From Coq Require Import ExtrOcamlBasic.
Extraction Language OCaml.
Extraction "extracted/model.ml"
  write_varint read_varint64 read_varint32
  decode_dir_plain encode_dir_plain spec_encode_dir valid_dirb find_entry
  compress decompress_lazy decompress_all decode_dir encode_dir.
