(** Reading back what the directory writer wrote (towards C01 / C02): tile-only directories. *)
Require Import PM.Base PM.Oracles PM.Params PM.Directory PM.DirectoryProofs PM.Stream PM.TileManager PM.TileManagerProofs
               PM.DirReader PM.LookupProofs PM.FilterProofs PM.FinishSpec PM.FinishProofs.
From Coq Require Import ZifyN ZifyBool ZifyNat.
Open Scope N_scope.

(** the entry (if any) whose run covers [id], the last one winning *)
Definition last_cover (es : list entry) (id : N) : option entry :=
  fold_left (fun o e => if in_run e id then Some e else o) es None.
Lemma last_cover_gen es id o0 :
  fold_left (fun o e => if in_run e id then Some e else o) es o0 =
  match last_cover es id with Some e => Some e | None => o0 end.
Proof.
  unfold last_cover. revert o0. induction es as [|e r IH]; intros o0; [reflexivity|]. cbn [fold_left].
  rewrite IH. rewrite (IH (if in_run e id then Some e else None)).
  destruct (fold_left _ r None); [reflexivity|]. destruct (in_run e id); reflexivity.
Qed.

(** a directory without pointers is read by expanding its runs in order *)
Lemma walk_tiles_only rec lo : forall es acc, Forall (fun e => e_run e <> 0) es ->
  walk_entries rec lo full_range es acc = Ok (fold_left (fun a e => expand_run full_range e a) es acc).
Proof.
  induction es as [|e r IH]; intros acc H; [reflexivity|]. inversion H as [|? ? He Hr]; subst.
  cbn [walk_entries fold_left]. destruct (N.eqb_spec (e_run e) 0); [contradiction|]. now apply IH.
Qed.
Lemma fold_expand_aget id : forall es acc,
  aget id (fold_left (fun a e => expand_run full_range e a) es acc) =
  match last_cover es id with Some e => Some (e_off e, e_len e) | None => aget id acc end.
Proof.
  induction es as [|e r IH]; intros acc; [reflexivity|]. cbn [fold_left]. rewrite IH.
  assert (E : last_cover (e :: r) id = match last_cover r id with Some e' => Some e' | None => if in_run e id then Some e else None end).
  { unfold last_cover at 1. cbn [fold_left]. apply last_cover_gen. }
  rewrite E. destruct (last_cover r id) as [e'|]; [reflexivity|].
  rewrite expand_run_aget, in_range_full, Bool.andb_true_r. destruct (in_run e id); reflexivity.
Qed.

(** covering and expansion *)
Lemma in_expand_entry id0 k off len id o l :
  In (id, o, l) (expand_entry id0 k off len) <-> (id0 <= id /\ id < id0 + N.of_nat k /\ o = off /\ l = len).
Proof.
  revert id0. induction k as [|k IH]; intros id0; cbn [expand_entry In].
  - split; [intros []|lia].
  - rewrite IH. split.
    + intros [E|H]; [injection E as <- <- <-; lia|lia].
    + intros (A & B & -> & ->). destruct (N.eq_dec id id0) as [->|]; [now left|right; lia].
Qed.
Lemma in_expand es id o l : In (id, o, l) (expand es) <-> exists e, In e es /\ in_run e id = true /\ o = e_off e /\ l = e_len e.
Proof.
  unfold expand. rewrite in_flat_map. split.
  - intros (e & He & Hin). apply in_expand_entry in Hin. exists e. split; [exact He|]. unfold in_run.
    destruct Hin as (A & B & -> & ->). repeat split; lia.
  - intros (e & He & Hr & -> & ->). exists e. split; [exact He|]. apply in_expand_entry. unfold in_run in Hr. lia.
Qed.
Lemma last_cover_in es id e : last_cover es id = Some e -> In e es /\ in_run e id = true.
Proof.
  unfold last_cover. assert (G : forall o0, fold_left (fun o e0 => if in_run e0 id then Some e0 else o) es o0 = Some e ->
                                   (In e es /\ in_run e id = true) \/ o0 = Some e).
  { induction es as [|a r IH]; intros o0 H; [now right|]. cbn [fold_left] in H. destruct (IH _ H) as [[A B]|E].
    - left. split; [now right|exact B].
    - destruct (in_run a id) eqn:Ea; [injection E as <-; left; split; [now left|exact Ea]|now right]. }
  intros H. destruct (G None H) as [?|?]; [assumption|discriminate].
Qed.
Lemma last_cover_none es id : last_cover es id = None -> forall e, In e es -> in_run e id = false.
Proof.
  unfold last_cover. assert (G : forall o0, fold_left (fun o e0 => if in_run e0 id then Some e0 else o) es o0 = None ->
                                   o0 = None /\ forall e, In e es -> in_run e id = false).
  { induction es as [|a r IH]; intros o0 H; [split; [exact H|intros e []]|]. cbn [fold_left] in H.
    destruct (IH _ H) as [E F]. destruct (in_run a id) eqn:Ea; [discriminate|]. split; [exact E|].
    intros e [<-|Hin]; [exact Ea|now apply F]. }
  intros H. apply (G None H).
Qed.

(** reading a tile-only directory gives, for every id, the placement its expansion assigns — provided
    the expansion assigns each id at most one placement *)
Theorem read_tiles_only rec lo es id : Forall (fun e => e_run e <> 0) es ->
  (forall o l o' l', In (id, o, l) (expand es) -> In (id, o', l') (expand es) -> o = o' /\ l = l') ->
  exists t, walk_entries rec lo full_range es [] = Ok t /\
    (forall o l, In (id, o, l) (expand es) -> aget id t = Some (o, l)) /\
    ((forall o l, ~ In (id, o, l) (expand es)) -> aget id t = None).
Proof.
  intros Hr Hu. eexists. split; [now apply walk_tiles_only|]. rewrite fold_expand_aget. cbn [aget]. split.
  - intros o l Hin. destruct (last_cover es id) as [e|] eqn:El.
    + destruct (last_cover_in _ _ _ El) as [He Hc].
      assert (Hin' : In (id, e_off e, e_len e) (expand es)) by (apply in_expand; exists e; auto).
      destruct (Hu _ _ _ _ Hin Hin') as [-> ->]. reflexivity.
    + apply in_expand in Hin. destruct Hin as (e & He & Hc & _). rewrite (last_cover_none _ _ El e He) in Hc. discriminate.
  - intros Hn. destruct (last_cover es id) as [e|] eqn:El; [|reflexivity].
    destruct (last_cover_in _ _ _ El) as [He Hc]. exfalso. apply (Hn (e_off e) (e_len e)). apply in_expand. exists e. auto.
Qed.

(** * the directory [finish] produces is a valid directory *)
Fixpoint pl_sorted (lo : N) (pl : list (N * N * N)) : Prop :=
  match pl with
  | [] => True
  | (id, _, _) :: r => lo <= id /\ pl_sorted (id + 1) r
  end.
Definition pl_ok (p : N * N * N) : Prop :=
  let '(id, off, len) := p in id < two63 /\ 1 <= len /\ len < two32 /\ off + len + 1 < two64.
Definition cur_next (cur : option entry) : N := match cur with Some e => e_id e + e_run e | None => 0 end.
Definition cur_entry_ok (cur : option entry) : Prop :=
  match cur with
  | Some e => e_id e + e_run e <= two63 /\ 1 <= e_run e /\ 1 <= e_len e /\ e_len e < two32 /\ e_off e + e_len e + 1 < two64
  | None => True
  end.
Definition prev_ok (prev cur : option entry) : Prop :=
  match prev, cur with
  | Some p, Some e => e_id p < e_id e /\ e_id p + e_run p <= e_id e
  | _, _ => True
  end.

Lemma runs_valid : forall pl cur prev,
  pl_sorted (cur_next cur) pl -> Forall pl_ok pl -> cur_entry_ok cur ->
  run_of cur + nlen pl + 1 < two32 -> prev_ok prev cur ->
  (cur = None -> prev = None) ->
  Forall entry_ok (runs pl cur) /\ ascending prev (runs pl cur).
Proof.
  induction pl as [|[[id off] len] r IH]; intros cur prev Hs Hok Hc Hn Hp Hnone.
  - destruct cur as [e|]; cbn [runs]; [|split; [constructor|exact I]].
    cbn [cur_entry_ok run_of] in *. split.
    + constructor; [|constructor]. unfold entry_ok, two63, two64, two32 in *. lia.
    + cbn [ascending]. split; [|exact I]. destruct prev; [exact Hp|exact I].
  - inversion Hok as [|? ? Hp0 Hr]; subst. cbn [pl_ok] in Hp0. destruct Hs as [Hlo Hs].
    assert (Hlen : nlen ((id, off, len) :: r) = nlen r + 1) by (unfold nlen; cbn [length]; lia).
    cbn [runs]. destruct cur as [e|].
    + cbn [cur_entry_ok run_of cur_next] in *.
      destruct ((id =? e_id e + e_run e) && (off =? e_off e) && (len =? e_len e)) eqn:Em.
      * rewrite !Bool.andb_true_iff, !N.eqb_eq in Em. destruct Em as [[E1 E2] E3].
        apply (IH (Some (mkEntry (e_id e) (e_off e) (e_len e) (e_run e + 1))) prev).
        -- cbn [cur_next e_id e_run]. replace (e_id e + (e_run e + 1)) with (id + 1) by lia. exact Hs.
        -- exact Hr.
        -- cbn [cur_entry_ok e_id e_run e_len e_off]. unfold two63 in *. lia.
        -- cbn [run_of e_run]. lia.
        -- destruct prev; [exact Hp|exact I].
        -- discriminate.
      * assert (Hnew : Forall entry_ok (runs r (Some (mkEntry id off len 1))) /\ ascending (Some e) (runs r (Some (mkEntry id off len 1)))).
        { apply IH.
          - cbn [cur_next e_id e_run]. exact Hs.
          - exact Hr.
          - cbn [cur_entry_ok e_id e_run e_len e_off]. unfold two63 in *. lia.
          - cbn [run_of e_run]. lia.
          - cbn [prev_ok e_id e_run]. lia.
          - discriminate. }
        destruct Hnew as [A B]. split.
        -- constructor; [|exact A]. unfold entry_ok, two63, two64, two32 in *. lia.
        -- cbn [ascending]. split; [destruct prev; [exact Hp|exact I]|exact B].
    + rewrite (Hnone eq_refl). apply IH.
      * cbn [cur_next e_id e_run]. exact Hs.
      * exact Hr.
      * cbn [cur_entry_ok e_id e_run e_len e_off]. unfold two63 in *. lia.
      * cbn [run_of e_run] in *. lia.
      * exact I.
      * discriminate.
Qed.

Lemma runs_no_pointers : forall pl cur, (match cur with Some e => e_run e <> 0 | None => True end) ->
  Forall (fun e => e_run e <> 0) (runs pl cur).
Proof.
  induction pl as [|[[id off] len] r IH]; intros cur Hc; cbn [runs].
  - destruct cur; [constructor; [exact Hc|constructor]|constructor].
  - destruct cur as [e|].
    + destruct ((id =? e_id e + e_run e) && (off =? e_off e) && (len =? e_len e)).
      * apply IH. cbn. lia.
      * constructor; [exact Hc|]. apply IH. cbn. lia.
    + apply IH. cbn. lia.
Qed.
