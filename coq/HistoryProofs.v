(** C04: under any edit history the archive behaves like a map from tile id to bytes. *)
Require Import PM.Base PM.Oracles PM.Params PM.Float PM.Header PM.Directory PM.Stream
               PM.TileManager PM.TileManagerProofs PM.DirWriter PM.DirReader PM.Hilbert PM.Archive PM.History.
From Coq Require Import Permutation ZifyN ZifyBool ZifyNat.
Open Scope N_scope.

(** the specification: a finite map, kept as an association list with distinct keys *)
Definition amap := list (N * bytes).

Definition spec_step (m : amap) (o : op) : amap * out :=
  match o with
  | OAdd id [] => (m, RRes (Err EInput))
  | OAdd id data => (aset id data m, RRes (Ok tt))
  | ORemove id => (aremove id m, RUnit)
  | OGet id => (m, RTile (Ok (aget id m)))
  | OList => (m, RIds (akeys m))
  | OCount => (m, RCount (nlen m))
  | _ => (m, RUnit)
  end.
Fixpoint spec_run (m : amap) (ops : list op) : amap * list out :=
  match ops with
  | [] => (m, [])
  | o :: r => let '(m1, x) := spec_step m o in let '(m2, xs) := spec_run m1 r in (m2, x :: xs)
  end.

(** the operations of the map interface *)
Definition map_op (o : op) : bool :=
  match o with OAdd _ _ | ORemove _ | OGet _ | OList | OCount => true | _ => false end.

(** listings are compared as sets *)
Definition out_eq (a b : out) : Prop :=
  match a, b with
  | RIds l, RIds l' => Permutation l l'
  | _, _ => a = b
  end.

Section WithCtx.
  Context (cx : ctx).

  (** the archive [p] represents the map [m] *)
  Record Rep (p : pmtiles) (m : amap) : Prop := mkRep {
    rep_inv : Inv cx (p_tm p);
    rep_nd : keys_nodup m;
    rep_view : forall id, view (p_tm p) id = Ok (aget id m);
    rep_keys : forall id, aget id (tile_by_id (p_tm p)) <> None <-> aget id m <> None
  }.

  (** no two different contents among those stored or added share a hash *)
  Definition collision_free (p : pmtiles) (o : op) : Prop :=
    match o with
    | OAdd _ data => no_collision cx (p_tm p) data
    | _ => True
    end.

  Lemma set_tm_tm p s : p_tm (set_tm p s) = s. Proof. reflexivity. Qed.

  Lemma nodup_same_length (l l' : list N) : NoDup l -> NoDup l' -> (forall x, In x l <-> In x l') -> Permutation l l'.
  Proof. intros. now apply NoDup_Permutation. Qed.

  Lemma rep_listing p m : Rep p m -> Permutation (tile_ids (p_tm p)) (akeys m).
  Proof.
    intros [HI Hnd _ Hk]. apply NoDup_Permutation; [apply HI|exact Hnd|].
    intros id. unfold tile_ids. rewrite <- !aget_in_keys. apply Hk.
  Qed.

  Theorem step_refines p m o : Rep p m -> map_op o = true -> collision_free p o ->
    let '(p', x) := step cx p o in let '(m', y) := spec_step m o in
    Rep p' m' /\ out_eq x y.
  Proof.
    intros HR Hop Hcf. destruct o; try discriminate; cbn [step spec_step].
    - (* add *)
      destruct data as [|b0 dr] eqn:Ed.
      + cbn [add_tile]. split; [assumption|reflexivity].
      + rewrite <- Ed in *. assert (Hne : data <> []) by (rewrite Ed; discriminate).
        destruct (add_tile_spec cx (p_tm p) id data (rep_inv _ _ HR) Hne Hcf) as (s' & Hs & HI' & _ & Ht & Hv & Hto & Hvo).
        rewrite Hs.
        replace (match data with [] => (m, RRes (Err EInput)) | _ :: _ => (aset id data m, RRes (Ok tt)) end)
          with (aset id data m, RRes (Ok tt)) by (rewrite Ed; reflexivity).
        split; [|reflexivity]. constructor; rewrite ?set_tm_tm.
        * exact HI'.
        * apply nodup_aset, HR.
        * intros id'. destruct (N.eq_dec id' id) as [->|Hn].
          -- now rewrite aget_aset_eq.
          -- rewrite aget_aset_neq by assumption. rewrite Hvo by assumption. apply HR.
        * intros id'. destruct (N.eq_dec id' id) as [->|Hn].
          -- rewrite Ht, aget_aset_eq. split; discriminate.
          -- rewrite Hto, aget_aset_neq by assumption. apply HR.
    - (* remove *)
      destruct (remove_tile_spec cx (p_tm p) id (rep_inv _ _ HR)) as (HI' & Hnone & _ & Hto & Hvo & _).
      split; [|reflexivity]. constructor; rewrite ?set_tm_tm.
      + exact HI'.
      + apply nodup_aremove, HR.
      + intros id'. destruct (N.eq_dec id' id) as [->|Hn].
        * rewrite aget_aremove_eq. unfold view, get_tile. now rewrite Hnone.
        * rewrite aget_aremove_neq by assumption. rewrite Hvo by assumption. apply HR.
      + intros id'. destruct (N.eq_dec id' id) as [->|Hn].
        * rewrite Hnone, aget_aremove_eq. tauto.
        * rewrite Hto, aget_aremove_neq by assumption. apply HR.
    - (* lookup *)
      split; [assumption|]. cbn [out_eq]. f_equal. apply HR.
    - (* listing *)
      split; [assumption|]. cbn [out_eq]. now apply rep_listing.
    - (* count *)
      split; [assumption|]. cbn [out_eq]. f_equal.
      rewrite num_tiles_spec. unfold nlen. f_equal.
      rewrite (Permutation_length (rep_listing p m HR)). unfold akeys. apply map_length.
  Qed.

  (** every finite history over the map interface *)
  Fixpoint hist_collision_free (p : pmtiles) (ops : list op) : Prop :=
    match ops with
    | [] => True
    | o :: r => collision_free p o /\ hist_collision_free (fst (step cx p o)) r
    end.

  Theorem history_refines : forall ops p m, Rep p m -> forallb map_op ops = true -> hist_collision_free p ops ->
    Rep (fst (run cx p ops)) (fst (spec_run m ops)) /\
    Forall2 out_eq (snd (run cx p ops)) (snd (spec_run m ops)).
  Proof.
    induction ops as [|o r IH]; intros p m HR Hops Hcf; cbn [run spec_run].
    - split; [assumption|constructor].
    - cbn [forallb] in Hops. apply Bool.andb_true_iff in Hops. destruct Hops as [Ho Hr]. destruct Hcf as [Hc Hcr].
      pose proof (step_refines p m o HR Ho Hc) as Hs.
      destruct (step cx p o) as [p1 x]. destruct (spec_step m o) as [m1 y]. destruct Hs as [HR1 Hxy].
      cbn [fst] in Hcr. specialize (IH p1 m1 HR1 Hr Hcr).
      destruct (run cx p1 r) as [p2 xs]. destruct (spec_run m1 r) as [m2 ys]. cbn [fst snd] in *.
      destruct IH as [HR2 Hxs]. split; [assumption|constructor; assumption].
  Qed.

  (** a new, empty archive represents the empty map *)
  Lemma rep_new b : Rep (pm_new b) [].
  Proof.
    constructor; cbn.
    - apply inv_empty.
    - constructor.
    - reflexivity.
    - tauto.
  Qed.

  (** independence: editing or removing one id never changes what another id returns *)
  Corollary independence p m o id' : Rep p m -> map_op o = true -> collision_free p o ->
    (match o with OAdd id _ | ORemove id => id <> id' | _ => True end) ->
    view (p_tm (fst (step cx p o))) id' = view (p_tm p) id'.
  Proof.
    intros HR Hop Hcf Hne. pose proof (step_refines p m o HR Hop Hcf) as Hs.
    destruct (step cx p o) as [p1 x] eqn:Es. destruct (spec_step m o) as [m1 y] eqn:Em. destruct Hs as [HR1 _].
    cbn [fst]. rewrite (rep_view _ _ HR1), (rep_view _ _ HR).
    destruct o; try discriminate; cbn [spec_step] in Em.
    - destruct data; injection Em as <- _; [reflexivity|]. now rewrite aget_aset_neq by congruence.
    - injection Em as <- _. now rewrite aget_aremove_neq by congruence.
    - now injection Em as <- _.
    - now injection Em as <- _.
    - now injection Em as <- _.
  Qed.
End WithCtx.
