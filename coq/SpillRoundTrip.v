(** C01, leaf-spill case: an archive whose directory does not fit the root is written with one level of leaf
    directories; reading it back through the pointers yields the same tiles. *)
From Coq Require Import List NArith Lia Bool Sorting.Sorted.
Require Import PM.Base PM.Oracles PM.Params PM.Varint PM.Directory PM.DirectoryProofs PM.Stream PM.StreamProofs PM.Header PM.HeaderProofs
  PM.TileManager PM.TileManagerProofs PM.DirWriter PM.DirReader PM.Archive PM.FinishSpec PM.FinishProofs PM.SpillSpec PM.SpillProofs
  PM.FilterProofs PM.OpenFilterProofs PM.PlaceProofs PM.ReadBackProofs PM.RoundTripProofs PM.Float.
Import ListNotations.
Open Scope N_scope.

(** * the pointers a spill produces form a valid directory *)
Lemma ascending_some_all : forall l x, ascending (Some x) l -> forall y, e_id y <= e_id x -> Forall (fun e => e_id y < e_id e) l.
Proof.
  induction l as [|a r IH]; intros x H y Hy; [constructor|]. cbn [ascending] in H. destruct H as [[H1 _] H2].
  constructor; [lia|]. apply (IH a H2). lia.
Qed.
Lemma ascending_of_none l x : ascending None l ->
  (match l with [] => True | h :: _ => e_id x < e_id h /\ e_id x + e_run x <= e_id h end) -> ascending (Some x) l.
Proof. destruct l as [|h r]; intros H G; [exact I|]. cbn [ascending] in *. split; [exact G|apply H]. Qed.

Section Ptrs.
  Context (cx : ctx) (c : compression).

  Lemma leaves_spec_ptrs : forall cs off bs ps,
    leaves_spec cx c cs off = Ok (bs, ps) ->
    ascending None (concat cs) -> Forall entry_ok (concat cs) ->
    Forall (fun b => 1 <= nlen b < two32) bs -> off + nlen (concat bs) + 1 < two64 ->
    Forall entry_ok ps /\ ascending None ps /\ Forall (fun p => e_run p = 0) ps /\
    (forall lb, Forall (fun e => lb < e_id e) (concat cs) -> Forall (fun p => lb < e_id p) ps).
  Proof.
    induction cs as [|ch r IH]; intros off bs ps H Hasc Hok Hsm Hsz.
    - cbn in H. injection H as <- <-. repeat split; constructor.
    - cbn [leaves_spec] in H. destruct ch as [|first rest].
      + cbn [concat app] in *. now apply (IH off bs ps).
      + destruct (encode_dir cx false c (first :: rest)) as [blob| |]; cbn [bind] in H; try discriminate.
        destruct (leaves_spec cx c r (off + nlen blob)) as [[bs' ps']| |] eqn:El; cbn [bind] in H; try discriminate.
        injection H as <- <-. inversion Hsm as [|? ? Hb Hbs]; subst.
        cbn [concat] in Hasc, Hok, Hsz. rewrite <- app_comm_cons in Hasc, Hok.
        cbn [ascending] in Hasc. destruct Hasc as [_ Hasc]. inversion Hok as [|? ? Hf Hok']; subst.
        assert (Hn : nlen (blob ++ concat bs') = nlen blob + nlen (concat bs')) by (unfold nlen; rewrite app_length; lia).
        rewrite Hn in Hsz.
        assert (Hasc_r : ascending None (concat r)).
        { pose proof (ascending_skipn (length rest) _ _ Hasc) as A. rewrite skipn_app, skipn_all, Nat.sub_diag in A. exact A. }
        assert (Hok_r : Forall entry_ok (concat r)) by (apply Forall_app in Hok'; apply Hok').
        destruct (IH _ _ _ El Hasc_r Hok_r Hbs) as (A & B & C & D); [lia|].
        assert (Hgt : Forall (fun e => e_id first < e_id e) (concat r)).
        { pose proof (ascending_some_all _ _ Hasc first (N.le_refl _)) as G. apply Forall_app in G. apply G. }
        assert (Em : nlen blob mod two32 = nlen blob) by (apply N.mod_small; lia).
        split; [|split; [|split]].
        * constructor; [|exact A]. unfold entry_ok in *. cbn [e_id e_run e_len e_off]. rewrite Em. unfold two64, two32 in *. lia.
        * cbn [ascending]. split; [exact I|]. apply ascending_of_none; [exact B|].
          specialize (D _ Hgt). destruct ps' as [|p0 pr]; [exact I|]. inversion D; subst. cbn [e_id e_run]. lia.
        * constructor; [reflexivity|exact C].
        * intros lb Hlb. inversion Hlb as [|? ? Hl1 Hl2]; subst. constructor; [exact Hl1|]. apply D. apply Forall_app in Hl2. apply Hl2.
  Qed.
End Ptrs.

(** * reading through one level of pointers *)
Section WalkPointers.
  Context (cx : ctx) (c : compression).

  Lemma walk_pointers img lo f : forall ptrs chs leaves off acc,
    ptrs_ok cx c ptrs chs leaves off ->
    (forall o l, o + l <= nlen leaves -> 1 <= l -> section img (lo + o) l = section leaves o l) ->
    lo + nlen leaves < two64 ->
    Forall (fun p => e_id p < two64) ptrs ->
    Forall (Forall (fun e => e_run e <> 0)) chs ->
    walk_entries (fun lo' len a => read_dir_rec cx (S f) c img lo' len lo full_range a) lo full_range ptrs acc
      = Ok (fold_left (fun a e => expand_run full_range e a) (concat chs) acc).
  Proof.
    induction ptrs as [|p pr IH]; intros chs leaves off acc Hp Hsec Hlo Hid Hch.
    - destruct chs; [reflexivity|destruct Hp].
    - destruct chs as [|ch cr]; [destruct Hp|]. cbn [ptrs_ok] in Hp.
      destruct Hp as (_ & Hrun & Hoff & Hlen & Hin & Hdec & Hrest).
      inversion Hid as [|? ? Hid1 Hid2]; subst. inversion Hch as [|? ? Hc1 Hc2]; subst.
      cbn [walk_entries]. rewrite Hrun. cbn [N.eqb].
      assert (Er : (range_end_inc full_range <? e_id p) = false).
      { apply N.ltb_ge. unfold range_end_inc, full_range. cbn [r_end]. unfold u64_max. unfold two64 in Hid1. lia. }
      rewrite Er. unfold cadd64. destruct (N.ltb_spec (lo + e_off p) two64); [|lia]. cbn [bind read_dir_rec].
      rewrite Hsec by assumption. rewrite Hdec. cbn [bind].
      rewrite walk_tiles_only by assumption. cbn [bind concat]. rewrite fold_left_app.
      apply (IH cr leaves (e_off p + e_len p)); assumption.
  Qed.
End WalkPointers.

(** * the image of a spilled archive *)
Section SpillBytes.
  Context (cx : ctx).

  Theorem to_bytes_spill asy p res root0 mb img :
    finish cx (p_tm p) = Ok res ->
    encode_dir cx asy (p_icomp p) (fr_dir res) = Ok root0 -> max_root_dir_length < nlen root0 ->
    compress cx asy (p_icomp p) (p_meta p) = Ok mb -> header_bytes = 127 ->
    to_bytes cx asy p = Ok img ->
    exists (k : nat) blobs ptrs root junk hb,
      (1 <= k)%nat /\ leaves_spec cx (p_icomp p) (chunks k (fr_dir res)) 0 = Ok (blobs, ptrs) /\
      encode_dir cx asy (p_icomp p) ptrs = Ok root /\ nlen root <= max_root_dir_length /\
      127 + nlen root + nlen mb + nlen (concat blobs) + nlen (fr_data res) < two64 /\
      encode_header (mkH 3 127 (nlen root) (127 + nlen root) (nlen mb) (127 + nlen root + nlen mb) (nlen (concat blobs))
                 (127 + nlen root + nlen mb + nlen (concat blobs)) (nlen (fr_data res))
                 (fr_addressed res) (fr_entries res) (fr_contents res) true
                 (p_icomp p) (p_tcomp p) (p_ttype p) (p_minz p) (p_maxz p)
                 (p_min_lon p) (p_min_lat p) (p_max_lon p) (p_max_lat p) (p_cz p) (p_clon p) (p_clat p)) = Ok hb /\
      img = hb ++ root ++ mb ++ concat blobs ++ fr_data res ++ junk.
  Proof.
    intros Hf He Hbig Hm Hhb H. unfold to_bytes, to_writer in H. rewrite Hf in H. cbn [bind] in H.
    unfold ws_tell at 1 in H. cbn [ws_new ws_log_ev ws_pos] in H.
    unfold cadd64 in H. rewrite Hhb in H. destruct (N.ltb_spec (0 + 127) two64); [|unfold two64 in *; lia]. cbn [bind] in H.
    set (st1 := ws_seek _ (0 + 127)) in H.
    assert (B1 : building' st1 []) by (split; [reflexivity|left; split; reflexivity]).
    destruct (write_directories cx asy (p_icomp p) (fr_dir res) None st1) as [[st2 ld]| |] eqn:Ew; cbn [bind] in H; try discriminate.
    destruct (write_directories_building cx asy (p_icomp p) (fr_dir res) st1 st2 ld root0 B1 He Hbig Ew)
      as (k & blobs & ptrs & root & Hk & Hl & -> & Hr & Hfit & B2).
    exists k, blobs, ptrs, root.
    unfold ws_tell in H. cbn [ws_log_ev ws_pos ws_img] in H.
    destruct B2 as [P2 I2]. rewrite P2 in H. unfold sub64, add64 in H.
    destruct (N.leb_spec 0 (127 + nlen root)); [|lia]. cbn [bind] in H. rewrite N.sub_0_r in H.
    destruct (N.leb_spec 127 (127 + nlen root)); [|lia]. cbn [bind] in H.
    replace (127 + nlen root - 127) with (nlen root) in H by lia.
    destruct (N.ltb_spec (127 + nlen root) two64); [|discriminate]. cbn [bind] in H.
    rewrite Hm in H. cbn [bind] in H.
    set (st3 := ws_write_codec cx asy (p_icomp p) (ws_log_ev st2 EvPos) (p_meta p) mb) in H.
    assert (B3 : building' st3 (root ++ mb)).
    { apply (building'_same (ws_write st2 mb)); [unfold st3; rewrite ws_write_codec_img; unfold ws_write, ws_write_gen; destruct mb; reflexivity
                                               |unfold st3; rewrite ws_write_codec_pos, ws_write_pos; reflexivity|].
      apply building'_write. split; assumption. }
    destruct B3 as [P3 I3]. rewrite P3 in H.
    replace (nlen (root ++ mb)) with (nlen root + nlen mb) in H by (unfold nlen; rewrite app_length; lia).
    destruct (N.leb_spec 0 (127 + (nlen root + nlen mb))); [|lia]. cbn [bind] in H. rewrite N.sub_0_r in H.
    destruct (N.leb_spec (127 + nlen root) (127 + (nlen root + nlen mb))); [|lia]. cbn [bind] in H.
    replace (127 + (nlen root + nlen mb) - (127 + nlen root)) with (nlen mb) in H by lia.
    destruct (N.ltb_spec (127 + nlen root + nlen mb) two64); [|discriminate]. cbn [bind] in H.
    (* the leaf section *)
    set (L := concat blobs) in *.
    set (st4 := ws_write (ws_log_ev st3 EvPos) L) in H.
    assert (B4 : building' st4 ((root ++ mb) ++ L)).
    { apply building'_write. split; [exact P3|exact I3]. }
    destruct B4 as [P4 I4]. cbn [ws_log_ev ws_pos ws_img] in H. rewrite P4 in H.
    replace (nlen ((root ++ mb) ++ L)) with (nlen root + nlen mb + nlen L) in H by (unfold nlen; rewrite !app_length; lia).
    destruct (N.leb_spec 0 (127 + (nlen root + nlen mb + nlen L))); [|lia]. cbn [bind] in H. rewrite N.sub_0_r in H.
    destruct (N.leb_spec (127 + nlen root + nlen mb) (127 + (nlen root + nlen mb + nlen L))); [|lia]. cbn [bind] in H.
    replace (127 + (nlen root + nlen mb + nlen L) - (127 + nlen root + nlen mb)) with (nlen L) in H by lia.
    destruct (N.ltb_spec (127 + nlen root + nlen mb + nlen L) two64); [|discriminate]. cbn [bind] in H.
    match type of H with context [encode_header ?h] => destruct (encode_header h) as [hb| |] eqn:Hh end; cbn [bind] in H; try discriminate.
    destruct (N.ltb_spec (0 + (127 + nlen root + nlen mb + nlen L)) two64); [|discriminate]. cbn [bind] in H.
    destruct (N.ltb_spec (0 + (127 + nlen root + nlen mb + nlen L) + nlen (fr_data res)) two64); [|discriminate]. cbn [bind] in H.
    injection H as H.
    set (st5 := ws_write (ws_log_ev st4 EvPos) (fr_data res)) in H.
    assert (B5 : building' st5 (((root ++ mb) ++ L) ++ fr_data res)).
    { apply building'_write. split; [exact P4|exact I4]. }
    assert (Himg : ws_img (if asy then ws_log_ev (ws_write (ws_seek st5 0) hb) EvFlush else ws_write (ws_seek st5 0) hb)
                   = ws_img (ws_write (ws_seek st5 0) hb)) by (destruct asy; reflexivity).
    rewrite Himg in H.
    destruct (building'_header st5 _ hb B5) as (junk & Hj); [now apply header_length with (h := _) (1 := Hh)|].
    exists junk, hb. split; [exact Hk|]. split; [exact Hl|]. split; [exact Hr|]. split; [exact Hfit|].
    split; [lia|]. split; [reflexivity|]. rewrite <- H, Hj. now rewrite <- !app_assoc.
  Qed.
End SpillBytes.

(** * C01: write, then read (directory spilled into leaf directories) *)
Lemma section_shift (a X : bytes) o l : section (a ++ X) (nlen a + o) l = section X o l.
Proof.
  unfold section, nlen. rewrite app_length.
  destruct (N.leb_spec (N.of_nat (length a + length X)) (N.of_nat (length a) + o)) as [A|A];
    destruct (N.leb_spec (N.of_nat (length X)) o) as [B|B]; try lia; [reflexivity|].
  replace (N.of_nat (length a + length X) - (N.of_nat (length a) + o)) with (N.of_nat (length X) - o) by lia.
  replace (N.to_nat (N.of_nat (length a) + o)) with (length a + N.to_nat o)%nat by lia.
  rewrite <- skipn_skipn'. now rewrite (skipn_exact a X _ eq_refl).
Qed.
Lemma chunks_fuel_len {A} : forall fuel k (l : list A), Forall (fun ch => (length ch <= length l)%nat) (chunks_fuel fuel k l).
Proof.
  induction fuel as [|f IH]; intros k l; [constructor|]. cbn [chunks_fuel]. destruct l as [|x r] eqn:El; [constructor|]. rewrite <- El.
  constructor; [rewrite firstn_length; lia|]. eapply Forall_impl; [|apply IH]. cbv beta. intros ch Hc. rewrite skipn_length in Hc. lia.
Qed.
Lemma blobs_count (bs : list bytes) : Forall (fun b => 1 <= nlen b < two32) bs -> (length bs <= length (concat bs))%nat.
Proof. induction 1 as [|b r Hb _ IH]; [cbn; lia|]. cbn [concat length]. rewrite app_length. unfold nlen in Hb. lia. Qed.
Lemma leaves_spec_count cx c : forall cs off bs ps, leaves_spec cx c cs off = Ok (bs, ps) -> length ps = length bs.
Proof.
  induction cs as [|ch r IH]; intros off bs ps H; [cbn in H; injection H as <- <-; reflexivity|].
  cbn [leaves_spec] in H. destruct ch as [|first rest]; [now apply (IH off)|].
  destruct (encode_dir cx false c (first :: rest)) as [blob| |]; cbn [bind] in H; try discriminate.
  destruct (leaves_spec cx c r (off + nlen blob)) as [[bs' ps']| |] eqn:El; cbn [bind] in H; try discriminate.
  injection H as <- <-. cbn [length]. f_equal. now apply (IH _ _ _ El).
Qed.

Lemma read_dir_rec_S cx f c img o l lo r acc :
  read_dir_rec cx (S f) c img o l lo r acc =
  (do es <- decode_dir cx c (section img o l);
   walk_entries (fun lo' len a => read_dir_rec cx f c img lo' len lo r a) lo r es acc).
Proof. reflexivity. Qed.

Section RoundTripSpill.
  Context (cx : ctx).
  Hypothesis Hinv : codec_inv cx.

  (** Write -> read round trip for archives whose directory does NOT fit the root directory and is spilled into
      leaf directories.  The write is assumed to succeed (termination/success of the doubling loop is C06's open
      part); every leaf blob is assumed shorter than 4 GiB (its length is stored in a u32). *)
  Theorem roundtrip_spill asy p tiles U root0 img :
    Inv cx (p_tm p) -> logical (p_tm p) = Ok tiles ->
    hash_inj_on cx U -> (forall c, In c U -> nlen c < two32) ->
    Forall (fun t => In (snd t) U /\ fst t < two63 /\ 1 <= nlen (snd t)) tiles -> nlen tiles + 1 < two32 ->
    StronglySorted (fun a b => fst a < fst b) tiles ->
    p_icomp p <> CUnknown -> p_meta p <> [] -> json_parse cx (p_meta p) = Ok (Some (p_meta p)) ->
    (forall b z, b <> [] -> compress cx asy (p_icomp p) b = Ok z -> z <> []) ->
    p_minz p < 256 -> p_maxz p < 256 -> p_cz p < 256 ->
    header_bytes = 127 -> max_dir_depth = Some 3 ->
    encode_dir cx asy (p_icomp p) (fr_dir (spec_finish tiles)) = Ok root0 -> max_root_dir_length < nlen root0 ->
    (forall k blobs ptrs, leaves_spec cx (p_icomp p) (chunks k (fr_dir (spec_finish tiles))) 0 = Ok (blobs, ptrs) ->
                          Forall (fun b => 1 <= nlen b < two32) blobs) ->
    nlen (fr_data (spec_finish tiles)) + 1 < two64 ->
    to_bytes cx asy p = Ok img ->
    exists p', from_reader cx img full_range = Ok p' /\
      (forall id c, In (id, c) tiles -> get_tile (p_tm p') id = Ok (Some c)) /\
      (forall id, ~ In id (map fst tiles) -> get_tile (p_tm p') id = Ok None) /\
      p_meta p' = p_meta p /\ p_ttype p' = p_ttype p /\ p_tcomp p' = p_tcomp p /\ p_icomp p' = p_icomp p /\
      p_minz p' = p_minz p /\ p_maxz p' = p_maxz p /\ p_cz p' = p_cz p /\
      p_min_lon p' = quantize_coord (p_min_lon p) /\ p_min_lat p' = quantize_coord (p_min_lat p) /\
      p_max_lon p' = quantize_coord (p_max_lon p) /\ p_max_lat p' = quantize_coord (p_max_lat p) /\
      p_clon p' = quantize_coord (p_clon p) /\ p_clat p' = quantize_coord (p_clat p).
  Proof.
    intros HI Hlog Hinj Hsmall Htiles Hcnt Hsorted Hc Hmne Hjson Hcne Z1 Z2 Z3 Hhb Hdepth Hroot Hbig Hblob Hdsz Hto.
    (* finish *)
    assert (Hfin : finish cx (p_tm p) = Ok (spec_finish tiles)).
    { apply (finish_is_spec cx (p_tm p) tiles U); try assumption.
      eapply Forall_impl; [|exact Htiles]. intros t (A & B & _). split; assumption. }
    set (res := spec_finish tiles) in *.
    (* metadata *)
    assert (exists mb, compress cx asy (p_icomp p) (p_meta p) = Ok mb) as (mb & Hmb)
      by (unfold compress; destruct (p_icomp p); try congruence; eauto).
    assert (Hmbne : mb <> []) by (now apply (Hcne (p_meta p) mb)).
    pose proof (compress_decompress cx asy (p_icomp p) (p_meta p) Hinv Hc mb Hmb) as Hdm.
    (* placements *)
    pose proof (place_slices tiles [] 0 [] eq_refl) as Hps. cbv zeta in Hps. cbn [app] in Hps.
    destruct Hps as [_ HF2]; [intros c0 o0 []|].
    assert (Edata : fr_data res = concat (snd (place tiles [] 0))) by (unfold res, spec_finish; destruct (place tiles [] 0); reflexivity).
    assert (Edir : fr_dir res = runs (fst (place tiles [] 0)) None) by (unfold res, spec_finish; destruct (place tiles [] 0); reflexivity).
    set (pl := fst (place tiles [] 0)) in *. set (data := fr_data res) in *. rewrite <- Edata in HF2.
    destruct (pl_of_tiles tiles pl 0 data HF2 Hsorted) as (Hps & Hpok & Hpin & Htin & Huniq).
    { eapply Forall_impl; [|exact Htiles]. intros t (A & B & C). split; [lia|]. split; [exact B|]. split; [exact C|now apply Hsmall]. }
    { exact Hdsz. }
    (* the directory *)
    assert (Hlen : nlen pl = nlen tiles).
    { unfold nlen. f_equal. clear -HF2. induction HF2; [reflexivity|cbn [length]; now f_equal]. }
    destruct (runs_valid pl None None) as [Hvok Hvasc]; try assumption; try exact I; try reflexivity.
    { cbn [run_of]. lia. }
    assert (Hvd : valid_dir (fr_dir res)) by (rewrite Edir; split; assumption).
    assert (Hnp : Forall (fun e => e_run e <> 0) (fr_dir res)) by (rewrite Edir; apply runs_no_pointers; exact I).
    assert (Hexp : expand (fr_dir res) = pl) by (rewrite Edir, runs_expand by exact I; reflexivity).
    assert (Hnes : (length (fr_dir res) <= length tiles)%nat).
    { assert (length (fr_dir res) <= length (expand (fr_dir res)))%nat.
      { clear -Hnp. induction (fr_dir res) as [|e r IH]; [cbn; lia|]. inversion Hnp; subst. cbn [expand flat_map length].
        rewrite app_length. change (flat_map _ r) with (expand r).
        assert (1 <= length (expand_entry (e_id e) (N.to_nat (e_run e)) (e_off e) (e_len e)))%nat.
        { destruct (N.to_nat (e_run e)) eqn:En; [lia|cbn; lia]. }
        specialize (IH H2). lia. }
      rewrite Hexp in H. unfold nlen in Hlen. lia. }
    (* the image *)
    destruct (to_bytes_spill cx asy p res root0 mb img Hfin Hroot Hbig Hmb Hhb Hto)
      as (k & blobs & ptrs & root & junk & hb & Hk & Hl & Hr & Hfit & Hsz & Hh & Himg).
    specialize (Hblob k blobs ptrs Hl). set (L := concat blobs) in *. fold data in Himg, Hsz, Hh.
    (* the chunks and their pointers *)
    set (cs := chunks k (fr_dir res)) in *.
    assert (Hcc : concat cs = fr_dir res) by (now apply chunks_concat).
    assert (Hcv : Forall valid_dir cs) by (apply chunks_fuel_valid; exact Hvd).
    assert (Hcn : Forall (fun ch => ch <> []) cs) by (now apply chunks_fuel_nonempty).
    assert (Hcl : Forall (fun ch => nlen ch < two64) cs).
    { eapply Forall_impl; [|apply (chunks_fuel_len (length (fr_dir res)) k (fr_dir res))]. cbv beta. intros ch Hch.
      unfold nlen, two64, two32 in *. lia. }
    pose proof (leaves_spec_ok cx Hinv (p_icomp p) Hc cs 0 [] blobs ptrs Hcv Hcn Hcl Hl eq_refl Hblob) as Hpo. cbn [app] in Hpo. fold L in Hpo.
    destruct (leaves_spec_ptrs cx (p_icomp p) cs 0 blobs ptrs Hl) as (Pok & Pasc & Prun & _).
    { rewrite Hcc. apply Hvd. } { rewrite Hcc. apply Hvd. } { exact Hblob. } { fold L. lia. }
    assert (Hpn : nlen ptrs < two64).
    { pose proof (leaves_spec_count cx (p_icomp p) cs 0 blobs ptrs Hl) as E1. pose proof (blobs_count blobs Hblob) as E2. fold L in E2.
      unfold nlen, two64 in *. lia. }
    destruct (dir_roundtrip cx asy (p_icomp p) ptrs Hinv Hc (conj Pok Pasc) Hpn) as (root' & Hr' & Hdec).
    rewrite Hr in Hr'. injection Hr' as <-.
    (* the header *)
    match type of Hh with encode_header ?h0 = _ => set (h := h0) in * end.
    assert (Hcounts : fr_addressed res < two64 /\ fr_entries res < two64 /\ fr_contents res < two64).
    { destruct (spec_finish_data tiles) as (_ & Hco & Had). fold res in Hco, Had. rewrite Had, Hco.
      assert (Hen : fr_entries res = nlen (fr_dir res)) by (unfold res, spec_finish; destruct (place tiles [] 0); reflexivity).
      rewrite Hen.
      pose proof (first_occ_length (map snd tiles) []) as Hfo0. rewrite map_length in Hfo0.
      unfold nlen, two64, two32 in *. repeat split; lia. }
    assert (Hfo : header_fields_ok h).
    { unfold header_fields_ok, h. cbn. fold L. fold data. unfold two64 in *. repeat split; try lia; try apply Hcounts. }
    destruct (header_dec_enc h (root ++ mb ++ L ++ data ++ junk) Hfo Hhb) as (hb' & Hhbe & Lhb & Hhd).
    rewrite Hh in Hhbe. injection Hhbe as Ehb. subst hb'. rewrite <- Himg in Hhd.
    assert (Nhb : nlen hb = 127) by (unfold nlen; rewrite Lhb; reflexivity).
    (* reading the directories through the pointers *)
    assert (Hrd : read_directories cx (p_icomp p) img 127 (nlen root) (127 + nlen root + nlen mb) full_range
                  = Ok (fold_left (fun a e => expand_run full_range e a) (fr_dir res) [])).
    { unfold read_directories. rewrite Hdepth. cbn [depth_fuel_of]. change (S (N.to_nat 3)) with 4%nat. rewrite read_dir_rec_S.
      assert (Sroot : section img 127 (nlen root) = root) by (rewrite Himg, <- Nhb; apply section_app_mid).
      rewrite Sroot, Hdec. cbn [bind].
      rewrite (walk_pointers cx (p_icomp p) img (127 + nlen root + nlen mb) 2 ptrs cs L 0 [] Hpo).
      - now rewrite Hcc.
      - intros o l Hol Hl1. rewrite Himg.
        replace (hb ++ root ++ mb ++ L ++ data ++ junk) with ((hb ++ root ++ mb) ++ L ++ data ++ junk) by now rewrite <- !app_assoc.
        replace (127 + nlen root + nlen mb) with (nlen (hb ++ root ++ mb)) by (unfold nlen in *; rewrite !app_length; lia).
        rewrite section_shift. now apply section_app_l.
      - lia.
      - eapply Forall_impl; [|exact Pok]. cbv beta. intros e He. unfold entry_ok in He. lia.
      - assert (G : Forall (fun e => e_run e <> 0) (concat cs)) by (rewrite Hcc; exact Hnp).
        clear -G. induction cs as [|ch r IH]; [constructor|]. cbn [concat] in G. apply Forall_app in G. constructor; [apply G|apply IH, G]. }
    destruct (from_reader_core cx img (hb ++ root ++ mb ++ L) data junk mb (root ++ mb ++ L ++ data ++ junk) (quantize h) (fr_dir res) (p_meta p))
      as (p' & Hfr & Hmeta & Htt & Htc & Hic & Hz1 & Hz2 & Hz3 & C1 & C2 & C3 & C4 & C5 & C6 & Hget & Hnone).
    - rewrite Himg. now rewrite <- !app_assoc.
    - cbn. unfold nlen in *. rewrite !app_length. lia.
    - exact Hhd.
    - reflexivity.
    - exact Hmbne.
    - cbn [quantize h_meta_off h_meta_len h]. rewrite Himg.
      replace (hb ++ root ++ mb ++ L ++ data ++ junk) with ((hb ++ root) ++ mb ++ L ++ data ++ junk) by now rewrite <- !app_assoc.
      replace (127 + nlen root) with (nlen (hb ++ root)) by (unfold nlen in *; rewrite app_length; lia). apply section_app_mid.
    - exact Hdm.
    - exact Hjson.
    - exact Hrd.
    - rewrite Hexp. intros id o l Hin. destruct (Hpin id o l Hin) as (c & Hc0 & -> & Hle & _).
      rewrite Forall_forall in Htiles. destruct (Htiles (id, c) Hc0) as (_ & _ & Hc1). cbn [snd] in Hc1.
      repeat split; try lia. unfold nlen in *. rewrite !app_length. lia.
    - rewrite Hexp. exact Huniq.
    - exists p'. split; [exact Hfr|]. split; [|split].
      + intros id c Hin. destruct (Htin id c Hin) as (o & l & Hpl).
        rewrite (Hget id o l) by (rewrite Hexp; exact Hpl).
        destruct (Hpin id o l Hpl) as (c' & Hc' & _ & _ & Hsec).
        assert (Ecc : c' = c) by (now apply (sorted_unique_content tiles Hsorted id)).
        rewrite Hsec, Ecc. reflexivity.
      + intros id Hn. apply Hnone. rewrite Hexp. intros o l Hin. destruct (Hpin id o l Hin) as (c & Hc0 & _).
        apply Hn. change id with (fst (id, c)). now apply in_map.
      + cbn [quantize h_ttype h_tcomp h_icomp h_minz h_maxz h_cz h_min_lon h_min_lat h_max_lon h_max_lat h_clon h_clat h] in *.
        repeat split; assumption.
  Qed.
End RoundTripSpill.

(** both cases in one statement *)
Section RoundTripAny.
  Context (cx : ctx).
  Hypothesis Hinv : codec_inv cx.
  Theorem roundtrip_any asy p tiles U root0 img :
    Inv cx (p_tm p) -> logical (p_tm p) = Ok tiles ->
    hash_inj_on cx U -> (forall c, In c U -> nlen c < two32) ->
    Forall (fun t => In (snd t) U /\ fst t < two63 /\ 1 <= nlen (snd t)) tiles -> nlen tiles + 1 < two32 ->
    StronglySorted (fun a b => fst a < fst b) tiles ->
    p_icomp p <> CUnknown -> p_meta p <> [] -> json_parse cx (p_meta p) = Ok (Some (p_meta p)) ->
    (forall b z, b <> [] -> compress cx asy (p_icomp p) b = Ok z -> z <> []) ->
    p_minz p < 256 -> p_maxz p < 256 -> p_cz p < 256 ->
    header_bytes = 127 -> max_dir_depth = Some 3 ->
    encode_dir cx asy (p_icomp p) (fr_dir (spec_finish tiles)) = Ok root0 ->
    (forall k blobs ptrs, leaves_spec cx (p_icomp p) (chunks k (fr_dir (spec_finish tiles))) 0 = Ok (blobs, ptrs) ->
                          Forall (fun b => 1 <= nlen b < two32) blobs) ->
    (forall mb, compress cx asy (p_icomp p) (p_meta p) = Ok mb ->
                127 + nlen root0 + nlen mb + nlen (fr_data (spec_finish tiles)) + 1 < two64) ->
    to_bytes cx asy p = Ok img ->
    exists p', from_reader cx img full_range = Ok p' /\
      (forall id c, In (id, c) tiles -> get_tile (p_tm p') id = Ok (Some c)) /\
      (forall id, ~ In id (map fst tiles) -> get_tile (p_tm p') id = Ok None) /\
      p_meta p' = p_meta p /\ p_ttype p' = p_ttype p /\ p_tcomp p' = p_tcomp p /\ p_icomp p' = p_icomp p /\
      p_minz p' = p_minz p /\ p_maxz p' = p_maxz p /\ p_cz p' = p_cz p /\
      p_min_lon p' = quantize_coord (p_min_lon p) /\ p_min_lat p' = quantize_coord (p_min_lat p) /\
      p_max_lon p' = quantize_coord (p_max_lon p) /\ p_max_lat p' = quantize_coord (p_max_lat p) /\
      p_clon p' = quantize_coord (p_clon p) /\ p_clat p' = quantize_coord (p_clat p).
  Proof.
    intros HI Hlog Hinj Hsmall Htiles Hcnt Hsorted Hc Hmne Hjson Hcne Z1 Z2 Z3 Hhb Hdepth Hroot Hblob Hsize Hto.
    destruct (N.le_gt_cases (nlen root0) max_root_dir_length) as [Hfit|Hbig].
    - destruct (roundtrip_fits cx Hinv asy p tiles U root0 HI Hlog Hinj Hsmall Htiles Hcnt Hsorted Hc Hmne Hjson Hcne Z1 Z2 Z3 Hhb Hdepth Hroot Hfit Hsize)
        as (img' & p' & Hto' & Hrest). rewrite Hto in Hto'. injection Hto' as <-. exists p'. exact Hrest.
    - apply (roundtrip_spill cx Hinv asy p tiles U root0 img); try assumption.
      assert (exists mb, compress cx asy (p_icomp p) (p_meta p) = Ok mb) as (mb & Hmb)
        by (unfold compress; destruct (p_icomp p); try congruence; eauto).
      specialize (Hsize mb Hmb). lia.
  Qed.
End RoundTripAny.
