(** Streams that transfer fewer bytes than requested (C13) and record what is read (C20).
    [read_call] / [write_call] are ONE call of Read::read / Write::write (or one Ready answer of
    poll_read / poll_write; a Pending answer re-issues the same call without any state change and is
    therefore not represented): the stream transfers between 1 and [max] bytes as dictated by a
    schedule of per-call limits; an exhausted schedule means full transfers.  The combinators are the
    documented loops of std / futures: read_exact, read_to_end, write_all. *)
Require Import PM.Base PM.Stream.
Open Scope N_scope.

Record rd := mkRd { rd_img : bytes; rd_pos : N; rd_sched : list N; rd_log : list (N * N) (* (pos, len), newest first *) }.
Definition avail (s : rd) : N := nlen (rd_img s) - rd_pos s.
Definition limit_of (sched : list N) (max : N) : N :=
  match sched with [] => max | k :: _ => N.min max (N.max 1 k) end.

Definition read_call (max : N) (s : rd) : bytes * rd :=
  let n := N.min (limit_of (rd_sched s) max) (avail s) in
  (section (rd_img s) (rd_pos s) n,
   mkRd (rd_img s) (rd_pos s + n) (tl (rd_sched s)) ((rd_pos s, n) :: rd_log s)).

(** Read::read_exact: keep reading until the buffer is full; a read of 0 bytes is UnexpectedEof *)
Fixpoint read_exact (fuel : nat) (n : N) (s : rd) : outcome (bytes * rd) :=
  if n =? 0 then Ok ([], s) else
  match fuel with
  | O => Crash OutOfFuel
  | S f =>
    let '(bs, s') := read_call n s in
    match bs with
    | [] => Err EEof
    | _ => do (rest, s'') <- read_exact f (n - nlen bs) s'; Ok (bs ++ rest, s'')
    end
  end.

(** Read::take(limit).read_to_end: read with a fixed-size buffer until a read returns 0 bytes *)
Fixpoint read_to_end (fuel : nat) (buf limit : N) (s : rd) : outcome (bytes * rd) :=
  match fuel with
  | O => Crash OutOfFuel
  | S f =>
    let '(bs, s') := read_call (N.min buf limit) s in
    match bs with
    | [] => Ok ([], s')
    | _ => do (rest, s'') <- read_to_end f buf (limit - nlen bs) s'; Ok (bs ++ rest, s'')
    end
  end.

(** seek(Start(off)) then read_exact(len): the lazy tile fetch of tile_manager.rs *)
Definition fetch (off len : N) (s : rd) : outcome (bytes * rd) :=
  read_exact (S (N.to_nat len)) len (mkRd (rd_img s) off (rd_sched s) (rd_log s)).

(** writers *)
Record wr := mkWr { wr_st : wstream; wr_sched : list N }.
Definition write_call (bs : bytes) (w : wr) : N * wr :=
  let n := N.min (limit_of (wr_sched w) (nlen bs)) (nlen bs) in
  (n, mkWr (ws_write (wr_st w) (firstn (N.to_nat n) bs)) (tl (wr_sched w))).
(** Write::write_all: loop until everything is written; a write of 0 bytes is WriteZero *)
Fixpoint write_all (fuel : nat) (bs : bytes) (w : wr) : outcome wr :=
  match bs with
  | [] => Ok w
  | _ =>
    match fuel with
    | O => Crash OutOfFuel
    | S f =>
      let '(n, w') := write_call bs w in
      if n =? 0 then Err EIo else write_all f (skipn (N.to_nat n) bs) w'
    end
  end.
