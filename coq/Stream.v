(** An ideal in-memory seekable stream (std::io::Cursor<Vec<u8>> / futures::io::Cursor): every
    request is satisfied fully and immediately.  Writing past the end zero-fills the gap. *)
Require Import PM.Base.
Open Scope N_scope.

Record wstream := mkWS { ws_img : bytes; ws_pos : N }.

Definition pad_to (n : nat) (b : bytes) : bytes := b ++ repeat 0 (n - length b).
(** overwrite/extend [img] at position [pos] with [bs] *)
Definition write_at (img : bytes) (pos : N) (bs : bytes) : bytes :=
  let p := N.to_nat pos in
  firstn p (pad_to p img) ++ bs ++ skipn (p + length bs) img.
Definition ws_write (s : wstream) (bs : bytes) : wstream :=
  match bs with
  | [] => s
  | _ => mkWS (write_at (ws_img s) (ws_pos s) bs) (ws_pos s + nlen bs)
  end.
Definition ws_seek (s : wstream) (pos : N) : wstream := mkWS (ws_img s) pos.

(** the bytes a reader gets from [seek(Start(off))] followed by [take(len)] *)
Definition section (img : bytes) (off len : N) : bytes :=
  firstn (N.to_nat len) (skipn (N.to_nat off) img).
