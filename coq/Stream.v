(** An ideal in-memory seekable stream (std::io::Cursor<Vec<u8>> / futures::io::Cursor): every
    request is satisfied fully and immediately.  Writing past the end zero-fills the gap.
    The stream also records the sequence of operations performed on it (the operation log), which
    is what the torn-write (C17) and fail-stop (C15) properties talk about. *)
Require Import PM.Base.
Open Scope N_scope.

(** One logical stream operation.  A [EvWrite] is one [write_all] of a byte string at a known
    position; the implementation may split it into any number of [write] calls.  [sw = true] marks
    bytes that a synchronous codec writer emits from its [Drop] implementation, where an I/O error
    is discarded instead of being returned. *)
Inductive event :=
| EvWrite (sw : bool) (pos : N) (bs : bytes)
| EvSeek (pos : N)
| EvPos            (* stream_position() *)
| EvFlush
| EvClose.

Record wstream := mkWS { ws_img : bytes; ws_pos : N; ws_log : list event (* most recent first *) }.

Definition pad_to (n : nat) (b : bytes) : bytes := b ++ repeat 0 (n - length b).
(** overwrite/extend [img] at position [pos] with [bs] *)
Definition write_at (img : bytes) (pos : N) (bs : bytes) : bytes :=
  let p := N.to_nat pos in
  firstn p (pad_to p img) ++ bs ++ skipn (p + length bs) img.

Definition ws_new (img : bytes) (pos : N) : wstream := mkWS img pos [].
Definition ws_log_ev (s : wstream) (e : event) : wstream := mkWS (ws_img s) (ws_pos s) (e :: ws_log s).

(** [write_all(bs)]; an empty write touches nothing (Cursor does not even extend the vector) *)
Definition ws_write_gen (sw : bool) (s : wstream) (bs : bytes) : wstream :=
  match bs with
  | [] => s
  | _ => mkWS (write_at (ws_img s) (ws_pos s) bs) (ws_pos s + nlen bs) (EvWrite sw (ws_pos s) bs :: ws_log s)
  end.
Definition ws_write (s : wstream) (bs : bytes) : wstream := ws_write_gen false s bs.
Definition ws_seek (s : wstream) (pos : N) : wstream := mkWS (ws_img s) pos (EvSeek pos :: ws_log s).
(** [stream_position()] *)
Definition ws_tell (s : wstream) : wstream * N := (ws_log_ev s EvPos, ws_pos s).

(** the image obtained by replaying a list of events (oldest first) on an image *)
Fixpoint replay (evs : list event) (img : bytes) : bytes :=
  match evs with
  | [] => img
  | EvWrite _ pos bs :: r => replay r (write_at img pos bs)
  | _ :: r => replay r img
  end.

(** the bytes a reader gets from [seek(Start(off))] followed by [take(len)] *)
Definition section (img : bytes) (off len : N) : bytes :=
  if nlen img <=? off then [] else
  firstn (N.to_nat (N.min len (nlen img - off))) (skipn (N.to_nat off) img).
