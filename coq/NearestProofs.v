(** C09: coordinates supplied in degrees are stored as the nearest multiple of 1e-7 — for every finite
    double in the i32 range.  [write_lat_lon] rounds the f64 product d*1e7; that product is itself rounded,
    so it can be exactly a half-integer although the exact product is not (the class [near_tie], defect D7
    of the code before its repair); the code detects the exact half and lets the sign of the
    multiplication error, obtained exactly by a fused multiply-add, decide. *)
From Coq Require Import ZArith Reals Lia Lra Psatz Bool.
From Flocq Require Import Core BinarySingleNaN Relative Sterbenz Mult_error.
Require Import PM.Params PM.Float PM.FloatProofs.
Open Scope R_scope.
#[local] Existing Instance Hprec.
#[local] Existing Instance Hmax.

Definition is_half_integer (r : R) : Prop := exists k : Z, r = IZR k + / 2.
(** the class of D7 *)
Definition near_tie (d : f64) : Prop :=
  let x := B2R d * 10000000 in is_half_integer (rnd x) /\ rnd x <> x.

Lemma fmt_half (n : Z) : (Z.abs n <= 2147483648)%Z -> generic_format radix2 fx (IZR n + / 2).
Proof.
  intros H. apply generic_format_FLT. exists (Float radix2 (2 * n + 1) (-1)).
  - unfold F2R. cbn [Fnum Fexp]. rewrite plus_IZR, mult_IZR. change (bpow radix2 (-1)) with (/ 2). lra.
  - cbn [Fnum]. apply Z.lt_le_trans with 4294967298%Z; [lia|]. vm_compute. discriminate.
  - cbn [Fexp]. lia.
Qed.

(** rounding is monotone and fixes the half-integers in range *)
Lemma rnd_ge_half (n : Z) (x : R) : (Z.abs n <= 2147483648)%Z -> IZR n + / 2 <= x -> IZR n + / 2 <= rnd x.
Proof.
  intros Hn H. rewrite <- (round_generic radix2 fx ZnearestE (IZR n + / 2)) by (try typeclasses eauto; now apply fmt_half).
  apply round_le; [typeclasses eauto|typeclasses eauto|exact H].
Qed.
Lemma rnd_le_half (n : Z) (x : R) : (Z.abs n <= 2147483648)%Z -> x <= IZR n + / 2 -> rnd x <= IZR n + / 2.
Proof.
  intros Hn H. rewrite <- (round_generic radix2 fx ZnearestE (IZR n + / 2)) by (try typeclasses eauto; now apply fmt_half).
  apply round_le; [typeclasses eauto|typeclasses eauto|exact H].
Qed.

(** ties go away from zero *)
Lemma tie_away (P : R) : Rabs (IZR (ZnearestA P) - P) = / 2 ->
  (0 < P -> IZR (ZnearestA P) = P + / 2) /\ (P < 0 -> IZR (ZnearestA P) = P - / 2) /\ P <> 0.
Proof.
  intros H. unfold Znearest in *.
  pose proof (Zfloor_lb P) as L. pose proof (Zfloor_ub P) as U.
  destruct (Rcompare_spec (P - IZR (Zfloor P)) (/ 2)) as [C|C|C].
  - exfalso. revert H. unfold Rabs. destruct Rcase_abs; lra.
  - assert (Hne : IZR (Zfloor P) <> P) by lra.
    pose proof (Zceil_floor_neq P Hne) as Hc.
    destruct (Zle_bool 0 (Zfloor P)) eqn:Z0.
    + apply Zle_bool_imp_le in Z0. apply IZR_le in Z0. rewrite Hc, plus_IZR. repeat split; intros; lra.
    + assert (Z1 : (Zfloor P < 0)%Z) by (destruct (Z.leb_spec 0 (Zfloor P)); [discriminate|assumption]).
      assert (IZR (Zfloor P) <= -1) by (apply (IZR_le _ (-1)); lia). repeat split; intros; lra.
  - assert (Hne : IZR (Zfloor P) <> P) by lra.
    pose proof (Zceil_floor_neq P Hne) as Hc. rewrite Hc, plus_IZR in H.
    exfalso. revert H. unfold Rabs. destruct Rcase_abs; lra.
Qed.

Lemma range_from_near (n : Z) (x : R) : Rabs (IZR n - x) <= / 2 -> Rabs x <= 2147483647 ->
  (-2147483647 <= n <= 2147483647)%Z.
Proof.
  intros Hnear Hx. apply Rabs_le_inv in Hnear. apply Rabs_le_inv in Hx. split; apply le_IZR.
  - change (IZR (-2147483647)) with (-2147483647).
    destruct (Z_le_gt_dec (-2147483647) n) as [Hz|Hz]; [apply IZR_le in Hz; change (IZR (-2147483647)) with (-2147483647) in Hz; lra|].
    assert (IZR n <= IZR (-2147483648)) by (apply IZR_le; lia). change (IZR (-2147483648)) with (-2147483648) in H. lra.
  - change (IZR 2147483647) with 2147483647.
    destruct (Z_le_gt_dec n 2147483647) as [Hz|Hz]; [apply IZR_le in Hz; change (IZR 2147483647) with 2147483647 in Hz; lra|].
    assert (IZR 2147483648 <= IZR n) by (apply IZR_le; lia). change (IZR 2147483648) with 2147483648 in H. lra.
Qed.

Lemma cast_of_int (f : f64) (z : Z) : is_finite f = true -> B2R f = IZR z ->
  (-2147483647 <= z <= 2147483647)%Z -> cast_i32 f = z.
Proof.
  intros Hf Hv Hz. apply cast_i32_finite; [exact Hf| |unfold i32_min, i32_max; lia].
  apply eq_IZR. rewrite Btrunc_correct, Hv; [|exact Hmax]. apply round_FIX0_int. apply valid_rnd_ZR.
Qed.

Lemma step_int (r : f64) (n : Z) (up : bool) : is_finite r = true -> B2R r = IZR n -> (Z.abs n <= 2147483648)%Z ->
  let r' := if up then Bplus mode_NE r F_one else Bminus mode_NE r F_one in
  B2R r' = IZR (if up then n + 1 else n - 1) /\ is_finite r' = true.
Proof.
  intros Fr Vr Hn. destruct F_one_ok as [V1 F1]. destruct up; cbv zeta.
  - generalize (Bplus_correct prec emax Hprec Hmax mode_NE r F_one Fr F1).
    rewrite fexp_eq, Vr, V1. simpl round_mode. rewrite <- (plus_IZR n 1).
    rewrite round_generic by (try typeclasses eauto; apply fmt_Zbig; lia).
    rewrite Rlt_bool_true; [intros [A [B _]]; now split|].
    apply big. rewrite <- abs_IZR. apply Rle_trans with (IZR 3000000000); [apply IZR_le; lia|change (IZR 3000000000) with 3000000000; lra].
  - generalize (Bminus_correct prec emax Hprec Hmax mode_NE r F_one Fr F1).
    rewrite fexp_eq, Vr, V1. simpl round_mode. rewrite <- (minus_IZR n 1).
    rewrite round_generic by (try typeclasses eauto; apply fmt_Zbig; lia).
    rewrite Rlt_bool_true; [intros [A [B _]]; now split|].
    apply big. rewrite <- abs_IZR. apply Rle_trans with (IZR 3000000000); [apply IZR_le; lia|change (IZR 3000000000) with 3000000000; lra].
Qed.

(** the rounded product is bounded like the exact one *)
Lemma rnd_bound (x : R) : Rabs x <= 2147483647 -> Rabs (rnd x) <= 2147483647.
Proof.
  intros Hx.
  assert (E1 : rnd (IZR (-2147483647)) = IZR (-2147483647)) by (apply round_generic; [typeclasses eauto|apply fmt_Z; lia]).
  assert (E2 : rnd (IZR 2147483647) = IZR 2147483647) by (apply round_generic; [typeclasses eauto|apply fmt_Z; lia]).
  apply Rabs_le. apply Rabs_le_inv in Hx. destruct Hx as [Hx1 Hx2]. split.
  - apply Rle_trans with (rnd (IZR (-2147483647))); [rewrite E1; change (IZR (-2147483647)) with (-2147483647); lra|].
    apply round_le; [typeclasses eauto|typeclasses eauto|]. change (IZR (-2147483647)) with (-2147483647). lra.
  - apply Rle_trans with (rnd (IZR 2147483647)); [|rewrite E2; change (IZR 2147483647) with 2147483647; lra].
    apply round_le; [typeclasses eauto|typeclasses eauto|]. change (IZR 2147483647) with 2147483647. lra.
Qed.

Lemma big5 : forall x, x <= 5000000000 -> x < bpow radix2 emax.
Proof.
  intros x H. apply Rle_lt_trans with (1 := H). apply Rlt_le_trans with (bpow radix2 33).
  - simpl bpow. change (Z.pow_pos 2 33) with 8589934592%Z. lra.
  - apply bpow_le. lia.
Qed.

(** the error of the multiplication, computed by the fused multiply-add, is exact *)
Lemma fma_error (d p : f64) : is_finite d = true -> is_finite p = true ->
  let x := B2R d * 10000000 in B2R p = rnd x -> / 4 <= Rabs x -> Rabs x <= 2147483647 ->
  B2R (Bfma mode_NE d FAC (Bopp p)) = x - rnd x /\ is_finite (Bfma mode_NE d FAC (Bopp p)) = true.
Proof.
  intros Fd Fp x Vp Hlo Hhi. destruct FAC_ok as [Vf Ff].
  pose proof (rnd_bound x Hhi) as HP.
  generalize (Bfma_correct prec emax Hprec Hmax mode_NE d FAC (Bopp p) Fd Ff ltac:(rewrite is_finite_Bopp; exact Fp)).
  cbv zeta. rewrite fexp_eq, Vf, B2R_Bopp, Vp. simpl round_mode. fold x.
  replace (x + - rnd x) with (- (rnd x - x)) by ring.
  assert (Hfmt : generic_format radix2 fx (rnd x - x)).
  { unfold x. rewrite <- Vf. apply mult_error_FLT; try typeclasses eauto.
    - apply generic_format_B2R.
    - apply generic_format_B2R.
    - intros _. rewrite Vf. fold x. apply Rle_trans with (2 := Hlo).
      apply Rle_trans with (bpow radix2 (-2)); [apply bpow_le; lia|]. simpl bpow. lra. }
  rewrite round_generic by (try typeclasses eauto; now apply generic_format_opp).
  rewrite Rlt_bool_true.
  - intros [A [B _]]. split; [rewrite A; ring|exact B].
  - apply big5. rewrite Rabs_Ropp. apply Rle_trans with (Rabs (rnd x) + Rabs x); [|lra].
    replace (rnd x - x) with (rnd x + - x) by ring. eapply Rle_trans; [apply Rabs_triang|]. rewrite Rabs_Ropp. lra.
Qed.

Theorem stored_nearest (d : f64) : is_finite d = true -> Rabs (B2R d * 10000000) <= 2147483647 ->
  Rabs (IZR (stored_of_deg d) - B2R d * 10000000) <= / 2 /\ (-2147483647 <= stored_of_deg d <= 2147483647)%Z.
Proof.
  intros Hf Hx. set (x := B2R d * 10000000) in *. destruct FAC_ok as [Vf Ff].
  pose proof (rnd_bound x Hx) as Hp.
  assert (Hgoal : forall z : Z, Rabs (IZR z - x) <= / 2 -> forall f : f64, is_finite f = true -> B2R f = IZR z ->
            Rabs (IZR (cast_i32 f) - x) <= / 2 /\ (-2147483647 <= cast_i32 f <= 2147483647)%Z).
  { intros z Hz f Ff' Vf'. pose proof (range_from_near z x Hz Hx) as Hr.
    rewrite (cast_of_int f z Ff' Vf' Hr). split; assumption. }
  unfold stored_of_deg. cbv zeta.
  generalize (Bmult_correct prec emax Hprec Hmax mode_NE d FAC).
  rewrite fexp_eq, Vf. simpl round_mode. fold x.
  rewrite Rlt_bool_true by (apply big; lra).
  intros [M1 [M2 _]]. rewrite Hf, Ff in M2. cbn [andb] in M2.
  set (p := Bmult mode_NE d FAC) in *.
  destruct (tie_test p M2 ltac:(rewrite M1; lra)) as [T1 [T2 T3]].
  rewrite T3, M1. rewrite M1 in T1.
  set (r := round_away p) in *. set (n := ZnearestA (rnd x)) in *.
  pose proof (Znearest_half (Zle_bool 0) (rnd x)) as Hh. fold n in Hh.
  assert (Hn : (Z.abs n <= 2147483648)%Z).
  { apply le_IZR. rewrite abs_IZR. apply Rabs_le_inv in Hp. apply Rabs_le_inv in Hh.
    apply Rabs_le. change (IZR 2147483648) with 2147483648. split; lra. }
  assert (Hn2 : (-2147483648 < n < 2147483648)%Z).
  { apply Rabs_le_inv in Hp. apply Rabs_le_inv in Hh. split; apply lt_IZR.
    - change (IZR (-2147483648)) with (-2147483648). lra.
    - change (IZR 2147483648) with 2147483648. lra. }
  destruct (Req_bool_spec (Rabs (IZR n - rnd x)) (/ 2)) as [Htie|Hnt].
  - (* the rounded product is an exact half: the sign of the exact error decides *)
    destruct (tie_away (rnd x) Htie) as [Tpos [Tneg Tnz]].
    change (ZnearestA (rnd x)) with n in Tpos, Tneg.
    assert (Hlo : / 4 <= Rabs x).
    { destruct (Rle_or_lt (/ 4) (Rabs x)) as [H|H]; [exact H|]. exfalso.
      assert (Hq : generic_format radix2 fx (/ 4)).
      { apply generic_format_FLT. exists (Float radix2 1 (-2)); [unfold F2R; cbn [Fnum Fexp]; simpl bpow; lra|vm_compute; reflexivity|cbn [Fexp]; lia]. }
      assert (Hq' : generic_format radix2 fx (- / 4)) by now apply generic_format_opp.
      assert (A : rnd x <= / 4).
      { rewrite <- (round_generic radix2 fx ZnearestE (/ 4) Hq). apply round_le; [typeclasses eauto|typeclasses eauto|].
        revert H. unfold Rabs. destruct Rcase_abs; lra. }
      assert (B : - / 4 <= rnd x).
      { rewrite <- (round_generic radix2 fx ZnearestE (- / 4) Hq'). apply round_le; [typeclasses eauto|typeclasses eauto|].
        revert H. unfold Rabs. destruct Rcase_abs; lra. }
      assert (N0 : n = 0%Z) by (apply Znearest_imp; rewrite Rminus_0_r; apply Rabs_lt; lra).
      rewrite N0 in Htie. revert Htie. unfold Rabs. destruct Rcase_abs; lra. }
    destruct (fma_error d p Hf M2 M1 Hlo Hx) as [E1 E2]. fold x in E1.
    destruct F_zero_ok as [V0 F0].
    rewrite !Bltb_correct by assumption. rewrite E1, V0, M1.
    destruct (Rlt_bool_spec (x - rnd x) 0) as [e_neg|e_nn]; destruct (Rlt_bool_spec 0 (rnd x)) as [p_pos|p_np]; cbn [andb].
    + (* positive half, exact product below it: one down *)
      specialize (Tpos p_pos).
      destruct (step_int r n false T2 T1 Hn) as [S1 S2]. cbv zeta in S1, S2.
      apply (Hgoal (n - 1)%Z); [|exact S2|exact S1].
      assert (Hn3 : (0 < n)%Z) by (apply lt_IZR; lra).
      rewrite minus_IZR. apply Rabs_le. split; [lra|].
      destruct (Rle_or_lt (IZR n - 1 - / 2) x) as [H|H]; [lra|]. exfalso.
      assert (rnd x <= IZR (n - 2) + / 2) by (apply rnd_le_half; [lia|rewrite minus_IZR; lra]).
      rewrite minus_IZR in H0. lra.
    + (* negative half, exact product below it *)
      assert (p_neg : rnd x < 0) by lra. specialize (Tneg p_neg).
      rewrite (Rlt_bool_false 0 (x - rnd x)) by lra. cbn [andb].
      apply (Hgoal n); [|exact T2|exact T1].
      apply Rabs_le. split; [lra|].
      destruct (Rle_or_lt (IZR n - / 2) x) as [H|H]; [lra|]. exfalso.
      assert (rnd x <= IZR (n - 1) + / 2) by (apply rnd_le_half; [lia|rewrite minus_IZR; lra]).
      rewrite minus_IZR in H0. lra.
    + (* positive half, exact product at or above it *)
      specialize (Tpos p_pos).
      rewrite (Rlt_bool_false (rnd x) 0) by lra. rewrite andb_false_r.
      apply (Hgoal n); [|exact T2|exact T1].
      apply Rabs_le. split; [|lra].
      destruct (Rle_or_lt x (IZR n + / 2)) as [H|H]; [lra|]. exfalso.
      assert (IZR n + / 2 <= rnd x) by (apply rnd_ge_half; [lia|lra]). lra.
    + assert (p_neg : rnd x < 0) by lra. specialize (Tneg p_neg).
      destruct (Rlt_bool_spec 0 (x - rnd x)) as [e_pos|e_zero]; destruct (Rlt_bool_spec (rnd x) 0) as [_|Hc]; try lra; cbn [andb].
      * (* negative half, exact product above it: one up *)
        destruct (step_int r n true T2 T1 Hn) as [S1 S2]. cbv zeta in S1, S2.
        apply (Hgoal (n + 1)%Z); [|exact S2|exact S1].
        rewrite plus_IZR. apply Rabs_le. split; [|lra].
        destruct (Rle_or_lt x (IZR n + 1 + / 2)) as [H|H]; [lra|]. exfalso.
        assert (IZR (n + 1) + / 2 <= rnd x) by (apply rnd_ge_half; [lia|rewrite plus_IZR; lra]).
        rewrite plus_IZR in H0. lra.
      * (* the product is exact *)
        apply (Hgoal n); [|exact T2|exact T1]. apply Rabs_le. lra.
  - (* not a half: the integer nearest to the rounded product is nearest to the exact product too *)
    apply (Hgoal n); [|exact T2|exact T1].
    apply Rabs_le. apply Rabs_le_inv in Hh. split.
    + destruct (Rle_or_lt x (IZR n + / 2)) as [H|H]; [lra|]. exfalso. apply Hnt.
      assert (IZR n + / 2 <= rnd x) by (apply rnd_ge_half; [lia|lra]).
      unfold Rabs. destruct Rcase_abs; lra.
    + destruct (Rle_or_lt (IZR n - / 2) x) as [H|H]; [lra|]. exfalso. apply Hnt.
      assert (rnd x <= IZR (n - 1) + / 2) by (apply rnd_le_half; [lia|rewrite minus_IZR; lra]).
      rewrite minus_IZR in H0. unfold Rabs. destruct Rcase_abs; lra.
Qed.
