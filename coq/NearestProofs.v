(** C09: coordinates supplied in degrees are stored as the nearest multiple of 1e-7 — for every finite
    double except the "near-tie" class of the known finding D7 (the f64 product d*1e7 is exactly a
    half-integer although the exact product is not). *)
From Coq Require Import ZArith Reals Lia Lra Psatz.
From Flocq Require Import Core BinarySingleNaN Relative.
Require Import PM.Params PM.Float PM.FloatProofs.
Open Scope R_scope.
#[local] Existing Instance Hprec.
#[local] Existing Instance Hmax.

Definition is_half_integer (r : R) : Prop := exists k : Z, r = IZR k + / 2.
(** the class of D7 *)
Definition near_tie (d : f64) : Prop :=
  let x := B2R d * 10000000 in is_half_integer (rnd x) /\ rnd x <> x.

Lemma fmt_half (n : Z) : (Z.abs n <= 2147483648)%Z -> generic_format radix2 fx (IZR n + / 2).
Proof.
  intros H. apply generic_format_FLT. exists (Float radix2 (2 * n + 1) (-1)).
  - unfold F2R. cbn [Fnum Fexp]. rewrite plus_IZR, mult_IZR. change (bpow radix2 (-1)) with (/ 2). lra.
  - cbn [Fnum]. apply Z.lt_le_trans with 4294967298%Z; [lia|]. vm_compute. discriminate.
  - cbn [Fexp]. lia.
Qed.

Theorem stored_nearest (d : f64) : is_finite d = true -> Rabs (B2R d * 10000000) <= 2147483647 -> ~ near_tie d ->
  Rabs (IZR (stored_of_deg d) - B2R d * 10000000) <= / 2 /\ (-2147483647 <= stored_of_deg d <= 2147483647)%Z.
Proof.
  intros Hf Hx Hnt. set (x := B2R d * 10000000) in *. destruct FAC_ok as [Vf Ff].
  (* the rounded product is bounded like the exact one *)
  assert (Hp : Rabs (rnd x) <= 2147483647).
  { assert (E1 : rnd (IZR (-2147483647)) = IZR (-2147483647)) by (apply round_generic; [typeclasses eauto|apply fmt_Z; lia]).
    assert (E2 : rnd (IZR 2147483647) = IZR 2147483647) by (apply round_generic; [typeclasses eauto|apply fmt_Z; lia]).
    apply Rabs_le. apply Rabs_le_inv in Hx. destruct Hx as [Hx1 Hx2]. split.
    - apply Rle_trans with (rnd (IZR (-2147483647))); [rewrite E1; change (IZR (-2147483647)) with (-2147483647); lra|].
      apply round_le; [typeclasses eauto|typeclasses eauto|]. change (IZR (-2147483647)) with (-2147483647). lra.
    - apply Rle_trans with (rnd (IZR 2147483647)); [|rewrite E2; change (IZR 2147483647) with 2147483647; lra].
      apply round_le; [typeclasses eauto|typeclasses eauto|]. change (IZR 2147483647) with 2147483647. lra. }
  unfold stored_of_deg, round_away.
  generalize (Bmult_correct prec emax Hprec Hmax mode_NE d FAC).
  rewrite fexp_eq, Vf. simpl round_mode. fold x.
  rewrite Rlt_bool_true by (apply big; lra).
  intros [M1 [M2 _]]. rewrite Hf, Ff in M2.
  set (w := Bmult mode_NE d FAC) in *.
  destruct (Bnearbyint_correct prec emax Hmax mode_NA w) as [N1 [N3 _]].
  simpl round_mode in N1. rewrite M1, round_FIX0 in N1.
  set (n := ZnearestA (rnd x)) in *.
  pose proof (Znearest_half (Zle_bool 0) (rnd x)) as Hh. fold n in Hh.
  assert (Hn : (Z.abs n <= 2147483648)%Z).
  { apply le_IZR. rewrite abs_IZR. apply Rabs_le_inv in Hp. apply Rabs_le_inv in Hh.
    apply Rabs_le. change (IZR 2147483648) with 2147483648. split; lra. }
  (* the integer chosen for the rounded product is also nearest to the exact product *)
  assert (Hnear : Rabs (IZR n - x) <= / 2).
  { apply Rabs_le. apply Rabs_le_inv in Hh. split.
    - (* x <= n + 1/2 *)
      destruct (Rle_or_lt x (IZR n + / 2)) as [H|H]; [lra|]. exfalso. apply Hnt. unfold near_tie. cbv zeta. fold x. split.
      + exists n. assert (rnd (IZR n + / 2) <= rnd x) by (apply round_le; [typeclasses eauto|typeclasses eauto|lra]).
        rewrite round_generic in H0 by (try typeclasses eauto; now apply fmt_half). lra.
      + assert (rnd (IZR n + / 2) <= rnd x) by (apply round_le; [typeclasses eauto|typeclasses eauto|lra]).
        rewrite round_generic in H0 by (try typeclasses eauto; now apply fmt_half). lra.
    - destruct (Rle_or_lt (IZR n - / 2) x) as [H|H]; [lra|]. exfalso. apply Hnt.
      assert (Hfm : generic_format radix2 fx (IZR n - / 2)).
      { replace (IZR n - / 2) with (IZR (n - 1) + / 2) by (rewrite minus_IZR; lra).
        destruct (Z.eq_dec n (-2147483648)) as [->|Hne]; [|apply fmt_half; lia].
        (* n = -2^31 would put the rounded product below -2147483647.5 *)
        exfalso. apply Rabs_le_inv in Hp. change (IZR (-2147483648)) with (-2147483648) in Hh. lra. }
      assert (rnd x <= rnd (IZR n - / 2)) by (apply round_le; [typeclasses eauto|typeclasses eauto|lra]).
      rewrite (round_generic radix2 fx ZnearestE (IZR n - / 2) Hfm) in H0.
      split; [exists (n - 1)%Z; rewrite minus_IZR; change (B2R d * 10000000) with x; lra|change (B2R d * 10000000) with x; lra]. }
  assert (Hrange : (-2147483647 <= n <= 2147483647)%Z).
  { apply Rabs_le_inv in Hnear. apply Rabs_le_inv in Hx. fold x in Hx. split; apply le_IZR.
    - change (IZR (-2147483647)) with (-2147483647).
      destruct (Z_le_gt_dec (-2147483647) n) as [Hz|Hz]; [apply IZR_le in Hz; change (IZR (-2147483647)) with (-2147483647) in Hz; lra|].
      assert (IZR n <= IZR (-2147483648)) by (apply IZR_le; lia). change (IZR (-2147483648)) with (-2147483648) in H. lra.
    - change (IZR 2147483647) with 2147483647.
      destruct (Z_le_gt_dec n 2147483647) as [Hz|Hz]; [apply IZR_le in Hz; change (IZR 2147483647) with 2147483647 in Hz; lra|].
      assert (IZR 2147483648 <= IZR n) by (apply IZR_le; lia). change (IZR 2147483648) with 2147483648 in H. lra. }
  assert (Hcast : cast_i32 (Bnearbyint mode_NA w) = n).
  { apply cast_i32_finite.
    - rewrite N3. exact M2.
    - apply eq_IZR. rewrite Btrunc_correct, N1; [|exact Hmax]. apply round_FIX0_int. apply valid_rnd_ZR.
    - unfold i32_min, i32_max. lia. }
  rewrite Hcast. split; [exact Hnear|exact Hrange].
Qed.
