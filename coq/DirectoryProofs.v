Require Import PM.Base PM.Varint PM.VarintProofs PM.Directory.
From Coq Require Import ZifyN ZifyBool ZifyNat.
Open Scope N_scope.
Arguments N.add : simpl never. Arguments N.mul : simpl never. Arguments N.ltb : simpl never.
Arguments N.leb : simpl never. Arguments N.eqb : simpl never. Arguments N.sub : simpl never.
Arguments N.div : simpl never. Arguments N.modulo : simpl never. Arguments N.pow : simpl never.
Arguments write_varint : simpl never.

Lemma two64_val : two64 = 18446744073709551616. Proof. reflexivity. Qed.
Lemma two32_val : two32 = 4294967296. Proof. reflexivity. Qed.
Opaque two64 two32.

(** * columns *)
Lemma nlen_cons {A} (x : A) l : nlen (x :: l) = nlen l + 1.
Proof. unfold nlen. cbn [length]. lia. Qed.

Lemma varints_cons v vs : varints (v :: vs) = write_varint v ++ varints vs.
Proof. reflexivity. Qed.

Lemma write_varint_len_pos v : (1 <= length (write_varint v))%nat.
Proof.
  unfold write_varint. pose proof (enc_nonempty 9 v) as H.
  destruct (enc 10 v); [congruence|cbn; lia].
Qed.

Lemma varints_length vs : (length vs <= length (varints vs))%nat.
Proof.
  induction vs as [|v vs IH]; [cbn; lia|].
  rewrite varints_cons, app_length. pose proof (write_varint_len_pos v). cbn [length]. lia.
Qed.

Section ReadCol.
  Variable rd : bytes -> outcome (N * bytes).
  Variable P : N -> Prop.
  Hypothesis Hrd : forall v rest, P v -> rd (write_varint v ++ rest) = Ok (v, rest).

  Lemma read_n_varints : forall vs fuel rest, Forall P vs -> (length vs <= fuel)%nat ->
    read_n rd fuel (nlen vs) (varints vs ++ rest) = Ok (vs, rest).
  Proof.
    induction vs as [|v vs IH]; intros fuel rest HP Hf.
    - destruct fuel; reflexivity.
    - destruct fuel as [|fuel]; [cbn in Hf; lia|].
      cbn [read_n]. rewrite nlen_cons.
      assert (E : (nlen vs + 1 =? 0) = false) by lia. rewrite E.
      rewrite varints_cons, <- app_assoc. inversion HP as [|? ? Hv Hvs]; subst.
      rewrite Hrd by assumption. cbn [bind].
      replace (nlen vs + 1 - 1) with (nlen vs) by lia.
      rewrite IH; [reflexivity|assumption|cbn in Hf; lia].
  Qed.
End ReadCol.

Lemma read_col64 vs rest fuel : Forall (fun v => v < two64) vs -> (length vs <= fuel)%nat ->
  read_n read_varint64 fuel (nlen vs) (varints vs ++ rest) = Ok (vs, rest).
Proof. apply read_n_varints. intros v r Hv. now apply varint64_roundtrip. Qed.
Lemma read_col32 vs rest fuel : Forall (fun v => v < two32) vs -> (length vs <= fuel)%nat ->
  read_n read_varint32 fuel (nlen vs) (varints vs ++ rest) = Ok (vs, rest).
Proof. apply read_n_varints. intros v r Hv. now apply varint32_roundtrip. Qed.

(** * ids *)
Definition last_id (last : option entry) : N := match last with Some p => e_id p | None => 0 end.

Lemma ascending_tail p e r : ascending (Some p) (e :: r) -> ascending (Some e) r.
Proof. cbn. tauto. Qed.

Lemma sum_ids_spec : forall es last, ascending last es -> Forall entry_ok es ->
  sum_ids (last_id last) (spec_deltas (last_id last) (map e_id es)) = Ok (map e_id es).
Proof.
  induction es as [|e r IH]; intros last Ha Hok; [reflexivity|].
  cbn [map spec_deltas sum_ids]. inversion Hok as [|? ? He Hr]; subst.
  destruct Ha as [Hl Ha].
  assert (Hle : last_id last <= e_id e) by (destruct last; cbn in *; lia).
  assert (Hlt : e_id e < two64) by (destruct He; lia).
  unfold cadd64. replace (last_id last + (e_id e - last_id last)) with (e_id e) by lia.
  assert (E : (e_id e <? two64) = true) by lia. rewrite E. cbn [bind].
  specialize (IH (Some e) Ha Hr). cbn [last_id] in IH. rewrite IH. reflexivity.
Qed.

Lemma deltas_lt : forall es last, ascending last es -> Forall entry_ok es ->
  Forall (fun v => v < two64) (spec_deltas (last_id last) (map e_id es)).
Proof.
  induction es as [|e r IH]; intros last Ha Hok; [constructor|].
  cbn [map spec_deltas]. inversion Hok as [|? ? He Hr]; subst. destruct Ha as [Hl Ha].
  constructor.
  - destruct He. lia.
  - apply (IH (Some e) Ha Hr).
Qed.

Lemma enc_ids_spec : forall es last, ascending last es ->
  enc_ids (last_id last) es = Ok (varints (spec_deltas (last_id last) (map e_id es))).
Proof.
  induction es as [|e r IH]; intros last Ha; [reflexivity|].
  cbn [map spec_deltas enc_ids]. destruct Ha as [Hl Ha].
  assert (Hle : last_id last <= e_id e) by (destruct last; cbn in *; lia).
  unfold sub64. assert (E : (last_id last <=? e_id e) = true) by lia. rewrite E. cbn [bind].
  specialize (IH (Some e) Ha). cbn [last_id] in IH. rewrite IH. cbn [bind].
  now rewrite varints_cons.
Qed.

(** * runs, lengths *)
Lemma check_runs_spec es : Forall entry_ok es -> check_runs (map e_id es) (map e_run es) = Ok tt.
Proof.
  induction 1 as [|e r He Hr IH]; [reflexivity|]. cbn [map check_runs].
  unfold cadd64. assert (E : (e_id e + e_run e <? two64) = true) by (destruct He; lia).
  rewrite E. exact IH.
Qed.
Lemma check_lens_spec es : Forall entry_ok es -> check_lens (map e_len es) = Ok tt.
Proof.
  induction 1 as [|e r He Hr IH]; [reflexivity|]. cbn [map check_lens].
  assert (E : (e_len e =? 0) = false) by (destruct He; lia). now rewrite E.
Qed.
Lemma enc_runs_spec es : enc_runs es = varints (map e_run es).
Proof. induction es as [|e r IH]; [reflexivity|]. cbn [enc_runs map]. now rewrite varints_cons, IH. Qed.
Lemma enc_lens_spec es : Forall entry_ok es -> enc_lens es = Ok (varints (map e_len es)).
Proof.
  induction 1 as [|e r He Hr IH]; [reflexivity|]. cbn [map enc_lens].
  assert (E : (e_len e =? 0) = false) by (destruct He; lia). rewrite E, IH. cbn [bind].
  now rewrite varints_cons.
Qed.

(** * offsets *)
Definition prev_ok (prev : option entry) (first : bool) (po pl : N) : Prop :=
  match prev with
  | Some p => first = false /\ po = e_off p /\ pl = e_len p /\ e_off p + e_len p < two64
  | None => first = true
  end.

Lemma rebuild_spec : forall es prev first po pl, prev_ok prev first po pl -> Forall entry_ok es ->
  rebuild_offsets first po pl (spec_offsets prev es) (map e_len es) = Ok (map e_off es).
Proof.
  induction es as [|e r IH]; intros prev first po pl Hp Hok; [reflexivity|].
  inversion Hok as [|? ? He Hr]; subst. cbn [spec_offsets map rebuild_offsets].
  assert (Hnext : prev_ok (Some e) false (e_off e) (e_len e)).
  { cbn. destruct He. repeat split; lia. }
  destruct prev as [p|]; cbn in Hp.
  - destruct Hp as (-> & -> & -> & Hb). cbn [negb andb].
    destruct (e_off e =? e_off p + e_len p) eqn:Ec.
    + assert (E0 : (0 =? 0) = true) by reflexivity. rewrite E0.
      unfold cadd64. assert (E : (e_off p + e_len p <? two64) = true) by lia. rewrite E. cbn [bind].
      replace (e_off p + e_len p) with (e_off e) by lia.
      rewrite (IH (Some e) false _ _ Hnext Hr). reflexivity.
    + assert (E0 : (e_off e + 1 =? 0) = false) by lia. rewrite E0.
      unfold csub64. assert (E : (1 <=? e_off e + 1) = true) by lia. rewrite E. cbn [bind].
      replace (e_off e + 1 - 1) with (e_off e) by lia.
      rewrite (IH (Some e) false _ _ Hnext Hr). reflexivity.
  - subst first. cbn [negb andb].
    unfold csub64. assert (E : (1 <=? e_off e + 1) = true) by lia. rewrite E. cbn [bind].
    replace (e_off e + 1 - 1) with (e_off e) by lia.
    rewrite (IH (Some e) false _ _ Hnext Hr). reflexivity.
Qed.

Lemma spec_offsets_lt : forall es prev, Forall entry_ok es ->
  Forall (fun v => v < two64) (spec_offsets prev es).
Proof.
  induction es as [|e r IH]; intros prev Hok; [constructor|].
  inversion Hok as [|? ? He Hr]; subst. cbn [spec_offsets]. constructor; [|apply IH; assumption].
  destruct He as (_ & _ & _ & _ & _ & H1).
  destruct prev as [p|]; [destruct (e_off e =? e_off p + e_len p)|]; rewrite ?two64_val in *; lia.
Qed.

Lemma enc_offs_spec : forall es prev first po pl, prev_ok prev first po pl -> Forall entry_ok es ->
  enc_offs first (po + pl) es = Ok (varints (spec_offsets prev es)).
Proof.
  induction es as [|e r IH]; intros prev first po pl Hp Hok; [reflexivity|].
  inversion Hok as [|? ? He Hr]; subst. cbn [spec_offsets enc_offs].
  assert (Hnext : prev_ok (Some e) false (e_off e) (e_len e)).
  { cbn. destruct He. repeat split; lia. }
  assert (Hadd : add64 (e_off e) (e_len e) = Ok (e_off e + e_len e)).
  { unfold add64. assert (E : (e_off e + e_len e <? two64) = true) by (destruct He; lia). now rewrite E. }
  assert (Hadd1 : add64 (e_off e) 1 = Ok (e_off e + 1)).
  { unfold add64. assert (E : (e_off e + 1 <? two64) = true) by (destruct He; lia). now rewrite E. }
  destruct prev as [p|]; cbn in Hp.
  - destruct Hp as (-> & -> & -> & Hb). cbn [negb andb].
    destruct (e_off e =? e_off p + e_len p) eqn:Ec.
    + cbn [bind]. rewrite Hadd. cbn [bind]. rewrite (IH (Some e) false _ _ Hnext Hr). cbn [bind].
      now rewrite varints_cons.
    + rewrite Hadd1. cbn [bind]. rewrite Hadd. cbn [bind]. rewrite (IH (Some e) false _ _ Hnext Hr). cbn [bind].
      now rewrite varints_cons.
  - subst first. cbn [negb andb]. rewrite Hadd1. cbn [bind]. rewrite Hadd. cbn [bind].
    rewrite (IH (Some e) false _ _ Hnext Hr). cbn [bind]. now rewrite varints_cons.
Qed.

Lemma zip4_maps es : zip4 (map e_id es) (map e_off es) (map e_len es) (map e_run es) = es.
Proof. induction es as [|[i o l r] es IH]; [reflexivity|]. cbn [map zip4 e_id e_off e_len e_run]. now rewrite IH. Qed.

Lemma spec_deltas_length ids last : length (spec_deltas last ids) = length ids.
Proof. revert last; induction ids as [|i r IH]; intros last; [reflexivity|]. cbn. now rewrite IH. Qed.
Lemma spec_offsets_length es prev : length (spec_offsets prev es) = length es.
Proof. revert prev; induction es as [|e r IH]; intros prev; [reflexivity|]. cbn. now rewrite IH. Qed.

Lemma nlen_eq {A B} (l : list A) (m : list B) : length l = length m -> nlen l = nlen m.
Proof. unfold nlen. now intros ->. Qed.

(** * the two main theorems *)
Theorem encode_is_spec es : valid_dir es -> encode_dir_plain es = Ok (spec_encode_dir es).
Proof.
  intros [Hok Ha]. unfold encode_dir_plain, spec_encode_dir.
  pose proof (enc_ids_spec es None Ha) as H1. cbn [last_id] in H1. rewrite H1. cbn [bind].
  rewrite (enc_lens_spec es Hok). cbn [bind].
  change 0 with (0 + 0) at 1.
  rewrite (enc_offs_spec es None true 0 0 eq_refl Hok). cbn [bind].
  now rewrite enc_runs_spec.
Qed.

Theorem decode_spec es rest : valid_dir es -> nlen es < two64 ->
  decode_dir_plain (spec_encode_dir es ++ rest) = Ok es.
Proof.
  intros [Hok Ha] Hn. unfold decode_dir_plain, spec_encode_dir.
  rewrite <- !app_assoc.
  rewrite varint64_roundtrip by exact Hn. cbn [bind].
  pose proof (deltas_lt es None Ha Hok) as Hd. cbn [last_id] in Hd.
  set (D := spec_deltas 0 (map e_id es)) in *.
  assert (LD : nlen es = nlen D) by (apply nlen_eq; unfold D; now rewrite spec_deltas_length, map_length).
  rewrite LD at 1.
  rewrite read_col64; [|exact Hd|rewrite app_length; pose proof (varints_length D); lia].
  cbn [bind]. unfold D. pose proof (sum_ids_spec es None Ha Hok) as H2. cbn [last_id] in H2. rewrite H2. cbn [bind].
  assert (LR : nlen es = nlen (map e_run es)) by (apply nlen_eq; now rewrite map_length).
  rewrite LR at 1.
  rewrite read_col32; [| |rewrite app_length; pose proof (varints_length (map e_run es)); lia].
  2:{ apply Forall_map. eapply Forall_impl; [|exact Hok]. intros e He. destruct He; tauto. }
  cbn [bind]. rewrite (check_runs_spec es Hok). cbn [bind].
  assert (LL : nlen es = nlen (map e_len es)) by (apply nlen_eq; now rewrite map_length).
  rewrite LL at 1.
  rewrite read_col32; [| |rewrite app_length; pose proof (varints_length (map e_len es)); lia].
  2:{ apply Forall_map. eapply Forall_impl; [|exact Hok]. intros e He. destruct He; tauto. }
  cbn [bind]. rewrite (check_lens_spec es Hok). cbn [bind].
  assert (LO : nlen es = nlen (spec_offsets None es)) by (apply nlen_eq; now rewrite spec_offsets_length).
  rewrite LO at 1.
  rewrite read_col64; [|apply spec_offsets_lt; exact Hok|rewrite app_length; pose proof (varints_length (spec_offsets None es)); lia].
  cbn [bind]. rewrite (rebuild_spec es None true 0 0 eq_refl Hok). cbn [bind].
  now rewrite zip4_maps.
Qed.

Corollary decode_encode es rest b : valid_dir es -> nlen es < two64 ->
  encode_dir_plain es = Ok b -> decode_dir_plain (b ++ rest) = Ok es.
Proof. intros Hv Hn He. rewrite encode_is_spec in He by assumption. injection He as <-. now apply decode_spec. Qed.

(** * boolean reflection of validity *)
Lemma entry_okb_spec e : entry_okb e = true <-> entry_ok e.
Proof. unfold entry_okb, entry_ok. rewrite !andb_true_iff, !N.ltb_lt, !N.leb_le. tauto. Qed.
Lemma ascendingb_spec es : forall last, ascendingb last es = true <-> ascending last es.
Proof.
  induction es as [|e r IH]; intros last; cbn [ascendingb ascending]; [tauto|].
  rewrite andb_true_iff, IH. destruct last; [rewrite andb_true_iff, N.ltb_lt, N.leb_le|]; tauto.
Qed.
Lemma valid_dirb_spec es : valid_dirb es = true <-> valid_dir es.
Proof.
  unfold valid_dirb, valid_dir. rewrite andb_true_iff, ascendingb_spec, forallb_forall, Forall_forall.
  split; intros [H1 H2]; split; try assumption; intros e He; apply entry_okb_spec; now apply H1.
Qed.

(** * crash freedom of the decoder: whatever the bytes *)
Lemma bind_no_crash {A B} (m : outcome A) (f : A -> outcome B) :
  (forall c, m <> Crash c) -> (forall a c, f a <> Crash c) -> forall c, bind m f <> Crash c.
Proof. intros Hm Hf c. destruct m as [a|e|c0]; cbn; [apply Hf|discriminate|exfalso; now apply (Hm c0)]. Qed.

Lemma read_varint64_no_crash bs c : read_varint64 bs <> Crash c.
Proof. apply dec_no_crash. Qed.
Lemma read_varint32_no_crash bs c : read_varint32 bs <> Crash c.
Proof.
  unfold read_varint32. apply bind_no_crash; [intros; apply dec_no_crash|]. intros [v r] c'. discriminate.
Qed.

Lemma read_n_no_crash rd : (forall bs c, rd bs <> Crash c) ->
  forall fuel n bs c, read_n rd fuel n bs <> Crash c.
Proof.
  intros Hrd. induction fuel as [|f IH]; intros n bs c; cbn [read_n]; destruct (n =? 0); try discriminate.
  apply bind_no_crash; [intros; apply Hrd|]. intros [v r] c'.
  apply bind_no_crash; [intros; apply IH|]. intros [vs r'] c''. discriminate.
Qed.

Lemma cadd64_no_crash a b c : cadd64 a b <> Crash c.
Proof. unfold cadd64. destruct (_ <? _); discriminate. Qed.
Lemma csub64_no_crash a b c : csub64 a b <> Crash c.
Proof. unfold csub64. destruct (_ <=? _); discriminate. Qed.

Lemma sum_ids_no_crash : forall ds last c, sum_ids last ds <> Crash c.
Proof.
  induction ds as [|d r IH]; intros last c; cbn [sum_ids]; [discriminate|].
  apply bind_no_crash; [intros; apply cadd64_no_crash|]. intros id c'.
  apply bind_no_crash; [intros; apply IH|]. intros; discriminate.
Qed.
Lemma check_runs_no_crash : forall ids runs c, check_runs ids runs <> Crash c.
Proof.
  induction ids as [|i r IH]; intros runs c; cbn [check_runs]; [discriminate|].
  destruct runs as [|rn rr]; [discriminate|].
  apply bind_no_crash; [intros; apply cadd64_no_crash|]. intros; apply IH.
Qed.
Lemma check_lens_no_crash : forall lens c, check_lens lens <> Crash c.
Proof. induction lens as [|l r IH]; intros c; cbn [check_lens]; [discriminate|]. destruct (l =? 0); [discriminate|apply IH]. Qed.
Lemma rebuild_no_crash : forall vals lens first po pl c, rebuild_offsets first po pl vals lens <> Crash c.
Proof.
  induction vals as [|v r IH]; intros lens first po pl c; cbn [rebuild_offsets]; [discriminate|].
  destruct lens as [|l lr]; [discriminate|].
  apply bind_no_crash.
  - intros c'. destruct (negb first && (v =? 0)); [apply cadd64_no_crash|apply csub64_no_crash].
  - intros off c'. apply bind_no_crash; [intros; apply IH|]. intros; discriminate.
Qed.

Theorem decode_dir_no_crash bs c : decode_dir_plain bs <> Crash c.
Proof.
  unfold decode_dir_plain.
  apply bind_no_crash; [intros; apply read_varint64_no_crash|]. intros [n r0] c0.
  apply bind_no_crash; [intros; apply read_n_no_crash; apply read_varint64_no_crash|]. intros [ds r1] c1.
  apply bind_no_crash; [intros; apply sum_ids_no_crash|]. intros ids c2.
  apply bind_no_crash; [intros; apply read_n_no_crash; apply read_varint32_no_crash|]. intros [runs r2] c3.
  apply bind_no_crash; [intros; apply check_runs_no_crash|]. intros _ c4.
  apply bind_no_crash; [intros; apply read_n_no_crash; apply read_varint32_no_crash|]. intros [lens r3] c5.
  apply bind_no_crash; [intros; apply check_lens_no_crash|]. intros _ c6.
  apply bind_no_crash; [intros; apply read_n_no_crash; apply read_varint64_no_crash|]. intros [vals r4] c7.
  apply bind_no_crash; [intros; apply rebuild_no_crash|]. intros; discriminate.
Qed.

(** * with compression *)
Require Import PM.Oracles.
Theorem dir_roundtrip cx asy c es : codec_inv cx -> c <> CUnknown -> valid_dir es -> nlen es < two64 ->
  exists b, encode_dir cx asy c es = Ok b /\ decode_dir cx c b = Ok es.
Proof.
  intros Hinv Hc Hv Hn. unfold encode_dir, decode_dir.
  rewrite (encode_is_spec es Hv).
  destruct c; try congruence; cbn [compress bind decompress_lazy].
  - exists (spec_encode_dir es). split; [reflexivity|].
    rewrite <- (app_nil_r (spec_encode_dir es)). now apply decode_spec.
  - eexists; split; [reflexivity|]. rewrite Hinv by congruence. cbn [bind].
    rewrite <- (app_nil_r (spec_encode_dir es)). now apply decode_spec.
  - eexists; split; [reflexivity|]. rewrite Hinv by congruence. cbn [bind].
    rewrite <- (app_nil_r (spec_encode_dir es)). now apply decode_spec.
  - eexists; split; [reflexivity|]. rewrite Hinv by congruence. cbn [bind].
    rewrite <- (app_nil_r (spec_encode_dir es)). now apply decode_spec.
Qed.

Theorem dir_plain_is_spec cx asy es : valid_dir es -> encode_dir cx asy CNone es = Ok (spec_encode_dir es).
Proof. intros Hv. unfold encode_dir. cbn [compress bind]. now rewrite (encode_is_spec es Hv). Qed.

Theorem dir_decodes_spec cx es trailing : valid_dir es -> nlen es < two64 ->
  decode_dir cx CNone (spec_encode_dir es ++ trailing) = Ok es.
Proof. intros Hv Hn. unfold decode_dir. cbn [decompress_lazy bind]. now apply decode_spec. Qed.

Theorem dir_decode_no_crash cx c bs k : decode_dir cx c bs <> Crash k.
Proof.
  unfold decode_dir. apply bind_no_crash.
  - intros k'. destruct c; cbn; discriminate.
  - intros [p f] k'. apply decode_dir_no_crash.
Qed.

Lemma varints_wf l : wf_bytes (varints l).
Proof.
  unfold varints. induction l as [|v r IH]; [constructor|]. cbn [map concat].
  apply Forall_app. split; [apply write_varint_wf|exact IH].
Qed.
Theorem spec_encode_wf es : wf_bytes (spec_encode_dir es).
Proof.
  unfold spec_encode_dir. repeat (apply Forall_app; split); try apply varints_wf. apply write_varint_wf.
Qed.
