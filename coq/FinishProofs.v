(** finish() computes the specification layout (FinishSpec.spec_finish): C10 layout clauses, C16. *)
Require Import PM.Base PM.Oracles PM.Directory PM.TileManager PM.TileManagerProofs PM.FinishSpec.
From Coq Require Import ZifyN ZifyBool ZifyNat Permutation Sorting.Sorted.
Open Scope N_scope.

Lemma beq_true a b : beq a b = true <-> a = b.
Proof. unfold beq. destruct (list_eq_dec N.eq_dec a b); split; congruence. Qed.
Lemma beq_refl a : beq a a = true. Proof. now apply beq_true. Qed.

Section WithCtx.
  Context (cx : ctx).

  (** the contents that occur (the universe on which the hash must be injective) *)
  Variable U : list bytes.
  Hypothesis Hinj : hash_inj_on cx U.
  Hypothesis Hsmall : forall c, In c U -> nlen c < two32.

  (** hash map vs. content list *)
  Definition map_rel (m : list (N * (N * N))) (seen : list (bytes * N)) : Prop :=
    Forall (fun cs => In (fst cs) U) seen /\
    forall c, In c U ->
      match find_seen c seen with
      | Some off => aget (hash cx c) m = Some (off, nlen c)
      | None => aget (hash cx c) m = None
      end.

  Lemma map_rel_add m seen c off : In c U -> find_seen c seen = None -> map_rel m seen ->
    map_rel (aset (hash cx c) (off, nlen c) m) ((c, off) :: seen).
  Proof.
    intros Hc Hns [Hin Hrel]. split; [constructor; assumption|].
    intros c' Hc'. cbn [find_seen]. destruct (beq c' c) eqn:E.
    - apply beq_true in E. subst. apply aget_aset_eq.
    - assert (Hne : c' <> c) by (intros ->; rewrite beq_refl in E; discriminate).
      assert (Hh : hash cx c' <> hash cx c) by (intros F; apply Hne; now apply Hinj).
      rewrite aget_aset_neq by assumption. apply Hrel, Hc'.
  Qed.

  (** entries so far: [closed] are final, [cur] may still grow *)
  Definition ent_rel (rev_entries : list entry) (closed : list entry) (cur : option entry) : Prop :=
    match cur with
    | Some e => exists r, rev_entries = e :: r /\ rev r = closed
    | None => rev_entries = [] /\ closed = []
    end.
  Lemma ent_rel_rev revs closed cur : ent_rel revs closed cur ->
    rev revs = closed ++ (match cur with Some e => [e] | None => [] end).
  Proof. destruct cur as [e|]; cbn. - intros (r & -> & <-). reflexivity. - intros [-> ->]. reflexivity. Qed.

  Lemma push_entry_rel revs closed cur id off len : ent_rel revs closed cur ->
    (match cur with Some e => e_id e + e_run e < two64 /\ e_run e + 1 < two32 | None => True end) ->
    exists revs', push_entry revs id off len = Ok revs' /\
      match cur with
      | Some e =>
        if (id =? e_id e + e_run e) && (off =? e_off e) && (len =? e_len e)
        then ent_rel revs' closed (Some (mkEntry (e_id e) (e_off e) (e_len e) (e_run e + 1)))
        else ent_rel revs' (closed ++ [e]) (Some (mkEntry id off len 1))
      | None => ent_rel revs' closed (Some (mkEntry id off len 1))
      end.
  Proof.
    intros Hrel Hb. destruct cur as [e|]; cbn [ent_rel] in Hrel.
    - destruct Hrel as (r & -> & Hr).
      cbn [push_entry]. destruct Hb as [Hb1 Hb2]. unfold add64.
      destruct (N.ltb_spec (e_id e + e_run e) two64); [|lia]. cbn [bind].
      destruct ((id =? e_id e + e_run e) && (e_off e =? off) && (e_len e =? len)) eqn:E.
      + destruct (N.ltb_spec (e_run e + 1) two32); [|lia]. eexists. split; [reflexivity|].
        replace ((id =? e_id e + e_run e) && (off =? e_off e) && (len =? e_len e)) with true
          by (symmetry; rewrite !Bool.andb_true_iff in *; rewrite !N.eqb_eq in *; intuition congruence).
        cbn [ent_rel]. eauto.
      + eexists. split; [reflexivity|].
        replace ((id =? e_id e + e_run e) && (off =? e_off e) && (len =? e_len e)) with false
          by (symmetry; rewrite !Bool.andb_false_iff in *; rewrite !N.eqb_neq in *; intuition congruence).
        cbn [ent_rel]. exists (e :: r). split; [reflexivity|]. cbn [rev]. now rewrite Hr.
    - destruct Hrel as [-> ->]. eexists. split; [reflexivity|]. cbn [ent_rel]. exists []. split; reflexivity.
  Qed.

  (** * the loop *)
  Variable s : tm.

  Definition hash_consistent (l : list (N * tile)) : Prop :=
    Forall (fun it => forall h c, snd it = THash h -> tile_content s (snd it) = Ok (Some c) -> hash cx c = h) l.

  Definition run_of (cur : option entry) : N := match cur with Some e => e_run e | None => 0 end.
  Definition cur_bounded (cur : option entry) : Prop :=
    match cur with Some e => e_id e + e_run e <= two63 /\ 1 <= e_run e | None => True end.

  Lemma finish_loop_spec : forall l acc tiles seen closed cur,
    resolve s l = Ok tiles -> hash_consistent l ->
    Forall (fun t => In (snd t) U /\ fst t < two63) tiles ->
    run_of cur + nlen tiles + 1 < two32 -> cur_bounded cur ->
    map_rel (fa_map acc) seen -> ent_rel (fa_entries acc) closed cur ->
    exists acc', finish_loop cx s acc l = Ok acc' /\
      fa_data acc' = rev (snd (place tiles seen (fa_data_len acc))) ++ fa_data acc /\
      fa_data_len acc' = fa_data_len acc + sum_lengths (snd (place tiles seen (fa_data_len acc))) /\
      fa_addressed acc' = fa_addressed acc + nlen tiles /\
      fa_contents acc' = fa_contents acc + nlen (snd (place tiles seen (fa_data_len acc))) /\
      rev (fa_entries acc') = closed ++ runs (fst (place tiles seen (fa_data_len acc))) cur.
  Proof.
    induction l as [|[id t] r IH]; intros acc tiles seen closed cur Hres Hhc Htiles Hcnt Hcb Hmap Hent.
    - cbn in Hres. injection Hres as <-. exists acc. cbn [finish_loop place fst snd rev app sum_lengths fold_right nlen length].
      repeat split; try (cbn; lia). cbn [runs]. now apply ent_rel_rev.
    - cbn [resolve] in Hres. inversion Hhc as [|? ? Hh1 Hhr]; subst. cbn [snd] in Hh1.
      destruct (tile_content s t) as [oc| |] eqn:Etc; cbn [bind] in Hres; try discriminate.
      destruct (resolve s r) as [rest| |] eqn:Er; cbn [bind] in Hres; try discriminate.
      cbn [finish_loop]. unfold finish_step. rewrite Etc. cbn [bind].
      destruct oc as [c|].
      + (* a tile with content c *)
        injection Hres as <-. inversion Htiles as [|? ? [HcU Hid] Hrest]; subst. cbn [fst snd] in HcU, Hid.
        assert (Hh : (match t with THash h => h | TOffLen _ _ => hash cx c end) = hash cx c).
        { destruct t as [h|o l0]; [|reflexivity]. symmetry. now apply Hh1. }
        rewrite Hh. clear Hh.
        assert (Hlen : nlen ((id, c) :: rest) = nlen rest + 1) by (unfold nlen; cbn [length]; lia).
        assert (Hcur : match cur with Some e => e_id e + e_run e < two64 /\ e_run e + 1 < two32 | None => True end).
        { destruct cur as [e|]; [|exact I]. cbn in Hcb, Hcnt. unfold two63, two64 in *. lia. }
        pose proof (proj2 Hmap c HcU) as Hlook. cbn [place].
        destruct (find_seen c seen) as [off|] eqn:Efs.
        * (* seen before: reuse the offset *)
          rewrite Hlook.
          destruct (push_entry_rel (fa_entries acc) closed cur id off (nlen c) Hent Hcur) as (revs' & Hp & Hrel').
          rewrite Hp. cbn [bind].
          destruct (place rest seen (fa_data_len acc)) as [pl ds] eqn:Epl. cbn [fst snd].
          set (acc1 := mkFA revs' (fa_data acc) (fa_data_len acc) (fa_addressed acc + 1) (fa_contents acc) (fa_map acc)).
          destruct cur as [e|].
          -- destruct ((id =? e_id e + e_run e) && (off =? e_off e) && (nlen c =? e_len e)) eqn:Em.
             ++ destruct (IH acc1 rest seen closed (Some (mkEntry (e_id e) (e_off e) (e_len e) (e_run e + 1))) eq_refl Hhr Hrest) as (acc' & A & B & C & D & E & F);
                  try assumption.
                ** cbn [run_of e_run] in *. lia.
                ** cbn [cur_bounded e_id e_run] in *.
                   rewrite !Bool.andb_true_iff, !N.eqb_eq in Em. unfold two63 in *. lia.
                ** exists acc'. cbn [fa_data fa_data_len fa_addressed fa_contents fa_entries acc1] in *. rewrite Epl in *. cbn [fst snd] in *.
                   split; [exact A|]. split; [exact B|]. split; [exact C|]. split; [lia|]. split; [exact E|].
                   rewrite F. cbn [runs]. rewrite Em. reflexivity.
             ++ destruct (IH acc1 rest seen (closed ++ [e]) (Some (mkEntry id off (nlen c) 1)) eq_refl Hhr Hrest) as (acc' & A & B & C & D & E & F);
                  try assumption.
                ** cbn [run_of e_run] in *. destruct Hcb. lia.
                ** cbn [cur_bounded e_id e_run]. unfold two63 in *. lia.
                ** exists acc'. cbn [fa_data fa_data_len fa_addressed fa_contents fa_entries acc1] in *. rewrite Epl in *. cbn [fst snd] in *.
                   split; [exact A|]. split; [exact B|]. split; [exact C|]. split; [lia|]. split; [exact E|].
                   rewrite F. cbn [runs]. rewrite Em. now rewrite <- app_assoc.
          -- destruct (IH acc1 rest seen closed (Some (mkEntry id off (nlen c) 1)) eq_refl Hhr Hrest) as (acc' & A & B & C & D & E & F);
               try assumption.
             ** cbn [run_of e_run] in *. lia.
             ** cbn [cur_bounded e_id e_run]. unfold two63 in *. lia.
             ** exists acc'. cbn [fa_data fa_data_len fa_addressed fa_contents fa_entries acc1] in *. rewrite Epl in *. cbn [fst snd] in *.
                split; [exact A|]. split; [exact B|]. split; [exact C|]. split; [lia|]. split; [exact E|].
                rewrite F. reflexivity.
        * (* new content: appended at the running end *)
          rewrite Hlook.
          assert (Hm32 : nlen c mod two32 = nlen c) by (apply N.mod_small; now apply Hsmall). rewrite Hm32.
          destruct (push_entry_rel (fa_entries acc) closed cur id (fa_data_len acc) (nlen c) Hent Hcur) as (revs' & Hp & Hrel').
          rewrite Hp. cbn [bind].
          destruct (place rest ((c, fa_data_len acc) :: seen) (fa_data_len acc + nlen c)) as [pl ds] eqn:Epl. cbn [fst snd].
          set (acc1 := mkFA revs' (c :: fa_data acc) (fa_data_len acc + nlen c) (fa_addressed acc + 1) (fa_contents acc + 1)
                            (aset (hash cx c) (fa_data_len acc, nlen c) (fa_map acc))).
          assert (Hmap1 : map_rel (fa_map acc1) ((c, fa_data_len acc) :: seen)) by (now apply map_rel_add).
          assert (Hsum : sum_lengths (c :: ds) = nlen c + sum_lengths ds) by reflexivity.
          assert (Hnl : nlen (c :: ds) = nlen ds + 1) by (unfold nlen; cbn [length]; lia).
          destruct cur as [e|].
          -- destruct ((id =? e_id e + e_run e) && (fa_data_len acc =? e_off e) && (nlen c =? e_len e)) eqn:Em.
             ++ destruct (IH acc1 rest ((c, fa_data_len acc) :: seen) closed (Some (mkEntry (e_id e) (e_off e) (e_len e) (e_run e + 1))) eq_refl Hhr Hrest) as (acc' & A & B & C & D & E & F);
                  try assumption.
                ** cbn [run_of e_run] in *. lia.
                ** cbn [cur_bounded e_id e_run] in *.
                   rewrite !Bool.andb_true_iff, !N.eqb_eq in Em. unfold two63 in *. lia.
                ** exists acc'. cbn [fa_data fa_data_len fa_addressed fa_contents fa_entries acc1] in *. rewrite Epl in *. cbn [fst snd] in *.
                   split; [exact A|]. split; [rewrite B; cbn [rev]; now rewrite <- app_assoc|]. split; [lia|]. split; [lia|]. split; [lia|].
                   rewrite F. cbn [runs]. rewrite Em. reflexivity.
             ++ destruct (IH acc1 rest ((c, fa_data_len acc) :: seen) (closed ++ [e]) (Some (mkEntry id (fa_data_len acc) (nlen c) 1)) eq_refl Hhr Hrest) as (acc' & A & B & C & D & E & F);
                  try assumption.
                ** cbn [run_of e_run] in *. destruct Hcb. lia.
                ** cbn [cur_bounded e_id e_run]. unfold two63 in *. lia.
                ** exists acc'. cbn [fa_data fa_data_len fa_addressed fa_contents fa_entries acc1] in *. rewrite Epl in *. cbn [fst snd] in *.
                   split; [exact A|]. split; [rewrite B; cbn [rev]; now rewrite <- app_assoc|]. split; [lia|]. split; [lia|]. split; [lia|].
                   rewrite F. cbn [runs]. rewrite Em. now rewrite <- app_assoc.
          -- destruct (IH acc1 rest ((c, fa_data_len acc) :: seen) closed (Some (mkEntry id (fa_data_len acc) (nlen c) 1)) eq_refl Hhr Hrest) as (acc' & A & B & C & D & E & F);
               try assumption.
             ** cbn [run_of e_run] in *. lia.
             ** cbn [cur_bounded e_id e_run]. unfold two63 in *. lia.
             ** exists acc'. cbn [fa_data fa_data_len fa_addressed fa_contents fa_entries acc1] in *. rewrite Epl in *. cbn [fst snd] in *.
                split; [exact A|]. split; [rewrite B; cbn [rev]; now rewrite <- app_assoc|]. split; [lia|]. split; [lia|]. split; [lia|].
                rewrite F. reflexivity.
      + (* a dangling hash: skipped by both *)
        injection Hres as <-. now apply IH.
  Qed.
End WithCtx.

(** * finish = the specification layout *)
Lemma in_nodup_aget {V} (l : list (N * V)) k v : keys_nodup l -> In (k, v) l -> aget k l = Some v.
Proof.
  unfold keys_nodup. induction l as [|[k' v'] r IH]; intros Hnd Hin; [destruct Hin|].
  cbn [akeys map fst] in Hnd. inversion Hnd as [|? ? Hni Hnd']; subst. cbn [aget].
  destruct Hin as [E|Hin].
  - injection E as -> ->. now rewrite N.eqb_refl.
  - destruct (N.eqb_spec k k') as [->|]; [|now apply IH].
    exfalso. apply Hni. change (In k' (map fst r)). apply in_map_iff. exists (k', v). auto.
Qed.

Section Finish.
  Context (cx : ctx).

  Lemma inv_hash_consistent s : Inv cx s -> hash_consistent cx s (IdSort.sort (tile_by_id s)).
  Proof.
    intros HI. unfold hash_consistent. apply Forall_forall. intros [id t] Hin h c Ht Hc. cbn [snd] in *. subst t.
    assert (Hin' : In (id, THash h) (tile_by_id s)).
    { eapply Permutation_in; [apply Permutation_sym, IdSort.Permuted_sort|exact Hin]. }
    pose proof (in_nodup_aget _ _ _ (inv_nd_t cx s HI) Hin') as Hg.
    destruct (inv_hash cx s HI id h Hg) as (d & ids & Hd & Hh & _).
    cbn [tile_content] in Hc. rewrite Hd in Hc. injection Hc as <-. exact Hh.
  Qed.

  (** the hypotheses under which [finish] is characterised: [U] covers the contents, the hash is
      injective on it, contents are shorter than 2^32 bytes, ids are below 2^63 (valid tile ids are
      below (4^32-1)/3 < 2^63) and there are fewer than 2^32 - 1 tiles *)
  Theorem finish_is_spec s tiles U : Inv cx s -> logical s = Ok tiles ->
    hash_inj_on cx U -> (forall c, In c U -> nlen c < two32) ->
    Forall (fun t => In (snd t) U /\ fst t < two63) tiles -> nlen tiles + 1 < two32 ->
    finish cx s = Ok (spec_finish tiles).
  Proof.
    intros HI Hlog Hinj Hsmall Htiles Hcnt. unfold finish, logical in *.
    destruct (finish_loop_spec cx U Hinj Hsmall s (IdSort.sort (tile_by_id s)) (mkFA [] [] 0 0 0 []) tiles [] [] None
                Hlog (inv_hash_consistent s HI) Htiles) as (acc' & A & B & C & D & E & F).
    - cbn [run_of]. lia.
    - exact I.
    - split; [constructor|]. intros c _. reflexivity.
    - split; reflexivity.
    - rewrite A. cbn [bind]. cbn [fa_data fa_data_len fa_addressed fa_contents fa_entries] in *.
      unfold spec_finish. destruct (place tiles [] 0) as [pl ds]. cbn [fst snd app] in *.
      rewrite B, app_nil_r, rev_involutive, D, E, F. cbn [app]. reflexivity.
  Qed.

  (** C16: the result depends on the logical content only *)
  Corollary finish_canonical s1 s2 tiles U : Inv cx s1 -> Inv cx s2 -> logical s1 = Ok tiles -> logical s2 = Ok tiles ->
    hash_inj_on cx U -> (forall c, In c U -> nlen c < two32) ->
    Forall (fun t => In (snd t) U /\ fst t < two63) tiles -> nlen tiles + 1 < two32 ->
    finish cx s1 = finish cx s2.
  Proof. intros. rewrite (finish_is_spec s1 tiles U), (finish_is_spec s2 tiles U); auto. Qed.
End Finish.

(** * properties of the specification layout (C10) *)
Lemma place_data : forall tiles seen pos,
  snd (place tiles seen pos) = first_occ (map snd tiles) (map fst seen).
Proof.
  induction tiles as [|[id c] r IH]; intros seen pos; [reflexivity|].
  cbn [place map snd first_occ].
  assert (E : existsb (beq c) (map fst seen) = match find_seen c seen with Some _ => true | None => false end).
  { clear. induction seen as [|[c' o] s IH]; [reflexivity|]. cbn [map fst existsb find_seen].
    destruct (beq c c'); [reflexivity|exact IH]. }
  rewrite E. destruct (find_seen c seen) as [off|].
  - specialize (IH seen pos). destruct (place r seen pos). cbn [snd] in *. exact IH.
  - specialize (IH ((c, pos) :: seen) (pos + nlen c)). destruct (place r ((c, pos) :: seen) (pos + nlen c)).
    cbn [snd map fst] in *. now rewrite IH.
Qed.

(** the tile-data section is the distinct contents, each once, in first-occurrence order *)
Theorem spec_finish_data tiles : fr_data (spec_finish tiles) = concat (first_occ (map snd tiles) []) /\
  fr_contents (spec_finish tiles) = nlen (first_occ (map snd tiles) []) /\
  fr_addressed (spec_finish tiles) = nlen tiles.
Proof.
  unfold spec_finish. pose proof (place_data tiles [] 0) as H. destruct (place tiles [] 0) as [pl ds].
  cbn [snd map] in H. cbn [fr_data fr_contents fr_addressed]. now rewrite H.
Qed.

(** runs: no two adjacent entries could be merged further *)
Lemma runs_no_mergeable : forall pl cur, no_mergeable (runs pl cur).
Proof.
  induction pl as [|[[id off] len] r IH]; intros cur.
  - destruct cur; exact I.
  - cbn [runs]. destruct cur as [e|]; [|apply IH].
    destruct ((id =? e_id e + e_run e) && (off =? e_off e) && (len =? e_len e)) eqn:E; [apply IH|].
    specialize (IH (Some (mkEntry id off len 1))).
    (* the next entry starts with (id, off, len): not mergeable with e *)
    assert (Hhead : forall r0 c0, exists x xs, runs r0 (Some c0) = x :: xs /\ e_id x = e_id c0 /\ e_off x = e_off c0 /\ e_len x = e_len c0).
    { clear. intros r0. induction r0 as [|p0 r1 IH1]; intros c0; [cbn; eauto 10|].
      destruct p0 as [[i o] l]. cbn [runs]. destruct ((i =? e_id c0 + e_run c0) && (o =? e_off c0) && (l =? e_len c0)).
      - destruct (IH1 (mkEntry (e_id c0) (e_off c0) (e_len c0) (e_run c0 + 1))) as (x & xs & A & B & C & D). eauto 10.
      - eauto 10. }
    destruct (Hhead r (mkEntry id off len 1)) as (x & xs & Hx & Hi & Ho & Hl). rewrite Hx in *.
    cbn [no_mergeable]. split; [|exact IH].
    unfold mergeable. cbn [e_id e_off e_len] in *. intros (M1 & M2 & M3).
    rewrite !Bool.andb_false_iff, !N.eqb_neq in E. intuition congruence.
Qed.
Theorem spec_finish_runs_maximal tiles : no_mergeable (fr_dir (spec_finish tiles)).
Proof. unfold spec_finish. destruct (place tiles [] 0). cbn [fr_dir]. apply runs_no_mergeable. Qed.

(** expanding the runs gives back every tile's placement: nothing is lost or moved by run-length encoding *)
Lemma expand_entry_app id k off len : expand_entry id (k + 1) off len = expand_entry id k off len ++ [(id + N.of_nat k, off, len)].
Proof.
  revert id. induction k as [|k IH]; intros id; cbn [Nat.add expand_entry app].
  - now rewrite N.add_0_r.
  - rewrite IH. cbn [app]. replace (id + 1 + N.of_nat k) with (id + N.of_nat (S k)) by lia. reflexivity.
Qed.
Lemma runs_expand : forall pl cur, (match cur with Some e => 1 <= e_run e | None => True end) ->
  expand (runs pl cur) = (match cur with Some e => expand_entry (e_id e) (N.to_nat (e_run e)) (e_off e) (e_len e) | None => [] end) ++ pl.
Proof.
  induction pl as [|[[id off] len] r IH]; intros cur Hc.
  - destruct cur; cbn [runs expand flat_map app]; now rewrite ?app_nil_r.
  - cbn [runs]. destruct cur as [e|].
    + destruct ((id =? e_id e + e_run e) && (off =? e_off e) && (len =? e_len e)) eqn:E.
      * rewrite IH by (cbn; lia). cbn [e_id e_off e_len e_run].
        replace (N.to_nat (e_run e + 1)) with (N.to_nat (e_run e) + 1)%nat by lia.
        rewrite expand_entry_app, <- app_assoc. cbn [app].
        rewrite !Bool.andb_true_iff, !N.eqb_eq in E. destruct E as [[-> ->] ->].
        replace (e_id e + N.of_nat (N.to_nat (e_run e))) with (e_id e + e_run e) by lia. reflexivity.
      * cbn [expand flat_map]. change (flat_map _ (runs r (Some (mkEntry id off len 1)))) with (expand (runs r (Some (mkEntry id off len 1)))).
        rewrite IH by (cbn; lia). cbn [e_id e_off e_len e_run]. change (N.to_nat 1) with 1%nat. cbn [expand_entry app]. reflexivity.
    + rewrite IH by (cbn; lia). cbn [e_id e_off e_len e_run]. change (N.to_nat 1) with 1%nat. reflexivity.
Qed.
Theorem spec_finish_expand tiles : expand (fr_dir (spec_finish tiles)) = fst (place tiles [] 0).
Proof. unfold spec_finish. destruct (place tiles [] 0) as [pl ds]. cbn [fr_dir fst]. now rewrite runs_expand. Qed.

(** placements: a tile whose content was seen gets that content's offset; identical contents share one
    (offset, length), a new content starts at the running end of the data *)
Lemma place_tiles : forall tiles seen pos,
  map (fun p => fst (fst p)) (fst (place tiles seen pos)) = map fst tiles /\
  map (fun p => snd p) (fst (place tiles seen pos)) = map (fun t => nlen (snd t)) tiles.
Proof.
  induction tiles as [|[id c] r IH]; intros seen pos; [split; reflexivity|].
  cbn [place]. destruct (find_seen c seen) as [off|].
  - destruct (IH seen pos) as [A B]. destruct (place r seen pos). cbn [fst snd map] in *. now rewrite A, B.
  - destruct (IH ((c, pos) :: seen) (pos + nlen c)) as [A B]. destruct (place r ((c, pos) :: seen) (pos + nlen c)).
    cbn [fst snd map] in *. now rewrite A, B.
Qed.

(** * the logical content is determined by what lookups return (C16) *)
Section Logical.
  Context (cx : ctx).

  Definition key_lt (a b : N * tile) : Prop := fst a < fst b.

  Lemma sort_sorted_lt (l : list (N * tile)) : keys_nodup l -> StronglySorted key_lt (IdSort.sort l).
  Proof.
    intros Hnd.
    assert (Hs : StronglySorted (fun a b => is_true (IdOrder.leb a b)) (IdSort.sort l)).
    { apply IdSort.StronglySorted_sort. intros a b c. unfold is_true, IdOrder.leb. rewrite !N.leb_le. lia. }
    assert (Hnd' : NoDup (map fst (IdSort.sort l))).
    { eapply Permutation_NoDup; [apply Permutation_map, IdSort.Permuted_sort|exact Hnd]. }
    induction Hs as [|a r Hs IH Hall]; [constructor|].
    cbn [map] in Hnd'. inversion Hnd' as [|? ? Hni Hnd'']; subst.
    constructor; [now apply IH|].
    apply Forall_forall. intros b Hb. rewrite Forall_forall in Hall. specialize (Hall b Hb).
    unfold is_true, IdOrder.leb in Hall. apply N.leb_le in Hall. unfold key_lt.
    assert (fst a <> fst b) by (intros E; apply Hni; rewrite E; now apply in_map).
    lia.
  Qed.

  (** resolving a strictly sorted tile list gives a strictly sorted content list describing the lookups *)
  Lemma resolve_spec s : forall l tiles, resolve s l = Ok tiles -> StronglySorted key_lt l ->
    (forall id t, In (id, t) l -> aget id (tile_by_id s) = Some t) ->
    StronglySorted (fun a b => fst a < fst b) tiles /\
    (forall id c, In (id, c) tiles <-> exists t, In (id, t) l /\ tile_content s t = Ok (Some c)) .
  Proof.
    induction l as [|[id t] r IH]; intros tiles Hres Hs Hl.
    - cbn in Hres. injection Hres as <-. split; [constructor|]. intros id c. split; [intros []|intros (t & [] & _)].
    - cbn [resolve] in Hres.
      destruct (tile_content s t) as [oc| |] eqn:Et; cbn [bind] in Hres; try discriminate.
      destruct (resolve s r) as [rest| |] eqn:Er; cbn [bind] in Hres; try discriminate.
      inversion Hs as [|? ? Hsr Hall]; subst.
      destruct (IH rest eq_refl Hsr (fun i t0 H => Hl i t0 (or_intror H))) as [IHs IHm].
      destruct oc as [c|]; injection Hres as <-.
      + split.
        * constructor; [exact IHs|]. apply Forall_forall. intros [i' c'] Hin. cbn [fst].
          apply IHm in Hin. destruct Hin as (t' & Hin' & _). rewrite Forall_forall in Hall.
          apply (Hall (i', t') Hin').
        * intros i c0. cbn [In]. rewrite IHm. split.
          -- intros [E|(t' & Hin & Hc)].
             ++ injection E as <- <-. exists t. split; [now left|exact Et].
             ++ exists t'. split; [now right|exact Hc].
          -- intros (t' & [E|Hin] & Hc).
             ++ injection E as <- <-. left. rewrite Et in Hc. injection Hc as <-. reflexivity.
             ++ right. exists t'. split; assumption.
      + split; [exact IHs|]. intros i c0. rewrite IHm. split.
        * intros (t' & Hin & Hc). exists t'. split; [now right|exact Hc].
        * intros (t' & [E|Hin] & Hc).
          -- injection E as <- <-. rewrite Et in Hc. discriminate.
          -- exists t'. split; assumption.
  Qed.

  Lemma sorted_unique (A : Type) (key : A -> N) : forall l1 l2 : list A,
    StronglySorted (fun a b => key a < key b) l1 -> StronglySorted (fun a b => key a < key b) l2 ->
    (forall x, In x l1 <-> In x l2) -> l1 = l2.
  Proof.
    induction l1 as [|a r IH]; intros l2 H1 H2 Hm.
    - destruct l2 as [|b r2]; [reflexivity|]. exfalso. apply (Hm b). now left.
    - destruct l2 as [|b r2]; [exfalso; apply (Hm a); now left|].
      inversion H1 as [|? ? H1r H1a]; subst. inversion H2 as [|? ? H2r H2a]; subst.
      rewrite Forall_forall in H1a, H2a.
      assert (a = b).
      { destruct (proj1 (Hm a) (or_introl eq_refl)) as [E|Hin]; [congruence|].
        destruct (proj2 (Hm b) (or_introl eq_refl)) as [E|Hin2]; [congruence|].
        specialize (H2a a Hin). specialize (H1a b Hin2). lia. }
      subst b. f_equal. apply IH; try assumption.
      intros x. split; intros Hx.
      + destruct (proj1 (Hm x) (or_intror Hx)) as [E|]; [|assumption]. subst x. specialize (H1a a Hx). lia.
      + destruct (proj2 (Hm x) (or_intror Hx)) as [E|]; [|assumption]. subst x. specialize (H2a a Hx). lia.
  Qed.

  (** two stores whose lookups agree on every id have the same logical content *)
  Theorem logical_determined s1 s2 t1 t2 : Inv cx s1 -> Inv cx s2 ->
    logical s1 = Ok t1 -> logical s2 = Ok t2 ->
    (forall id, view s1 id = view s2 id) -> t1 = t2.
  Proof.
    intros H1 H2 L1 L2 Hv. unfold logical in *.
    assert (Hin : forall s, Inv cx s -> forall id t, In (id, t) (IdSort.sort (tile_by_id s)) -> aget id (tile_by_id s) = Some t).
    { intros s HI id t Hi. apply in_nodup_aget; [apply HI|].
      eapply Permutation_in; [apply Permutation_sym, IdSort.Permuted_sort|exact Hi]. }
    destruct (resolve_spec s1 _ _ L1 (sort_sorted_lt _ (inv_nd_t cx s1 H1)) (Hin s1 H1)) as [S1 M1].
    destruct (resolve_spec s2 _ _ L2 (sort_sorted_lt _ (inv_nd_t cx s2 H2)) (Hin s2 H2)) as [S2 M2].
    apply (sorted_unique _ fst); try assumption.
    assert (Hchar : forall s tl, Inv cx s ->
              (forall id c, In (id, c) tl <-> exists t, In (id, t) (IdSort.sort (tile_by_id s)) /\ tile_content s t = Ok (Some c)) ->
              forall id c, In (id, c) tl <-> view s id = Ok (Some c)).
    { intros s tl HI M id c. rewrite M. unfold view, get_tile. split.
      - intros (t & Hi & Hc). now rewrite (Hin s HI id t Hi).
      - intros Hg. destruct (aget id (tile_by_id s)) as [t|] eqn:Eg; [|discriminate].
        exists t. split; [|exact Hg].
        eapply Permutation_in; [apply IdSort.Permuted_sort|].
        clear -Eg. induction (tile_by_id s) as [|[k v] r IH]; [discriminate|]. cbn [aget] in Eg.
        destruct (N.eqb_spec id k) as [->|]; [injection Eg as ->; now left|right; auto]. }
    intros [id c]. rewrite (Hchar s1 t1 H1 M1), (Hchar s2 t2 H2 M2), Hv. reflexivity.
  Qed.
End Logical.
