(** C16: the bytes written are a function of the archive's logical content and settings. *)
Require Import PM.Base PM.Oracles PM.Params PM.Float PM.Header PM.Directory PM.Stream PM.TileManager PM.TileManagerProofs
               PM.DirWriter PM.DirReader PM.Hilbert PM.Archive PM.FinishSpec PM.FinishProofs.
Open Scope N_scope.

(** the settings of an archive: everything but the tile store *)
Definition same_settings (p q : pmtiles) : Prop :=
  p_ttype p = p_ttype q /\ p_tcomp p = p_tcomp q /\ p_icomp p = p_icomp q /\
  p_minz p = p_minz q /\ p_maxz p = p_maxz q /\ p_cz p = p_cz q /\
  p_min_lon p = p_min_lon q /\ p_min_lat p = p_min_lat q /\ p_max_lon p = p_max_lon q /\ p_max_lat p = p_max_lat q /\
  p_clon p = p_clon q /\ p_clat p = p_clat q /\ p_meta p = p_meta q.

Lemma to_writer_depends_on_finish cx asy p q st : same_settings p q ->
  finish cx (p_tm p) = finish cx (p_tm q) -> to_writer cx asy p st = to_writer cx asy q st.
Proof.
  intros (A1 & A2 & A3 & A4 & A5 & A6 & A7 & A8 & A9 & A10 & A11 & A12 & A13) Hf.
  unfold to_writer. rewrite Hf, A1, A2, A3, A4, A5, A6, A7, A8, A9, A10, A11, A12, A13. reflexivity.
Qed.

(** two archives with the same tiles (every lookup agrees), metadata and settings serialise to the
    same bytes (and leave the stream in the same state), whatever the internal order of their maps,
    the history that produced them, and whether their tiles are in memory or in a backing archive *)
Theorem to_writer_canonical cx asy p q st tiles U :
  same_settings p q -> Inv cx (p_tm p) -> Inv cx (p_tm q) ->
  (forall id, view (p_tm p) id = view (p_tm q) id) ->
  logical (p_tm p) = Ok tiles ->
  (exists t2, logical (p_tm q) = Ok t2) ->
  hash_inj_on cx U -> (forall c, In c U -> nlen c < two32) ->
  Forall (fun t => In (snd t) U /\ fst t < two63) tiles -> nlen tiles + 1 < two32 ->
  to_writer cx asy p st = to_writer cx asy q st.
Proof.
  intros Hs Hp Hq Hv Lp (t2 & Lq) Hinj Hsm Ht Hc.
  apply to_writer_depends_on_finish; [assumption|].
  assert (t2 = tiles) by (symmetry; now apply (logical_determined cx (p_tm p) (p_tm q))). subst t2.
  now apply (finish_canonical cx _ _ tiles U).
Qed.
