(** C11: range-filtered directory reading equals full reading restricted to the range. *)
Require Import PM.Base PM.Oracles PM.Params PM.Directory PM.DirectoryProofs PM.Stream PM.TileManager PM.TileManagerProofs
               PM.DirReader PM.LookupProofs.
From Coq Require Import ZifyN ZifyBool ZifyNat.
Open Scope N_scope.

(** * run expansion *)
Definition in_run (e : entry) (id : N) : bool := (e_id e <=? id) && (id <? e_id e + e_run e).

Lemma expand_run_aget r e acc id :
  aget id (expand_run r e acc) =
  if in_run e id && in_range r id then Some (e_off e, e_len e) else aget id acc.
Proof.
  unfold expand_run, in_run.
  set (f := fun st : N * list (N * (N * N)) => let '(i, a) := st in (i + 1, if in_range r i then aset i (e_off e, e_len e) a else a)).
  assert (H : forall n, fst (N.iter n f (e_id e, acc)) = e_id e + n /\
              aget id (snd (N.iter n f (e_id e, acc))) =
              if (e_id e <=? id) && (id <? e_id e + n) && in_range r id then Some (e_off e, e_len e) else aget id acc).
  { intros n. induction n as [|n IH] using N.peano_ind.
    - cbn. split; [lia|]. destruct (N.leb_spec (e_id e) id); destruct (N.ltb_spec id (e_id e + 0)); cbn; try reflexivity; lia.
    - rewrite N.iter_succ. destruct IH as [IH1 IH2]. destruct (N.iter n f (e_id e, acc)) as [i a]. cbn [fst snd] in *. subst i.
      cbn [f fst snd]. split; [lia|].
      destruct (in_range r (e_id e + n)) eqn:Er.
      + destruct (N.eq_dec id (e_id e + n)) as [->|Hn].
        * rewrite aget_aset_eq, Er.
          destruct (N.leb_spec (e_id e) (e_id e + n)); [|lia]. destruct (N.ltb_spec (e_id e + n) (e_id e + N.succ n)); [|lia]. reflexivity.
        * rewrite aget_aset_neq by assumption. rewrite IH2.
          destruct (N.leb_spec (e_id e) id); cbn [andb]; [|reflexivity].
          destruct (N.ltb_spec id (e_id e + n)); destruct (N.ltb_spec id (e_id e + N.succ n)); try reflexivity; lia.
      + rewrite IH2. destruct (N.eq_dec id (e_id e + n)) as [->|Hn].
        * rewrite Er, !Bool.andb_false_r. reflexivity.
        * destruct (N.leb_spec (e_id e) id); cbn [andb]; [|reflexivity].
          destruct (N.ltb_spec id (e_id e + n)); destruct (N.ltb_spec id (e_id e + N.succ n)); try reflexivity; lia. }
  apply H.
Qed.

Lemma in_range_full id : in_range full_range id = true. Proof. reflexivity. Qed.

(** * the relation between the filtered and the unfiltered accumulator *)
Definition Racc (r : range) (ap af : list (N * (N * N))) : Prop :=
  forall id, aget id ap = if in_range r id then aget id af else None.

Lemma Racc_expand r e ap af : Racc r ap af -> Racc r (expand_run r e ap) (expand_run full_range e af).
Proof.
  intros H id. rewrite !expand_run_aget, in_range_full, Bool.andb_true_r, H.
  destruct (in_range r id); [|now rewrite Bool.andb_false_r]. rewrite Bool.andb_true_r. now destruct (in_run e id).
Qed.

(** * generic lemmas on the entry loop *)
(** [lo]-boundedness: a reading function only adds ids >= lo *)
Definition only_above (lo : N) (a a' : list (N * (N * N))) : Prop := forall id, id < lo -> aget id a' = aget id a.

Lemma walk_only_above rec leaf_off lo : forall es acc t,
  (forall e, In e es -> lo <= e_id e) ->
  (forall e o a a', In e es -> e_run e = 0 -> rec o (e_len e) a = Ok a' -> cadd64 leaf_off (e_off e) = Ok o -> only_above (e_id e) a a') ->
  walk_entries rec leaf_off full_range es acc = Ok t -> only_above lo acc t.
Proof.
  induction es as [|e rest IH]; intros acc t Hge Hrec H; cbn [walk_entries] in H.
  - injection H as <-. intros id _. reflexivity.
  - assert (Hge' : forall e0, In e0 rest -> lo <= e_id e0) by (intros; apply Hge; now right).
    assert (Hrec' : forall e0 o a a', In e0 rest -> e_run e0 = 0 -> rec o (e_len e0) a = Ok a' -> cadd64 leaf_off (e_off e0) = Ok o -> only_above (e_id e0) a a')
      by (intros e0 o a a' Hi; apply Hrec; now right).
    pose proof (Hge e (or_introl eq_refl)) as Hlo.
    destruct (N.eqb_spec (e_run e) 0) as [Hz|Hnz].
    + change (range_end_inc full_range) with u64_max in H.
      destruct (N.ltb_spec u64_max (e_id e)).
      * now apply (IH acc t).
      * destruct (cadd64 leaf_off (e_off e)) as [o| |] eqn:Eo; cbn [bind] in H; try discriminate.
        destruct (rec o (e_len e) acc) as [a'| |] eqn:Er; cbn [bind] in H; try discriminate.
        pose proof (Hrec e o acc a' (or_introl eq_refl) Hz Er Eo) as Ha.
        pose proof (IH a' t Hge' Hrec' H) as Hb.
        intros id Hid. rewrite Hb by assumption. apply Ha. lia.
    + pose proof (IH _ t Hge' Hrec' H) as Hb. intros id Hid. rewrite Hb by assumption.
      rewrite expand_run_aget. unfold in_run. destruct (N.leb_spec (e_id e) id); [lia|]. reflexivity.
Qed.

(** the filtered loop succeeds whenever the unfiltered one does, and yields the restriction *)
Lemma walk_filter recp recf leaf_off r : forall es ap af tf,
  (forall e o a a', In e es -> e_run e = 0 -> recf o (e_len e) a = Ok a' -> cadd64 leaf_off (e_off e) = Ok o -> only_above (e_id e) a a') ->
  (forall e o ap0 af0 tf0, In e es -> e_run e = 0 -> cadd64 leaf_off (e_off e) = Ok o -> Racc r ap0 af0 -> recf o (e_len e) af0 = Ok tf0 ->
     exists tp0, recp o (e_len e) ap0 = Ok tp0 /\ Racc r tp0 tf0) ->
  (forall e, In e es -> e_id e < two64) ->
  Racc r ap af -> walk_entries recf leaf_off full_range es af = Ok tf ->
  exists tp, walk_entries recp leaf_off r es ap = Ok tp /\ Racc r tp tf.
Proof.
  induction es as [|e rest IH]; intros ap af tf Habove Hrec Hid HR H; cbn [walk_entries] in *.
  - injection H as <-. eauto.
  - assert (Habove' : forall e0 o a a', In e0 rest -> e_run e0 = 0 -> recf o (e_len e0) a = Ok a' -> cadd64 leaf_off (e_off e0) = Ok o -> only_above (e_id e0) a a')
      by (intros e0 o a a' Hi; apply Habove; now right).
    assert (Hrec' : forall e0 o ap0 af0 tf0, In e0 rest -> e_run e0 = 0 -> cadd64 leaf_off (e_off e0) = Ok o -> Racc r ap0 af0 -> recf o (e_len e0) af0 = Ok tf0 ->
              exists tp0, recp o (e_len e0) ap0 = Ok tp0 /\ Racc r tp0 tf0) by (intros e0 o a1 a2 t0 Hi; apply Hrec; now right).
    assert (Hid' : forall e0, In e0 rest -> e_id e0 < two64) by (intros; apply Hid; now right).
    destruct (N.eqb_spec (e_run e) 0) as [Hz|Hnz].
    + change (range_end_inc full_range) with u64_max in H.
      pose proof (Hid e (or_introl eq_refl)) as Hide.
      destruct (N.ltb_spec u64_max (e_id e)) as [Hbad|_]; [unfold u64_max, two64 in *; lia|].
      destruct (cadd64 leaf_off (e_off e)) as [o| |] eqn:Eo; cbn [bind] in H; try discriminate.
      destruct (recf o (e_len e) af) as [af'| |] eqn:Er; cbn [bind] in H; try discriminate.
      destruct (N.ltb_spec (range_end_inc r) (e_id e)) as [Hskip|Hno].
      * (* the leaf is skipped: everything it adds lies beyond the range *)
        apply (IH ap af' tf); try assumption.
        pose proof (Habove e o af af' (or_introl eq_refl) Hz Er Eo) as Ha.
        intros id. rewrite HR. destruct (in_range r id) eqn:Ei; [|reflexivity].
        symmetry. apply Ha.
        unfold in_range in Ei. apply Bool.andb_true_iff in Ei. destruct Ei as [_ Ei].
        unfold range_end_inc in Hskip. destruct (r_end r); unfold u64_max, two64 in *; lia.
      * cbn [bind]. destruct (Hrec e o ap af af' (or_introl eq_refl) Hz Eo HR Er) as (tp0 & Hp0 & HR0).
        rewrite Hp0. cbn [bind]. now apply (IH tp0 af' tf).
    + apply (IH (expand_run r e ap) (expand_run full_range e af) tf); try assumption. now apply Racc_expand.
Qed.

(** * the directory tree *)
Section WithCtx.
  Context (cx : ctx).

  (** every id found in a directory (and, recursively, in the leaves it points to) is at least the id of
      the pointer that led there — true of every valid archive: a leaf pointer carries its leaf's first
      id and ids ascend.  (Ids are below 2^64: they are u64 values.) *)
  Fixpoint tree_ok (fuel : nat) (c : compression) (img : bytes) (off len leaf_off lo : N) : bool :=
    match fuel with
    | O => true
    | S f =>
      match decode_dir cx c (section img off len) with
      | Ok es =>
        forallb (fun e => (lo <=? e_id e) && (e_id e <? two64) &&
                          (if e_run e =? 0 then
                             match cadd64 leaf_off (e_off e) with
                             | Ok o => tree_ok f c img o (e_len e) leaf_off (e_id e)
                             | _ => true
                             end
                           else true)) es
      | _ => true
      end
    end.

  Lemma read_only_above : forall fuel c img off len leaf_off lo acc t,
    tree_ok fuel c img off len leaf_off lo = true ->
    read_dir_rec cx fuel c img off len leaf_off full_range acc = Ok t -> only_above lo acc t.
  Proof.
    induction fuel as [|f IH]; intros c img off len leaf_off lo acc t Hok H; [discriminate|].
    cbn [read_dir_rec tree_ok] in *.
    destruct (decode_dir cx c (section img off len)) as [es| |]; cbn [bind] in H; try discriminate.
    rewrite forallb_forall in Hok.
    eapply walk_only_above; [| |exact H].
    - intros e Hin. specialize (Hok e Hin). rewrite !Bool.andb_true_iff in Hok. lia.
    - intros e o a a' Hin Hz Hr Ho. specialize (Hok e Hin). rewrite !Bool.andb_true_iff in Hok.
      destruct Hok as [_ Hsub]. rewrite Ho, Hz in Hsub. cbn in Hsub.
      now apply (IH c img o (e_len e) leaf_off (e_id e) a a').
  Qed.

  (** C11: wherever the full read succeeds on a tree whose leaves respect their pointers, the filtered read
      succeeds too and yields exactly the restriction of the full result to the range *)
  Theorem read_filter : forall fuel c img off len leaf_off lo r ap af tf,
    tree_ok fuel c img off len leaf_off lo = true -> Racc r ap af ->
    read_dir_rec cx fuel c img off len leaf_off full_range af = Ok tf ->
    exists tp, read_dir_rec cx fuel c img off len leaf_off r ap = Ok tp /\ Racc r tp tf.
  Proof.
    induction fuel as [|f IH]; intros c img off len leaf_off lo r ap af tf Hok HR H; [discriminate|].
    cbn [read_dir_rec tree_ok] in *.
    destruct (decode_dir cx c (section img off len)) as [es| |]; cbn [bind] in *; try discriminate.
    rewrite forallb_forall in Hok.
    eapply walk_filter; [| | |exact HR|exact H].
    - intros e o a a' Hin Hz Hr Ho. specialize (Hok e Hin). rewrite !Bool.andb_true_iff in Hok.
      destruct Hok as [_ Hsub]. rewrite Ho, Hz in Hsub. cbn in Hsub.
      now apply (read_only_above f c img o (e_len e) leaf_off (e_id e) a a').
    - intros e o ap0 af0 tf0 Hin Hz Ho HR0 Hr.
      specialize (Hok e Hin). rewrite !Bool.andb_true_iff in Hok. destruct Hok as [_ Hsub]. rewrite Ho, Hz in Hsub. cbn in Hsub.
      now apply (IH c img o (e_len e) leaf_off (e_id e) r ap0 af0 tf0).
    - intros e Hin. specialize (Hok e Hin). rewrite !Bool.andb_true_iff in Hok. lia.
  Qed.

  (** the top level: [read_directories] with a range vs. without *)
  Theorem read_directories_filter c img ro rl lo r tf :
    tree_ok (depth_fuel_of max_dir_depth) c img ro rl lo 0 = true ->
    read_directories cx c img ro rl lo full_range = Ok tf ->
    exists tp, read_directories cx c img ro rl lo r = Ok tp /\
               forall id, aget id tp = if in_range r id then aget id tf else None.
  Proof.
    intros Hok H. unfold read_directories in *.
    destruct (read_filter _ c img ro rl lo 0 r [] [] tf Hok) as (tp & Hp & HR); [|exact H|eauto].
    intros id. cbn. now destruct (in_range r id).
  Qed.
End WithCtx.
