(** The 127-byte header (src/header/mod.rs, deku-derived layout written out by hand). *)
Require Import PM.Base PM.Oracles PM.Params PM.Float.
From Coq Require Import ZArith.
Open Scope N_scope.

Inductive tile_type := TUnknown | TMvt | TPng | TJpeg | TWebp | TAvif.

Definition comp_code (c : compression) : N :=
  match c with CUnknown => 0 | CNone => 1 | CGzip => 2 | CBrotli => 3 | CZstd => 4 end.
Definition comp_of_code (n : N) : outcome compression :=
  if n =? 0 then Ok CUnknown else if n =? 1 then Ok CNone else if n =? 2 then Ok CGzip
  else if n =? 3 then Ok CBrotli else if n =? 4 then Ok CZstd else Err EInvalid.
Definition ttype_code (t : tile_type) : N :=
  match t with TUnknown => 0 | TMvt => 1 | TPng => 2 | TJpeg => 3 | TWebp => 4 | TAvif => 5 end.
Definition ttype_of_code (n : N) : outcome tile_type :=
  if n =? 0 then Ok TUnknown else if n =? 1 then Ok TMvt else if n =? 2 then Ok TPng
  else if n =? 3 then Ok TJpeg else if n =? 4 then Ok TWebp else if n =? 5 then Ok TAvif else Err EInvalid.

(** the header as stored: coordinates are the i32 values on the wire *)
Record sheader := mkSH {
  s_version : N;
  s_root_off : N; s_root_len : N; s_meta_off : N; s_meta_len : N;
  s_leaf_off : N; s_leaf_len : N; s_data_off : N; s_data_len : N;
  s_addressed : N; s_entries : N; s_contents : N;
  s_clustered : bool;
  s_icomp : compression; s_tcomp : compression; s_ttype : tile_type;
  s_minz : N; s_maxz : N;
  s_min_lon : Z; s_min_lat : Z; s_max_lon : Z; s_max_lat : Z;
  s_cz : N;
  s_clon : Z; s_clat : Z
}.

Definition magic : bytes := [80; 77; 84; 105; 108; 101; 115].  (* "PMTiles" *)

(** i32 little endian, two's complement *)
Definition i32_bytes (z : Z) : bytes := le_bytes 4 (Z.to_N (z mod 4294967296)%Z).
Definition i32_of_bytes (b : bytes) : Z :=
  let v := Z.of_N (le_value b) in
  if (v <? 2147483648)%Z then v else (v - 4294967296)%Z.

Definition stored_bytes (h : sheader) : bytes :=
     (magic ++ [s_version h]
      ++ le_bytes 8 (s_root_off h) ++ le_bytes 8 (s_root_len h)
      ++ le_bytes 8 (s_meta_off h) ++ le_bytes 8 (s_meta_len h)
      ++ le_bytes 8 (s_leaf_off h) ++ le_bytes 8 (s_leaf_len h)
      ++ le_bytes 8 (s_data_off h) ++ le_bytes 8 (s_data_len h)
      ++ le_bytes 8 (s_addressed h) ++ le_bytes 8 (s_entries h) ++ le_bytes 8 (s_contents h)
      ++ [if s_clustered h then 1 else 0]
      ++ [comp_code (s_icomp h); comp_code (s_tcomp h); ttype_code (s_ttype h)]
      ++ [s_minz h; s_maxz h]
      ++ i32_bytes (s_min_lon h) ++ i32_bytes (s_min_lat h)
      ++ i32_bytes (s_max_lon h) ++ i32_bytes (s_max_lat h)
      ++ [s_cz h]
      ++ i32_bytes (s_clon h) ++ i32_bytes (s_clat h)).
Definition encode_stored (h : sheader) : outcome bytes :=
  (* #[deku(assert_eq = "3")] is checked on write too *)
  if negb (s_version h =? 3) then Err EInvalid else Ok (stored_bytes h).

(** splitting helper: first [n] elements and the rest, or EOF *)
Definition split_at (n : nat) (b : bytes) : outcome (bytes * bytes) :=
  if Nat.leb n (length b) then Ok (firstn n b, skipn n b) else Err EEof.
Definition take_u64 (b : bytes) : outcome (N * bytes) :=
  do (x, r) <- split_at 8 b; Ok (le_value x, r).
Definition take_i32 (b : bytes) : outcome (Z * bytes) :=
  do (x, r) <- split_at 4 b; Ok (i32_of_bytes x, r).
Definition take_u8 (b : bytes) : outcome (N * bytes) :=
  match b with [] => Err EEof | x :: r => Ok (x, r) end.

Fixpoint bytes_eqb (a b : bytes) : bool :=
  match a, b with
  | [], [] => true
  | x :: r, y :: s => (x =? y) && bytes_eqb r s
  | _, _ => false
  end.

(** [Header::from_reader]: read_exact 127 bytes, then the deku parser.  Returns the header and the
    unread rest of the input. *)
Definition decode_stored (b : bytes) : outcome (sheader * bytes) :=
  do (hb, rest) <- split_at (N.to_nat header_bytes) b;
  do (m, r) <- split_at 7 hb;
  if negb (bytes_eqb m magic) then Err EInvalid else
  do (v, r) <- take_u8 r;
  if negb (v =? 3) then Err EInvalid else
  do (root_off, r) <- take_u64 r; do (root_len, r) <- take_u64 r;
  do (meta_off, r) <- take_u64 r; do (meta_len, r) <- take_u64 r;
  do (leaf_off, r) <- take_u64 r; do (leaf_len, r) <- take_u64 r;
  do (data_off, r) <- take_u64 r; do (data_len, r) <- take_u64 r;
  do (addressed, r) <- take_u64 r; do (entries, r) <- take_u64 r; do (contents, r) <- take_u64 r;
  do (cl, r) <- take_u8 r;
  (* deku bool with bits = 8: 0 and 1 only *)
  do clustered <- (if cl =? 0 then Ok false else if cl =? 1 then Ok true else Err EInvalid);
  do (ic, r) <- take_u8 r; do icomp <- comp_of_code ic;
  do (tc, r) <- take_u8 r; do tcomp <- comp_of_code tc;
  do (ttc, r) <- take_u8 r; do ttype <- ttype_of_code ttc;
  do (minz, r) <- take_u8 r; do (maxz, r) <- take_u8 r;
  do (min_lon, r) <- take_i32 r; do (min_lat, r) <- take_i32 r;
  do (max_lon, r) <- take_i32 r; do (max_lat, r) <- take_i32 r;
  do (cz, r) <- take_u8 r;
  do (clon, r) <- take_i32 r; do (clat, r) <- take_i32 r;
  Ok (mkSH v root_off root_len meta_off meta_len leaf_off leaf_len data_off data_len
           addressed entries contents clustered icomp tcomp ttype minz maxz
           min_lon min_lat max_lon max_lat cz clon clat, rest).

(** the public header: coordinates in degrees *)
Record header := mkH {
  h_version : N;
  h_root_off : N; h_root_len : N; h_meta_off : N; h_meta_len : N;
  h_leaf_off : N; h_leaf_len : N; h_data_off : N; h_data_len : N;
  h_addressed : N; h_entries : N; h_contents : N;
  h_clustered : bool;
  h_icomp : compression; h_tcomp : compression; h_ttype : tile_type;
  h_minz : N; h_maxz : N;
  h_min_lon : f64; h_min_lat : f64; h_max_lon : f64; h_max_lat : f64;
  h_cz : N;
  h_clon : f64; h_clat : f64
}.

Definition to_stored (h : header) : sheader :=
  mkSH (h_version h) (h_root_off h) (h_root_len h) (h_meta_off h) (h_meta_len h)
       (h_leaf_off h) (h_leaf_len h) (h_data_off h) (h_data_len h)
       (h_addressed h) (h_entries h) (h_contents h) (h_clustered h)
       (h_icomp h) (h_tcomp h) (h_ttype h) (h_minz h) (h_maxz h)
       (stored_of_deg (h_min_lon h)) (stored_of_deg (h_min_lat h))
       (stored_of_deg (h_max_lon h)) (stored_of_deg (h_max_lat h))
       (h_cz h) (stored_of_deg (h_clon h)) (stored_of_deg (h_clat h)).
Definition of_stored (s : sheader) : header :=
  mkH (s_version s) (s_root_off s) (s_root_len s) (s_meta_off s) (s_meta_len s)
      (s_leaf_off s) (s_leaf_len s) (s_data_off s) (s_data_len s)
      (s_addressed s) (s_entries s) (s_contents s) (s_clustered s)
      (s_icomp s) (s_tcomp s) (s_ttype s) (s_minz s) (s_maxz s)
      (deg_of_stored (s_min_lon s)) (deg_of_stored (s_min_lat s))
      (deg_of_stored (s_max_lon s)) (deg_of_stored (s_max_lat s))
      (s_cz s) (deg_of_stored (s_clon s)) (deg_of_stored (s_clat s)).

Definition encode_header (h : header) : outcome bytes := encode_stored (to_stored h).
Definition decode_header (b : bytes) : outcome (header * bytes) :=
  do (s, rest) <- decode_stored b; Ok (of_stored s, rest).

(** field ranges of the Rust struct (u64 / u8 / i32) *)
Definition sheader_ok (s : sheader) : Prop :=
  s_root_off s < two64 /\ s_root_len s < two64 /\ s_meta_off s < two64 /\ s_meta_len s < two64 /\
  s_leaf_off s < two64 /\ s_leaf_len s < two64 /\ s_data_off s < two64 /\ s_data_len s < two64 /\
  s_addressed s < two64 /\ s_entries s < two64 /\ s_contents s < two64 /\
  s_minz s < 256 /\ s_maxz s < 256 /\ s_cz s < 256 /\
  (i32_min <= s_min_lon s <= i32_max)%Z /\ (i32_min <= s_min_lat s <= i32_max)%Z /\
  (i32_min <= s_max_lon s <= i32_max)%Z /\ (i32_min <= s_max_lat s <= i32_max)%Z /\
  (i32_min <= s_clon s <= i32_max)%Z /\ (i32_min <= s_clat s <= i32_max)%Z.
