(** Edit histories over the public API of PMTiles (add / remove / lookups / listings / save+reopen /
    open from bytes / write at a position / settings), as a state machine
    [step : pmtiles -> op -> pmtiles * out]. *)
Require Import PM.Base PM.Oracles PM.Params PM.Float PM.Header PM.Directory PM.Stream
               PM.TileManager PM.DirWriter PM.DirReader PM.Hilbert PM.Archive.
Open Scope N_scope.

Inductive op :=
| OAdd (id : N) (data : bytes)
| ORemove (id : N)
| OGet (id : N)
| OXyz (x y z : N)
| OList
| OCount
| OSave (asy : bool)                 (* to_writer into a fresh buffer, then from_bytes of it *)
| OOpen (r : range) (b : bytes)      (* from_bytes_partially(b, r) replaces the archive *)
| OWriteAt (asy : bool) (pos : N) (pre : bytes)   (* to_writer into a stream holding [pre], positioned at [pos] *)
| OSetComp (c : compression)
| OSetMeta (m : bytes)               (* canonical JSON object *)
| OSetHdr (tty : tile_type) (tc : compression) (minz maxz cz : N) (c1 c2 c3 c4 c5 c6 : f64)
| OGetHdr
| OSnap.

Inductive out :=
| RUnit
| RRes (ok : outcome unit)
| RTile (r : outcome (option bytes))
| RIds (l : list N)                       (* in the store's internal order: compare as sets *)
| RCount (n : N)
| RSaved (b : outcome bytes) (reopen : outcome unit)
| RStream (r : outcome (bytes * N * list event))
| RHdr (p : pmtiles)
| RSnap (ids : list (N * tile)) (data : list (N * bytes)) (refs : list (N * list N)).

Definition set_tm (p : pmtiles) (s : tm) : pmtiles :=
  mkPM (p_ttype p) (p_tcomp p) (p_icomp p) (p_minz p) (p_maxz p) (p_cz p)
       (p_min_lon p) (p_min_lat p) (p_max_lon p) (p_max_lat p) (p_clon p) (p_clat p) (p_meta p) s.

Definition forget {A} (o : outcome A) : outcome unit :=
  match o with Ok _ => Ok tt | Err e => Err e | Crash c => Crash c end.

Section WithCtx.
  Context (cx : ctx).

  (** an archive value that has been consumed ([to_writer] takes [self]) or could not be opened is
      replaced by a fresh empty one *)
  Definition fresh : pmtiles := pm_new None.

  Definition step (p : pmtiles) (o : op) : pmtiles * out :=
    match o with
    | OAdd id data =>
      match add_tile cx (p_tm p) id data with
      | Ok s => (set_tm p s, RRes (Ok tt))
      | Err e => (p, RRes (Err e))
      | Crash c => (p, RRes (Crash c))
      end
    | ORemove id => (set_tm p (snd (remove_tile (p_tm p) id)), RUnit)
    | OGet id => (p, RTile (get_tile (p_tm p) id))
    | OXyz x y z => (p, RTile (get_tile_xyz p x y z))
    | OList => (p, RIds (tile_ids (p_tm p)))
    | OCount => (p, RCount (num_tiles (p_tm p)))
    | OSave asy =>
      match to_bytes cx asy p with
      | Ok b =>
        match from_reader cx b full_range with
        | Ok p' => (p', RSaved (Ok b) (Ok tt))
        | Err e => (fresh, RSaved (Ok b) (Err e))
        | Crash c => (fresh, RSaved (Ok b) (Crash c))
        end
      | Err e => (fresh, RSaved (Err e) (Ok tt))
      | Crash c => (fresh, RSaved (Crash c) (Ok tt))
      end
    | OOpen r b =>
      match from_reader cx b r with
      | Ok p' => (p', RRes (Ok tt))
      | Err e => (fresh, RRes (Err e))
      | Crash c => (fresh, RRes (Crash c))
      end
    | OWriteAt asy pos pre =>
      (fresh, RStream (do st <- to_writer cx asy p (ws_new pre pos); Ok (ws_img st, ws_pos st, rev (ws_log st))))
    | OSetComp c =>
      (mkPM (p_ttype p) (p_tcomp p) c (p_minz p) (p_maxz p) (p_cz p)
            (p_min_lon p) (p_min_lat p) (p_max_lon p) (p_max_lat p) (p_clon p) (p_clat p) (p_meta p) (p_tm p), RUnit)
    | OSetMeta m =>
      (mkPM (p_ttype p) (p_tcomp p) (p_icomp p) (p_minz p) (p_maxz p) (p_cz p)
            (p_min_lon p) (p_min_lat p) (p_max_lon p) (p_max_lat p) (p_clon p) (p_clat p) m (p_tm p), RUnit)
    | OSetHdr tty tc minz maxz cz c1 c2 c3 c4 c5 c6 =>
      (mkPM tty tc (p_icomp p) minz maxz cz c1 c2 c3 c4 c5 c6 (p_meta p) (p_tm p), RUnit)
    | OGetHdr => (p, RHdr p)
    | OSnap => (p, RSnap (tile_by_id (p_tm p)) (data_by_hash (p_tm p)) (ids_by_hash (p_tm p)))
    end.

  Fixpoint run (p : pmtiles) (ops : list op) : pmtiles * list out :=
    match ops with
    | [] => (p, [])
    | o :: r => let '(p1, x) := step p o in let '(p2, xs) := run p1 r in (p2, x :: xs)
    end.
End WithCtx.
