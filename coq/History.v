(** Edit histories over the public API of PMTiles (add / remove / lookups / listings / save+reopen /
    settings), as a state machine [step : pmtiles -> op -> pmtiles * out]. *)
Require Import PM.Base PM.Oracles PM.Params PM.Float PM.Header PM.Directory PM.Stream
               PM.TileManager PM.DirWriter PM.DirReader PM.Hilbert PM.Archive.
Open Scope N_scope.

Inductive op :=
| OAdd (id : N) (data : bytes)
| ORemove (id : N)
| OGet (id : N)
| OXyz (x y z : N)
| OList
| OCount
| OSave (asy : bool)                 (* to_writer into a fresh buffer, then from_bytes of it *)
| OSetComp (c : compression)
| OSetMeta (m : bytes)               (* canonical JSON object *)
| OSetHdr (tty : tile_type) (tc : compression) (minz maxz cz : N) (c1 c2 c3 c4 c5 c6 : f64)
| OSnap.

Inductive out :=
| RUnit
| RRes (ok : bool)                        (* add_tile: Ok / Err;  save: Ok / Err *)
| RTile (r : outcome (option bytes))
| RIds (l : list N)                       (* in the store's internal order: compare as sets *)
| RCount (n : N)
| RSnap (ids : list (N * tile)) (data : list (N * bytes)) (refs : list (N * list N))
| RCrash.

Definition set_tm (p : pmtiles) (s : tm) : pmtiles :=
  mkPM (p_ttype p) (p_tcomp p) (p_icomp p) (p_minz p) (p_maxz p) (p_cz p)
       (p_min_lon p) (p_min_lat p) (p_max_lon p) (p_max_lat p) (p_clon p) (p_clat p) (p_meta p) s.

Section WithCtx.
  Context (cx : ctx).

  Definition step (p : pmtiles) (o : op) : pmtiles * out :=
    match o with
    | OAdd id data =>
      match add_tile cx (p_tm p) id data with
      | Ok s => (set_tm p s, RRes true)
      | Err _ => (p, RRes false)
      | Crash _ => (p, RCrash)
      end
    | ORemove id => (set_tm p (snd (remove_tile (p_tm p) id)), RUnit)
    | OGet id => (p, RTile (get_tile (p_tm p) id))
    | OXyz x y z => (p, RTile (get_tile_xyz p x y z))
    | OList => (p, RIds (tile_ids (p_tm p)))
    | OCount => (p, RCount (num_tiles (p_tm p)))
    | OSave asy =>
      match to_bytes cx asy p with
      | Ok b =>
        match from_reader cx b full_range with
        | Ok p' => (p', RRes true)
        | Err _ => (p, RRes false)
        | Crash _ => (p, RCrash)
        end
      | Err _ => (p, RRes false)
      | Crash _ => (p, RCrash)
      end
    | OSetComp c =>
      (mkPM (p_ttype p) (p_tcomp p) c (p_minz p) (p_maxz p) (p_cz p)
            (p_min_lon p) (p_min_lat p) (p_max_lon p) (p_max_lat p) (p_clon p) (p_clat p) (p_meta p) (p_tm p), RUnit)
    | OSetMeta m =>
      (mkPM (p_ttype p) (p_tcomp p) (p_icomp p) (p_minz p) (p_maxz p) (p_cz p)
            (p_min_lon p) (p_min_lat p) (p_max_lon p) (p_max_lat p) (p_clon p) (p_clat p) m (p_tm p), RUnit)
    | OSetHdr tty tc minz maxz cz c1 c2 c3 c4 c5 c6 =>
      (mkPM tty tc (p_icomp p) minz maxz cz c1 c2 c3 c4 c5 c6 (p_meta p) (p_tm p), RUnit)
    | OSnap => (p, RSnap (tile_by_id (p_tm p)) (data_by_hash (p_tm p)) (ids_by_hash (p_tm p)))
    end.

  Fixpoint run (p : pmtiles) (ops : list op) : pmtiles * list out :=
    match ops with
    | [] => (p, [])
    | o :: r => let '(p1, x) := step p o in let '(p2, xs) := run p1 r in (p2, x :: xs)
    end.
End WithCtx.
