(** C12 (model level): the sync and async writers differ only in the codec oracle they call and in
    flush/close bookkeeping; image and position of the stream are the same whenever the codec agrees. *)
Require Import PM.Base PM.Oracles PM.Params PM.Float PM.Header PM.Directory PM.Stream PM.TileManager
               PM.DirWriter PM.StreamProofs PM.DirReader PM.Hilbert PM.Archive.
From Coq Require Import ZifyN ZifyBool ZifyNat.
Open Scope N_scope.

(** streams that agree on image and position (their operation logs may differ) *)
Definition st_eq (a b : wstream) : Prop := ws_img a = ws_img b /\ ws_pos a = ws_pos b.
Definition res_eq {X} (a b : outcome (wstream * X)) : Prop :=
  match a, b with
  | Ok (s1, x1), Ok (s2, x2) => st_eq s1 s2 /\ x1 = x2
  | Err e1, Err e2 => e1 = e2
  | Crash c1, Crash c2 => c1 = c2
  | _, _ => False
  end.
Definition res_eq0 (a b : outcome wstream) : Prop :=
  match a, b with
  | Ok s1, Ok s2 => st_eq s1 s2
  | Err e1, Err e2 => e1 = e2
  | Crash c1, Crash c2 => c1 = c2
  | _, _ => False
  end.

Lemma st_eq_refl a : st_eq a a. Proof. split; reflexivity. Qed.
Lemma st_eq_ev a b e1 e2 : st_eq a b -> st_eq (ws_log_ev a e1) (ws_log_ev b e2).
Proof. intros [H1 H2]. split; assumption. Qed.
Lemma st_eq_ev_l a b e : st_eq a b -> st_eq (ws_log_ev a e) b.
Proof. intros [H1 H2]. split; assumption. Qed.
Lemma st_eq_seek a b p : st_eq a b -> st_eq (ws_seek a p) (ws_seek b p).
Proof. intros [H1 H2]. split; [assumption|reflexivity]. Qed.
Lemma st_eq_write a b bs : st_eq a b -> st_eq (ws_write a bs) (ws_write b bs).
Proof.
  intros [H1 H2]. unfold ws_write, ws_write_gen. destruct bs; [split; assumption|].
  cbn [ws_img ws_pos]. rewrite H1, H2. split; reflexivity.
Qed.

Section WithCtx.
  Context (cx : ctx).
  Variable c : compression.
  Variables a1 a2 : bool.
  (** the two API families' encoders agree on this compression (always true for [CNone]) *)
  Hypothesis Hcomp : forall b, compress cx a1 c b = compress cx a2 c b.

  Lemma st_eq_codec s1 s2 plain z : st_eq s1 s2 ->
    st_eq (ws_write_codec cx a1 c s1 plain z) (ws_write_codec cx a2 c s2 plain z).
  Proof.
    intros H. split.
    - rewrite !ws_write_codec_img. apply (st_eq_write _ _ z H).
    - rewrite !ws_write_codec_pos. destruct H as [_ ->]. reflexivity.
  Qed.

  Lemma st_eq_dir s1 s2 z : st_eq s1 s2 -> st_eq (ws_write_dir a1 s1 z) (ws_write_dir a2 s2 z).
  Proof.
    intros H. split.
    - rewrite !ws_write_dir_img. apply (st_eq_write _ _ z H).
    - rewrite !ws_write_dir_pos. destruct H as [_ ->]. reflexivity.
  Qed.

  Lemma write_dir_eq es s1 s2 : st_eq s1 s2 -> res_eq (write_dir cx a1 c es s1) (write_dir cx a2 c es s2).
  Proof.
    intros H. unfold write_dir. rewrite (Hcomp []).
    destruct (compress cx a2 c []) as [x| |]; cbn [bind res_eq]; try reflexivity.
    destruct (encode_dir_plain es) as [plain| |]; cbn [bind res_eq]; try reflexivity.
    rewrite (Hcomp plain). destruct (compress cx a2 c plain) as [z| |]; cbn [bind res_eq]; try reflexivity.
    split; [now apply st_eq_dir|reflexivity].
  Qed.

  Lemma leaf_loop_eq es start : forall fuel ls s1 s2, st_eq s1 s2 ->
    res_eq (leaf_loop cx fuel a1 c es ls s1 start) (leaf_loop cx fuel a2 c es ls s2 start).
  Proof.
    induction fuel as [|f IH]; intros ls s1 s2 H; cbn [leaf_loop]; [reflexivity|].
    destruct (ls =? 0); [reflexivity|].
    destruct (build_leaves cx c _ 0 [] []) as [[leaves ptrs]| |]; cbn [bind res_eq]; try reflexivity.
    pose proof (write_dir_eq ptrs (ws_seek s1 start) (ws_seek s2 start) (st_eq_seek _ _ start H)) as Hw.
    destruct (write_dir cx a1 c ptrs (ws_seek s1 start)) as [[t1 n1]| |];
      destruct (write_dir cx a2 c ptrs (ws_seek s2 start)) as [[t2 n2]| |]; cbn [res_eq] in Hw; try contradiction; cbn [bind res_eq]; try exact Hw; try reflexivity.
    destruct Hw as [[Hi Hp] _]. unfold ws_tell. cbn [ws_log_ev ws_pos]. rewrite Hp.
    destruct (sub64 (ws_pos t2) start) as [rl| |]; cbn [bind res_eq]; try reflexivity.
    assert (Ht : st_eq (ws_log_ev t1 EvPos) (ws_log_ev t2 EvPos)) by (split; assumption).
    destruct (rl <=? max_root_dir_length); [cbn [res_eq]; split; [exact Ht|reflexivity]|].
    destruct (2 * ls <? two64); [now apply IH|reflexivity].
  Qed.

  Lemma write_directories_eq es ss s1 s2 : st_eq s1 s2 ->
    res_eq (write_directories cx a1 c es ss s1) (write_directories cx a2 c es ss s2).
  Proof.
    intros H. unfold write_directories, ws_tell. cbn [ws_log_ev ws_pos].
    pose proof (write_dir_eq es (ws_log_ev s1 EvPos) (ws_log_ev s2 EvPos) (st_eq_ev _ _ _ _ H)) as Hw.
    destruct (write_dir cx a1 c es (ws_log_ev s1 EvPos)) as [[t1 n1]| |];
      destruct (write_dir cx a2 c es (ws_log_ev s2 EvPos)) as [[t2 n2]| |]; cbn [res_eq] in Hw; try contradiction; cbn [bind res_eq]; try exact Hw; try reflexivity.
    destruct Hw as [[Hi Hp] _]. destruct H as [H1 H2]. rewrite Hp, H2.
    destruct (sub64 (ws_pos t2) (ws_pos s2)) as [rl| |]; cbn [bind res_eq]; try reflexivity.
    assert (Ht : st_eq (ws_log_ev t1 EvPos) (ws_log_ev t2 EvPos)) by (split; assumption).
    destruct (rl <=? max_root_dir_length); [cbn [res_eq]; split; [exact Ht|reflexivity]|].
    now apply leaf_loop_eq.
  Qed.
End WithCtx.

Section Archive.
  Context (cx : ctx).
  Variables a1 a2 : bool.

  Theorem to_writer_eq p s1 s2 :
    (forall b, compress cx a1 (p_icomp p) b = compress cx a2 (p_icomp p) b) ->
    st_eq s1 s2 -> res_eq0 (to_writer cx a1 p s1) (to_writer cx a2 p s2).
  Proof.
    intros Hcomp H. unfold to_writer.
    destruct (finish cx (p_tm p)) as [res| |]; cbn [bind res_eq0]; try reflexivity.
    unfold ws_tell. cbn [ws_log_ev ws_pos]. destruct H as [H1 H2]. rewrite H2.
    destruct (cadd64 (ws_pos s2) header_bytes) as [he| |]; cbn [bind res_eq0]; try reflexivity.
    set (t1 := ws_seek (ws_log_ev s1 EvPos) he). set (t2 := ws_seek (ws_log_ev s2 EvPos) he).
    assert (Ht : st_eq t1 t2) by (split; [exact H1|reflexivity]).
    pose proof (write_directories_eq cx (p_icomp p) a1 a2 Hcomp (fr_dir res) None t1 t2 Ht) as Hw.
    destruct (write_directories cx a1 (p_icomp p) (fr_dir res) None t1) as [[u1 l1]| |];
      destruct (write_directories cx a2 (p_icomp p) (fr_dir res) None t2) as [[u2 l2]| |]; cbn [res_eq] in Hw; try contradiction; cbn [bind res_eq0]; try exact Hw; try reflexivity.
    destruct Hw as [[Hi Hp] <-]. cbn [ws_log_ev ws_pos ws_img]. rewrite Hp.
    destruct (sub64 (ws_pos u2) (ws_pos s2)) as [x1| |]; cbn [bind res_eq0]; try reflexivity.
    destruct (sub64 x1 header_bytes) as [root_len| |]; cbn [bind res_eq0]; try reflexivity.
    destruct (add64 header_bytes root_len) as [meta_off| |]; cbn [bind res_eq0]; try reflexivity.
    rewrite (Hcomp (p_meta p)).
    destruct (compress cx a2 (p_icomp p) (p_meta p)) as [mb| |]; cbn [bind res_eq0]; try reflexivity.
    assert (Hv : st_eq (ws_write_codec cx a1 (p_icomp p) (ws_log_ev u1 EvPos) (p_meta p) mb)
                       (ws_write_codec cx a2 (p_icomp p) (ws_log_ev u2 EvPos) (p_meta p) mb)).
    { apply st_eq_codec. split; assumption. }
    set (v1 := ws_write_codec cx a1 (p_icomp p) (ws_log_ev u1 EvPos) (p_meta p) mb) in *.
    set (v2 := ws_write_codec cx a2 (p_icomp p) (ws_log_ev u2 EvPos) (p_meta p) mb) in *.
    destruct Hv as [Hvi Hvp]. rewrite Hvp.
    destruct (sub64 (ws_pos v2) (ws_pos s2)) as [x2| |]; cbn [bind res_eq0]; try reflexivity.
    destruct (sub64 x2 meta_off) as [meta_len| |]; cbn [bind res_eq0]; try reflexivity.
    destruct (add64 meta_off meta_len) as [leaf_off| |]; cbn [bind res_eq0]; try reflexivity.
    assert (Hw4 : st_eq (ws_write (ws_log_ev v1 EvPos) l1) (ws_write (ws_log_ev v2 EvPos) l1)) by (apply st_eq_write; split; assumption).
    set (w1 := ws_write (ws_log_ev v1 EvPos) l1) in *. set (w2 := ws_write (ws_log_ev v2 EvPos) l1) in *.
    destruct Hw4 as [Hwi Hwp]. rewrite Hwp.
    destruct (sub64 (ws_pos w2) (ws_pos s2)) as [x3| |]; cbn [bind res_eq0]; try reflexivity.
    destruct (sub64 x3 leaf_off) as [leaf_len| |]; cbn [bind res_eq0]; try reflexivity.
    destruct (add64 leaf_off leaf_len) as [data_off| |]; cbn [bind res_eq0]; try reflexivity.
    match goal with |- context [encode_header ?h] => destruct (encode_header h) as [hb| |]; cbn [bind res_eq0]; try reflexivity end.
    destruct (add64 (ws_pos s2) data_off) as [x4| |]; cbn [bind res_eq0]; try reflexivity.
    destruct (add64 x4 (nlen (fr_data res))) as [endp| |]; cbn [bind res_eq0]; try reflexivity.
    cbn [res_eq0]. unfold st_eq. cbn [ws_seek ws_img ws_pos]. split; [|reflexivity].
    assert (Hd : st_eq (ws_write (ws_log_ev w1 EvPos) (fr_data res)) (ws_write (ws_log_ev w2 EvPos) (fr_data res))) by (apply st_eq_write; split; assumption).
    assert (Hh : st_eq (ws_write (ws_seek (ws_write (ws_log_ev w1 EvPos) (fr_data res)) (ws_pos s2)) hb)
                       (ws_write (ws_seek (ws_write (ws_log_ev w2 EvPos) (fr_data res)) (ws_pos s2)) hb)).
    { apply st_eq_write. now apply st_eq_seek. }
    destruct a1, a2; cbn [ws_log_ev ws_img]; apply Hh.
  Qed.

  (** with no codec involved the two writers produce byte-identical archives *)
  Corollary to_bytes_none p : p_icomp p = CNone -> to_bytes cx a1 p = to_bytes cx a2 p.
  Proof.
    intros Hc. unfold to_bytes.
    pose proof (to_writer_eq p (ws_new [] 0) (ws_new [] 0)) as H. rewrite Hc in H.
    specialize (H (fun b => eq_refl) (st_eq_refl _)).
    destruct (to_writer cx a1 p (ws_new [] 0)) as [s1|e1|c1]; destruct (to_writer cx a2 p (ws_new [] 0)) as [s2|e2|c2];
      cbn [res_eq0] in H; try contradiction; cbn [bind]; try (now subst).
    destruct H as [-> _]. reflexivity.
  Qed.
End Archive.
