(** C13: the I/O combinators the code relies on do not depend on how the stream fragments transfers;
    C20: they read exactly the bytes they are asked for. *)
Require Import PM.Base PM.Stream PM.StreamProofs PM.IO.
From Coq Require Import ZifyN ZifyBool ZifyNat.
Open Scope N_scope.

Lemma section_length img p n : p + n <= nlen img -> nlen (section img p n) = n.
Proof.
  intros H. unfold section, nlen in *. destruct (N.leb_spec (N.of_nat (length img)) p).
  - cbn. lia.
  - rewrite firstn_length, skipn_length. lia.
Qed.
Lemma section_zero img p : section img p 0 = [].
Proof. unfold section. destruct (_ <=? _); [reflexivity|]. rewrite N.min_0_l. reflexivity. Qed.
Lemma section_split img p a b : p + a + b <= nlen img ->
  section img p (a + b) = section img p a ++ section img (p + a) b.
Proof.
  intros H. destruct (N.eq_dec b 0) as [->|Hb]; [now rewrite N.add_0_r, section_zero, app_nil_r|].
  destruct (N.eq_dec a 0) as [->|Ha]; [now rewrite N.add_0_l, N.add_0_r, section_zero|].
  unfold section, nlen in *.
  destruct (N.leb_spec (N.of_nat (length img)) p) as [H1|H1]; [lia|].
  - destruct (N.leb_spec (N.of_nat (length img)) (p + a)) as [H2|H2]; [lia|].
    + replace (N.to_nat (N.min (a + b) (N.of_nat (length img) - p))) with (N.to_nat a + N.to_nat b)%nat by lia.
      replace (N.to_nat (N.min a (N.of_nat (length img) - p))) with (N.to_nat a) by lia.
      replace (N.to_nat (N.min b (N.of_nat (length img) - (p + a)))) with (N.to_nat b) by lia.
      replace (N.to_nat (p + a)) with (N.to_nat p + N.to_nat a)%nat by lia.
      rewrite <- skipn_skipn'. set (l := skipn (N.to_nat p) img).
      rewrite <- (firstn_skipn (N.to_nat a) l) at 1.
      assert (La : length (firstn (N.to_nat a) l) = N.to_nat a).
      { rewrite firstn_length. unfold l. rewrite skipn_length. lia. }
      rewrite firstn_app, La. rewrite firstn_all2 by lia.
      replace (N.to_nat a + N.to_nat b - N.to_nat a)%nat with (N.to_nat b) by lia. reflexivity.
Qed.

(** consecutive reads: a chain of (pos, len) records from [a] to [b] *)
Fixpoint chain (l : list (N * N)) (a b : N) : Prop :=
  match l with
  | [] => a = b
  | (p, n) :: r => p = a /\ chain r (a + n) b
  end.
Lemma chain_app l1 l2 a m b : chain l1 a m -> chain l2 m b -> chain (l1 ++ l2) a b.
Proof.
  revert a. induction l1 as [|[p n] r IH]; intros a H1 H2; cbn in *; [now subst|].
  destruct H1 as [-> H1]. split; [reflexivity|]. now apply IH.
Qed.

Lemma limit_of_bounds sched n : 1 <= n -> 1 <= limit_of sched n <= n.
Proof. intros H. unfold limit_of. destruct sched; lia. Qed.
Lemma nlen_nonempty {A} (l : list A) : 1 <= nlen l -> l <> [].
Proof. destruct l; [cbn; lia|discriminate]. Qed.

(** * read_exact: result, position and bytes read do not depend on the schedule *)
Lemma read_exact_zero fuel s : read_exact fuel 0 s = Ok ([], s).
Proof. destruct fuel; reflexivity. Qed.

Theorem read_exact_ok : forall fuel n s, (N.to_nat n <= fuel)%nat -> 1 <= n -> rd_pos s + n <= nlen (rd_img s) ->
  exists s', read_exact fuel n s = Ok (section (rd_img s) (rd_pos s) n, s') /\
             rd_img s' = rd_img s /\ rd_pos s' = rd_pos s + n /\
             exists new, rd_log s' = new ++ rd_log s /\ chain (rev new) (rd_pos s) (rd_pos s + n).
Proof.
  induction fuel as [|f IH]; intros n s Hf Hn Hav; [lia|].
  cbn [read_exact]. destruct (N.eqb_spec n 0); [lia|].
  unfold read_call. pose proof (limit_of_bounds (rd_sched s) n Hn) as Hl.
  set (k := N.min (limit_of (rd_sched s) n) (avail s)).
  assert (Hk : 1 <= k <= n) by (unfold k, avail; lia).
  assert (Hlen : nlen (section (rd_img s) (rd_pos s) k) = k) by (apply section_length; lia).
  destruct (section (rd_img s) (rd_pos s) k) as [|b0 br] eqn:Es; [cbn in Hlen; lia|]. rewrite <- Es in *. clear Es b0 br.
  rewrite Hlen.
  set (s1 := mkRd (rd_img s) (rd_pos s + k) (tl (rd_sched s)) ((rd_pos s, k) :: rd_log s)).
  destruct (N.eq_dec (n - k) 0) as [Hz|Hnz].
  - rewrite Hz, read_exact_zero. cbn [bind]. exists s1. rewrite app_nil_r.
    assert (Ek : k = n) by lia. unfold s1. cbn [rd_img rd_pos rd_log]. rewrite Ek.
    split; [reflexivity|]. split; [reflexivity|]. split; [reflexivity|].
    exists [(rd_pos s, n)]. cbn [app rev chain]. repeat split; lia.
  - destruct (IH (n - k) s1) as (s' & Hr & Hi & Hp & new & Hlog & Hch); [lia|lia|cbn [s1 rd_pos rd_img]; lia|].
    rewrite Hr. cbn [bind]. exists s'. cbn [s1 rd_img rd_pos] in *.
    assert (Es : section (rd_img s) (rd_pos s) (k + (n - k)) = section (rd_img s) (rd_pos s) k ++ section (rd_img s) (rd_pos s + k) (n - k))
      by (apply section_split; lia).
    replace (k + (n - k)) with n in Es by lia.
    split; [now rewrite Es|].
    split; [exact Hi|]. split; [lia|].
    exists (new ++ [(rd_pos s, k)]). split; [rewrite Hlog; cbn [s1 rd_log]; now rewrite <- app_assoc|].
    rewrite rev_app_distr. cbn [rev app chain]. split; [reflexivity|].
    replace (rd_pos s + n) with (rd_pos s + k + (n - k)) by lia. exact Hch.
Qed.

Theorem read_exact_eof : forall fuel n s, (N.to_nat n <= fuel)%nat -> 1 <= n -> nlen (rd_img s) < rd_pos s + n ->
  read_exact fuel n s = Err EEof.
Proof.
  induction fuel as [|f IH]; intros n s Hf Hn Hav; [lia|].
  cbn [read_exact]. destruct (N.eqb_spec n 0); [lia|].
  unfold read_call. pose proof (limit_of_bounds (rd_sched s) n Hn) as Hl.
  set (k := N.min (limit_of (rd_sched s) n) (avail s)).
  destruct (N.eq_dec (avail s) 0) as [Ha|Ha].
  - assert (k = 0) as -> by (unfold k; lia). now rewrite section_zero.
  - assert (Hk : 1 <= k /\ k < n /\ rd_pos s + k <= nlen (rd_img s)) by (unfold k, avail in *; lia).
    assert (Hlen : nlen (section (rd_img s) (rd_pos s) k) = k) by (apply section_length; lia).
    destruct (section (rd_img s) (rd_pos s) k) as [|b0 br] eqn:Es; [cbn in Hlen; lia|]. rewrite <- Es in *. clear Es b0 br.
    rewrite Hlen. rewrite IH; [reflexivity|lia|lia|cbn [rd_pos rd_img]; lia].
Qed.

(** C13: two schedules give the same result; C20: a successful read_exact reads exactly [pos, pos+n) *)
Corollary read_exact_schedule_independent fuel n img pos sc1 sc2 lg1 lg2 : (N.to_nat n <= fuel)%nat ->
  match read_exact fuel n (mkRd img pos sc1 lg1), read_exact fuel n (mkRd img pos sc2 lg2) with
  | Ok (b1, s1), Ok (b2, s2) => b1 = b2 /\ rd_pos s1 = rd_pos s2
  | Err _, Err _ => True
  | _, _ => False
  end.
Proof.
  intros Hf. destruct (N.eq_dec n 0) as [->|Hn].
  - rewrite !read_exact_zero. split; reflexivity.
  - destruct (N.le_gt_cases (pos + n) (nlen img)) as [Hle|Hgt].
    + destruct (read_exact_ok fuel n (mkRd img pos sc1 lg1)) as (s1 & -> & _ & P1 & _); try (cbn; lia).
      destruct (read_exact_ok fuel n (mkRd img pos sc2 lg2)) as (s2 & -> & _ & P2 & _); try (cbn; lia).
      cbn [rd_img rd_pos] in *. split; [reflexivity|lia].
    + rewrite !read_exact_eof by (cbn; lia). exact I.
Qed.

(** * write_all *)
Lemma write_all_step f bs w : bs <> [] ->
  write_all (S f) bs w = (let '(n, w') := write_call bs w in if n =? 0 then Err EIo else write_all f (skipn (N.to_nat n) bs) w').
Proof. destruct bs; [congruence|reflexivity]. Qed.
Theorem write_all_spec : forall fuel bs w, (length bs <= fuel)%nat ->
  exists w', write_all fuel bs w = Ok w' /\ ws_img (wr_st w') = ws_img (ws_write (wr_st w) bs) /\
             ws_pos (wr_st w') = ws_pos (wr_st w) + nlen bs.
Proof.
  induction fuel as [|f IH]; intros bs w Hf.
  - destruct bs; [|cbn in Hf; lia]. exists w. repeat split; cbn; unfold nlen; cbn; lia.
  - destruct (list_eq_dec N.eq_dec bs []) as [->|Hne]; [exists w; repeat split; cbn; unfold nlen; cbn; lia|].
    assert (Hn : 1 <= nlen bs) by (destruct bs; [congruence|unfold nlen; cbn [length]; lia]).
    rewrite write_all_step by assumption. unfold write_call.
    pose proof (limit_of_bounds (wr_sched w) (nlen bs) Hn) as Hl.
    set (k := N.min (limit_of (wr_sched w) (nlen bs)) (nlen bs)).
    assert (Hk : 1 <= k <= nlen bs) by (unfold k; lia).
    destruct (N.eqb_spec k 0); [lia|].
    set (w1 := mkWr (ws_write (wr_st w) (firstn (N.to_nat k) bs)) (tl (wr_sched w))).
    destruct (IH (skipn (N.to_nat k) bs) w1) as (w' & Hr & Hi & Hp).
    { rewrite skipn_length. unfold nlen in Hk. lia. }
    exists w'. split; [exact Hr|]. cbn [w1 wr_st] in *.
    assert (Lf : nlen (firstn (N.to_nat k) bs) = k) by (unfold nlen in *; rewrite firstn_length; lia).
    split.
    + rewrite Hi. rewrite <- (firstn_skipn (N.to_nat k) bs) at 3.
      unfold ws_write. now rewrite ws_write_gen_app_img.
    + rewrite Hp, ws_write_pos, Lf. unfold nlen in *. rewrite skipn_length. lia.
Qed.

(** * byte-wise reads (varints): a 1-byte read is not affected by the schedule at all *)
Theorem read_byte_schedule_independent img pos sc1 sc2 lg1 lg2 :
  fst (read_call 1 (mkRd img pos sc1 lg1)) = fst (read_call 1 (mkRd img pos sc2 lg2)) /\
  rd_pos (snd (read_call 1 (mkRd img pos sc1 lg1))) = rd_pos (snd (read_call 1 (mkRd img pos sc2 lg2))).
Proof.
  unfold read_call. cbn [rd_sched rd_img rd_pos fst snd].
  assert (E : forall sc, limit_of sc 1 = 1) by (intros sc; pose proof (limit_of_bounds sc 1); lia).
  rewrite !E. split; reflexivity.
Qed.

(** * read_to_end through take(limit): everything up to the limit, whatever the schedule *)
Theorem read_to_end_spec : forall fuel buf limit s, 1 <= buf ->
  (N.to_nat (N.min limit (avail s)) < fuel)%nat ->
  exists s', read_to_end fuel buf limit s = Ok (section (rd_img s) (rd_pos s) (N.min limit (avail s)), s') /\
             rd_pos s' = rd_pos s + N.min limit (avail s) /\ rd_img s' = rd_img s.
Proof.
  induction fuel as [|f IH]; intros buf limit s Hb Hf; [lia|].
  cbn [read_to_end]. unfold read_call.
  set (m := N.min limit (avail s)) in *.
  set (k := N.min (limit_of (rd_sched s) (N.min buf limit)) (avail s)).
  destruct (N.eq_dec m 0) as [Hm|Hm].
  - assert (Ek : k = 0) by (unfold k, m, limit_of in *; destruct (rd_sched s); lia). rewrite Ek.
    rewrite section_zero, Hm, section_zero. eexists. split; [reflexivity|]. cbn. split; [lia|reflexivity].
  - assert (Hbl : 1 <= N.min buf limit) by (unfold m in Hm; lia).
    pose proof (limit_of_bounds (rd_sched s) (N.min buf limit) Hbl) as Hl.
    assert (Hk : 1 <= k <= m) by (unfold k, m in *; lia).
    assert (Hav : rd_pos s + m <= nlen (rd_img s)) by (unfold m, avail in *; lia).
    assert (Hlen : nlen (section (rd_img s) (rd_pos s) k) = k) by (apply section_length; lia).
    destruct (section (rd_img s) (rd_pos s) k) as [|b0 br] eqn:Es; [cbn in Hlen; lia|]. rewrite <- Es in *. clear Es b0 br.
    rewrite Hlen.
    set (s1 := mkRd (rd_img s) (rd_pos s + k) (tl (rd_sched s)) ((rd_pos s, k) :: rd_log s)).
    assert (Em : N.min (limit - k) (avail s1) = m - k).
    { unfold s1, avail. cbn [rd_img rd_pos]. rewrite N.sub_add_distr. fold (avail s). unfold m in *. lia. }
    destruct (IH buf (limit - k) s1 Hb) as (s' & Hr & Hp & Hi); [rewrite Em; lia|].
    rewrite Hr. cbn [bind]. exists s'. rewrite Em in *. cbn [s1 rd_img rd_pos] in *.
    assert (Es : section (rd_img s) (rd_pos s) (k + (m - k)) = section (rd_img s) (rd_pos s) k ++ section (rd_img s) (rd_pos s + k) (m - k))
      by (apply section_split; lia).
    replace (k + (m - k)) with m in Es by lia.
    split; [now rewrite Es|]. split; [lia|exact Hi].
Qed.
