
(** val negb : bool -> bool **)

let negb = function
| true -> false
| false -> true

type nat =
| O
| S of nat

(** val fst : ('a1 * 'a2) -> 'a1 **)

let fst = function
| (x, _) -> x

(** val snd : ('a1 * 'a2) -> 'a2 **)

let snd = function
| (_, y) -> y

(** val length : 'a1 list -> nat **)

let rec length = function
| [] -> O
| _ :: l' -> S (length l')

(** val app : 'a1 list -> 'a1 list -> 'a1 list **)

let rec app l m =
  match l with
  | [] -> m
  | a :: l1 -> a :: (app l1 m)

type comparison =
| Eq
| Lt
| Gt

type positive =
| XI of positive
| XO of positive
| XH

type n =
| N0
| Npos of positive

module Pos =
 struct
  type mask =
  | IsNul
  | IsPos of positive
  | IsNeg
 end

module Coq_Pos =
 struct
  (** val succ : positive -> positive **)

  let rec succ = function
  | XI p -> XO (succ p)
  | XO p -> XI p
  | XH -> XO XH

  (** val add : positive -> positive -> positive **)

  let rec add x y =
    match x with
    | XI p ->
      (match y with
       | XI q -> XO (add_carry p q)
       | XO q -> XI (add p q)
       | XH -> XO (succ p))
    | XO p ->
      (match y with
       | XI q -> XI (add p q)
       | XO q -> XO (add p q)
       | XH -> XI p)
    | XH -> (match y with
             | XI q -> XO (succ q)
             | XO q -> XI q
             | XH -> XO XH)

  (** val add_carry : positive -> positive -> positive **)

  and add_carry x y =
    match x with
    | XI p ->
      (match y with
       | XI q -> XI (add_carry p q)
       | XO q -> XO (add_carry p q)
       | XH -> XI (succ p))
    | XO p ->
      (match y with
       | XI q -> XO (add_carry p q)
       | XO q -> XI (add p q)
       | XH -> XO (succ p))
    | XH ->
      (match y with
       | XI q -> XI (succ q)
       | XO q -> XO (succ q)
       | XH -> XI XH)

  (** val pred_double : positive -> positive **)

  let rec pred_double = function
  | XI p -> XI (XO p)
  | XO p -> XI (pred_double p)
  | XH -> XH

  type mask = Pos.mask =
  | IsNul
  | IsPos of positive
  | IsNeg

  (** val succ_double_mask : mask -> mask **)

  let succ_double_mask = function
  | IsNul -> IsPos XH
  | IsPos p -> IsPos (XI p)
  | IsNeg -> IsNeg

  (** val double_mask : mask -> mask **)

  let double_mask = function
  | IsPos p -> IsPos (XO p)
  | x0 -> x0

  (** val double_pred_mask : positive -> mask **)

  let double_pred_mask = function
  | XI p -> IsPos (XO (XO p))
  | XO p -> IsPos (XO (pred_double p))
  | XH -> IsNul

  (** val sub_mask : positive -> positive -> mask **)

  let rec sub_mask x y =
    match x with
    | XI p ->
      (match y with
       | XI q -> double_mask (sub_mask p q)
       | XO q -> succ_double_mask (sub_mask p q)
       | XH -> IsPos (XO p))
    | XO p ->
      (match y with
       | XI q -> succ_double_mask (sub_mask_carry p q)
       | XO q -> double_mask (sub_mask p q)
       | XH -> IsPos (pred_double p))
    | XH -> (match y with
             | XH -> IsNul
             | _ -> IsNeg)

  (** val sub_mask_carry : positive -> positive -> mask **)

  and sub_mask_carry x y =
    match x with
    | XI p ->
      (match y with
       | XI q -> succ_double_mask (sub_mask_carry p q)
       | XO q -> double_mask (sub_mask p q)
       | XH -> IsPos (pred_double p))
    | XO p ->
      (match y with
       | XI q -> double_mask (sub_mask_carry p q)
       | XO q -> succ_double_mask (sub_mask_carry p q)
       | XH -> double_pred_mask p)
    | XH -> IsNeg

  (** val mul : positive -> positive -> positive **)

  let rec mul x y =
    match x with
    | XI p -> add y (XO (mul p y))
    | XO p -> XO (mul p y)
    | XH -> y

  (** val iter : ('a1 -> 'a1) -> 'a1 -> positive -> 'a1 **)

  let rec iter f x = function
  | XI n' -> f (iter f (iter f x n') n')
  | XO n' -> iter f (iter f x n') n'
  | XH -> f x

  (** val pow : positive -> positive -> positive **)

  let pow x =
    iter (mul x) XH

  (** val compare_cont : comparison -> positive -> positive -> comparison **)

  let rec compare_cont r x y =
    match x with
    | XI p ->
      (match y with
       | XI q -> compare_cont r p q
       | XO q -> compare_cont Gt p q
       | XH -> Gt)
    | XO p ->
      (match y with
       | XI q -> compare_cont Lt p q
       | XO q -> compare_cont r p q
       | XH -> Gt)
    | XH -> (match y with
             | XH -> r
             | _ -> Lt)

  (** val compare : positive -> positive -> comparison **)

  let compare =
    compare_cont Eq

  (** val eqb : positive -> positive -> bool **)

  let rec eqb p q =
    match p with
    | XI p0 -> (match q with
                | XI q0 -> eqb p0 q0
                | _ -> false)
    | XO p0 -> (match q with
                | XO q0 -> eqb p0 q0
                | _ -> false)
    | XH -> (match q with
             | XH -> true
             | _ -> false)

  (** val of_succ_nat : nat -> positive **)

  let rec of_succ_nat = function
  | O -> XH
  | S x -> succ (of_succ_nat x)
 end

module N =
 struct
  (** val succ_double : n -> n **)

  let succ_double = function
  | N0 -> Npos XH
  | Npos p -> Npos (XI p)

  (** val double : n -> n **)

  let double = function
  | N0 -> N0
  | Npos p -> Npos (XO p)

  (** val add : n -> n -> n **)

  let add n0 m =
    match n0 with
    | N0 -> m
    | Npos p -> (match m with
                 | N0 -> n0
                 | Npos q -> Npos (Coq_Pos.add p q))

  (** val sub : n -> n -> n **)

  let sub n0 m =
    match n0 with
    | N0 -> N0
    | Npos n' ->
      (match m with
       | N0 -> n0
       | Npos m' ->
         (match Coq_Pos.sub_mask n' m' with
          | Coq_Pos.IsPos p -> Npos p
          | _ -> N0))

  (** val mul : n -> n -> n **)

  let mul n0 m =
    match n0 with
    | N0 -> N0
    | Npos p -> (match m with
                 | N0 -> N0
                 | Npos q -> Npos (Coq_Pos.mul p q))

  (** val compare : n -> n -> comparison **)

  let compare n0 m =
    match n0 with
    | N0 -> (match m with
             | N0 -> Eq
             | Npos _ -> Lt)
    | Npos n' -> (match m with
                  | N0 -> Gt
                  | Npos m' -> Coq_Pos.compare n' m')

  (** val eqb : n -> n -> bool **)

  let eqb n0 m =
    match n0 with
    | N0 -> (match m with
             | N0 -> true
             | Npos _ -> false)
    | Npos p -> (match m with
                 | N0 -> false
                 | Npos q -> Coq_Pos.eqb p q)

  (** val leb : n -> n -> bool **)

  let leb x y =
    match compare x y with
    | Gt -> false
    | _ -> true

  (** val ltb : n -> n -> bool **)

  let ltb x y =
    match compare x y with
    | Lt -> true
    | _ -> false

  (** val pow : n -> n -> n **)

  let pow n0 = function
  | N0 -> Npos XH
  | Npos p0 -> (match n0 with
                | N0 -> N0
                | Npos q -> Npos (Coq_Pos.pow q p0))

  (** val pos_div_eucl : positive -> n -> n * n **)

  let rec pos_div_eucl a b =
    match a with
    | XI a' ->
      let (q, r) = pos_div_eucl a' b in
      let r' = succ_double r in
      if leb b r' then ((succ_double q), (sub r' b)) else ((double q), r')
    | XO a' ->
      let (q, r) = pos_div_eucl a' b in
      let r' = double r in
      if leb b r' then ((succ_double q), (sub r' b)) else ((double q), r')
    | XH ->
      (match b with
       | N0 -> (N0, (Npos XH))
       | Npos p -> (match p with
                    | XH -> ((Npos XH), N0)
                    | _ -> (N0, (Npos XH))))

  (** val div_eucl : n -> n -> n * n **)

  let div_eucl a b =
    match a with
    | N0 -> (N0, N0)
    | Npos na -> (match b with
                  | N0 -> (N0, a)
                  | Npos _ -> pos_div_eucl na b)

  (** val div : n -> n -> n **)

  let div a b =
    fst (div_eucl a b)

  (** val modulo : n -> n -> n **)

  let modulo a b =
    snd (div_eucl a b)

  (** val of_nat : nat -> n **)

  let of_nat = function
  | O -> N0
  | S n' -> Npos (Coq_Pos.of_succ_nat n')
 end

(** val concat : 'a1 list list -> 'a1 list **)

let rec concat = function
| [] -> []
| x :: l0 -> app x (concat l0)

(** val map : ('a1 -> 'a2) -> 'a1 list -> 'a2 list **)

let rec map f = function
| [] -> []
| a :: t -> (f a) :: (map f t)

(** val forallb : ('a1 -> bool) -> 'a1 list -> bool **)

let rec forallb f = function
| [] -> true
| a :: l0 -> (&&) (f a) (forallb f l0)

type bytes = n list

type err =
| EEof
| EInvalid
| EOther
| ECodec
| EJson
| EInput
| EMaxZ
| EIo

type crash =
| Overflow
| CapacityOverflow
| OutOfFuel
| IndexOob
| OracleMiss

type 'a outcome =
| Ok of 'a
| Err of err
| Crash of crash

(** val bind : 'a1 outcome -> ('a1 -> 'a2 outcome) -> 'a2 outcome **)

let bind m f =
  match m with
  | Ok a -> f a
  | Err e -> Err e
  | Crash c -> Crash c

(** val two64 : n **)

let two64 =
  Npos (XO (XO (XO (XO (XO (XO (XO (XO (XO (XO (XO (XO (XO (XO (XO (XO (XO
    (XO (XO (XO (XO (XO (XO (XO (XO (XO (XO (XO (XO (XO (XO (XO (XO (XO (XO
    (XO (XO (XO (XO (XO (XO (XO (XO (XO (XO (XO (XO (XO (XO (XO (XO (XO (XO
    (XO (XO (XO (XO (XO (XO (XO (XO (XO (XO (XO
    XH))))))))))))))))))))))))))))))))))))))))))))))))))))))))))))))))

(** val two32 : n **)

let two32 =
  Npos (XO (XO (XO (XO (XO (XO (XO (XO (XO (XO (XO (XO (XO (XO (XO (XO (XO
    (XO (XO (XO (XO (XO (XO (XO (XO (XO (XO (XO (XO (XO (XO (XO
    XH))))))))))))))))))))))))))))))))

(** val add64 : n -> n -> n outcome **)

let add64 a b =
  if N.ltb (N.add a b) two64 then Ok (N.add a b) else Crash Overflow

(** val sub64 : n -> n -> n outcome **)

let sub64 a b =
  if N.leb b a then Ok (N.sub a b) else Crash Overflow

(** val cadd64 : n -> n -> n outcome **)

let cadd64 a b =
  if N.ltb (N.add a b) two64 then Ok (N.add a b) else Err EInvalid

(** val csub64 : n -> n -> n outcome **)

let csub64 a b =
  if N.leb b a then Ok (N.sub a b) else Err EInvalid

(** val nlen : 'a1 list -> n **)

let nlen l =
  N.of_nat (length l)

(** val enc : nat -> n -> bytes **)

let rec enc fuel n0 =
  match fuel with
  | O -> []
  | S f ->
    if N.ltb n0 (Npos (XO (XO (XO (XO (XO (XO (XO XH))))))))
    then n0 :: []
    else (N.add (Npos (XO (XO (XO (XO (XO (XO (XO XH))))))))
           (N.modulo n0 (Npos (XO (XO (XO (XO (XO (XO (XO XH)))))))))) :: 
           (enc f (N.div n0 (Npos (XO (XO (XO (XO (XO (XO (XO XH))))))))))

(** val write_varint : n -> bytes **)

let write_varint n0 =
  enc (S (S (S (S (S (S (S (S (S (S O)))))))))) n0

(** val dec : nat -> bytes -> n -> n -> (n * bytes) outcome **)

let rec dec fuel bs sh acc =
  match fuel with
  | O -> (match bs with
          | [] -> Err EEof
          | _ :: _ -> Err EInvalid)
  | S f ->
    (match bs with
     | [] -> Err EEof
     | b :: r ->
       let acc' =
         N.add acc
           (N.modulo
             (N.mul (N.modulo b (Npos (XO (XO (XO (XO (XO (XO (XO XH)))))))))
               (N.pow (Npos (XO XH)) sh)) two64)
       in
       if N.ltb b (Npos (XO (XO (XO (XO (XO (XO (XO XH))))))))
       then Ok (acc', r)
       else dec f r (N.add sh (Npos (XI (XI XH)))) acc')

(** val read_varint64 : bytes -> (n * bytes) outcome **)

let read_varint64 bs =
  dec (S (S (S (S (S (S (S (S (S (S O)))))))))) bs N0 N0

(** val read_varint32 : bytes -> (n * bytes) outcome **)

let read_varint32 bs =
  bind (dec (S (S (S (S (S O))))) bs N0 N0) (fun pat ->
    let (v, r) = pat in Ok ((N.modulo v two32), r))

type entry = { e_id : n; e_off : n; e_len : n; e_run : n }

(** val read_n :
    (bytes -> (n * bytes) outcome) -> nat -> n -> bytes -> (n list * bytes)
    outcome **)

let rec read_n rd fuel n0 bs =
  if N.eqb n0 N0
  then Ok ([], bs)
  else (match fuel with
        | O -> Err EEof
        | S f ->
          bind (rd bs) (fun pat ->
            let (v, r) = pat in
            bind (read_n rd f (N.sub n0 (Npos XH)) r) (fun pat0 ->
              let (vs, r') = pat0 in Ok ((v :: vs), r'))))

(** val sum_ids : n -> n list -> n list outcome **)

let rec sum_ids last = function
| [] -> Ok []
| d :: r ->
  bind (cadd64 last d) (fun id ->
    bind (sum_ids id r) (fun ids -> Ok (id :: ids)))

(** val check_runs : n list -> n list -> unit outcome **)

let rec check_runs ids runs =
  match ids with
  | [] -> Ok ()
  | id :: ir ->
    (match runs with
     | [] -> Ok ()
     | rn :: rr -> bind (cadd64 id rn) (fun _ -> check_runs ir rr))

(** val check_lens : n list -> unit outcome **)

let rec check_lens = function
| [] -> Ok ()
| l :: r -> if N.eqb l N0 then Err EInvalid else check_lens r

(** val rebuild_offsets :
    bool -> n -> n -> n list -> n list -> n list outcome **)

let rec rebuild_offsets first prev_off prev_len vals lens =
  match vals with
  | [] -> Ok []
  | v :: vr ->
    (match lens with
     | [] -> Ok []
     | l :: lr ->
       bind
         (if (&&) (negb first) (N.eqb v N0)
          then cadd64 prev_off prev_len
          else csub64 v (Npos XH)) (fun off ->
         bind (rebuild_offsets false off l vr lr) (fun offs -> Ok
           (off :: offs))))

(** val zip4 : n list -> n list -> n list -> n list -> entry list **)

let rec zip4 ids offs lens runs =
  match ids with
  | [] -> []
  | i :: ir ->
    (match offs with
     | [] -> []
     | o :: or0 ->
       (match lens with
        | [] -> []
        | l :: lr ->
          (match runs with
           | [] -> []
           | r :: rr ->
             { e_id = i; e_off = o; e_len = l; e_run =
               r } :: (zip4 ir or0 lr rr))))

(** val decode_dir_plain : bytes -> entry list outcome **)

let decode_dir_plain bs =
  bind (read_varint64 bs) (fun pat ->
    let (n0, r0) = pat in
    bind (read_n read_varint64 (length r0) n0 r0) (fun pat0 ->
      let (deltas, r1) = pat0 in
      bind (sum_ids N0 deltas) (fun ids ->
        bind (read_n read_varint32 (length r1) n0 r1) (fun pat1 ->
          let (runs, r2) = pat1 in
          bind (check_runs ids runs) (fun _ ->
            bind (read_n read_varint32 (length r2) n0 r2) (fun pat2 ->
              let (lens, r3) = pat2 in
              bind (check_lens lens) (fun _ ->
                bind (read_n read_varint64 (length r3) n0 r3) (fun pat3 ->
                  let (vals, _) = pat3 in
                  bind (rebuild_offsets true N0 N0 vals lens) (fun offs -> Ok
                    (zip4 ids offs lens runs))))))))))

(** val enc_ids : n -> entry list -> bytes outcome **)

let rec enc_ids last = function
| [] -> Ok []
| e :: r ->
  bind (sub64 e.e_id last) (fun d ->
    bind (enc_ids e.e_id r) (fun rest -> Ok (app (write_varint d) rest)))

(** val enc_runs : entry list -> bytes **)

let rec enc_runs = function
| [] -> []
| e :: r -> app (write_varint e.e_run) (enc_runs r)

(** val enc_lens : entry list -> bytes outcome **)

let rec enc_lens = function
| [] -> Ok []
| e :: r ->
  if N.eqb e.e_len N0
  then Err EInvalid
  else bind (enc_lens r) (fun rest -> Ok (app (write_varint e.e_len) rest))

(** val enc_offs : bool -> n -> entry list -> bytes outcome **)

let rec enc_offs first next_byte = function
| [] -> Ok []
| e :: r ->
  bind
    (if (&&) (negb first) (N.eqb e.e_off next_byte)
     then Ok N0
     else add64 e.e_off (Npos XH)) (fun v ->
    bind (add64 e.e_off e.e_len) (fun nb ->
      bind (enc_offs false nb r) (fun rest -> Ok (app (write_varint v) rest))))

(** val encode_dir_plain : entry list -> bytes outcome **)

let encode_dir_plain es =
  bind (enc_ids N0 es) (fun ids ->
    bind (enc_lens es) (fun lens ->
      bind (enc_offs true N0 es) (fun offs -> Ok
        (app (write_varint (nlen es))
          (app ids (app (enc_runs es) (app lens offs)))))))

(** val spec_deltas : n -> n list -> n list **)

let rec spec_deltas last = function
| [] -> []
| i :: r -> (N.sub i last) :: (spec_deltas i r)

(** val spec_offsets : entry option -> entry list -> n list **)

let rec spec_offsets prev = function
| [] -> []
| e :: r ->
  (match prev with
   | Some p ->
     if N.eqb e.e_off (N.add p.e_off p.e_len)
     then N0
     else N.add e.e_off (Npos XH)
   | None -> N.add e.e_off (Npos XH)) :: (spec_offsets (Some e) r)

(** val varints : n list -> bytes **)

let varints l =
  concat (map write_varint l)

(** val spec_encode_dir : entry list -> bytes **)

let spec_encode_dir es =
  app (write_varint (nlen es))
    (app (varints (spec_deltas N0 (map (fun e -> e.e_id) es)))
      (app (varints (map (fun e -> e.e_run) es))
        (app (varints (map (fun e -> e.e_len) es))
          (varints (spec_offsets None es)))))

(** val entry_okb : entry -> bool **)

let entry_okb e =
  (&&)
    ((&&)
      ((&&)
        ((&&)
          ((&&) (N.ltb (N.add e.e_id e.e_run) two64)
            (N.leb (Npos XH) e.e_len)) (N.ltb e.e_len two32))
        (N.ltb e.e_run two32)) (N.ltb (N.add e.e_off e.e_len) two64))
    (N.ltb (N.add e.e_off (Npos XH)) two64)

(** val ascendingb : entry option -> entry list -> bool **)

let rec ascendingb last = function
| [] -> true
| e :: r ->
  (&&)
    (match last with
     | Some p ->
       (&&) (N.ltb p.e_id e.e_id) (N.leb (N.add p.e_id p.e_run) e.e_id)
     | None -> true) (ascendingb (Some e) r)

(** val valid_dirb : entry list -> bool **)

let valid_dirb es =
  (&&) (forallb entry_okb es) (ascendingb None es)

(** val find_entry : entry list -> n -> entry option outcome **)

let rec find_entry es id =
  match es with
  | [] -> Ok None
  | e :: r ->
    if N.eqb e.e_run N0
    then find_entry r id
    else bind (add64 e.e_id e.e_run) (fun hi ->
           if (&&) (N.leb e.e_id id) (N.ltb id hi)
           then Ok (Some e)
           else find_entry r id)
