(** C01 / C02: what [to_bytes] lays out and what [from_reader] makes of it. *)
Require Import PM.Base PM.Varint PM.Oracles PM.Params PM.Float PM.FloatProofs PM.Header PM.HeaderProofs PM.Directory PM.DirectoryProofs
               PM.Stream PM.StreamProofs PM.IO PM.IOProofs PM.TileManager PM.TileManagerProofs PM.DirWriter PM.SpillSpec PM.SpillProofs
               PM.DirReader PM.LookupProofs PM.FilterProofs PM.Hilbert PM.Archive PM.OpenFilterProofs
               PM.FinishSpec PM.FinishProofs PM.PlaceProofs PM.ReadBackProofs.
From Coq Require Import ZifyN ZifyBool ZifyNat.
Open Scope N_scope.

(** * stream lemmas for building an image from the front *)
Lemma write_at_end img bs : write_at img (nlen img) bs = img ++ bs.
Proof.
  unfold write_at, nlen. rewrite Nat2N.id. unfold pad_to. rewrite Nat.sub_diag. cbn [repeat]. rewrite app_nil_r, firstn_all.
  rewrite skipn_all2 by lia. now rewrite app_nil_r.
Qed.
Lemma write_at_fresh pos bs : write_at [] pos bs = repeat 0 (N.to_nat pos) ++ bs.
Proof.
  unfold write_at, pad_to. cbn [app length]. rewrite Nat.sub_0_r, skipn_nil, app_nil_r.
  rewrite firstn_all2 by (rewrite repeat_length; lia). reflexivity.
Qed.
Lemma write_at_front (z rest hb : bytes) : length hb = length z -> write_at (z ++ rest) 0 hb = hb ++ rest.
Proof.
  intros H. unfold write_at. change (N.to_nat 0) with 0%nat. cbn [firstn app Nat.add]. rewrite H.
  now rewrite (skipn_exact z rest _ eq_refl).
Qed.
Lemma ws_write_at_end st bs : ws_pos st = nlen (ws_img st) -> ws_img (ws_write st bs) = ws_img st ++ bs.
Proof.
  intros H. unfold ws_write, ws_write_gen. destruct bs; [now rewrite app_nil_r|]. cbn [ws_img]. rewrite H. apply write_at_end.
Qed.

Section WithCtx.
  Context (cx : ctx).

  Lemma write_directories_fits asy c es ss st root : encode_dir cx asy c es = Ok root -> nlen root <= max_root_dir_length ->
    exists st', write_directories cx asy c es ss st = Ok (st', []) /\
      ws_img st' = ws_img (ws_write st root) /\ ws_pos st' = ws_pos st + nlen root.
  Proof.
    intros He Hfit. unfold write_directories, ws_tell.
    destruct (write_dir_ok cx asy c es (ws_log_ev st EvPos) root He) as (st1 & Hw & Hi & Hp).
    rewrite Hw. cbn [bind ws_log_ev ws_pos]. cbn [ws_log_ev ws_pos] in Hp. rewrite Hp.
    unfold sub64. destruct (N.leb_spec (ws_pos st) (ws_pos st + nlen root)); [|lia]. cbn [bind].
    replace (ws_pos st + nlen root - ws_pos st) with (nlen root) by lia.
    destruct (N.leb_spec (nlen root) max_root_dir_length); [|lia].
    eexists. split; [reflexivity|]. cbn [ws_log_ev ws_img ws_pos]. split; [|exact Hp].
    rewrite Hi. unfold ws_write, ws_write_gen. destruct root; reflexivity.
  Qed.

  (** an image being built behind a 127-byte hole: nothing yet, or zeros followed by the content so far *)
  Definition building (st : wstream) (X : bytes) : Prop :=
    ws_pos st = 127 + nlen X /\ ((ws_img st = [] /\ X = []) \/ ws_img st = repeat 0 127 ++ X).
  Lemma building_write st X bs : building st X -> building (ws_write st bs) (X ++ bs).
  Proof.
    intros [Hp Hi]. split; [rewrite ws_write_pos, Hp; unfold nlen; rewrite app_length; lia|].
    destruct bs as [|b0 br] eqn:Eb; [rewrite app_nil_r; exact Hi|]. rewrite <- Eb. right.
    destruct Hi as [[Hi ->]|Hi].
    - unfold ws_write, ws_write_gen. rewrite Eb. cbn [ws_img]. rewrite Hi, Hp. cbn [nlen length app]. rewrite N.add_0_r.
      rewrite write_at_fresh. reflexivity.
    - rewrite ws_write_at_end; [rewrite Hi; now rewrite app_assoc|].
      rewrite Hp, Hi. unfold nlen. rewrite app_length, repeat_length. lia.
  Qed.
  Lemma building_same st st' X : ws_img st' = ws_img st -> ws_pos st' = ws_pos st -> building st X -> building st' X.
  Proof. intros Hi Hp [A B]. split; [now rewrite Hp|now rewrite Hi]. Qed.
  Lemma building_header st X hb : building st X -> length hb = 127%nat ->
    ws_img (ws_write (ws_seek st 0) hb) = hb ++ X.
  Proof.
    intros [Hp Hi] Hl. unfold ws_write, ws_write_gen. destruct hb as [|h0 hr] eqn:Eh; [discriminate|]. rewrite <- Eh in *.
    cbn [ws_seek ws_img ws_pos]. destruct Hi as [[Hi ->]|Hi]; rewrite Hi.
    - rewrite write_at_fresh. cbn. now rewrite app_nil_r.
    - apply write_at_front. now rewrite repeat_length.
  Qed.

  (** the archive image when the directory fits the root: header, root directory, metadata, tile data *)
  Theorem to_bytes_fits asy p res root mb :
    finish cx (p_tm p) = Ok res ->
    encode_dir cx asy (p_icomp p) (fr_dir res) = Ok root -> nlen root <= max_root_dir_length ->
    compress cx asy (p_icomp p) (p_meta p) = Ok mb ->
    header_bytes = 127 -> 127 + nlen root + nlen mb + nlen (fr_data res) < two64 ->
    let h := mkH 3 127 (nlen root) (127 + nlen root) (nlen mb) (127 + nlen root + nlen mb) 0
                 (127 + nlen root + nlen mb) (nlen (fr_data res))
                 (fr_addressed res) (fr_entries res) (fr_contents res) true
                 (p_icomp p) (p_tcomp p) (p_ttype p) (p_minz p) (p_maxz p)
                 (p_min_lon p) (p_min_lat p) (p_max_lon p) (p_max_lat p) (p_cz p) (p_clon p) (p_clat p) in
    forall hb, encode_header h = Ok hb ->
    to_bytes cx asy p = Ok (hb ++ root ++ mb ++ fr_data res).
  Proof.
    intros Hf He Hfit Hm Hhb Hsz h hb Hh. unfold to_bytes, to_writer. rewrite Hf. cbn [bind].
    unfold ws_tell at 1. cbn [ws_new ws_log_ev ws_pos].
    unfold cadd64. rewrite Hhb. destruct (N.ltb_spec (0 + 127) two64); [|unfold two64 in *; lia]. cbn [bind].
    set (st1 := ws_seek _ (0 + 127)).
    assert (B1 : building st1 []) by (split; [reflexivity|left; split; reflexivity]).
    destruct (write_directories_fits asy (p_icomp p) (fr_dir res) None st1 root He Hfit) as (st2 & Hw & Hi2 & Hp2).
    rewrite Hw. cbn [bind].
    assert (B2 : building st2 root).
    { apply (building_same (ws_write st1 root)); [exact Hi2|now rewrite Hp2, ws_write_pos|]. apply (building_write st1 [] root B1). }
    unfold ws_tell. cbn [ws_log_ev ws_pos ws_img].
    destruct B2 as [P2 I2]. rewrite P2. unfold sub64, add64.
    destruct (N.leb_spec 0 (127 + nlen root)); [|lia]. cbn [bind]. rewrite N.sub_0_r.
    destruct (N.leb_spec 127 (127 + nlen root)); [|lia]. cbn [bind].
    replace (127 + nlen root - 127) with (nlen root) by lia.
    destruct (N.ltb_spec (127 + nlen root) two64); [|lia]. cbn [bind].
    rewrite Hm. cbn [bind].
    set (st3 := ws_write_codec cx asy (p_icomp p) (ws_log_ev st2 EvPos) (p_meta p) mb).
    assert (B3 : building st3 (root ++ mb)).
    { apply (building_same (ws_write st2 mb)); [unfold st3; rewrite ws_write_codec_img; unfold ws_write, ws_write_gen; destruct mb; reflexivity
                                              |unfold st3; rewrite ws_write_codec_pos, ws_write_pos; reflexivity|].
      apply building_write. split; assumption. }
    destruct B3 as [P3 I3]. rewrite P3. unfold nlen at 1 2. rewrite app_length. fold (nlen root). fold (nlen mb).
    replace (N.of_nat (length root + length mb)) with (nlen root + nlen mb) by (unfold nlen; lia).
    destruct (N.leb_spec 0 (127 + (nlen root + nlen mb))); [|lia]. cbn [bind]. rewrite N.sub_0_r.
    destruct (N.leb_spec (127 + nlen root) (127 + (nlen root + nlen mb))); [|lia]. cbn [bind].
    replace (127 + (nlen root + nlen mb) - (127 + nlen root)) with (nlen mb) by lia.
    destruct (N.ltb_spec (127 + nlen root + nlen mb) two64); [|lia]. cbn [bind].
    (* the (empty) leaf section *)
    change (ws_write (ws_log_ev st3 EvPos) []) with (ws_log_ev st3 EvPos). cbn [ws_log_ev ws_pos ws_img]. rewrite P3.
    replace (nlen (root ++ mb)) with (nlen root + nlen mb) by (unfold nlen; rewrite app_length; lia).
    destruct (N.leb_spec 0 (127 + (nlen root + nlen mb))); [|lia]. cbn [bind]. rewrite N.sub_0_r.
    destruct (N.leb_spec (127 + nlen root + nlen mb) (127 + (nlen root + nlen mb))); [|lia]. cbn [bind].
    replace (127 + (nlen root + nlen mb) - (127 + nlen root + nlen mb)) with 0 by lia.
    destruct (N.ltb_spec (127 + nlen root + nlen mb + 0) two64); [|lia]. cbn [bind].
    rewrite N.add_0_r. fold h. rewrite Hh. cbn [bind].
    destruct (N.ltb_spec (0 + (127 + nlen root + nlen mb)) two64); [|lia]. cbn [bind].
    destruct (N.ltb_spec (0 + (127 + nlen root + nlen mb) + nlen (fr_data res)) two64); [|lia]. cbn [bind].
    f_equal.
    set (st4 := ws_write {| ws_img := ws_img st3; ws_pos := ws_pos st3; ws_log := EvPos :: EvPos :: ws_log st3 |} (fr_data res)).
    assert (B4 : building st4 ((root ++ mb) ++ fr_data res)).
    { apply building_write. split; [exact P3|exact I3]. }
    assert (Himg : forall s0, ws_img (ws_seek (if asy then ws_log_ev (ws_write (ws_seek st4 0) hb) EvFlush else ws_write (ws_seek st4 0) hb) s0)
                              = ws_img (ws_write (ws_seek st4 0) hb)) by (intros; destruct asy; reflexivity).
    rewrite Himg. rewrite (building_header st4 _ hb B4); [now rewrite <- !app_assoc|].
    now apply header_length with h.
  Qed.
End WithCtx.

(** * reading the image back (directory fits the root) *)
Lemma section_whole_mid (a b c : bytes) : section (a ++ b ++ c) (nlen a) (nlen b) = b.
Proof. apply section_app_mid. Qed.
Lemma read_at_inner (a d : bytes) off len : off + len <= nlen d -> 1 <= len ->
  read_at (a ++ d) (nlen a + off) len = Ok (section d off len).
Proof.
  intros H Hl. unfold read_at, section, nlen in *. rewrite app_length.
  destruct (N.leb_spec (N.of_nat (length a) + off + len) (N.of_nat (length a + length d))); [|lia].
  destruct (N.leb_spec (N.of_nat (length d)) off); [lia|].
  replace (N.to_nat (N.of_nat (length a) + off)) with (length a + N.to_nat off)%nat by lia.
  rewrite <- skipn_skipn'. rewrite (skipn_exact a d _ eq_refl).
  replace (N.to_nat (N.min len (N.of_nat (length d) - off))) with (N.to_nat len) by lia. reflexivity.
Qed.

Section ReadBack.
  Context (cx : ctx).
  Hypothesis Hinv : codec_inv cx.

  (** what the reader needs to know about the image [hb ++ root ++ mb ++ data] *)
  Theorem from_reader_fits (hb root mb data : bytes) (h : header) (es : list entry) (meta : bytes) c :
    length hb = 127%nat -> header_bytes = 127 -> max_dir_depth = Some 3 ->
    decode_header (hb ++ root ++ mb ++ data) = Ok (h, root ++ mb ++ data) ->
    h_icomp h = c -> c <> CUnknown ->
    h_root_off h = 127 -> h_root_len h = nlen root -> h_meta_off h = 127 + nlen root -> h_meta_len h = nlen mb ->
    h_leaf_off h = 127 + nlen root + nlen mb -> h_data_off h = 127 + nlen root + nlen mb ->
    mb <> [] -> decompress_all cx c mb = Ok meta -> json_parse cx meta = Ok (Some meta) ->
    decode_dir cx c root = Ok es -> Forall (fun e => e_run e <> 0) es ->
    (* every placement is inside the data section and of positive length *)
    (forall id o l, In (id, o, l) (expand es) -> 1 <= l /\ o + l <= nlen data /\ 127 + nlen root + nlen mb + o < two64) ->
    (forall id o l o' l', In (id, o, l) (expand es) -> In (id, o', l') (expand es) -> o = o' /\ l = l') ->
    exists p', from_reader cx (hb ++ root ++ mb ++ data) full_range = Ok p' /\
      p_meta p' = meta /\ p_ttype p' = h_ttype h /\ p_tcomp p' = h_tcomp h /\ p_icomp p' = c /\
      p_minz p' = h_minz h /\ p_maxz p' = h_maxz h /\ p_cz p' = h_cz h /\
      p_min_lon p' = h_min_lon h /\ p_min_lat p' = h_min_lat h /\ p_max_lon p' = h_max_lon h /\
      p_max_lat p' = h_max_lat h /\ p_clon p' = h_clon h /\ p_clat p' = h_clat h /\
      (forall id o l, In (id, o, l) (expand es) -> get_tile (p_tm p') id = Ok (Some (section data o l))) /\
      (forall id, (forall o l, ~ In (id, o, l) (expand es)) -> get_tile (p_tm p') id = Ok None).
  Proof.
    intros Lh Hhb Hdepth Hd Hc Hcu Ro Rl Mo Ml Lo Do Hmb Hdec Hjson Hdir Hnp Hpl Huniq.
    set (img := hb ++ root ++ mb ++ data) in *.
    assert (Nhb : nlen hb = 127) by (unfold nlen; rewrite Lh; reflexivity).
    assert (Sroot : section img 127 (nlen root) = root) by (rewrite <- Nhb; apply section_app_mid).
    assert (Smeta : section img (127 + nlen root) (nlen mb) = mb).
    { unfold img. replace (hb ++ root ++ mb ++ data) with ((hb ++ root) ++ mb ++ data) by now rewrite <- app_assoc.
      replace (127 + nlen root) with (nlen (hb ++ root)) by (unfold nlen in *; rewrite app_length; lia). apply section_app_mid. }
    unfold from_reader. rewrite Hd. cbn [bind]. rewrite Hc, Ml, Mo, Ro, Rl, Lo, Do.
    assert (Eml : (nlen mb =? 0) = false) by (destruct mb; [congruence|reflexivity]). rewrite Eml.
    unfold read_meta. rewrite Smeta, Hdec. cbn [bind]. rewrite Hjson. cbn [bind].
    unfold read_directories. rewrite Hdepth. cbn [depth_fuel_of]. change (S (N.to_nat 3)) with 4%nat. cbn [read_dir_rec].
    rewrite Sroot, Hdir. cbn [bind].
    rewrite (walk_tiles_only _ (127 + nlen root + nlen mb) es [] Hnp).
    set (t := fold_left (fun a e => expand_run full_range e a) es []). cbn [bind].
    assert (Nt : keys_nodup t).
    { unfold t. clear.
      assert (G : forall (l : list entry) acc, keys_nodup acc -> keys_nodup (fold_left (fun a e => expand_run full_range e a) l acc)).
      { induction l as [|e r IH]; intros acc Ha; [exact Ha|]. cbn [fold_left]. apply IH. now apply expand_run_nodup. }
      apply G. constructor. }
    assert (Tin : forall id o l, In (id, (o, l)) t -> In (id, o, l) (expand es)).
    { intros id o l Hin. pose proof (aget_of_in _ _ _ Nt Hin) as Hg. unfold t in Hg. rewrite fold_expand_aget in Hg. cbn [aget] in Hg.
      destruct (last_cover es id) as [e|] eqn:El; [|discriminate]. injection Hg as <- <-.
      destruct (last_cover_in _ _ _ El) as [He Hr]. apply in_expand. exists e. auto. }
    destruct (register_tiles_ok (127 + nlen root + nlen mb) t (tm_empty (@Some bytes img))) as (s' & Rs).
    { intros id o l Hin. destruct (Hpl id o l (Tin id o l Hin)) as (A & B & C). split; lia. }
    eexists. split; [rewrite Rs; cbn [bind]; reflexivity|]. cbn [p_meta p_ttype p_tcomp p_icomp p_minz p_maxz p_cz p_min_lon p_min_lat p_max_lon p_max_lat p_clon p_clat p_tm].
    repeat (split; [reflexivity|]).
    destruct (register_tiles_spec _ _ _ _ Nt Rs) as (Bk & _ & _ & Tb).
    assert (Dimg : img = (hb ++ root ++ mb) ++ data) by (unfold img; now rewrite <- !app_assoc).
    assert (Npre : nlen (hb ++ root ++ mb) = 127 + nlen root + nlen mb) by (unfold nlen in *; rewrite !app_length; lia).
    split.
    - intros id o l Hin. unfold get_tile. rewrite Tb. unfold t. rewrite fold_expand_aget. cbn [aget].
      destruct (last_cover es id) as [e|] eqn:El.
      + destruct (last_cover_in _ _ _ El) as [He Hr].
        assert (Hin' : In (id, e_off e, e_len e) (expand es)) by (apply in_expand; exists e; auto).
        destruct (Huniq _ _ _ _ _ Hin Hin') as [<- <-].
        cbn [tile_content]. rewrite Bk. cbn [tm_empty backing].
        destruct (Hpl id o l Hin) as (A & B & C). rewrite Dimg, <- Npre, read_at_inner by assumption. reflexivity.
      + exfalso. apply in_expand in Hin. destruct Hin as (e & He & Hr & _). rewrite (last_cover_none _ _ El e He) in Hr. discriminate.
    - intros id Hn. unfold get_tile. rewrite Tb. unfold t. rewrite fold_expand_aget. cbn [aget tm_empty tile_by_id].
      destruct (last_cover es id) as [e|] eqn:El; [|reflexivity].
      destruct (last_cover_in _ _ _ El) as [He Hr]. exfalso. apply (Hn (e_off e) (e_len e)). apply in_expand. exists e. auto.
  Qed.
End ReadBack.

(** * C01: write, then read (directory fits the root) *)
From Coq Require Import Sorting.Sorted.

Lemma pl_of_tiles : forall (tiles : list (N * bytes)) (pl : list (N * N * N)) lo (data : bytes),
  Forall2 (fun t p => fst (fst p) = fst t /\ snd p = nlen (snd t) /\ snd (fst p) + snd p <= nlen data /\
                      section data (snd (fst p)) (snd p) = snd t) tiles pl ->
  StronglySorted (fun a b => fst a < fst b) tiles ->
  Forall (fun t => lo <= fst t /\ fst t < two63 /\ 1 <= nlen (snd t) /\ nlen (snd t) < two32) tiles ->
  nlen data + 1 < two64 ->
  pl_sorted lo pl /\ Forall pl_ok pl /\
  (forall id o l, In (id, o, l) pl -> exists c, In (id, c) tiles /\ l = nlen c /\ o + l <= nlen data /\ section data o l = c) /\
  (forall id c, In (id, c) tiles -> exists o l, In (id, o, l) pl) /\
  (forall id o l o' l', In (id, o, l) pl -> In (id, o', l') pl -> o = o' /\ l = l').
Proof.
  intros tiles pl lo data HF. revert lo. induction HF as [|[id c] [[pid o] l] tr pr Hhd HF IH]; intros lo Hs Hb Hd.
  - split; [exact I|]. split; [constructor|]. split; [intros ? ? ? []|]. split; [intros ? ? []|intros ? ? ? ? ? []].
  - cbn [fst snd] in Hhd. destruct Hhd as (-> & -> & Hle & Hsec).
    inversion Hs as [|? ? Hs' Hall]; subst. inversion Hb as [|? ? Hb0 Hb']; subst. cbn [fst snd] in Hb0.
    assert (Hb'' : Forall (fun t => id + 1 <= fst t /\ fst t < two63 /\ 1 <= nlen (snd t) /\ nlen (snd t) < two32) tr).
    { rewrite Forall_forall in *. intros t Ht. specialize (Hall t Ht). specialize (Hb' t Ht). cbv beta in Hall. cbn [fst] in Hall.
      destruct Hb' as (B1 & B2 & B3 & B4). repeat split; try assumption. unfold bytes in *. lia. }
    destruct (IH (id + 1) Hs' Hb'' Hd) as (A & B & C & D & E).
    assert (Hgt : forall i o0 l0, In (i, o0, l0) pr -> id < i).
    { intros i o0 l0 Hin. destruct (C i o0 l0 Hin) as (c0 & Hc0 & _). rewrite Forall_forall in Hall. apply (Hall (i, c0) Hc0). }
    split; [cbn [pl_sorted]; split; [lia|exact A]|].
    split; [constructor; [cbn [pl_ok]; unfold two64 in *; lia|exact B]|].
    split; [|split].
    + intros i o0 l0 [Ei|Hin]; [injection Ei as <- <- <-; exists c; repeat split; auto; now left|].
      destruct (C i o0 l0 Hin) as (c0 & H1 & H2). exists c0. split; [now right|exact H2].
    + intros i c0 [Ei|Hin]; [injection Ei as <- <-; exists o, (nlen c); now left|].
      destruct (D i c0 Hin) as (o0 & l0 & H1). exists o0, l0. now right.
    + intros i o1 l1 o2 l2 [E1|H1] [E2|H2].
      * injection E1 as <- <- <-. injection E2 as <- <-. split; reflexivity.
      * injection E1 as <- <- <-. specialize (Hgt _ _ _ H2). lia.
      * injection E2 as <- <- <-. specialize (Hgt _ _ _ H1). lia.
      * now apply (E i).
Qed.

Lemma sorted_unique_content (tiles : list (N * bytes)) : StronglySorted (fun a b => fst a < fst b) tiles ->
  forall id c c', In (id, c') tiles -> In (id, c) tiles -> c' = c.
Proof.
  intros Hs. induction Hs as [|[i0 c0] r Hs IH Hall]; intros id c c' H1 H2; [destruct H1|].
  rewrite Forall_forall in Hall. destruct H1 as [E1|H1]; destruct H2 as [E2|H2].
  - congruence.
  - injection E1 as <- <-. specialize (Hall _ H2). cbn in Hall. lia.
  - injection E2 as <- <-. specialize (Hall _ H1). cbn in Hall. lia.
  - now apply (IH id).
Qed.

Lemma first_occ_length : forall l seen, (length (first_occ l seen) <= length l)%nat.
Proof.
  induction l as [|c r IH]; intros seen; [cbn; lia|]. cbn [first_occ length].
  destruct (existsb (beq c) seen); [specialize (IH seen); lia|specialize (IH (c :: seen)); cbn [length]; lia].
Qed.

Section RoundTrip.
  Context (cx : ctx).
  Hypothesis Hinv : codec_inv cx.

  (** Write -> read round trip for archives whose directory fits the root directory.
      [tiles] is the logical content: (id, content) sorted by id. *)
  Theorem roundtrip_fits asy p tiles U root :
    Inv cx (p_tm p) -> logical (p_tm p) = Ok tiles ->
    hash_inj_on cx U -> (forall c, In c U -> nlen c < two32) ->
    Forall (fun t => In (snd t) U /\ fst t < two63 /\ 1 <= nlen (snd t)) tiles -> nlen tiles + 1 < two32 ->
    StronglySorted (fun a b => fst a < fst b) tiles ->
    p_icomp p <> CUnknown -> p_meta p <> [] -> json_parse cx (p_meta p) = Ok (Some (p_meta p)) ->
    (forall b z, b <> [] -> compress cx asy (p_icomp p) b = Ok z -> z <> []) ->
    p_minz p < 256 -> p_maxz p < 256 -> p_cz p < 256 ->
    header_bytes = 127 -> max_dir_depth = Some 3 ->
    encode_dir cx asy (p_icomp p) (fr_dir (spec_finish tiles)) = Ok root -> nlen root <= max_root_dir_length ->
    (forall mb, compress cx asy (p_icomp p) (p_meta p) = Ok mb ->
                127 + nlen root + nlen mb + nlen (fr_data (spec_finish tiles)) + 1 < two64) ->
    exists img p', to_bytes cx asy p = Ok img /\ from_reader cx img full_range = Ok p' /\
      (forall id c, In (id, c) tiles -> get_tile (p_tm p') id = Ok (Some c)) /\
      (forall id, ~ In id (map fst tiles) -> get_tile (p_tm p') id = Ok None) /\
      p_meta p' = p_meta p /\ p_ttype p' = p_ttype p /\ p_tcomp p' = p_tcomp p /\ p_icomp p' = p_icomp p /\
      p_minz p' = p_minz p /\ p_maxz p' = p_maxz p /\ p_cz p' = p_cz p /\
      p_min_lon p' = quantize_coord (p_min_lon p) /\ p_min_lat p' = quantize_coord (p_min_lat p) /\
      p_max_lon p' = quantize_coord (p_max_lon p) /\ p_max_lat p' = quantize_coord (p_max_lat p) /\
      p_clon p' = quantize_coord (p_clon p) /\ p_clat p' = quantize_coord (p_clat p).
  Proof.
    intros HI Hlog Hinj Hsmall Htiles Hcnt Hsorted Hc Hmne Hjson Hcne Z1 Z2 Z3 Hhb Hdepth Hroot Hfit Hsize.
    (* finish *)
    assert (Hfin : finish cx (p_tm p) = Ok (spec_finish tiles)).
    { apply (finish_is_spec cx (p_tm p) tiles U); try assumption.
      eapply Forall_impl; [|exact Htiles]. intros t (A & B & _). split; assumption. }
    set (res := spec_finish tiles) in *.
    (* metadata *)
    assert (exists mb, compress cx asy (p_icomp p) (p_meta p) = Ok mb) as (mb & Hmb)
      by (unfold compress; destruct (p_icomp p); try congruence; eauto).
    specialize (Hsize mb Hmb).
    assert (Hmbne : mb <> []) by (now apply (Hcne (p_meta p) mb)).
    pose proof (compress_decompress cx asy (p_icomp p) (p_meta p) Hinv Hc mb Hmb) as Hdm.
    (* placements *)
    pose proof (place_slices tiles [] 0 [] eq_refl) as Hps. cbv zeta in Hps. cbn [app] in Hps.
    destruct Hps as [_ HF2]; [intros c0 o0 []|].
    assert (Edata : fr_data res = concat (snd (place tiles [] 0))) by (unfold res, spec_finish; destruct (place tiles [] 0); reflexivity).
    assert (Edir : fr_dir res = runs (fst (place tiles [] 0)) None) by (unfold res, spec_finish; destruct (place tiles [] 0); reflexivity).
    set (pl := fst (place tiles [] 0)) in *. set (data := fr_data res) in *. rewrite <- Edata in HF2.
    destruct (pl_of_tiles tiles pl 0 data HF2 Hsorted) as (Hps & Hpok & Hpin & Htin & Huniq).
    { eapply Forall_impl; [|exact Htiles]. intros t (A & B & C). split; [lia|]. split; [exact B|]. split; [exact C|now apply Hsmall]. }
    { unfold bytes in *. lia. }
    (* the directory *)
    assert (Hlen : nlen pl = nlen tiles).
    { unfold nlen. f_equal. clear -HF2. induction HF2; [reflexivity|cbn [length]; now f_equal]. }
    destruct (runs_valid pl None None) as [Hvok Hvasc]; try assumption; try exact I; try reflexivity.
    { cbn [run_of]. lia. }
    assert (Hvd : valid_dir (fr_dir res)) by (rewrite Edir; split; assumption).
    assert (Hnp : Forall (fun e => e_run e <> 0) (fr_dir res)) by (rewrite Edir; apply runs_no_pointers; exact I).
    assert (Hexp : expand (fr_dir res) = pl) by (rewrite Edir, runs_expand by exact I; reflexivity).
    assert (Hnes : nlen (fr_dir res) < two64).
    { assert (length (fr_dir res) <= length (expand (fr_dir res)))%nat.
      { clear -Hnp. induction (fr_dir res) as [|e r IH]; [cbn; lia|]. inversion Hnp; subst. cbn [expand flat_map length].
        rewrite app_length. change (flat_map _ r) with (expand r).
        assert (1 <= length (expand_entry (e_id e) (N.to_nat (e_run e)) (e_off e) (e_len e)))%nat.
        { destruct (N.to_nat (e_run e)) eqn:En; [lia|cbn; lia]. }
        specialize (IH H2). lia. }
      rewrite Hexp in H. unfold nlen, two64, two32 in *. lia. }
    destruct (dir_roundtrip cx asy (p_icomp p) (fr_dir res) Hinv Hc Hvd Hnes) as (root' & Hr' & Hdec).
    rewrite Hroot in Hr'. injection Hr' as <-.
    (* the header *)
    set (h := mkH 3 127 (nlen root) (127 + nlen root) (nlen mb) (127 + nlen root + nlen mb) 0
                 (127 + nlen root + nlen mb) (nlen data)
                 (fr_addressed res) (fr_entries res) (fr_contents res) true
                 (p_icomp p) (p_tcomp p) (p_ttype p) (p_minz p) (p_maxz p)
                 (p_min_lon p) (p_min_lat p) (p_max_lon p) (p_max_lat p) (p_cz p) (p_clon p) (p_clat p)).
    assert (Hcounts : fr_addressed res < two64 /\ fr_entries res < two64 /\ fr_contents res < two64).
    { destruct (spec_finish_data tiles) as (_ & Hco & Had). fold res in Hco, Had. rewrite Had, Hco.
      assert (Hen : fr_entries res = nlen (fr_dir res)) by (unfold res, spec_finish; destruct (place tiles [] 0); reflexivity).
      rewrite Hen.
      pose proof (first_occ_length (map snd tiles) []) as Hfo0. rewrite map_length in Hfo0.
      unfold nlen, two64, two32 in *. repeat split; lia. }
    assert (Hfo : header_fields_ok h).
    { unfold header_fields_ok, h. cbn. unfold two64 in *. repeat split; try lia; try apply Hcounts. }
    destruct (header_dec_enc h (root ++ mb ++ data) Hfo Hhb) as (hb & Hhbe & Lhb & Hhd).
    exists (hb ++ root ++ mb ++ data).
    assert (Hto : to_bytes cx asy p = Ok (hb ++ root ++ mb ++ data)).
    { apply (to_bytes_fits cx asy p res root mb Hfin Hroot Hfit Hmb Hhb); [fold data; lia|exact Hhbe]. }
    destruct (from_reader_fits cx hb root mb data (quantize h) (fr_dir res) (p_meta p) (p_icomp p) Lhb Hhb Hdepth Hhd)
      as (p' & Hfr & Hmeta & Htt & Htc & Hic & Hz1 & Hz2 & Hz3 & C1 & C2 & C3 & C4 & C5 & C6 & Hget & Hnone);
      try reflexivity; try assumption.
    - rewrite Hexp. intros id o l Hin. destruct (Hpin id o l Hin) as (c & Hc0 & -> & Hle & _).
      rewrite Forall_forall in Htiles. destruct (Htiles (id, c) Hc0) as (_ & _ & Hc1). cbn [snd] in Hc1. repeat split; lia.
    - rewrite Hexp. exact Huniq.
    - exists p'. split; [exact Hto|]. split; [exact Hfr|]. split; [|split].
      + intros id c Hin. destruct (Htin id c Hin) as (o & l & Hpl).
        rewrite (Hget id o l) by (rewrite Hexp; exact Hpl).
        destruct (Hpin id o l Hpl) as (c' & Hc' & _ & _ & Hsec).
        (* ids are unique among the tiles *)
        assert (Ecc : c' = c) by (now apply (sorted_unique_content tiles Hsorted id)).
        rewrite Hsec, Ecc. reflexivity.
      + intros id Hn. apply Hnone. rewrite Hexp. intros o l Hin. destruct (Hpin id o l Hin) as (c & Hc0 & _).
        apply Hn. change id with (fst (id, c)). now apply in_map.
      + cbn [quantize h_ttype h_tcomp h_minz h_maxz h_cz h_min_lon h_min_lat h_max_lon h_max_lat h_clon h_clat h] in *.
        repeat split; assumption.
  Qed.
End RoundTrip.

(** * the leaf-spill case: image layout *)
Lemma write_at_mid (a junk bs : bytes) : write_at (a ++ junk) (nlen a) bs = a ++ bs ++ skipn (length bs) junk.
Proof.
  unfold write_at, nlen. rewrite Nat2N.id.
  assert (E : pad_to (length a) (a ++ junk) = a ++ junk).
  { unfold pad_to. rewrite app_length. replace (length a - (length a + length junk))%nat with 0%nat by lia. cbn. apply app_nil_r. }
  rewrite E, (firstn_exact a junk _ eq_refl). f_equal. f_equal.
  rewrite <- skipn_skipn'. now rewrite (skipn_exact a junk _ eq_refl).
Qed.

(** the image behind the 127-byte hole, now allowing stale bytes after the content written so far *)
Definition building' (st : wstream) (X : bytes) : Prop :=
  ws_pos st = 127 + nlen X /\ ((ws_img st = [] /\ X = []) \/ exists junk, ws_img st = repeat 0 127 ++ X ++ junk).

Lemma building'_write st X bs : building' st X -> building' (ws_write st bs) (X ++ bs).
Proof.
  intros [Hp Hi]. split; [rewrite ws_write_pos, Hp; unfold nlen; rewrite app_length; lia|].
  destruct bs as [|b0 br] eqn:Eb; [rewrite app_nil_r; exact Hi|]. rewrite <- Eb. right.
  destruct Hi as [[Hi ->]|(junk & Hi)].
  - exists []. unfold ws_write, ws_write_gen. rewrite Eb. cbn [ws_img]. rewrite Hi, Hp. cbn [nlen length app]. rewrite N.add_0_r.
    rewrite write_at_fresh, app_nil_r. reflexivity.
  - exists (skipn (length bs) junk). unfold ws_write, ws_write_gen. rewrite Eb. rewrite <- Eb. cbn [ws_img].
    rewrite Hi, Hp. replace (repeat 0 127 ++ X ++ junk) with ((repeat 0 127 ++ X) ++ junk) by now rewrite <- app_assoc.
    replace (127 + nlen X) with (nlen (repeat 0 127 ++ X)) by (unfold nlen; rewrite app_length, repeat_length; lia).
    rewrite write_at_mid. now rewrite <- !app_assoc.
Qed.
Lemma building'_same st st' X : ws_img st' = ws_img st -> ws_pos st' = ws_pos st -> building' st X -> building' st' X.
Proof. intros Hi Hp [A B]. split; [now rewrite Hp|now rewrite Hi]. Qed.
(** seeking back to the start of the root directory: what was written becomes stale *)
Lemma building'_reset st X : building' st X -> building' (ws_seek st 127) [].
Proof.
  intros [Hp Hi]. split; [reflexivity|]. cbn [ws_seek ws_img]. destruct Hi as [[Hi ->]|(junk & Hi)]; [left; auto|].
  right. exists (X ++ junk). exact Hi.
Qed.
Lemma building'_header st X hb : building' st X -> length hb = 127%nat ->
  exists junk, ws_img (ws_write (ws_seek st 0) hb) = hb ++ X ++ junk.
Proof.
  intros [Hp Hi] Hl. unfold ws_write, ws_write_gen. destruct hb as [|h0 hr] eqn:Eh; [discriminate|]. rewrite <- Eh in *.
  cbn [ws_seek ws_img ws_pos]. destruct Hi as [[Hi ->]|(junk & Hi)]; rewrite Hi.
  - exists []. rewrite write_at_fresh. cbn [app]. now rewrite app_nil_r.
  - exists junk. apply write_at_front. now rewrite repeat_length.
Qed.

Section SpillLayout.
  Context (cx : ctx).

  Lemma write_dir_building asy c es st X st' n : building' st X -> write_dir cx asy c es st = Ok (st', n) ->
    exists z, encode_dir cx asy c es = Ok z /\ building' st' (X ++ z).
  Proof.
    intros HB H. destruct (write_dir_spec cx asy c es st st' n H) as (z & Hz & _ & Hi & Hp).
    exists z. split; [exact Hz|]. apply (building'_same (ws_write st z)); [exact Hi|now rewrite Hp, ws_write_pos|]. now apply building'_write.
  Qed.

  Lemma leaf_loop_building asy c es : forall fuel ls st X st' ld, building' st X ->
    leaf_loop cx fuel asy c es ls st 127 = Ok (st', ld) ->
    exists (k : nat) blobs ptrs root,
      (1 <= k)%nat /\ leaves_spec cx c (chunks k es) 0 = Ok (blobs, ptrs) /\ ld = concat blobs /\
      encode_dir cx asy c ptrs = Ok root /\ nlen root <= max_root_dir_length /\ building' st' root.
  Proof.
    induction fuel as [|f IH]; intros ls st X st' ld HB H; [discriminate|].
    cbn [leaf_loop] in H. destruct (N.eqb_spec ls 0) as [|Hls]; [discriminate|].
    rewrite build_leaves_spec in H. cbn [rev app] in H.
    set (k := N.to_nat (N.min ls (N.max 1 (nlen es)))) in *.
    destruct (leaves_spec cx c (chunks k es) 0) as [[blobs ptrs]| |] eqn:El; cbn [bind] in H; try discriminate.
    destruct (write_dir cx asy c ptrs (ws_seek st 127)) as [[st2 n]| |] eqn:Ew; cbn [bind] in H; try discriminate.
    destruct (write_dir_building asy c ptrs _ [] _ _ (building'_reset st X HB) Ew) as (root & Hroot & HB2). cbn [app] in HB2.
    unfold ws_tell in H. cbn [ws_log_ev ws_pos] in H. destruct HB2 as [P2 I2]. rewrite P2 in H.
    unfold sub64 in H. destruct (N.leb_spec 127 (127 + nlen root)); [|lia]. cbn [bind] in H.
    replace (127 + nlen root - 127) with (nlen root) in H by lia.
    destruct (N.leb_spec (nlen root) max_root_dir_length) as [Hfit|Hbig].
    - inversion H; subst. exists k, blobs, ptrs, root. repeat split; try assumption; try reflexivity. unfold k. lia.
    - destruct (2 * ls <? two64); [|discriminate].
      eapply (IH _ _ root); [|exact H]. split; [exact P2|exact I2].
  Qed.

  Lemma write_directories_building asy c es st st' ld root0 : building' st [] ->
    encode_dir cx asy c es = Ok root0 -> max_root_dir_length < nlen root0 ->
    write_directories cx asy c es None st = Ok (st', ld) ->
    exists (k : nat) blobs ptrs root,
      (1 <= k)%nat /\ leaves_spec cx c (chunks k es) 0 = Ok (blobs, ptrs) /\ ld = concat blobs /\
      encode_dir cx asy c ptrs = Ok root /\ nlen root <= max_root_dir_length /\ building' st' root.
  Proof.
    intros HB He Hbig H. unfold write_directories, ws_tell in H.
    destruct (write_dir cx asy c es (ws_log_ev st EvPos)) as [[st1 n]| |] eqn:Ew; cbn [bind] in H; try discriminate.
    assert (HB0 : building' (ws_log_ev st EvPos) []) by (destruct HB as [A B]; split; assumption).
    destruct (write_dir_building asy c es _ [] _ _ HB0 Ew) as (z & Hz & HB1). cbn [app] in HB1.
    rewrite He in Hz. injection Hz as <-.
    destruct HB as [P0 _]. cbn [ws_log_ev ws_pos] in H. rewrite P0 in H. destruct HB1 as [P1 I1]. rewrite P1 in H.
    change (127 + nlen []) with 127 in H. unfold sub64 in H.
    destruct (N.leb_spec 127 (127 + nlen root0)); [|lia]. cbn [bind] in H.
    replace (127 + nlen root0 - 127) with (nlen root0) in H by lia.
    destruct (N.leb_spec (nlen root0) max_root_dir_length); [lia|].
    eapply leaf_loop_building; [|exact H]. split; [exact P1|exact I1].
  Qed.
End SpillLayout.

(** * reading back, in general: whatever the directory structure, if [read_directories] yields the expansion of a
      tile-only entry list [es], the opened archive serves exactly those placements out of the data section *)
Lemma section_app_l (d junk : bytes) off len : off + len <= nlen d -> section (d ++ junk) off len = section d off len.
Proof.
  intros H. unfold section, nlen in *. rewrite app_length.
  destruct (N.leb_spec (N.of_nat (length d + length junk)) off) as [A|A]; destruct (N.leb_spec (N.of_nat (length d)) off) as [B|B]; try lia.
  - reflexivity.
  - assert (len = 0) by lia. subst. rewrite N.min_0_l. reflexivity.
  - replace (N.min len (N.of_nat (length d + length junk) - off)) with len by lia.
    replace (N.min len (N.of_nat (length d) - off)) with len by lia.
    rewrite skipn_app, firstn_app. rewrite skipn_length.
    replace (N.to_nat len - (length d - N.to_nat off))%nat with 0%nat by lia. cbn [firstn]. now rewrite app_nil_r.
Qed.

Section ReadBackCore.
  Context (cx : ctx).

  Theorem from_reader_core (img pre data junk mb rest : bytes) (h : header) (es : list entry) (meta : bytes) :
    img = pre ++ data ++ junk -> h_data_off h = nlen pre ->
    decode_header img = Ok (h, rest) ->
    h_meta_len h = nlen mb -> mb <> [] -> section img (h_meta_off h) (h_meta_len h) = mb ->
    decompress_all cx (h_icomp h) mb = Ok meta -> json_parse cx meta = Ok (Some meta) ->
    read_directories cx (h_icomp h) img (h_root_off h) (h_root_len h) (h_leaf_off h) full_range
      = Ok (fold_left (fun a e => expand_run full_range e a) es []) ->
    (forall id o l, In (id, o, l) (expand es) -> 1 <= l /\ o + l <= nlen data /\ nlen pre + o < two64) ->
    (forall id o l o' l', In (id, o, l) (expand es) -> In (id, o', l') (expand es) -> o = o' /\ l = l') ->
    exists p', from_reader cx img full_range = Ok p' /\
      p_meta p' = meta /\ p_ttype p' = h_ttype h /\ p_tcomp p' = h_tcomp h /\ p_icomp p' = h_icomp h /\
      p_minz p' = h_minz h /\ p_maxz p' = h_maxz h /\ p_cz p' = h_cz h /\
      p_min_lon p' = h_min_lon h /\ p_min_lat p' = h_min_lat h /\ p_max_lon p' = h_max_lon h /\
      p_max_lat p' = h_max_lat h /\ p_clon p' = h_clon h /\ p_clat p' = h_clat h /\
      (forall id o l, In (id, o, l) (expand es) -> get_tile (p_tm p') id = Ok (Some (section data o l))) /\
      (forall id, (forall o l, ~ In (id, o, l) (expand es)) -> get_tile (p_tm p') id = Ok None).
  Proof.
    intros Dimg Do Hd Ml Hmb Smeta Hdec Hjson Hrd Hpl Huniq.
    unfold from_reader. rewrite Hd. cbn [bind].
    assert (Eml : (h_meta_len h =? 0) = false) by (rewrite Ml; destruct mb; [congruence|reflexivity]). rewrite Eml.
    unfold read_meta. rewrite Smeta, Hdec. cbn [bind]. rewrite Hjson. cbn [bind].
    rewrite Hrd. cbn [bind].
    set (t := fold_left (fun a e => expand_run full_range e a) es []).
    assert (Nt : keys_nodup t).
    { unfold t. clear.
      assert (G : forall (l : list entry) acc, keys_nodup acc -> keys_nodup (fold_left (fun a e => expand_run full_range e a) l acc)).
      { induction l as [|e r IH]; intros acc Ha; [exact Ha|]. cbn [fold_left]. apply IH. now apply expand_run_nodup. }
      apply G. constructor. }
    assert (Tin : forall id o l, In (id, (o, l)) t -> In (id, o, l) (expand es)).
    { intros id o l Hin. pose proof (aget_of_in _ _ _ Nt Hin) as Hg. unfold t in Hg. rewrite fold_expand_aget in Hg. cbn [aget] in Hg.
      destruct (last_cover es id) as [e|] eqn:El; [|discriminate]. injection Hg as <- <-.
      destruct (last_cover_in _ _ _ El) as [He Hr]. apply in_expand. exists e. auto. }
    rewrite Do.
    destruct (register_tiles_ok (nlen pre) t (tm_empty (@Some bytes img))) as (s' & Rs).
    { intros id o l Hin. destruct (Hpl id o l (Tin id o l Hin)) as (A & B & C). split; lia. }
    eexists. split; [rewrite Rs; cbn [bind]; reflexivity|]. cbn [p_meta p_ttype p_tcomp p_icomp p_minz p_maxz p_cz p_min_lon p_min_lat p_max_lon p_max_lat p_clon p_clat p_tm].
    repeat (split; [reflexivity|]).
    destruct (register_tiles_spec _ _ _ _ Nt Rs) as (Bk & _ & _ & Tb).
    split.
    - intros id o l Hin. unfold get_tile. rewrite Tb. unfold t. rewrite fold_expand_aget. cbn [aget].
      destruct (last_cover es id) as [e|] eqn:El.
      + destruct (last_cover_in _ _ _ El) as [He Hr].
        assert (Hin' : In (id, e_off e, e_len e) (expand es)) by (apply in_expand; exists e; auto).
        destruct (Huniq _ _ _ _ _ Hin Hin') as [<- <-].
        cbn [tile_content]. rewrite Bk. cbn [tm_empty backing].
        destruct (Hpl id o l Hin) as (A & B & C). rewrite Dimg, read_at_inner.
        * now rewrite section_app_l.
        * unfold nlen in *. rewrite app_length. lia.
        * exact A.
      + exfalso. apply in_expand in Hin. destruct Hin as (e & He & Hr & _). rewrite (last_cover_none _ _ El e He) in Hr. discriminate.
    - intros id Hn. unfold get_tile. rewrite Tb. unfold t. rewrite fold_expand_aget. cbn [aget tm_empty tile_by_id].
      destruct (last_cover es id) as [e|] eqn:El; [|reflexivity].
      destruct (last_cover_in _ _ _ El) as [He Hr]. exfalso. apply (Hn (e_off e) (e_len e)). apply in_expand. exists e. auto.
  Qed.
End ReadBackCore.
