(** C19: the documented rejection contracts, proved on the model. *)
Require Import PM.Base PM.Varint PM.Oracles PM.Params PM.Float PM.Header PM.Directory PM.DirectoryProofs PM.Stream
               PM.TileManager PM.DirWriter PM.DirReader PM.Hilbert PM.Archive PM.History.
From Coq Require Import ZifyN ZifyBool ZifyNat.
Open Scope N_scope.

(** ** empty tiles *)
Lemma add_tile_empty cx s id : add_tile cx s id [] = Err EInput.
Proof. reflexivity. Qed.
Lemma step_add_empty cx p id : step cx p (OAdd id []) = (p, RRes (Err EInput)).
Proof. reflexivity. Qed.

(** ** zero-length entries: the serialiser *)
Lemma enc_lens_zero es : (exists e, In e es /\ e_len e = 0) -> enc_lens es = Err EInvalid.
Proof.
  induction es as [|a r IH]; intros (e & Hin & Hz); [destruct Hin|].
  cbn [enc_lens]. destruct (N.eqb_spec (e_len a) 0) as [_|Hnz]; [reflexivity|].
  destruct Hin as [->|Hin]; [contradiction|]. rewrite IH by eauto. reflexivity.
Qed.

Theorem encode_zero_length cx asy c es : ascending None es ->
  (exists e, In e es /\ e_len e = 0) -> exists err, encode_dir cx asy c es = Err err.
Proof.
  intros Ha Hz. unfold encode_dir.
  destruct (compress cx asy c []) as [x|e|k] eqn:Ec; cbn [bind].
  - unfold encode_dir_plain.
    pose proof (enc_ids_spec es None Ha) as Hi. cbn [last_id] in Hi. rewrite Hi. cbn [bind].
    rewrite enc_lens_zero by assumption. cbn [bind]. eauto.
  - eauto.
  - unfold compress in Ec. destruct c; discriminate.
Qed.

(** ** zero-length entries: the parser never delivers one, whatever the bytes *)
Lemma check_lens_ok lens : check_lens lens = Ok tt -> Forall (fun l => 1 <= l) lens.
Proof.
  induction lens as [|l r IH]; intros H; [constructor|]. cbn [check_lens] in H.
  destruct (N.eqb_spec l 0); [discriminate|]. constructor; [lia|auto].
Qed.
Lemma zip4_lens ids offs lens runs : Forall (fun l => 1 <= l) lens ->
  Forall (fun e => 1 <= e_len e) (zip4 ids offs lens runs).
Proof.
  revert offs lens runs. induction ids as [|i ir IH]; intros offs lens runs Hl; [constructor|].
  destruct offs as [|o or]; [constructor|]. destruct lens as [|l lr]; [constructor|]. destruct runs as [|r rr]; [constructor|].
  inversion Hl; subst. cbn [zip4]. constructor; [assumption|auto].
Qed.
Theorem decode_no_zero_length bs es : decode_dir_plain bs = Ok es -> Forall (fun e => 1 <= e_len e) es.
Proof.
  unfold decode_dir_plain. intros H.
  repeat match type of H with
  | bind ?m _ = Ok _ => let E := fresh "E" in destruct m as [?| |] eqn:E; cbn [bind] in H; try discriminate
  | (let '(_, _) := ?p in _) = Ok _ => destruct p
  end.
  injection H as <-. apply zip4_lens. apply check_lens_ok.
  match goal with Hc : check_lens _ = Ok ?u |- _ => destruct u; exact Hc end.
Qed.
Theorem decode_dir_no_zero_length cx c bs es : decode_dir cx c bs = Ok es -> Forall (fun e => 1 <= e_len e) es.
Proof.
  unfold decode_dir. destruct (decompress_lazy cx c bs) as [[plain fl]| |]; cbn [bind]; try discriminate.
  apply decode_no_zero_length.
Qed.

(** ** metadata shape *)
Theorem read_meta_object cx c sec m : read_meta cx c sec = Ok m ->
  exists plain, decompress_all cx c sec = Ok plain /\ json_parse cx plain = Ok (Some m).
Proof.
  unfold read_meta. destruct (decompress_all cx c sec) as [plain| |]; cbn [bind]; try discriminate.
  destruct (json_parse cx plain) as [[m'|]| |] eqn:Ej; cbn [bind]; try discriminate.
  intros H. injection H as <-. exists plain. split; [reflexivity|exact Ej].
Qed.
Theorem read_meta_non_object cx c sec plain : decompress_all cx c sec = Ok plain -> json_parse cx plain = Ok None ->
  read_meta cx c sec = Err EInvalid.
Proof. intros H1 H2. unfold read_meta. rewrite H1. cbn [bind]. rewrite H2. reflexivity. Qed.

(** ** unknown internal compression *)
Lemma write_dir_unknown cx asy es st : write_dir cx asy CUnknown es st = Err EOther.
Proof. reflexivity. Qed.
Lemma write_directories_unknown cx asy es ss st : write_directories cx asy CUnknown es ss st = Err EOther.
Proof. reflexivity. Qed.

Theorem to_writer_unknown cx asy p st res : p_icomp p = CUnknown -> finish cx (p_tm p) = Ok res ->
  ws_pos st + header_bytes < two64 -> to_writer cx asy p st = Err EOther.
Proof.
  intros Hc Hf Hp. unfold to_writer. rewrite Hf. cbn [bind]. unfold ws_tell. cbn [ws_pos ws_log_ev].
  unfold cadd64. destruct (N.ltb_spec (ws_pos st + header_bytes) two64) as [_|]; [|lia]. cbn [bind].
  rewrite Hc. rewrite write_directories_unknown. reflexivity.
Qed.

Lemma decode_dir_unknown cx bs : decode_dir cx CUnknown bs = Err EOther.
Proof. reflexivity. Qed.
Lemma read_dir_rec_unknown cx fuel img o l lo r acc : exists e, read_dir_rec cx fuel CUnknown img o l lo r acc = Err e.
Proof. destruct fuel; cbn [read_dir_rec]; [eauto|]. rewrite decode_dir_unknown. cbn [bind]. eauto. Qed.

Theorem from_reader_unknown cx img r h rest : decode_header img = Ok (h, rest) -> h_icomp h = CUnknown ->
  exists e, from_reader cx img r = Err e.
Proof.
  intros Hd Hc. unfold from_reader. rewrite Hd. cbn [bind]. rewrite Hc.
  destruct (h_meta_len h =? 0).
  - cbn [bind]. unfold read_directories.
    destruct (read_dir_rec_unknown cx (depth_fuel_of max_dir_depth) img (h_root_off h) (h_root_len h) (h_leaf_off h) r []) as [e He].
    rewrite He. cbn [bind]. eauto.
  - unfold read_meta, decompress_all, decompress_lazy. cbn [bind]. eauto.
Qed.
