(** The tile store (src/tile_manager.rs): three maps kept as association lists (their order is
    unconstrained — the Rust maps are randomly seeded hash maps), plus the backing image tiles of an
    opened archive are read from. *)
Require Import PM.Base PM.Oracles PM.Directory.
From Coq Require Import Sorting.Mergesort Orders.
Open Scope N_scope.

(** ** association lists *)
Section Alist.
  Context {V : Type}.
  Fixpoint aget (k : N) (l : list (N * V)) : option V :=
    match l with
    | [] => None
    | (k', v) :: r => if k =? k' then Some v else aget k r
    end.
  Fixpoint aremove (k : N) (l : list (N * V)) : list (N * V) :=
    match l with
    | [] => []
    | (k', v) :: r => if k =? k' then aremove k r else (k', v) :: aremove k r
    end.
  (** HashMap::insert: replace in place or add *)
  Definition aset (k : N) (v : V) (l : list (N * V)) : list (N * V) := (k, v) :: aremove k l.
  Definition akeys (l : list (N * V)) : list N := map fst l.
End Alist.

Inductive tile := THash (h : N) | TOffLen (off len : N).

Record tm := mkTM {
  tile_by_id : list (N * tile);
  data_by_hash : list (N * bytes);
  ids_by_hash : list (N * list N);
  backing : option bytes          (* the opened archive's bytes, if any *)
}.
Definition tm_empty (b : option bytes) : tm := mkTM [] [] [] b.

Definition set_add (x : N) (s : list N) : list N := if existsb (N.eqb x) s then s else x :: s.
Definition set_remove (x : N) (s : list N) : list N := filter (fun y => negb (x =? y)) s.

(** [seek(Start(off)); read_exact(len)] on an in-memory reader *)
Definition read_at (img : bytes) (off len : N) : outcome bytes :=
  if off + len <=? nlen img then Ok (firstn (N.to_nat len) (skipn (N.to_nat off) img)) else Err EEof.

Section WithCtx.
  Context (cx : ctx).

  Definition remove_tile (s : tm) (id : N) : bool * tm :=
    match aget id (tile_by_id s) with
    | None => (false, s)
    | Some (TOffLen _ _) => (true, mkTM (aremove id (tile_by_id s)) (data_by_hash s) (ids_by_hash s) (backing s))
    | Some (THash h) =>
      let ids := set_remove id (match aget h (ids_by_hash s) with Some l => l | None => [] end) in
      match ids with
      | [] => (true, mkTM (aremove id (tile_by_id s)) (aremove h (data_by_hash s)) (aremove h (ids_by_hash s)) (backing s))
      | _ => (true, mkTM (aremove id (tile_by_id s)) (data_by_hash s) (aset h ids (ids_by_hash s)) (backing s))
      end
    end.

  (** [add_tile]: empty content is refused before anything is touched *)
  Definition add_tile (s : tm) (id : N) (data : bytes) : outcome tm :=
    match data with
    | [] => Err EInput
    | _ =>
      let s1 := snd (remove_tile s id) in
      let h := hash cx data in
      let ids := set_add id (match aget h (ids_by_hash s1) with Some l => l | None => [] end) in
      Ok (mkTM (aset id (THash h) (tile_by_id s1)) (aset h data (data_by_hash s1)) (aset h ids (ids_by_hash s1)) (backing s1))
    end.

  Definition add_offset_tile (s : tm) (id off len : N) : outcome tm :=
    if len =? 0 then Err EInput else
    Ok (mkTM (aset id (TOffLen off len) (tile_by_id s)) (data_by_hash s) (ids_by_hash s) (backing s)).

  Definition tile_content (s : tm) (t : tile) : outcome (option bytes) :=
    match t with
    | THash h => Ok (aget h (data_by_hash s))
    | TOffLen off len =>
      match backing s with
      | Some img => do b <- read_at img off len; Ok (Some b)
      | None => Err EEof
      end
    end.
  Definition get_tile (s : tm) (id : N) : outcome (option bytes) :=
    match aget id (tile_by_id s) with
    | None => Ok None
    | Some t => tile_content s t
    end.
  Definition tile_ids (s : tm) : list N := akeys (tile_by_id s).
  Definition num_tiles (s : tm) : N := nlen (tile_by_id s).

  (** ** finish *)
  (** [push_entry]: extend the last run for the adjacent id with equal offset and length *)
  Definition push_entry (rev_entries : list entry) (id off len : N) : outcome (list entry) :=
    match rev_entries with
    | last :: r =>
      do nxt <- add64 (e_id last) (e_run last);
      if (id =? nxt) && (e_off last =? off) && (e_len last =? len) then
        (if e_run last + 1 <? two32 then Ok (mkEntry (e_id last) (e_off last) (e_len last) (e_run last + 1) :: r)
         else Crash Overflow)
      else Ok (mkEntry id off len 1 :: rev_entries)
    | [] => Ok [mkEntry id off len 1]
    end.

  Record fin_acc := mkFA {
    fa_entries : list entry;       (* reversed *)
    fa_data : list bytes;          (* reversed list of appended contents *)
    fa_data_len : N;
    fa_addressed : N;
    fa_contents : N;
    fa_map : list (N * (N * N))    (* hash -> (offset, length) *)
  }.

  Definition finish_step (s : tm) (acc : fin_acc) (it : N * tile) : outcome fin_acc :=
    let '(id, t) := it in
    do oc <- tile_content s t;
    match oc with
    | None => Ok acc          (* [continue] *)
    | Some content =>
      let h := match t with THash h => h | TOffLen _ _ => hash cx content end in
      match aget h (fa_map acc) with
      | Some (off, len) =>
        do es <- push_entry (fa_entries acc) id off len;
        Ok (mkFA es (fa_data acc) (fa_data_len acc) (fa_addressed acc + 1) (fa_contents acc) (fa_map acc))
      | None =>
        let off := fa_data_len acc in
        let len := nlen content mod two32 in     (* [tile_data.len() as u32] *)
        do es <- push_entry (fa_entries acc) id off len;
        Ok (mkFA es (content :: fa_data acc) (fa_data_len acc + nlen content) (fa_addressed acc + 1)
                 (fa_contents acc + 1) (aset h (off, len) (fa_map acc)))
      end
    end.

  Fixpoint finish_loop (s : tm) (acc : fin_acc) (l : list (N * tile)) : outcome fin_acc :=
    match l with
    | [] => Ok acc
    | it :: r => do acc' <- finish_step s acc it; finish_loop s acc' r
    end.
End WithCtx.

(** sorting by tile id ([sort_by(|a, b| a.0.cmp(&b.0))]; ids are unique keys, so stability is irrelevant) *)
Module IdOrder <: TotalLeBool.
  Definition t := (N * tile)%type.
  Definition leb (a b : t) : bool := fst a <=? fst b.
  Theorem leb_total : forall a b, leb a b = true \/ leb b a = true.
  Proof. intros a b. unfold leb. destruct (fst a <=? fst b) eqn:E; [now left|right]. apply N.leb_le. apply N.leb_gt in E. lia. Qed.
End IdOrder.
Module IdSort := Sort IdOrder.

Record finish_result := mkFR {
  fr_data : bytes;
  fr_addressed : N; fr_entries : N; fr_contents : N;
  fr_dir : list entry
}.

Definition finish (cx : ctx) (s : tm) : outcome finish_result :=
  let sorted := IdSort.sort (tile_by_id s) in
  do acc <- finish_loop cx s (mkFA [] [] 0 0 0 []) sorted;
  let es := rev (fa_entries acc) in
  Ok (mkFR (concat (rev (fa_data acc))) (fa_addressed acc) (nlen es) (fa_contents acc) es).
