(** C04 / C16: saving an archive and opening the written bytes gives an archive that represents the same map
    (built on the composition theorem of C01, both the fits-the-root and the leaf-spill case). *)
From Coq Require Import List NArith Lia Bool Sorting.Sorted Permutation.
Require Import PM.Base PM.Oracles PM.Params PM.Directory PM.Stream PM.Header PM.HeaderProofs PM.Float
  PM.TileManager PM.TileManagerProofs PM.DirWriter PM.DirReader PM.Archive PM.FinishSpec PM.FinishProofs PM.SpillSpec PM.SpillProofs
  PM.FilterProofs PM.OpenFilterProofs PM.RoundTripProofs PM.SpillRoundTrip PM.History PM.HistoryProofs.
Import ListNotations.
Open Scope N_scope.

Section Reopen.
  Context (cx : ctx).

  (** * an opened archive's store *)
  Lemma register_tiles_Inv d : forall l s s', Inv cx s -> keys_nodup l ->
    (forall id, aget id l <> None -> aget id (tile_by_id s) = None) ->
    register_tiles d l s = Ok s' -> Inv cx s'.
  Proof.
    induction l as [|[id0 [off len]] r IH]; intros s s' HI Hnd Hdis H; cbn [register_tiles] in H.
    - now injection H as <-.
    - unfold cadd64 in H. destruct (d + off <? two64); cbn [bind] in H; [|discriminate].
      destruct (N.eq_dec len 0) as [->|Hl]; [unfold add_offset_tile in H; cbn in H; discriminate|].
      assert (Hnone : aget id0 (tile_by_id s) = None) by (apply Hdis; cbn [aget]; rewrite N.eqb_refl; discriminate).
      destruct (add_offset_tile_spec cx s id0 (d + off) len HI Hl Hnone) as (s1 & E1 & I1 & _ & _ & Hoth & _).
      rewrite E1 in H. cbn [bind] in H.
      unfold keys_nodup in Hnd. cbn [akeys map fst] in Hnd. inversion Hnd as [|? ? Hni Hnd']; subst.
      apply (IH s1 s' I1 Hnd'); [|exact H].
      intros id Hid. assert (id <> id0).
      { intros ->. apply Hni. change (map fst r) with (akeys r). apply aget_in_keys. exact Hid. }
      rewrite Hoth by assumption. apply Hdis. cbn [aget]. destruct (N.eqb_spec id id0); [contradiction|exact Hid].
  Qed.

  Lemma from_reader_shape img r p' : from_reader cx img r = Ok p' ->
    Inv cx (p_tm p') /\ forall id t, aget id (tile_by_id (p_tm p')) = Some t -> exists o l, t = TOffLen o l.
  Proof.
    intros H. unfold from_reader in H.
    destruct (decode_header img) as [[h rest]| |]; cbn [bind] in H; try discriminate.
    destruct (if h_meta_len h =? 0 then Ok empty_object else read_meta cx (h_icomp h) (section img (h_meta_off h) (h_meta_len h)))
      as [meta| |]; cbn [bind] in H; try discriminate.
    destruct (read_directories cx (h_icomp h) img (h_root_off h) (h_root_len h) (h_leaf_off h) r) as [t| |] eqn:Et; cbn [bind] in H; try discriminate.
    destruct (register_tiles (h_data_off h) t (tm_empty (Some img))) as [s| |] eqn:Rs; cbn [bind] in H; try discriminate.
    injection H as <-. cbn [p_tm].
    assert (Nt : keys_nodup t) by (eapply read_dir_rec_nodup; [|exact Et]; constructor).
    split.
    - apply (register_tiles_Inv (h_data_off h) t (tm_empty (Some img)) s (inv_empty cx (Some img)) Nt); [|exact Rs]. intros; reflexivity.
    - destruct (register_tiles_spec _ _ _ _ Nt Rs) as (_ & _ & _ & Tb). intros id t0 Ht. rewrite Tb in Ht.
      destruct (aget id t) as [[o l]|]; [injection Ht as <-; eauto|]. cbn in Ht. discriminate.
  Qed.

  (** a store of reader-backed tiles whose lookups are those of [m] represents [m] *)
  Lemma rep_of_views p m : Inv cx (p_tm p) -> keys_nodup m ->
    (forall id, view (p_tm p) id = Ok (aget id m)) ->
    (forall id t, aget id (tile_by_id (p_tm p)) = Some t -> exists o l, t = TOffLen o l) ->
    Rep cx p m.
  Proof.
    intros HI Hnd Hv Hsh. constructor; try assumption. intros id. specialize (Hv id). unfold view, get_tile in Hv.
    destruct (aget id (tile_by_id (p_tm p))) as [t|] eqn:Et.
    - destruct (Hsh id t Et) as (o & l & ->). cbn [tile_content] in Hv.
      destruct (backing (p_tm p)); [|discriminate]. destruct (read_at b o l); cbn [bind] in Hv; try discriminate.
      injection Hv as Hv. split; intros _; [rewrite <- Hv|]; discriminate.
    - injection Hv as Hv. split; intros G; [now elim G|]. now rewrite <- Hv in G.
  Qed.

  (** * the logical content of an archive that represents a map *)
  Lemma resolve_total s : forall l, (forall id t, In (id, t) l -> exists oc, tile_content s t = Ok oc) ->
    exists tiles, resolve s l = Ok tiles.
  Proof.
    induction l as [|[id t] r IH]; intros H; [eexists; reflexivity|]. cbn [resolve].
    destruct (H id t (or_introl eq_refl)) as (oc & ->). cbn [bind].
    destruct IH as (rest & ->); [intros i t0 Hi; apply (H i t0); now right|]. cbn [bind]. destruct oc; eexists; reflexivity.
  Qed.

  Lemma logical_of_rep p m : Rep cx p m ->
    exists tiles, logical (p_tm p) = Ok tiles /\ StronglySorted (fun a b => fst a < fst b) tiles /\
      forall id c, In (id, c) tiles <-> aget id m = Some c.
  Proof.
    intros [HI Hnd Hv Hk]. unfold logical.
    assert (Hin : forall id t, In (id, t) (IdSort.sort (tile_by_id (p_tm p))) -> aget id (tile_by_id (p_tm p)) = Some t).
    { intros id t Hi. apply in_nodup_aget; [apply HI|].
      eapply Permutation_in; [apply Permutation_sym, IdSort.Permuted_sort|exact Hi]. }
    destruct (resolve_total (p_tm p) (IdSort.sort (tile_by_id (p_tm p)))) as (tiles & Hres).
    { intros id t Hi. specialize (Hv id). unfold view, get_tile in Hv. rewrite (Hin id t Hi) in Hv. eauto. }
    exists tiles. split; [exact Hres|].
    destruct (resolve_spec (p_tm p) _ _ Hres (sort_sorted_lt _ (inv_nd_t cx _ HI)) Hin) as [S M].
    split; [exact S|]. intros id c. rewrite M. specialize (Hv id). unfold view, get_tile in Hv. split.
    - intros (t & Hi & Hc). rewrite (Hin id t Hi), Hc in Hv. now injection Hv as <-.
    - intros Hg. rewrite Hg in Hv. destruct (aget id (tile_by_id (p_tm p))) as [t|] eqn:Eg; [|discriminate].
      exists t. split; [|exact Hv].
      eapply Permutation_in; [apply IdSort.Permuted_sort|].
      clear -Eg. induction (tile_by_id (p_tm p)) as [|[k v] r IH]; [discriminate|]. cbn [aget] in Eg.
      destruct (N.eqb_spec id k) as [->|]; [injection Eg as ->; now left|right; auto].
  Qed.

  Hypothesis Hinv : codec_inv cx.

  (** what has to be known about the archive at a save point (everything except the success of the write is a
      size / collision-freedom side condition) *)
  Record save_premises (asy : bool) (p : pmtiles) (m : amap) : Prop := mkSP {
    sp_U : list bytes;
    sp_inj : hash_inj_on cx sp_U;
    sp_small : forall c, In c sp_U -> nlen c < two32;
    sp_contents : forall id c, aget id m = Some c -> In c sp_U /\ id < two63 /\ 1 <= nlen c;
    sp_count : nlen m + 1 < two32;
    sp_comp : p_icomp p <> CUnknown;
    sp_meta : p_meta p <> [] /\ json_parse cx (p_meta p) = Ok (Some (p_meta p));
    sp_nonempty : forall b z, b <> [] -> compress cx asy (p_icomp p) b = Ok z -> z <> [];
    sp_zooms : p_minz p < 256 /\ p_maxz p < 256 /\ p_cz p < 256;
    sp_params : header_bytes = 127 /\ max_dir_depth = Some 3;
    sp_sizes : forall tiles, logical (p_tm p) = Ok tiles ->
      exists root0, encode_dir cx asy (p_icomp p) (fr_dir (spec_finish tiles)) = Ok root0 /\
        (forall k blobs ptrs, leaves_spec cx (p_icomp p) (chunks k (fr_dir (spec_finish tiles))) 0 = Ok (blobs, ptrs) ->
                              Forall (fun b => 1 <= nlen b < two32) blobs) /\
        (forall mb, compress cx asy (p_icomp p) (p_meta p) = Ok mb ->
                    127 + nlen root0 + nlen mb + nlen (fr_data (spec_finish tiles)) + 1 < two64)
  }.

  Theorem save_reopen_rep asy p m b : Rep cx p m -> save_premises asy p m -> to_bytes cx asy p = Ok b ->
    exists p', from_reader cx b full_range = Ok p' /\ Rep cx p' m /\
      p_meta p' = p_meta p /\ p_ttype p' = p_ttype p /\ p_tcomp p' = p_tcomp p /\ p_icomp p' = p_icomp p /\
      p_minz p' = p_minz p /\ p_maxz p' = p_maxz p /\ p_cz p' = p_cz p /\
      p_min_lon p' = quantize_coord (p_min_lon p) /\ p_min_lat p' = quantize_coord (p_min_lat p) /\
      p_max_lon p' = quantize_coord (p_max_lon p) /\ p_max_lat p' = quantize_coord (p_max_lat p) /\
      p_clon p' = quantize_coord (p_clon p) /\ p_clat p' = quantize_coord (p_clat p).
  Proof.
    intros HR [U Hinj Hsm Hct Hcnt Hc [Hmne Hjson] Hcne (Z1 & Z2 & Z3) [Hhb Hdepth] Hsz] Hto.
    destruct (logical_of_rep p m HR) as (tiles & Hlog & Hsorted & Hchar).
    destruct (Hsz tiles Hlog) as (root0 & Hroot & Hblob & Hsize).
    assert (Hlen : (length tiles <= length m)%nat).
    { (* ids of [tiles] are distinct keys of [m] *)
      assert (Hnd : NoDup (map fst tiles)).
      { clear -Hsorted. induction Hsorted as [|a r _ IH Hall]; [constructor|]. cbn [map]. constructor; [|exact IH].
        intros Hin. apply in_map_iff in Hin. destruct Hin as (x & E & Hx). rewrite Forall_forall in Hall. specialize (Hall x Hx). lia. }
      rewrite <- (map_length fst tiles), <- (map_length fst m). apply NoDup_incl_length; [exact Hnd|].
      intros id Hin. apply in_map_iff in Hin. destruct Hin as ([i c] & <- & Hx). cbn [fst].
      change (map fst m) with (akeys m). apply aget_in_keys. rewrite (proj1 (Hchar i c) Hx). discriminate. }
    destruct (roundtrip_any cx Hinv asy p tiles U root0 b) as (p' & Hfr & Hget & Hnone & Hrest); try assumption.
    - apply HR.
    - apply Forall_forall. intros [id c] Hin. cbn [fst snd]. apply (Hct id c). now apply Hchar.
    - unfold nlen in *. lia.
    - exists p'. split; [exact Hfr|]. split; [|exact Hrest].
      destruct (from_reader_shape b full_range p' Hfr) as [HI' Hsh].
      apply rep_of_views; try assumption; [apply HR|].
      intros id. unfold view. destruct (aget id m) as [c|] eqn:Eg.
      + apply Hget. now apply Hchar.
      + apply Hnone. intros Hin. apply in_map_iff in Hin. destruct Hin as ([i c] & E & Hx). cbn [fst] in E. subst i.
        apply Hchar in Hx. congruence.
  Qed.

  (** * histories with saves *)
  Definition map_or_save (o : op) : bool := match o with OSave _ => true | _ => map_op o end.
  (** side conditions of one step: no hash collision for an add; the size conditions and the success of the write
      for a save *)
  Definition step_ok (p : pmtiles) (m : amap) (o : op) : Prop :=
    match o with
    | OSave asy => save_premises asy p m /\ exists b, to_bytes cx asy p = Ok b
    | _ => collision_free cx p o
    end.
  Fixpoint hist_ok (p : pmtiles) (m : amap) (ops : list op) : Prop :=
    match ops with
    | [] => True
    | o :: r => step_ok p m o /\ hist_ok (fst (step cx p o)) (fst (spec_step m o)) r
    end.
  (** a save reports success for both the write and the reopen; the map machine has no output for it *)
  Definition out_rel (x y : out) : Prop :=
    out_eq x y \/ (exists b, x = RSaved (Ok b) (Ok tt) /\ y = RUnit).

  Theorem save_step asy p m : Rep cx p m -> step_ok p m (OSave asy) ->
    let '(p', x) := step cx p (OSave asy) in Rep cx p' m /\ exists b, x = RSaved (Ok b) (Ok tt).
  Proof.
    intros HR [Hsp (b & Hb)]. cbn [step]. rewrite Hb.
    destruct (save_reopen_rep asy p m b HR Hsp Hb) as (p' & Hfr & HR' & _). rewrite Hfr. split; [exact HR'|eauto].
  Qed.

  Theorem history_refines_saves : forall ops p m, Rep cx p m -> forallb map_or_save ops = true -> hist_ok p m ops ->
    Rep cx (fst (run cx p ops)) (fst (spec_run m ops)) /\
    Forall2 out_rel (snd (run cx p ops)) (snd (spec_run m ops)).
  Proof.
    induction ops as [|o r IH]; intros p m HR Hops Hok; cbn [run spec_run].
    - split; [assumption|constructor].
    - cbn [forallb] in Hops. apply Bool.andb_true_iff in Hops. destruct Hops as [Ho Hr]. destruct Hok as [Hc Hcr].
      assert (Hs : let '(p', x) := step cx p o in let '(m', y) := spec_step m o in Rep cx p' m' /\ out_rel x y).
      { destruct o as [id data|id|id|x0 y0 z0| | |asy|rg b0|asy pos pre|c0|mt|tty tc z1 z2 z3 f1 f2 f3 f4 f5 f6| |]; try discriminate Ho;
          try (match goal with |- context [step cx p ?o] =>
                 pose proof (step_refines cx p m o HR eq_refl Hc) as G;
                 destruct (step cx p o) as [p1 x]; destruct (spec_step m o) as [m1 y]; destruct G as [G1 G2]; split; [exact G1|left; exact G2] end).
        pose proof (save_step asy p m HR Hc) as G. destruct (step cx p (OSave asy)) as [p1 x]. cbn [spec_step].
        destruct G as [G1 (b & ->)]. split; [exact G1|right; eauto]. }
      destruct (step cx p o) as [p1 x]. destruct (spec_step m o) as [m1 y]. destruct Hs as [HR1 Hxy].
      cbn [fst] in Hcr. specialize (IH p1 m1 HR1 Hr Hcr).
      destruct (run cx p1 r) as [p2 xs]. destruct (spec_run m1 r) as [m2 ys]. cbn [fst snd] in *.
      destruct IH as [HR2 Hxs]. split; [assumption|constructor; assumption].
  Qed.
End Reopen.

(** * C16: writing the reopened archive reproduces the same bytes *)
Lemma stored_quantize d : stored_of_deg (quantize_coord d) = stored_of_deg d.
Proof.
  unfold quantize_coord. apply FloatProofs.stored_roundtrip. pose proof (stored_of_deg_range d) as H. unfold i32_ok, i32_min, i32_max in H. lia.
Qed.

(** settings equal up to the stored (quantized) form of the coordinates *)
Definition same_settings_stored (p q : pmtiles) : Prop :=
  p_ttype p = p_ttype q /\ p_tcomp p = p_tcomp q /\ p_icomp p = p_icomp q /\
  p_minz p = p_minz q /\ p_maxz p = p_maxz q /\ p_cz p = p_cz q /\ p_meta p = p_meta q /\
  stored_of_deg (p_min_lon p) = stored_of_deg (p_min_lon q) /\ stored_of_deg (p_min_lat p) = stored_of_deg (p_min_lat q) /\
  stored_of_deg (p_max_lon p) = stored_of_deg (p_max_lon q) /\ stored_of_deg (p_max_lat p) = stored_of_deg (p_max_lat q) /\
  stored_of_deg (p_clon p) = stored_of_deg (p_clon q) /\ stored_of_deg (p_clat p) = stored_of_deg (p_clat q).

Lemma encode_header_coords v a b c d e f g h i j k cl ic tc tt mz xz cz a1 a2 a3 a4 a5 a6 b1 b2 b3 b4 b5 b6 :
  stored_of_deg a1 = stored_of_deg b1 -> stored_of_deg a2 = stored_of_deg b2 -> stored_of_deg a3 = stored_of_deg b3 ->
  stored_of_deg a4 = stored_of_deg b4 -> stored_of_deg a5 = stored_of_deg b5 -> stored_of_deg a6 = stored_of_deg b6 ->
  encode_header (mkH v a b c d e f g h i j k cl ic tc tt mz xz a1 a2 a3 a4 cz a5 a6) =
  encode_header (mkH v a b c d e f g h i j k cl ic tc tt mz xz b1 b2 b3 b4 cz b5 b6).
Proof.
  intros E1 E2 E3 E4 E5 E6. unfold encode_header, to_stored.
  cbn [h_version h_root_off h_root_len h_meta_off h_meta_len h_leaf_off h_leaf_len h_data_off h_data_len h_addressed h_entries h_contents
       h_clustered h_icomp h_tcomp h_ttype h_minz h_maxz h_min_lon h_min_lat h_max_lon h_max_lat h_cz h_clon h_clat].
  now rewrite E1, E2, E3, E4, E5, E6.
Qed.

Lemma to_writer_depends_on_stored cx asy p q st : same_settings_stored p q ->
  finish cx (p_tm p) = finish cx (p_tm q) -> to_writer cx asy p st = to_writer cx asy q st.
Proof.
  intros (A1 & A2 & A3 & A4 & A5 & A6 & A7 & C1 & C2 & C3 & C4 & C5 & C6) Hf.
  unfold to_writer. rewrite Hf, A1, A2, A3, A4, A5, A6, A7.
  destruct (finish cx (p_tm q)) as [res| |]; cbn [bind]; try reflexivity.
  destruct (ws_tell st) as [st0 sp].
  destruct (cadd64 sp header_bytes) as [he| |]; cbn [bind]; try reflexivity.
  destruct (write_directories cx asy (p_icomp q) (fr_dir res) None (ws_seek st0 he)) as [[st1 ld]| |]; cbn [bind]; try reflexivity.
  destruct (ws_tell st1) as [st2 pos2].
  destruct (sub64 pos2 sp) as [t2| |]; cbn [bind]; try reflexivity.
  destruct (sub64 t2 header_bytes) as [rl| |]; cbn [bind]; try reflexivity.
  destruct (add64 header_bytes rl) as [mo| |]; cbn [bind]; try reflexivity.
  destruct (compress cx asy (p_icomp q) (p_meta q)) as [mb| |]; cbn [bind]; try reflexivity.
  destruct (ws_tell (ws_write_codec cx asy (p_icomp q) st2 (p_meta q) mb)) as [st3 pos3].
  destruct (sub64 pos3 sp) as [t3| |]; cbn [bind]; try reflexivity.
  destruct (sub64 t3 mo) as [ml| |]; cbn [bind]; try reflexivity.
  destruct (add64 mo ml) as [lo| |]; cbn [bind]; try reflexivity.
  destruct (ws_tell (ws_write st3 ld)) as [st4 pos4].
  destruct (sub64 pos4 sp) as [t4| |]; cbn [bind]; try reflexivity.
  destruct (sub64 t4 lo) as [ll| |]; cbn [bind]; try reflexivity.
  destruct (add64 lo ll) as [dof| |]; cbn [bind]; try reflexivity.
  rewrite (encode_header_coords _ _ _ _ _ _ _ _ _ _ _ _ _ _ _ _ _ _ _ _ _ _ _ _ _ _ _ _ _ _ _ C1 C2 C3 C4 C5 C6).
  reflexivity.
Qed.

Section Rewrite.
  Context (cx : ctx).
  Hypothesis Hinv : codec_inv cx.

  (** re-writing what was read back: the reopened archive serialises exactly as the original *)
  Theorem rewrite_identical asy p m b p' : Rep cx p m -> save_premises cx asy p m ->
    to_bytes cx asy p = Ok b -> from_reader cx b full_range = Ok p' ->
    forall asy2 st, to_writer cx asy2 p' st = to_writer cx asy2 p st.
  Proof.
    intros HR Hsp Hb Hfr asy2 st.
    destruct (save_reopen_rep cx Hinv asy p m b HR Hsp Hb) as (p2 & Hfr2 & HR' & S1 & S2 & S3 & S4 & S5 & S6 & S7 & K1 & K2 & K3 & K4 & K5 & K6).
    rewrite Hfr in Hfr2. injection Hfr2 as <-.
    destruct Hsp as [U Hinj Hsm Hct Hcnt _ _ _ _ _ _].
    destruct (logical_of_rep cx p m HR) as (tiles & Hlog & Hsorted & Hchar).
    destruct (logical_of_rep cx p' m HR') as (tiles' & Hlog' & _ & Hchar').
    apply to_writer_depends_on_stored.
    - unfold same_settings_stored. rewrite S1, S2, S3, S4, S5, S6, S7, K1, K2, K3, K4, K5, K6, !stored_quantize. repeat split; reflexivity.
    - assert (tiles' = tiles).
      { apply (logical_determined cx (p_tm p') (p_tm p)); try assumption; try apply HR; try apply HR'.
        intros id. now rewrite (rep_view _ _ _ HR'), (rep_view _ _ _ HR). }
      subst tiles'.
      assert (Hlen : (length tiles <= length m)%nat).
      { assert (Hnd : NoDup (map fst tiles)).
        { clear -Hsorted. induction Hsorted as [|a r _ IH Hall]; [constructor|]. cbn [map]. constructor; [|exact IH].
          intros Hin. apply in_map_iff in Hin. destruct Hin as (x & E & Hx). rewrite Forall_forall in Hall. specialize (Hall x Hx). lia. }
        rewrite <- (map_length fst tiles), <- (map_length fst m). apply NoDup_incl_length; [exact Hnd|].
        intros id Hin. apply in_map_iff in Hin. destruct Hin as ([i c] & <- & Hx). cbn [fst].
        change (map fst m) with (akeys m). apply aget_in_keys. rewrite (proj1 (Hchar i c) Hx). discriminate. }
      apply (finish_canonical cx _ _ tiles U); try assumption; try apply HR; try apply HR'.
      + apply Forall_forall. intros [id c] Hin. cbn [fst snd]. destruct (Hct id c) as (A & B & _); [now apply Hchar|]. split; assumption.
      + unfold nlen in *. lia.
  Qed.

  Corollary rewrite_identical_bytes asy p m b p' : Rep cx p m -> save_premises cx asy p m ->
    to_bytes cx asy p = Ok b -> from_reader cx b full_range = Ok p' -> to_bytes cx asy p' = Ok b.
  Proof. intros HR Hsp Hb Hfr. unfold to_bytes in *. now rewrite (rewrite_identical asy p m b p' HR Hsp Hb Hfr). Qed.
End Rewrite.
