(** C08: the readers return a value or an error — the model never reaches a [Crash] on any input. *)
Require Import PM.Base PM.Varint PM.VarintProofs PM.Oracles PM.Params PM.Float PM.Header PM.HeaderProofs PM.Directory
               PM.DirectoryProofs PM.Stream PM.TileManager PM.DirWriter PM.DirReader PM.Hilbert PM.HilbertProofs
               PM.Archive PM.ArchiveProofs.
From Coq Require Import ZifyN ZifyBool ZifyNat.
Open Scope N_scope.

Lemma bind_nc {A B} (m : outcome A) (f : A -> outcome B) :
  (forall c, m <> Crash c) -> (forall a c, f a <> Crash c) -> forall c, bind m f <> Crash c.
Proof. intros Hm Hf c. destruct m as [a|e|c0]; cbn [bind]; [apply Hf|congruence|exfalso; now apply (Hm c0)]. Qed.

(** ** header *)
Lemma split_at_nc n b c : split_at n b <> Crash c.
Proof. unfold split_at. destruct (Nat.leb n (length b)); congruence. Qed.
Ltac nc_step :=
  match goal with
  | |- bind _ _ <> Crash _ => apply bind_nc; [intros ?|intros [? ?] ?] || (apply bind_nc; [intros ?|intros ? ?])
  | |- (if ?b then _ else _) <> Crash _ => destruct b
  | |- (let '(_, _) := ?p in _) <> Crash _ => destruct p
  | |- Ok _ <> Crash _ => congruence
  | |- Err _ <> Crash _ => congruence
  end.
Lemma take_u64_nc b c : take_u64 b <> Crash c.
Proof. unfold take_u64. apply bind_nc; [intros; apply split_at_nc|intros [? ?] ?; congruence]. Qed.
Lemma take_i32_nc b c : take_i32 b <> Crash c.
Proof. unfold take_i32. apply bind_nc; [intros; apply split_at_nc|intros [? ?] ?; congruence]. Qed.
Lemma take_u8_nc b c : take_u8 b <> Crash c.
Proof. destruct b; cbn; congruence. Qed.
Lemma comp_of_code_nc n c : comp_of_code n <> Crash c.
Proof. unfold comp_of_code. repeat match goal with |- context [if ?b then _ else _] => destruct b end; congruence. Qed.
Lemma ttype_of_code_nc n c : ttype_of_code n <> Crash c.
Proof. unfold ttype_of_code. repeat match goal with |- context [if ?b then _ else _] => destruct b end; congruence. Qed.

Theorem decode_header_no_crash b c : decode_header b <> Crash c.
Proof.
  unfold decode_header. apply bind_nc; [|intros [? ?] ?; congruence]. intros c'. unfold decode_stored.
  repeat first
    [ apply split_at_nc | apply take_u64_nc | apply take_i32_nc | apply take_u8_nc | apply comp_of_code_nc | apply ttype_of_code_nc
    | nc_step ].
Qed.

(** ** directories *)
Lemma expand_run_total r e acc : exists l, expand_run r e acc = l.
Proof. eauto. Qed.

Section WithCtx.
  Context (cx : ctx).
  Hypothesis json_total : forall b c, json_parse cx b <> Crash c.

  Lemma decompress_lazy_nc c b k : decompress_lazy cx c b <> Crash k.
  Proof. unfold decompress_lazy. destruct c; congruence. Qed.
  Lemma decompress_all_nc c b k : decompress_all cx c b <> Crash k.
  Proof.
    unfold decompress_all. apply bind_nc; [intros; apply decompress_lazy_nc|]. intros [p fl] k'. destruct fl; congruence.
  Qed.

  Lemma walk_entries_nc rec lo r : (forall o l a k, rec o l a <> Crash k) ->
    forall es acc k, walk_entries rec lo r es acc <> Crash k.
  Proof.
    intros Hrec. induction es as [|e rest IH]; intros acc k; cbn [walk_entries]; [congruence|].
    destruct (e_run e =? 0); [|apply IH].
    destruct (range_end_inc r <? e_id e); [apply IH|].
    apply bind_nc; [intros; apply cadd64_no_crash|]. intros lo' k2.
    apply bind_nc; [intros; apply Hrec|]. intros acc' k3. apply IH.
  Qed.
  Lemma read_dir_rec_no_crash fuel : forall c img o l lo r acc k, read_dir_rec cx fuel c img o l lo r acc <> Crash k.
  Proof.
    induction fuel as [|f IH]; intros c img o l lo r acc k; cbn [read_dir_rec]; [congruence|].
    apply bind_nc; [intros; apply dir_decode_no_crash|]. intros es k'.
    apply walk_entries_nc. intros. apply IH.
  Qed.
  Theorem read_directories_no_crash c img ro rl lo r k : read_directories cx c img ro rl lo r <> Crash k.
  Proof. apply read_dir_rec_no_crash. Qed.

  Lemma add_offset_tile_nc s id o l k : add_offset_tile s id o l <> Crash k.
  Proof. unfold add_offset_tile. destruct (l =? 0); congruence. Qed.
  Lemma register_tiles_nc d : forall l s k, register_tiles d l s <> Crash k.
  Proof.
    induction l as [|[id [off len]] r IH]; intros s k; cbn [register_tiles]; [congruence|].
    apply bind_nc; [intros; apply cadd64_no_crash|]. intros o k1.
    apply bind_nc; [intros; apply add_offset_tile_nc|]. intros s' k2. apply IH.
  Qed.
  Lemma read_meta_nc c sec k : read_meta cx c sec <> Crash k.
  Proof.
    unfold read_meta. apply bind_nc; [intros; apply decompress_all_nc|]. intros plain k1.
    apply bind_nc; [intros; apply json_total|]. intros [m|] k2; congruence.
  Qed.

  (** opening any byte string, fully or range-filtered, returns an archive or an error *)
  Theorem from_reader_no_crash img r k : from_reader cx img r <> Crash k.
  Proof.
    unfold from_reader. apply bind_nc; [intros; apply decode_header_no_crash|]. intros [h rest] k1.
    apply bind_nc; [intros k2; destruct (h_meta_len h =? 0); [congruence|apply read_meta_nc]|]. intros meta k2.
    apply bind_nc; [intros; apply read_directories_no_crash|]. intros tiles k3.
    apply bind_nc; [intros; apply register_tiles_nc|]. intros s k4. congruence.
  Qed.
End WithCtx.

(** ** tile ids: [zxy] on every u64 *)
Theorem zxy_no_crash id k : zxy 32 id <> Crash k.
Proof.
  destruct (N.lt_ge_cases id (zoom_base 32)) as [Hlt|Hge].
  - destruct (zxy_total id Hlt) as (z & x & y & E & _). rewrite E. congruence.
  - rewrite (zxy_too_large id Hge). congruence.
Qed.
