(** C07 — Tile IDs are the specification's Hilbert IDs and convert back exactly.
    [tile_id] / [zxy] model src/util/tile_id.rs over the LUT automaton of hilbert_2d (Hilbert.v);
    [spec_tile_id] is the PMTiles v3 reference algorithm ([zoom_base z + hilbert_spec z x y]). *)
Require Import PM.Base PM.Params PM.Hilbert PM.HilbertProofs PM.TileManager PM.Archive PM.ArchiveProofs.
Open Scope N_scope.

(** for every zoom 0–31 and every x, y inside the grid the computed id is the specification's *)
Theorem C07_spec : forall z x y, z <= 31 -> x < 2 ^ z -> y < 2 ^ z ->
  tile_id z x y = Ok (spec_tile_id z x y).
Proof. exact tile_id_spec. Qed.

(** ... and converting it back returns the same z, x, y *)
Theorem C07_inverse : forall z x y, z <= 31 -> x < 2 ^ z -> y < 2 ^ z ->
  zxy max_z (spec_tile_id z x y) = Ok (z, x, y).
Proof. exact zxy_tile_id. Qed.

(** every id below the first id of zoom 32 converts back to an in-grid coordinate that re-encodes to it *)
Theorem C07_total : forall id, id < zoom_base 32 ->
  exists z x y, zxy max_z id = Ok (z, x, y) /\ z <= 31 /\ x < 2 ^ z /\ y < 2 ^ z /\ tile_id z x y = Ok id.
Proof. exact zxy_total. Qed.

(** every larger id is an error, not a wrong coordinate *)
Theorem C07_too_large : forall id, zoom_base 32 <= id -> zxy max_z id = Err EMaxZ.
Proof. exact zxy_too_large. Qed.

(** the ids of one zoom form one contiguous block placed after all lower zooms *)
Theorem C07_block : forall z x y, z <= 31 -> x < 2 ^ z -> y < 2 ^ z ->
  zoom_base z <= spec_tile_id z x y < zoom_base (z + 1).
Proof. exact tile_id_block. Qed.

(** consecutive ids inside a zoom are edge-adjacent tiles *)
Theorem C07_adjacent : forall z x y x' y', z <= 31 -> x < 2 ^ z -> y < 2 ^ z -> x' < 2 ^ z -> y' < 2 ^ z ->
  hilbert_spec (N.to_nat z) x' y' = hilbert_spec (N.to_nat z) x y + 1 ->
  (x' = x /\ (y' = y + 1 \/ y = y' + 1)) \/ (y' = y /\ (x' = x + 1 \/ x = x' + 1)).
Proof. exact consecutive_adjacent. Qed.

(** a tile's four children occupy one aligned block of four positions ... *)
Theorem C07_children : forall z x y a b, z <= 30 -> x < 2 ^ z -> y < 2 ^ z -> a < 2 -> b < 2 ->
  exists q, q < 4 /\
  hilbert_spec (N.to_nat (z + 1)) (2 * x + a) (2 * y + b) = 4 * hilbert_spec (N.to_nat z) x y + q.
Proof. exact children_block. Qed.
(** ... and occupy it completely (the four positions are distinct) *)
Theorem C07_children_distinct : forall z x y a b a' b', z <= 30 -> x < 2 ^ z -> y < 2 ^ z ->
  a < 2 -> b < 2 -> a' < 2 -> b' < 2 ->
  hilbert_spec (N.to_nat (z + 1)) (2 * x + a) (2 * y + b) = hilbert_spec (N.to_nat (z + 1)) (2 * x + a') (2 * y + b') ->
  a = a' /\ b = b'.
Proof. exact children_distinct. Qed.

(** looking up coordinates that do not denote a tile reports no tile ... *)
Theorem C07_lookup_outside : forall p x y z, ~ (z <= 31 /\ x < 2 ^ z /\ y < 2 ^ z) ->
  get_tile_xyz p x y z = Ok None.
Proof.
  intros p x y z H. apply get_tile_xyz_outside.
  destruct (in_grid z x y) eqn:G; [|reflexivity]. apply in_grid_spec in G. contradiction.
Qed.
(** ... coordinates that do denote a tile look up exactly the specification's id ... *)
Theorem C07_lookup_inside : forall p x y z, z <= 31 -> x < 2 ^ z -> y < 2 ^ z ->
  get_tile_xyz p x y z = get_tile (p_tm p) (spec_tile_id z x y).
Proof. exact get_tile_xyz_inside. Qed.
(** ... and no lookup crashes *)
Theorem C07_lookup_no_crash : forall p x y z c, get_tile_xyz p x y z <> Crash c.
Proof. exact get_tile_xyz_no_crash. Qed.

(** the constant the theorems are stated for is the one in the source *)
Theorem C07_params : max_z = 32 /\ grid_zoom_limit = Some 32.
Proof. split; reflexivity. Qed.

(** non-vacuity / the specification's published examples *)
Example C07_examples :
  map (fun '(z, x, y) => spec_tile_id z x y) [(0,0,0); (1,0,0); (1,0,1); (1,1,1); (1,1,0); (2,0,0); (12,3423,1763)]
  = [0; 1; 2; 3; 4; 5; 19078479].
Proof. vm_compute. reflexivity. Qed.
Example C07_example_alias_before_fix : tile_id 2 4 0 = Ok 5 /\ in_grid 2 4 0 = false.
Proof. vm_compute. split; reflexivity. Qed.
