(** C16 — Output bytes are a canonical function of the archive's logical content.

    Proved here:
    - [C16_canonical_partial]: two archive values with the same tiles (every lookup agrees), metadata and
      settings produce identical [to_writer] results — bytes, stream position and operation log — regardless
      of the order of their internal maps (the randomly seeded hash maps of the implementation; this also
      covers "the process that writes them"), of the history that produced them, and of whether tiles are in
      memory or reader-backed;
    - [C16_rewrite_identical]: writing an archive that was just read back reproduces the same bytes: for a
      written [b], [to_bytes (from_reader b) = b] — whatever API family wrote it; built on C01's composition
      theorem and on [stored_quantize] (the coordinates read back re-encode to the same stored integers).
    Premises: as for C01/C04 ([save_premises]: sizes below the format's limits, hash-collision freedom on the
    contents present, JSON-object metadata, supported internal compression) and that the first write
    succeeded.  'Partial' refers to those premises only; every clause of the property has a theorem. *)
Require Import PM.Base PM.Oracles PM.Directory PM.Stream PM.TileManager PM.TileManagerProofs PM.Archive
               PM.FinishSpec PM.FinishProofs PM.CanonicalProofs PM.Float PM.Header PM.DirReader PM.History PM.HistoryProofs PM.ReopenProofs.
Open Scope N_scope.

Theorem C16_canonical_partial : forall cx asy p q st tiles U,
  same_settings p q -> Inv cx (p_tm p) -> Inv cx (p_tm q) ->
  (forall id, view (p_tm p) id = view (p_tm q) id) ->
  logical (p_tm p) = Ok tiles -> (exists t2, logical (p_tm q) = Ok t2) ->
  hash_inj_on cx U -> (forall c, In c U -> nlen c < two32) ->
  Forall (fun t => In (snd t) U /\ fst t < two63) tiles -> nlen tiles + 1 < two32 ->
  to_writer cx asy p st = to_writer cx asy q st.
Proof. exact to_writer_canonical. Qed.

(** the logical content is determined by what lookups return *)
Theorem C16_logical_determined : forall cx s1 s2 t1 t2, Inv cx s1 -> Inv cx s2 ->
  logical s1 = Ok t1 -> logical s2 = Ok t2 -> (forall id, view s1 id = view s2 id) -> t1 = t2.
Proof. exact logical_determined. Qed.

(** re-writing what was read back *)
Theorem C16_rewrite_identical : forall cx, codec_inv cx -> forall asy p m b p',
  Rep cx p m -> save_premises cx asy p m ->
  to_bytes cx asy p = Ok b -> from_reader cx b full_range = Ok p' -> to_bytes cx asy p' = Ok b.
Proof. exact rewrite_identical_bytes. Qed.

(** ... in any stream state and by either API family: the reopened archive serialises exactly as the original *)
Theorem C16_rewrite_same_writer_result : forall cx, codec_inv cx -> forall asy p m b p',
  Rep cx p m -> save_premises cx asy p m ->
  to_bytes cx asy p = Ok b -> from_reader cx b full_range = Ok p' ->
  forall asy2 st, to_writer cx asy2 p' st = to_writer cx asy2 p st.
Proof. exact rewrite_identical. Qed.

(** non-vacuity: two insertion orders (with a detour) of the same three tiles, evaluated *)
Example C16_example :
  let a := fold_left (fun s '(i, d) => match add_tile ctx_id s i d with Ok s' => s' | _ => s end) [(5, [1]); (6, [1]); (9, [2;2])] (tm_empty None) in
  let b0 := fold_left (fun s '(i, d) => match add_tile ctx_id s i d with Ok s' => s' | _ => s end) [(9, [2;2]); (7, [3]); (6, [1]); (5, [1])] (tm_empty None) in
  let b := snd (remove_tile b0 7) in
  finish ctx_id a = finish ctx_id b /\ tile_by_id a <> tile_by_id b.
Proof. vm_compute. split; [reflexivity|discriminate]. Qed.

(** non-vacuity of the rewrite clause: written, opened, written again — the same bytes (by evaluation) *)
Example C16_rewrite_example :
  let tm3 := fold_left (fun s '(i, d) => match add_tile ctx_id s i d with Ok s' => s' | _ => s end) [(5, [1;2]); (6, [1;2]); (9, [7])] (tm_empty None) in
  let p := mkPM TPng CNone CGzip 0 3 1 (Float.of_Z 3) (Float.of_Z 0) (Float.of_Z 0) (Float.of_Z 0) (Float.of_Z 0) (Float.of_Z 0) [123; 125] tm3 in
  (do b <- to_bytes ctx_id false p; do p' <- from_reader ctx_id b full_range; do b' <- to_bytes ctx_id true p'; Ok (N.eqb (nlen b) (nlen b') && forallb (fun '(x, y) => N.eqb x y) (combine b b')))
  = Ok true.
Proof. vm_compute. reflexivity. Qed.
