(** C16 — Output bytes are a canonical function of the archive's logical content.

    Proved here: two archive values with the same tiles (every lookup agrees), metadata and settings
    produce identical [to_writer] results — bytes, stream position and operation log — regardless of
    the order of their internal maps (the randomly seeded hash maps of the implementation; this also
    covers "the process that writes them"), of the history that produced them, and of whether tiles
    are in memory or reader-backed.
    Full statement also asks: writing an archive that was just read back reproduces the same bytes
    ([to_writer (from_reader b) = b] for written [b]).  That clause needs the composition theorem of C01
    and, for the coordinates, uses [C09_coord_roundtrip]; it is decided by the correspondence run
    (model vs Rust, byte-exact) and the direct oracle (rewrite idempotence, history pairs with detours,
    separate OS processes), not by a theorem yet. *)
Require Import PM.Base PM.Oracles PM.Directory PM.Stream PM.TileManager PM.TileManagerProofs PM.Archive
               PM.FinishSpec PM.FinishProofs PM.CanonicalProofs.
Open Scope N_scope.

Theorem C16_canonical_partial : forall cx asy p q st tiles U,
  same_settings p q -> Inv cx (p_tm p) -> Inv cx (p_tm q) ->
  (forall id, view (p_tm p) id = view (p_tm q) id) ->
  logical (p_tm p) = Ok tiles -> (exists t2, logical (p_tm q) = Ok t2) ->
  hash_inj_on cx U -> (forall c, In c U -> nlen c < two32) ->
  Forall (fun t => In (snd t) U /\ fst t < two63) tiles -> nlen tiles + 1 < two32 ->
  to_writer cx asy p st = to_writer cx asy q st.
Proof. exact to_writer_canonical. Qed.

(** the logical content is determined by what lookups return *)
Theorem C16_logical_determined : forall cx s1 s2 t1 t2, Inv cx s1 -> Inv cx s2 ->
  logical s1 = Ok t1 -> logical s2 = Ok t2 -> (forall id, view s1 id = view s2 id) -> t1 = t2.
Proof. exact logical_determined. Qed.

(** non-vacuity: two insertion orders (with a detour) of the same three tiles, evaluated *)
Example C16_example :
  let a := fold_left (fun s '(i, d) => match add_tile ctx_id s i d with Ok s' => s' | _ => s end) [(5, [1]); (6, [1]); (9, [2;2])] (tm_empty None) in
  let b0 := fold_left (fun s '(i, d) => match add_tile ctx_id s i d with Ok s' => s' | _ => s end) [(9, [2;2]); (7, [3]); (6, [1]); (5, [1])] (tm_empty None) in
  let b := snd (remove_tile b0 7) in
  finish ctx_id a = finish ctx_id b /\ tile_by_id a <> tile_by_id b.
Proof. vm_compute. split; [reflexivity|discriminate]. Qed.
