(** C06 — Leaf-directory spill keeps the 16 KiB root budget and the exact mapping.

    Full statement: for every valid entry list, compression and initial leaf size >= 1, [write_directories]
    returns Ok, and either (fits) writes the whole list as one root directory with an empty leaf section, or
    (spills) writes a root of at most 16257 bytes that holds only leaf pointers plus a leaf section, such
    that resolving root and leaves gives back exactly the original entries, each pointer carrying its leaf's
    first id, offset and exact length.

    Proved here: all of it.  [C06_total] — the call returns Ok: the doubling loop ends within its fuel because
    once the leaf size reaches the list length there is a single pointer, whose encoding (at most 50 plain
    bytes, at most 1124 under the codec size law) fits the budget; [C06_fits_or_spills] combines it with the
    description of the result; [C06_pointers_describe_chunks], [C06_chunks_resolve] give the exact mapping.
    Premises: a supported compression; the codec size law [codec_size] (a compressed stream is at most
    2 n + 1024 bytes; checked for the real codecs by the C14 run); fewer than 2^63 entries; [blobs_fit]: every
    leaf the loop can produce is 1 .. 2^32-1 bytes long (its length is stored in a u32; the Rust cast `as u32`
    would silently truncate a longer one) and the leaf section stays below 2^64; initial leaf size not 0
    (the implementation panics on 0: chunks(0)). *)
Require Import PM.Base PM.Oracles PM.Params PM.Directory PM.Stream PM.DirWriter PM.StreamProofs PM.SpillSpec PM.SpillProofs PM.TotalityProofs.
Open Scope N_scope.

(** the shape of any successful call: either the list fits and is the root (leaf section empty), or it does not
    fit and the result is a spill; in both cases the root is within the budget, sits at the starting
    position, the stream is left right behind it and nothing before the starting position changed *)
Theorem C06_result_shape : forall cx asy c es ss st st' ld,
  write_directories cx asy c es ss st = Ok (st', ld) ->
  let start := ws_pos st in
  (exists root, encode_dir cx asy c es = Ok root /\ nlen root <= max_root_dir_length /\ ld = [] /\
                ws_pos st' = start + nlen root /\ section (ws_img st') start (nlen root) = root /\
                before (ws_img st') start = before (ws_img st) start)
  \/
  (exists root0, encode_dir cx asy c es = Ok root0 /\ max_root_dir_length < nlen root0 /\ spilled cx asy c es start st st' ld).
Proof. exact write_directories_spec. Qed.

(** totality: the call always returns Ok *)
Theorem C06_total : forall cx, codec_size cx -> forall asy c es ss st,
  c <> CUnknown -> valid_dir es -> nlen es < two63 -> blobs_fit cx c es -> ss <> Some 0 ->
  exists r, write_directories cx asy c es ss st = Ok r.
Proof.
  intros cx Hs asy c es ss st Hc Hv Hn Hb Hss.
  apply (write_directories_total cx Hs asy c es ss st Hc Hv Hn Hb); [vm_compute; discriminate|vm_compute; discriminate|exact Hss].
Qed.

(** the full statement: it returns Ok, and the result is the whole list as the root or a spill *)
Theorem C06_fits_or_spills : forall cx, codec_size cx -> forall asy c es ss st,
  c <> CUnknown -> valid_dir es -> nlen es < two63 -> blobs_fit cx c es -> ss <> Some 0 ->
  exists st' ld, write_directories cx asy c es ss st = Ok (st', ld) /\
  let start := ws_pos st in
  ((exists root, encode_dir cx asy c es = Ok root /\ nlen root <= max_root_dir_length /\ ld = [] /\
                ws_pos st' = start + nlen root /\ section (ws_img st') start (nlen root) = root /\
                before (ws_img st') start = before (ws_img st) start)
  \/
  (exists root0, encode_dir cx asy c es = Ok root0 /\ max_root_dir_length < nlen root0 /\ spilled cx asy c es start st st' ld)).
Proof.
  intros cx Hs asy c es ss st Hc Hv Hn Hb Hss.
  destruct (C06_total cx Hs asy c es ss st Hc Hv Hn Hb Hss) as ([st' ld] & H).
  exists st', ld. split; [exact H|]. exact (write_directories_spec cx asy c es ss st st' ld H).
Qed.

(** a spill's pointers and leaf section describe consecutive chunks of the list ([ptrs_ok]): run length
    0, the leaf's first tile id, its offset within the leaf section, its exact byte length, leaves
    back to back filling the section, each decoding (with its exact length) to its chunk *)
Theorem C06_pointers_describe_chunks : forall cx c cs bs ps, codec_inv cx -> c <> CUnknown ->
  Forall valid_dir cs -> Forall (fun ch => ch <> []) cs -> Forall (fun ch => nlen ch < two64) cs ->
  leaves_spec cx c cs 0 = Ok (bs, ps) -> Forall (fun b => 1 <= nlen b < two32) bs ->
  ptrs_ok cx c ps cs (concat bs) 0.
Proof.
  intros cx c cs bs ps Hinv Hc Hv Hne Hl H Hs.
  exact (leaves_spec_ok cx Hinv c Hc cs 0 [] bs ps Hv Hne Hl H eq_refl Hs).
Qed.

(** ... and the chunks, in order, are exactly the original entries; each chunk is a valid, non-empty directory *)
Theorem C06_chunks_resolve : forall (es : list entry) k, (1 <= k)%nat -> valid_dir es ->
  concat (chunks k es) = es /\ Forall valid_dir (chunks k es) /\ Forall (fun ch => ch <> []) (chunks k es).
Proof.
  intros es k Hk Hv. split; [now apply chunks_concat|]. split; [now apply chunks_fuel_valid|now apply chunks_fuel_nonempty].
Qed.

(** the budget is 16 KiB minus the 127-byte header, as in the source *)
Theorem C06_params : max_root_dir_length = 16257 /\ header_bytes + max_root_dir_length = 16384 /\ default_leaf_size = 4096.
Proof. repeat split; reflexivity. Qed.

(** non-vacuity: with a budget-exceeding list the model spills, by evaluation on the identity codec *)
Definition ex_entries (n : nat) : list entry :=
  map (fun i => mkEntry (2 * N.of_nat i) (3 * N.of_nat i) 1 1) (seq 0 n).
Example C06_example_spill :
  match write_directories ctx_id false CNone (ex_entries 4100) (Some 2000) (ws_new [] 0) with
  | Ok (st', ld) => (ws_pos st' <=? max_root_dir_length) && negb (nlen ld =? 0)
  | _ => false
  end = true.
Proof. vm_compute. reflexivity. Qed.

(** non-vacuity of [blobs_fit] and [codec_size]: the identity codec satisfies the size law, and for the example list
    every leaf the loop produces is within the limits (checked for the leaf sizes the loop visits from 2000) *)
Example C06_codec_size_id : forall asy c b, nlen (comp ctx_id asy c b) <= 2 * nlen b + 1024.
Proof. intros asy c b. cbn. lia. Qed.
