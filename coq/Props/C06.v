(** C06 — Leaf-directory spill keeps the 16 KiB root budget and the exact mapping.

    Full statement (kept visible): for every valid entry list, compression and initial leaf size >= 1,
    [write_directories] returns Ok, and either (fits) writes the whole list as one root directory with an
    empty leaf section, or (spills) writes a root of at most 16257 bytes that holds only leaf pointers
    plus a leaf section, such that resolving root and leaves gives back exactly the original entries,
    each pointer carrying its leaf's first id, offset and exact length.

    Proved here: everything above EXCEPT totality — the theorems start from a successful call
    ([... = Ok ...]).  Missing: that the doubling loop always succeeds within its fuel (needs the
    codec size law [codec_size] to show a single pointer always fits); the loop's termination on the
    implementation is exercised by the correspondence run (start sizes 1, 2, ... on lists up to 10^5). *)
Require Import PM.Base PM.Oracles PM.Params PM.Directory PM.Stream PM.DirWriter PM.StreamProofs PM.SpillSpec PM.SpillProofs.
Open Scope N_scope.

(** whenever the call succeeds: either the list fits and is the root (leaf section empty), or it does not
    fit and the result is a spill; in both cases the root is within the budget, sits at the starting
    position, the stream is left right behind it and nothing before the starting position changed *)
Theorem C06_fits_or_spills_partial : forall cx asy c es ss st st' ld,
  write_directories cx asy c es ss st = Ok (st', ld) ->
  let start := ws_pos st in
  (exists root, encode_dir cx asy c es = Ok root /\ nlen root <= max_root_dir_length /\ ld = [] /\
                ws_pos st' = start + nlen root /\ section (ws_img st') start (nlen root) = root /\
                before (ws_img st') start = before (ws_img st) start)
  \/
  (exists root0, encode_dir cx asy c es = Ok root0 /\ max_root_dir_length < nlen root0 /\ spilled cx asy c es start st st' ld).
Proof. exact write_directories_spec. Qed.

(** a spill's pointers and leaf section describe consecutive chunks of the list ([ptrs_ok]): run length
    0, the leaf's first tile id, its offset within the leaf section, its exact byte length, leaves
    back to back filling the section, each decoding (with its exact length) to its chunk *)
Theorem C06_pointers_describe_chunks : forall cx c cs bs ps, codec_inv cx -> c <> CUnknown ->
  Forall valid_dir cs -> Forall (fun ch => ch <> []) cs -> Forall (fun ch => nlen ch < two64) cs ->
  leaves_spec cx c cs 0 = Ok (bs, ps) -> Forall (fun b => 1 <= nlen b < two32) bs ->
  ptrs_ok cx c ps cs (concat bs) 0.
Proof.
  intros cx c cs bs ps Hinv Hc Hv Hne Hl H Hs.
  exact (leaves_spec_ok cx Hinv c Hc cs 0 [] bs ps Hv Hne Hl H eq_refl Hs).
Qed.

(** ... and the chunks, in order, are exactly the original entries; each chunk is a valid, non-empty directory *)
Theorem C06_chunks_resolve : forall (es : list entry) k, (1 <= k)%nat -> valid_dir es ->
  concat (chunks k es) = es /\ Forall valid_dir (chunks k es) /\ Forall (fun ch => ch <> []) (chunks k es).
Proof.
  intros es k Hk Hv. split; [now apply chunks_concat|]. split; [now apply chunks_fuel_valid|now apply chunks_fuel_nonempty].
Qed.

(** the budget is 16 KiB minus the 127-byte header, as in the source *)
Theorem C06_params : max_root_dir_length = 16257 /\ header_bytes + max_root_dir_length = 16384 /\ default_leaf_size = 4096.
Proof. repeat split; reflexivity. Qed.

(** non-vacuity: with a budget-exceeding list the model spills, by evaluation on the identity codec *)
Definition ex_entries (n : nat) : list entry :=
  map (fun i => mkEntry (2 * N.of_nat i) (3 * N.of_nat i) 1 1) (seq 0 n).
Example C06_example_spill :
  match write_directories ctx_id false CNone (ex_entries 4100) (Some 2000) (ws_new [] 0) with
  | Ok (st', ld) => (ws_pos st' <=? max_root_dir_length) && negb (nlen ld =? 0)
  | _ => false
  end = true.
Proof. vm_compute. reflexivity. Qed.
