(** C11 — Range-filtered opening equals full opening restricted to the range.
    [tree_ok] is the one hypothesis on the archive: every id found in a directory, and recursively in the
    leaves it points to, is at least the id of the pointer that led there (ids are u64).  Every valid
    archive satisfies it (a leaf pointer carries its leaf's first id and ids ascend); it is what makes
    skipping "leaves that start after the range" sound.  No other validity is assumed: duplicated
    ids, overlapping runs, back-referencing offsets are all covered.
    [C11_partial_open_valid] discharges the hypothesis for every spec-valid archive ([SpecLookup.wf_dir], the
    validity C03 quantifies over; by C02 every archive this library writes is one). *)
Require Import PM.Base PM.Oracles PM.Params PM.Header PM.Directory PM.Stream PM.TileManager PM.TileManagerProofs
               PM.DirReader PM.LookupProofs PM.FilterProofs PM.Archive PM.OpenFilterProofs PM.SpecLookup PM.ValidTreeProofs.
Open Scope N_scope.

(** for every combination of inclusive / exclusive / open bounds (incl. empty and inverted ranges and
    bounds at 0): a partial open never fails when the full open succeeds, reports the same settings and
    metadata, and yields exactly the tiles of the full opening whose ids lie in the range, each with
    identical bytes *)
Theorem C11_partial_open : forall cx img r pf h rest,
  decode_header img = Ok (h, rest) ->
  tree_ok cx (depth_fuel_of max_dir_depth) (h_icomp h) img (h_root_off h) (h_root_len h) (h_leaf_off h) 0 = true ->
  from_reader cx img full_range = Ok pf ->
  exists pp, from_reader cx img r = Ok pp /\ settings_eq pp pf /\
    forall id, get_tile (p_tm pp) id = if in_range r id then get_tile (p_tm pf) id else Ok None.
Proof. exact from_reader_filter. Qed.

(** ... in particular for every spec-valid archive *)
Theorem C11_partial_open_valid : forall cx img r pf h rest,
  decode_header img = Ok (h, rest) ->
  wf_dir cx (h_icomp h) img (h_leaf_off h) 4 (h_root_off h) (h_root_len h) 0 two64 ->
  from_reader cx img full_range = Ok pf ->
  exists pp, from_reader cx img r = Ok pp /\ settings_eq pp pf /\
    forall id, get_tile (p_tm pp) id = if in_range r id then get_tile (p_tm pf) id else Ok None.
Proof. intros cx img r pf h rest Hd. exact (partial_open_valid cx img r pf h rest Hd eq_refl). Qed.

(** the same for util::read_directories on its own *)
Theorem C11_read_directories : forall cx c img ro rl lo r tf,
  tree_ok cx (depth_fuel_of max_dir_depth) c img ro rl lo 0 = true ->
  read_directories cx c img ro rl lo full_range = Ok tf ->
  exists tp, read_directories cx c img ro rl lo r = Ok tp /\
             forall id, aget id tp = if in_range r id then aget id tf else None.
Proof. exact read_directories_filter. Qed.

(** the inclusive range end used for skipping leaves is an upper bound of the range, and an exclusive
    end of 0 (which made the unfixed code underflow) is simply the empty range *)
Theorem C11_range_end : forall r id, id < two64 -> in_range r id = true -> id <= range_end_inc r.
Proof. exact range_end_inc_bound. Qed.
Theorem C11_excl_zero : forall s id, in_range (mkRange s (Excl 0)) id = false.
Proof. exact range_excl_zero_empty. Qed.

(** non-vacuity: an archive image with one leaf; the hypothesis holds and the filtered read is the restriction *)
Definition ex_img : bytes :=
  (* root at 0: one pointer (id 5 -> leaf at leaf_off+0, 9 bytes); leaf at 7: two tiles 5 and 9 *)
  [1; 5; 0; 9; 1] ++ [0; 0] ++ [2; 5; 4; 1; 1; 3; 3; 1; 0].
Example C11_example :
  tree_ok ctx_id 4 CNone ex_img 0 5 7 0 = true /\
  read_directories ctx_id CNone ex_img 0 5 7 (mkRange (Incl 6) Unb) = Ok [(9, (3, 3))] /\
  read_directories ctx_id CNone ex_img 0 5 7 (mkRange Unb (Excl 5)) = Ok [].
Proof. vm_compute. repeat split; reflexivity. Qed.
