(** C19 — Documented rejection contracts hold and leave the archive unchanged. *)
Require Import PM.Base PM.Oracles PM.Params PM.Header PM.Directory PM.Stream PM.TileManager PM.DirReader
               PM.Archive PM.History PM.ContractProofs.
Open Scope N_scope.

(** adding a tile with empty content is refused with an error and changes nothing: the step function
    returns the very same archive value *)
Theorem C19_empty_tile : forall cx p id, step cx p (OAdd id []) = (p, RRes (Err EInput)).
Proof. exact step_add_empty. Qed.

(** a directory containing an entry of length 0 (at any index) is refused by the serialiser, for every
    compression and both API families *)
Theorem C19_zero_length_serialiser : forall cx asy c es, ascending None es ->
  (exists e, In e es /\ e_len e = 0) -> exists err, encode_dir cx asy c es = Err err.
Proof. exact encode_zero_length. Qed.

(** ... and by the parser: whatever the bytes, a successfully parsed directory holds no entry of length 0 *)
Theorem C19_zero_length_parser : forall cx c bs es, decode_dir cx c bs = Ok es -> Forall (fun e => 1 <= e_len e) es.
Proof. exact decode_dir_no_zero_length. Qed.

(** metadata that is valid JSON but not an object is refused when opening *)
Theorem C19_meta_shape : forall cx c sec plain, decompress_all cx c sec = Ok plain -> json_parse cx plain = Ok None ->
  read_meta cx c sec = Err EInvalid.
Proof. exact read_meta_non_object. Qed.
Theorem C19_meta_object_only : forall cx c sec m, read_meta cx c sec = Ok m ->
  exists plain, decompress_all cx c sec = Ok plain /\ json_parse cx plain = Ok (Some m).
Proof. exact read_meta_object. Qed.

(** 'unknown' internal compression is refused when writing (an error value, not a crash) ... *)
Theorem C19_unknown_write : forall cx asy p st res, p_icomp p = CUnknown -> finish cx (p_tm p) = Ok res ->
  ws_pos st + header_bytes < two64 -> to_writer cx asy p st = Err EOther.
Proof. exact to_writer_unknown. Qed.
(** ... and when opening, with or without a metadata section *)
Theorem C19_unknown_open : forall cx img r h rest, decode_header img = Ok (h, rest) -> h_icomp h = CUnknown ->
  exists e, from_reader cx img r = Err e.
Proof. exact from_reader_unknown. Qed.
(** ... and by the directory codec on its own *)
Theorem C19_unknown_directory : forall cx asy es bs,
  (exists e, encode_dir cx asy CUnknown es = Err e) /\ decode_dir cx CUnknown bs = Err EOther.
Proof. intros. split; [eexists; reflexivity|reflexivity]. Qed.

(** non-vacuity *)
Example C19_example_zero_length :
  encode_dir ctx_id false CGzip [mkEntry 1 0 5 1; mkEntry 2 5 0 1; mkEntry 3 5 1 1] = Err EInvalid
  /\ decode_dir ctx_id CNone [2; 1; 1; 1; 1; 5; 0; 1; 0] = Err EInvalid.
Proof. vm_compute. split; reflexivity. Qed.
