(** C02 — Written archives are valid PMTiles v3 as judged by an independent reader.

    The independent judge itself is the harness's specification-derived reader (harness/src/spec.rs: own
    header layout, own varints and directory codec, upstream codec crates, the specification's
    greatest-entry lookup); it validates EVERY file the Rust writer produces in the direct oracle and is
    where "reader and writer could share a misunderstanding" is ruled out.
    Proved here: [C02_written_is_spec_valid] — every archive the writer returns, with or without leaf
    directories, has a header that decodes, its root directory at offset 127 within the 16257-byte budget,
    and a directory tree that is spec-valid in the formal sense C03 quantifies over ([SpecLookup.wf_dir]:
    every directory decodes, entries strictly ascending with non-overlapping runs, every leaf between its
    pointer's id and the next entry's) — so by C03 every specification-conforming lookup finds exactly the
    written tiles.  And the individual facts the validity conditions need (premises as in C01): the 127-byte header carries magic and
    version and relative, consecutive, non-overlapping section offsets; header + root fit in 16 KiB; the
    directory is a VALID directory (strictly ascending, non-overlapping runs, lengths >= 1) that the
    specification encoder would emit byte for byte; every tile range lies inside the tile-data section
    and addresses exactly the bytes that were added; the three counters are the numbers of tiles,
    entries and distinct contents; entries are maximal runs; tile data is in tile-id order of first
    occurrence (clustered). *)
Require Import PM.Base PM.Varint PM.Oracles PM.Params PM.Float PM.Header PM.HeaderProofs PM.Directory PM.DirectoryProofs PM.Stream
               PM.TileManager PM.DirWriter PM.DirReader PM.Archive PM.FinishSpec PM.FinishProofs PM.PlaceProofs PM.ReadBackProofs PM.RoundTripProofs PM.SpillSpec PM.SpillProofs PM.SpecLookup PM.TileManagerProofs PM.WrittenValidProofs.
From Coq Require Import Sorting.Sorted.
Open Scope N_scope.

(** the written archive is spec-valid *)
Theorem C02_written_is_spec_valid : forall cx, codec_inv cx -> forall asy p tiles U root0 img,
  Inv cx (p_tm p) -> logical (p_tm p) = Ok tiles ->
  hash_inj_on cx U -> (forall c, In c U -> nlen c < two32) ->
  Forall (fun t => In (snd t) U /\ fst t < two63 /\ 1 <= nlen (snd t)) tiles -> nlen tiles + 1 < two32 ->
  StronglySorted (fun a b => fst a < fst b) tiles ->
  p_icomp p <> CUnknown -> p_minz p < 256 -> p_maxz p < 256 -> p_cz p < 256 ->
  encode_dir cx asy (p_icomp p) (fr_dir (spec_finish tiles)) = Ok root0 ->
  (forall k blobs ptrs, leaves_spec cx (p_icomp p) (chunks k (fr_dir (spec_finish tiles))) 0 = Ok (blobs, ptrs) ->
                        Forall (fun b => 1 <= nlen b < two32) blobs) ->
  (forall mb, compress cx asy (p_icomp p) (p_meta p) = Ok mb ->
              127 + nlen root0 + nlen mb + nlen (fr_data (spec_finish tiles)) + 1 < two64) ->
  to_bytes cx asy p = Ok img ->
  exists h rest, decode_header img = Ok (h, rest) /\ h_icomp h = p_icomp p /\ h_root_off h = 127 /\
    h_root_len h <= max_root_dir_length /\
    wf_dir cx (p_icomp p) img (h_leaf_off h) 4 (h_root_off h) (h_root_len h) 0 two64.
Proof.
  intros cx Hinv asy p tiles U root0 img HI Hlog Hinj Hsm Ht Hc Hs Hcomp Z1 Z2 Z3 Hr Hb Hsz Hto.
  exact (written_is_valid cx Hinv asy p tiles U root0 img HI Hlog Hinj Hsm Ht Hc Hs Hcomp Z1 Z2 Z3 eq_refl Hr Hb Hsz Hto).
Qed.

(** layout: header, then root directory at 127, metadata, (empty) leaf section, tile data — consecutive *)
Theorem C02_layout : forall cx asy p res root mb,
  finish cx (p_tm p) = Ok res ->
  encode_dir cx asy (p_icomp p) (fr_dir res) = Ok root -> nlen root <= max_root_dir_length ->
  compress cx asy (p_icomp p) (p_meta p) = Ok mb ->
  header_bytes = 127 -> 127 + nlen root + nlen mb + nlen (fr_data res) < two64 ->
  forall hb, encode_header (mkH 3 127 (nlen root) (127 + nlen root) (nlen mb) (127 + nlen root + nlen mb) 0
                 (127 + nlen root + nlen mb) (nlen (fr_data res))
                 (fr_addressed res) (fr_entries res) (fr_contents res) true
                 (p_icomp p) (p_tcomp p) (p_ttype p) (p_minz p) (p_maxz p)
                 (p_min_lon p) (p_min_lat p) (p_max_lon p) (p_max_lat p) (p_cz p) (p_clon p) (p_clat p)) = Ok hb ->
  to_bytes cx asy p = Ok (hb ++ root ++ mb ++ fr_data res).
Proof. exact to_bytes_fits. Qed.

(** header + root within the first 16 KiB *)
Theorem C02_root_budget : header_bytes + max_root_dir_length = 16384.
Proof. reflexivity. Qed.

(** the directory [finish] emits is a valid directory without pointer entries ... *)
Theorem C02_directory_valid : forall pl, pl_sorted 0 pl -> Forall pl_ok pl -> nlen pl + 1 < two32 ->
  valid_dir (runs pl None) /\ Forall (fun e => e_run e <> 0) (runs pl None).
Proof.
  intros pl Hs Hok Hn. split; [|apply runs_no_pointers; exact I].
  destruct (runs_valid pl None None) as [A B].
  - exact Hs.
  - exact Hok.
  - exact I.
  - cbn [run_of]. lia.
  - exact I.
  - reflexivity.
  - split; assumption.
Qed.
(** ... whose uncompressed serialisation is byte-for-byte the specification's encoding (C05) *)
Theorem C02_directory_bytes : forall cx asy es, valid_dir es -> encode_dir cx asy CNone es = Ok (spec_encode_dir es).
Proof. exact dir_plain_is_spec. Qed.

(** every tile's (offset, length) lies inside the tile-data section and addresses exactly its content *)
Theorem C02_tile_ranges : forall tiles,
  let pl := fst (place tiles [] 0) in
  let data := concat (snd (place tiles [] 0)) in
  Forall2 (fun t p => fst (fst p) = fst t /\ snd p = nlen (snd t) /\ snd (fst p) + snd p <= nlen data /\
                      section data (snd (fst p)) (snd p) = snd t) tiles pl.
Proof.
  intros tiles. cbv zeta. pose proof (place_slices tiles [] 0 [] eq_refl) as H. cbv zeta in H. cbn [app] in H.
  apply H. intros c o [].
Qed.

(** counters: addressed tiles, distinct contents; maximal runs; expansion of the runs = the placements *)
Theorem C02_counters : forall tiles,
  fr_addressed (spec_finish tiles) = nlen tiles /\
  fr_contents (spec_finish tiles) = nlen (first_occ (map snd tiles) []) /\
  fr_data (spec_finish tiles) = concat (first_occ (map snd tiles) []) /\
  no_mergeable (fr_dir (spec_finish tiles)) /\
  expand (fr_dir (spec_finish tiles)) = fst (place tiles [] 0).
Proof.
  intros tiles. destruct (spec_finish_data tiles) as (A & B & C).
  repeat split; try assumption; [apply spec_finish_runs_maximal|apply spec_finish_expand].
Qed.

(** and the written archive opens to the added bytes (C01) *)
Theorem C02_lookup : forall cx, codec_inv cx -> forall hb root mb data h es meta c,
  length hb = 127%nat -> header_bytes = 127 -> max_dir_depth = Some 3 ->
  decode_header (hb ++ root ++ mb ++ data) = Ok (h, root ++ mb ++ data) ->
  h_icomp h = c -> c <> CUnknown ->
  h_root_off h = 127 -> h_root_len h = nlen root -> h_meta_off h = 127 + nlen root -> h_meta_len h = nlen mb ->
  h_leaf_off h = 127 + nlen root + nlen mb -> h_data_off h = 127 + nlen root + nlen mb ->
  mb <> [] -> decompress_all cx c mb = Ok meta -> json_parse cx meta = Ok (Some meta) ->
  decode_dir cx c root = Ok es -> Forall (fun e => e_run e <> 0) es ->
  (forall id o l, In (id, o, l) (expand es) -> 1 <= l /\ o + l <= nlen data /\ 127 + nlen root + nlen mb + o < two64) ->
  (forall id o l o' l', In (id, o, l) (expand es) -> In (id, o', l') (expand es) -> o = o' /\ l = l') ->
  exists p', from_reader cx (hb ++ root ++ mb ++ data) full_range = Ok p' /\
    (forall id o l, In (id, o, l) (expand es) -> get_tile (p_tm p') id = Ok (Some (section data o l))) /\
    (forall id, (forall o l, ~ In (id, o, l) (expand es)) -> get_tile (p_tm p') id = Ok None).
Proof.
  intros cx _ hb root mb data h es meta c A1 A2 A3 A4 A5 A6 A7 A8 A9 A10 A11 A12 A13 A14 A15 A16 A17 A18 A19.
  destruct (from_reader_fits cx hb root mb data h es meta c A1 A2 A3 A4 A5 A6 A7 A8 A9 A10 A11 A12 A13 A14 A15 A16 A17 A18 A19)
    as (p' & H & _ & _ & _ & _ & _ & _ & _ & _ & _ & _ & _ & _ & _ & G1 & G2).
  exists p'. repeat split; assumption.
Qed.
