(** C17 — A torn write is never mistaken for a complete archive.
    The operation log of [to_writer] into a fresh stream (position 0) is, oldest first:
      position query, seek to 127, WRITES AT POSITIONS >= 127 ONLY (directories, metadata, leaves, tile
      data, incl. the abandoned first root of a spill), seek to 0, ONE write of the 127 header bytes,
      (async: flush), seek to the end.
    So a run interrupted before the header write has produced an image made of writes at >= 127 only —
    whatever prefix, however the section writes were fragmented, even with the last write cut short —
    and every such image is rejected by the reader; once the header write (atomic, per the property) has
    happened, no further write follows, so the image is the complete archive. *)
Require Import PM.Base PM.Oracles PM.Params PM.Header PM.Stream PM.DirReader PM.Archive PM.SpillProofs PM.WriterLogProofs.
Open Scope N_scope.

(** every image built from writes at positions >= 127 only is rejected (full or range-filtered open) *)
Theorem C17_torn_before_header_rejected : forall cx evs r, writes_ge 127 evs -> header_bytes = 127 ->
  exists e, from_reader cx (replay evs []) r = Err e.
Proof. exact torn_before_header_rejected. Qed.

(** the log of a write at position 0: all writes before the header write are at >= 127, the header is one
    write, and only non-writes follow it *)
Theorem C17_header_last : forall cx asy p st', to_writer cx asy p (ws_new [] 0) = Ok st' ->
  exists mid hb,
    ws_log st' = EvSeek (ws_pos st') :: (if asy then [EvFlush] else []) ++ EvWrite false 0 hb :: EvSeek 0 :: mid
                 ++ [EvSeek (0 + header_bytes); EvPos] /\
    writes_ge (0 + header_bytes) mid /\ length hb = 127%nat.
Proof.
  intros cx asy p st' H. destruct (to_writer_log cx asy p _ _ H) as (mid & hb & L & W & Lh).
  exists mid, hb. cbn [ws_new ws_pos ws_log] in *. split; [exact L|]. split; assumption.
Qed.

(** hence: every proper prefix of the recorded operations that stops before the header write — taken
    from any refinement of the log into smaller writes — replays to an image that does not open *)
Corollary C17_prefixes_rejected : forall cx asy p st' r, to_writer cx asy p (ws_new [] 0) = Ok st' -> header_bytes = 127 ->
  exists mid hb, rev (ws_log st') = [EvPos; EvSeek (0 + header_bytes)] ++ rev mid ++ [EvSeek 0; EvWrite false 0 hb] ++
                                    (if asy then [EvFlush] else []) ++ [EvSeek (ws_pos st')] /\
  forall k evs', writes_ge 127 evs' ->
    exists e, from_reader cx (replay (firstn k ([EvPos; EvSeek (0 + header_bytes)] ++ evs' ++ [EvSeek 0])) []) r = Err e.
Proof.
  intros cx asy p st' r H Hhb. destruct (C17_header_last cx asy p st' H) as (mid & hb & L & W & Lh).
  exists mid, hb. split.
  - rewrite L. cbn [rev]. destruct asy; cbn [app rev]; repeat rewrite rev_app_distr; cbn [rev app]; repeat rewrite <- app_assoc; reflexivity.
  - intros k evs' W'. apply torn_before_header_rejected; [|exact Hhb].
    unfold writes_ge. apply Forall_firstn'.
    repeat (apply Forall_app; split); try assumption; repeat constructor.
Qed.

Example C17_example :
  match to_writer ctx_id false (pm_new None) (ws_new [] 0) with
  | Ok st' => map (fun e => match e with EvWrite _ p b => (1, p, nlen b) | EvSeek p => (2, p, 0) | _ => (0, 0, 0) end) (rev (ws_log st'))
  | _ => []
  end = [(0,0,0); (2,127,0); (0,0,0); (1,127,1); (0,0,0); (0,0,0); (0,0,0); (1,128,2); (0,0,0); (0,0,0); (0,0,0); (2,0,0); (1,0,127); (2,130,0)].
Proof. vm_compute. reflexivity. Qed.
