(** C08 — Malformed input is answered with an error value, never a crash.
    In the model every unchecked Rust [+], [-], [pow], capacity request or unbounded recursion is an
    explicit [Crash]; the theorems say that no reader entry point reaches one, for EVERY byte string.

    Full statement (kept visible): additionally, re-writing ([to_writer]) an archive opened from
    arbitrary bytes never crashes.  Proved here: every reader entry point and every lookup, for every byte
    string; for the re-write clause [C08_rewrite]: an archive opened from ANY well-formed bytes is re-written without
    a crash (success, or the error of an unreadable tile) under size premises only - fewer than 2^32 tiles, output
    sections below 2^64; ids up to 2^64 - 2, unreadable tile ranges and colliding contents are all covered
    (RewriteSafetyProofs.v: the parser bounds every id by [check_runs]; [finish] is safe because ids arrive in
    ascending order).  [C08_rewrite_partial] adds success when every tile can be read and contents do not collide.
    Allocator and stack behaviour are observed (worker
    process), not modelled. *)
Require Import PM.Base PM.Oracles PM.Params PM.Header PM.Directory PM.DirectoryProofs PM.Stream PM.TileManager
               PM.DirReader PM.Hilbert PM.Archive PM.ArchiveProofs PM.SafetyProofs
               PM.TileManagerProofs PM.History PM.HistoryProofs PM.ReopenProofs PM.OpenRepProofs PM.TotalityProofs.
Open Scope N_scope.

Theorem C08_header : forall b c, decode_header b <> Crash c.
Proof. exact decode_header_no_crash. Qed.

(** entry counts near 2^64, overflowing id or offset sums, a zero first offset, truncated or overlong
    varints: whatever the bytes and the codec *)
Theorem C08_directory : forall cx c bs k, decode_dir cx c bs <> Crash k.
Proof. exact dir_decode_no_crash. Qed.

(** leaf pointers forming cycles or long chains, leaf offsets near 2^64: the walk is bounded by the
    depth limit and its additions are checked *)
Theorem C08_read_directories : forall cx c img ro rl lo r k, read_directories cx c img ro rl lo r <> Crash k.
Proof. exact read_directories_no_crash. Qed.

(** opening (fully or range-filtered); the only assumption is that the JSON parser itself returns *)
Theorem C08_open : forall cx, (forall b c, json_parse cx b <> Crash c) ->
  forall img r k, from_reader cx img r <> Crash k.
Proof. exact from_reader_no_crash. Qed.

(** lookups on any store, by id and by coordinates *)
Theorem C08_lookup : forall s id c, get_tile s id <> Crash c.
Proof. exact get_tile_no_crash. Qed.
Theorem C08_lookup_xyz : forall p x y z c, get_tile_xyz p x y z <> Crash c.
Proof. exact get_tile_xyz_no_crash. Qed.

Theorem C08_zxy : forall id k, zxy 32 id <> Crash k.
Proof. exact zxy_no_crash. Qed.

(** the depth limit the theorems rely on is the one in the source *)
(** re-writing an archive opened from arbitrary bytes, within the format's size limits: it succeeds *)
Theorem C08_rewrite_partial : forall cx, codec_inv cx -> codec_size cx -> forall img r p asy,
  from_reader cx img r = Ok p ->
  (forall id t, aget id (tile_by_id (p_tm p)) = Some t -> exists b, tile_content (p_tm p) t = Ok (Some b)) ->
  (forall m, Rep cx p m -> save_premises cx asy p m /\ save_sizes cx asy p) ->
  exists b, to_bytes cx asy p = Ok b.
Proof.
  intros cx Hinv Hsize img r p asy Hopen Hread Hprem.
  destruct (from_reader_shape cx img r p Hopen) as [HI Hsh].
  destruct (rep_of_store cx p HI Hsh Hread) as (m & HR & _).
  destruct (Hprem m HR) as [Hp Hs].
  apply (save_total cx Hsize asy p m HR Hp Hs); vm_compute; discriminate.
Qed.

(** the re-write clause at full strength: an archive opened from ANY well-formed byte string, however hostile its
    directories (ids up to 2^64 - 2, tile ranges that cannot be read, colliding contents), is re-written without
    a crash - the write succeeds, or it returns the error of the tile that could not be read.  Premises: fewer
    than 2^32 tiles and the physical sizes of the output below 2^64 / 2^32 ([rewrite_sizes]); no premise on ids,
    on readability or on the hash function.  [C08_write_never_crashes] is the same for any store whose ids
    are below 2^64 - 1 and whose contents are 1 .. 2^32 - 1 bytes long (in-memory tiles included). *)
Require Import PM.RewriteSafetyProofs.
Theorem C08_rewrite : forall cx, codec_size cx -> forall img r p asy,
  wf_bytes img -> from_reader cx img r = Ok p ->
  nlen (tile_by_id (p_tm p)) + 1 < two32 -> rewrite_sizes cx asy p ->
  (exists b, to_bytes cx asy p = Ok b) \/ (exists e, to_bytes cx asy p = Err e /\ finish cx (p_tm p) = Err e).
Proof.
  intros cx Hsize img r p asy Hw Hopen Hcnt Hsz.
  apply (rewrite_never_crashes cx Hsize img r p asy Hw Hopen Hcnt Hsz); try reflexivity; vm_compute; discriminate.
Qed.
Theorem C08_write_never_crashes : forall cx, codec_size cx -> forall asy p,
  TileManagerProofs.Inv cx (p_tm p) -> store_bounded (p_tm p) -> p_icomp p <> CUnknown ->
  nlen (tile_by_id (p_tm p)) + 1 < two32 -> rewrite_sizes cx asy p ->
  p_minz p < 256 -> p_maxz p < 256 -> p_cz p < 256 ->
  (exists b, to_bytes cx asy p = Ok b) \/ (exists e, to_bytes cx asy p = Err e /\ finish cx (p_tm p) = Err e).
Proof.
  intros cx Hsize asy p HI Hb Hc Hcnt Hsz Z1 Z2 Z3.
  apply (write_bounded_store cx Hsize asy p HI Hb Hc Hcnt Hsz Z1 Z2 Z3); try reflexivity; vm_compute; discriminate.
Qed.
(** what the parser guarantees for every directory it accepts, whatever the bytes *)
Theorem C08_parsed_entries_bounded : forall cx c bs es, decode_dir cx c bs = Ok es ->
  Forall (fun e => e_id e + e_run e < two64 /\ 1 <= e_len e /\ e_len e < two32) es.
Proof. exact decode_bounds. Qed.

(** non-vacuity: an archive with one tile whose last byte is cut off opens (tile data is read lazily) and its
    re-write returns an error, both by evaluation *)
Example C08_rewrite_example :
  let img := match (do s <- add_tile ctx_id (tm_empty None) 5 [7; 8; 9];
                    to_bytes ctx_id false (mkPM TUnknown CUnknown CNone 0 0 0 (Float.of_Z 0) (Float.of_Z 0) (Float.of_Z 0) (Float.of_Z 0) (Float.of_Z 0) (Float.of_Z 0) empty_object s))
             with Ok b => removelast b | _ => [] end in
  (do p <- from_reader ctx_id img full_range; to_bytes ctx_id false p) = Err EEof.
Proof. vm_compute. reflexivity. Qed.

Theorem C08_params : max_dir_depth = Some 3.
Proof. reflexivity. Qed.

(** what the code did before the fixes: hostile values reach a crash in the unfixed arithmetic *)
Example C08_before_fix_witness : add64 u64_max 1 = Crash Overflow /\ sub64 0 1 = Crash Overflow.
Proof. split; reflexivity. Qed.
(** non-vacuity: a self-referential leaf pointer is answered with an error *)
Example C08_cycle : exists e,
  read_directories ctx_id CNone [1; 0; 0; 5; 1] 0 5 0 full_range = Err e.
Proof. vm_compute. eauto. Qed.
