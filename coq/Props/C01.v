(** C01 — Write→read round trip preserves every tile, the metadata and header settings.

    [tiles] is the archive's logical content: the (id, content) list sorted by id ([logical]).
    [C01_roundtrip] is the property: for every archive value satisfying the store invariant, every JSON-object
    metadata (canonical bytes [p_meta]), every header setting, every supported internal compression and both
    API families, [to_bytes] SUCCEEDS and opening the written bytes yields byte-identical content for every
    tile, 'no such tile' for every other id, equal metadata, equal tile type / compressions / zooms, and each
    coordinate as [quantize_coord] = degrees of the stored i32 (C09 relates it to the nearest multiple of
    1e-7) — whether the directory fits the root ([C01_roundtrip_fits], image [C01_layout]) or is spilled into
    leaf directories ([C01_roundtrip_spill], image [C01_spill_layout]); [C01_roundtrip_any_image] states the
    reading half for whatever image the writer returns.
    Premises (all of them limits of the format or laws of the external libraries, none about the code's
    control flow): no hash collision among the contents; contents of 1 .. 2^32-1 bytes; ids below 2^63 (all
    valid tile ids are); fewer than 2^32-1 tiles; sections below 2^64 bytes in total; every leaf directory
    1 .. 2^32-1 bytes ([blobs_fit]: its length is a u32); codec laws [codec_inv] (decompress after compress is
    the identity) and [codec_size] (output at most 2 n + 1024 bytes), both exercised on the real codecs by the
    C14 run; the encoder never returns an empty stream for non-empty input. *)
Require Import PM.Base PM.Oracles PM.Params PM.Float PM.Header PM.HeaderProofs PM.Directory PM.Stream PM.TileManager PM.TileManagerProofs
               PM.DirWriter PM.DirReader PM.Archive PM.FinishSpec PM.FinishProofs PM.SpillSpec PM.SpillProofs PM.RoundTripProofs PM.SpillRoundTrip PM.TotalityProofs.
From Coq Require Import Sorting.Sorted.
Open Scope N_scope.

Theorem C01_roundtrip : forall cx, codec_inv cx -> codec_size cx -> forall asy p tiles U,
  Inv cx (p_tm p) -> logical (p_tm p) = Ok tiles ->
  hash_inj_on cx U -> (forall c, In c U -> nlen c < two32) ->
  Forall (fun t => In (snd t) U /\ fst t < two63 /\ 1 <= nlen (snd t)) tiles -> nlen tiles + 1 < two32 ->
  StronglySorted (fun a b => fst a < fst b) tiles ->
  p_icomp p <> CUnknown -> p_meta p <> [] -> json_parse cx (p_meta p) = Ok (Some (p_meta p)) ->
  (forall b z, b <> [] -> compress cx asy (p_icomp p) b = Ok z -> z <> []) ->
  p_minz p < 256 -> p_maxz p < 256 -> p_cz p < 256 ->
  blobs_fit cx (p_icomp p) (fr_dir (spec_finish tiles)) ->
  (forall mb, compress cx asy (p_icomp p) (p_meta p) = Ok mb ->
     16384 + nlen mb + nlen (fr_data (spec_finish tiles)) + 1 < two64 /\
     (forall root0, encode_dir cx asy (p_icomp p) (fr_dir (spec_finish tiles)) = Ok root0 ->
                    127 + nlen root0 + nlen mb + nlen (fr_data (spec_finish tiles)) + 1 < two64) /\
     forall k blobs ptrs, leaves_spec cx (p_icomp p) (chunks k (fr_dir (spec_finish tiles))) 0 = Ok (blobs, ptrs) ->
                          16384 + nlen mb + nlen (concat blobs) + nlen (fr_data (spec_finish tiles)) + 1 < two64) ->
  exists img p', to_bytes cx asy p = Ok img /\ from_reader cx img full_range = Ok p' /\
    (forall id c, In (id, c) tiles -> get_tile (p_tm p') id = Ok (Some c)) /\
    (forall id, ~ In id (map fst tiles) -> get_tile (p_tm p') id = Ok None) /\
    p_meta p' = p_meta p /\ p_ttype p' = p_ttype p /\ p_tcomp p' = p_tcomp p /\ p_icomp p' = p_icomp p /\
    p_minz p' = p_minz p /\ p_maxz p' = p_maxz p /\ p_cz p' = p_cz p /\
    p_min_lon p' = quantize_coord (p_min_lon p) /\ p_min_lat p' = quantize_coord (p_min_lat p) /\
    p_max_lon p' = quantize_coord (p_max_lon p) /\ p_max_lat p' = quantize_coord (p_max_lat p) /\
    p_clon p' = quantize_coord (p_clon p) /\ p_clat p' = quantize_coord (p_clat p).
Proof.
  intros cx Hinv Hsize asy p tiles U HI Hlog Hinj Hsmall Htiles Hcnt Hsorted Hc Hmne Hjson Hcne Z1 Z2 Z3 Hbf Hsz.
  apply (roundtrip_total cx Hinv Hsize asy p tiles U); try assumption; try reflexivity; vm_compute; discriminate.
Qed.

Theorem C01_roundtrip_fits : forall cx, codec_inv cx -> forall asy p tiles U root,
  Inv cx (p_tm p) -> logical (p_tm p) = Ok tiles ->
  hash_inj_on cx U -> (forall c, In c U -> nlen c < two32) ->
  Forall (fun t => In (snd t) U /\ fst t < two63 /\ 1 <= nlen (snd t)) tiles -> nlen tiles + 1 < two32 ->
  StronglySorted (fun a b => fst a < fst b) tiles ->
  p_icomp p <> CUnknown -> p_meta p <> [] -> json_parse cx (p_meta p) = Ok (Some (p_meta p)) ->
  (forall b z, b <> [] -> compress cx asy (p_icomp p) b = Ok z -> z <> []) ->
  p_minz p < 256 -> p_maxz p < 256 -> p_cz p < 256 ->
  header_bytes = 127 -> max_dir_depth = Some 3 ->
  encode_dir cx asy (p_icomp p) (fr_dir (spec_finish tiles)) = Ok root -> nlen root <= max_root_dir_length ->
  (forall mb, compress cx asy (p_icomp p) (p_meta p) = Ok mb ->
              127 + nlen root + nlen mb + nlen (fr_data (spec_finish tiles)) + 1 < two64) ->
  exists img p', to_bytes cx asy p = Ok img /\ from_reader cx img full_range = Ok p' /\
    (forall id c, In (id, c) tiles -> get_tile (p_tm p') id = Ok (Some c)) /\
    (forall id, ~ In id (map fst tiles) -> get_tile (p_tm p') id = Ok None) /\
    p_meta p' = p_meta p /\ p_ttype p' = p_ttype p /\ p_tcomp p' = p_tcomp p /\ p_icomp p' = p_icomp p /\
    p_minz p' = p_minz p /\ p_maxz p' = p_maxz p /\ p_cz p' = p_cz p /\
    p_min_lon p' = quantize_coord (p_min_lon p) /\ p_min_lat p' = quantize_coord (p_min_lat p) /\
    p_max_lon p' = quantize_coord (p_max_lon p) /\ p_max_lat p' = quantize_coord (p_max_lat p) /\
    p_clon p' = quantize_coord (p_clon p) /\ p_clat p' = quantize_coord (p_clat p).
Proof. exact roundtrip_fits. Qed.

Theorem C01_roundtrip_spill : forall cx, codec_inv cx -> forall asy p tiles U root0 img,
  Inv cx (p_tm p) -> logical (p_tm p) = Ok tiles ->
  hash_inj_on cx U -> (forall c, In c U -> nlen c < two32) ->
  Forall (fun t => In (snd t) U /\ fst t < two63 /\ 1 <= nlen (snd t)) tiles -> nlen tiles + 1 < two32 ->
  StronglySorted (fun a b => fst a < fst b) tiles ->
  p_icomp p <> CUnknown -> p_meta p <> [] -> json_parse cx (p_meta p) = Ok (Some (p_meta p)) ->
  (forall b z, b <> [] -> compress cx asy (p_icomp p) b = Ok z -> z <> []) ->
  p_minz p < 256 -> p_maxz p < 256 -> p_cz p < 256 ->
  header_bytes = 127 -> max_dir_depth = Some 3 ->
  encode_dir cx asy (p_icomp p) (fr_dir (spec_finish tiles)) = Ok root0 -> max_root_dir_length < nlen root0 ->
  (forall k blobs ptrs, leaves_spec cx (p_icomp p) (chunks k (fr_dir (spec_finish tiles))) 0 = Ok (blobs, ptrs) ->
                        Forall (fun b => 1 <= nlen b < two32) blobs) ->
  nlen (fr_data (spec_finish tiles)) + 1 < two64 ->
  to_bytes cx asy p = Ok img ->
  exists p', from_reader cx img full_range = Ok p' /\
    (forall id c, In (id, c) tiles -> get_tile (p_tm p') id = Ok (Some c)) /\
    (forall id, ~ In id (map fst tiles) -> get_tile (p_tm p') id = Ok None) /\
    p_meta p' = p_meta p /\ p_ttype p' = p_ttype p /\ p_tcomp p' = p_tcomp p /\ p_icomp p' = p_icomp p /\
    p_minz p' = p_minz p /\ p_maxz p' = p_maxz p /\ p_cz p' = p_cz p /\
    p_min_lon p' = quantize_coord (p_min_lon p) /\ p_min_lat p' = quantize_coord (p_min_lat p) /\
    p_max_lon p' = quantize_coord (p_max_lon p) /\ p_max_lat p' = quantize_coord (p_max_lat p) /\
    p_clon p' = quantize_coord (p_clon p) /\ p_clat p' = quantize_coord (p_clat p).
Proof. exact roundtrip_spill. Qed.

(** both cases at once: whatever image the writer returns opens to the same content *)
Theorem C01_roundtrip_any_image : forall cx, codec_inv cx -> forall asy p tiles U root0 img,
  Inv cx (p_tm p) -> logical (p_tm p) = Ok tiles ->
  hash_inj_on cx U -> (forall c, In c U -> nlen c < two32) ->
  Forall (fun t => In (snd t) U /\ fst t < two63 /\ 1 <= nlen (snd t)) tiles -> nlen tiles + 1 < two32 ->
  StronglySorted (fun a b => fst a < fst b) tiles ->
  p_icomp p <> CUnknown -> p_meta p <> [] -> json_parse cx (p_meta p) = Ok (Some (p_meta p)) ->
  (forall b z, b <> [] -> compress cx asy (p_icomp p) b = Ok z -> z <> []) ->
  p_minz p < 256 -> p_maxz p < 256 -> p_cz p < 256 ->
  header_bytes = 127 -> max_dir_depth = Some 3 ->
  encode_dir cx asy (p_icomp p) (fr_dir (spec_finish tiles)) = Ok root0 ->
  (forall k blobs ptrs, leaves_spec cx (p_icomp p) (chunks k (fr_dir (spec_finish tiles))) 0 = Ok (blobs, ptrs) ->
                        Forall (fun b => 1 <= nlen b < two32) blobs) ->
  (forall mb, compress cx asy (p_icomp p) (p_meta p) = Ok mb ->
              127 + nlen root0 + nlen mb + nlen (fr_data (spec_finish tiles)) + 1 < two64) ->
  to_bytes cx asy p = Ok img ->
  exists p', from_reader cx img full_range = Ok p' /\
    (forall id c, In (id, c) tiles -> get_tile (p_tm p') id = Ok (Some c)) /\
    (forall id, ~ In id (map fst tiles) -> get_tile (p_tm p') id = Ok None) /\
    p_meta p' = p_meta p /\ p_ttype p' = p_ttype p /\ p_tcomp p' = p_tcomp p /\ p_icomp p' = p_icomp p /\
    p_minz p' = p_minz p /\ p_maxz p' = p_maxz p /\ p_cz p' = p_cz p /\
    p_min_lon p' = quantize_coord (p_min_lon p) /\ p_min_lat p' = quantize_coord (p_min_lat p) /\
    p_max_lon p' = quantize_coord (p_max_lon p) /\ p_max_lat p' = quantize_coord (p_max_lat p) /\
    p_clon p' = quantize_coord (p_clon p) /\ p_clat p' = quantize_coord (p_clat p).
Proof. exact roundtrip_any. Qed.

(** the image that is written: header, root directory, metadata, tile data, back to back *)
Theorem C01_layout : forall cx asy p res root mb,
  finish cx (p_tm p) = Ok res ->
  encode_dir cx asy (p_icomp p) (fr_dir res) = Ok root -> nlen root <= max_root_dir_length ->
  compress cx asy (p_icomp p) (p_meta p) = Ok mb ->
  header_bytes = 127 -> 127 + nlen root + nlen mb + nlen (fr_data res) < two64 ->
  forall hb, encode_header (mkH 3 127 (nlen root) (127 + nlen root) (nlen mb) (127 + nlen root + nlen mb) 0
                 (127 + nlen root + nlen mb) (nlen (fr_data res))
                 (fr_addressed res) (fr_entries res) (fr_contents res) true
                 (p_icomp p) (p_tcomp p) (p_ttype p) (p_minz p) (p_maxz p)
                 (p_min_lon p) (p_min_lat p) (p_max_lon p) (p_max_lat p) (p_cz p) (p_clon p) (p_clat p)) = Ok hb ->
  to_bytes cx asy p = Ok (hb ++ root ++ mb ++ fr_data res).
Proof. exact to_bytes_fits. Qed.

(** ... and with leaf directories: header, root directory of pointers, metadata, leaf directories, tile data
    (then possibly stale bytes of an earlier, longer attempt — none in practice, the harness checks the length) *)
Theorem C01_spill_layout : forall cx asy p res root0 mb img,
  finish cx (p_tm p) = Ok res ->
  encode_dir cx asy (p_icomp p) (fr_dir res) = Ok root0 -> max_root_dir_length < nlen root0 ->
  compress cx asy (p_icomp p) (p_meta p) = Ok mb -> header_bytes = 127 ->
  to_bytes cx asy p = Ok img ->
  exists (k : nat) blobs ptrs root junk hb,
    (1 <= k)%nat /\ leaves_spec cx (p_icomp p) (chunks k (fr_dir res)) 0 = Ok (blobs, ptrs) /\
    encode_dir cx asy (p_icomp p) ptrs = Ok root /\ nlen root <= max_root_dir_length /\
    127 + nlen root + nlen mb + nlen (concat blobs) + nlen (fr_data res) < two64 /\
    encode_header (mkH 3 127 (nlen root) (127 + nlen root) (nlen mb) (127 + nlen root + nlen mb) (nlen (concat blobs))
               (127 + nlen root + nlen mb + nlen (concat blobs)) (nlen (fr_data res))
               (fr_addressed res) (fr_entries res) (fr_contents res) true
               (p_icomp p) (p_tcomp p) (p_ttype p) (p_minz p) (p_maxz p)
               (p_min_lon p) (p_min_lat p) (p_max_lon p) (p_max_lat p) (p_cz p) (p_clon p) (p_clat p)) = Ok hb /\
    img = hb ++ root ++ mb ++ concat blobs ++ fr_data res ++ junk.
Proof. exact to_bytes_spill. Qed.

(** non-vacuity: a concrete archive, written and read back by evaluation *)
Example C01_example :
  let tm3 := fold_left (fun s '(i, d) => match add_tile ctx_id s i d with Ok s' => s' | _ => s end) [(5, [1;2]); (6, [1;2]); (9, [7])] (tm_empty None) in
  let p := mkPM TPng CNone CGzip 0 3 1 (of_Z 0) (of_Z 0) (of_Z 0) (of_Z 0) (of_Z 0) (of_Z 0) [123; 125] tm3 in
  (do img <- to_bytes ctx_id false p; do p' <- from_reader ctx_id img full_range;
   Ok (get_tile (p_tm p') 5, get_tile (p_tm p') 6, get_tile (p_tm p') 9, get_tile (p_tm p') 7, p_meta p'))
  = Ok (Ok (Some [1;2]), Ok (Some [1;2]), Ok (Some [7]), Ok None, [123; 125]).
Proof. vm_compute. reflexivity. Qed.

(** non-vacuity of the spill case: see [C01_spill_example] in Examples.v (4200 tiles, evaluated with the VM; kept out
    of this file so that the independent checker coqchk, which has no VM, can re-check the theorems) *)
