(** C01 — Write→read round trip preserves every tile, the metadata and header settings.

    [tiles] is the archive's logical content: the (id, content) list sorted by id ([logical]).
    Proved ([C01_roundtrip_partial]): for every archive value satisfying the store invariant, every
    JSON-object metadata (canonical bytes [p_meta]), every header setting and every supported internal
    compression, IF the directory fits the root directory (no leaf spill), then [to_bytes] succeeds and
    opening the written bytes yields: byte-identical content for every tile, 'no such tile' for every
    other id, equal metadata, equal tile type / compressions / zooms, and each coordinate as
    [quantize_coord] = degrees of the stored i32 (C09 relates it to the nearest multiple of 1e-7).
    Premises: no hash collision among the contents; contents of 1 .. 2^32-1 bytes; ids below 2^63 (all
    valid tile ids are); fewer than 2^32-1 tiles; total size below 2^64; codec inverse law; the encoder
    never returns an empty stream for non-empty input.
    Missing for the full statement: the leaf-spill case (C06 gives the writer side; reading the leaves
    back is not composed yet) — covered by the correspondence run and the direct oracle on archives of
    4 500 … 50 000 tiles in all codecs. *)
Require Import PM.Base PM.Oracles PM.Params PM.Float PM.Header PM.HeaderProofs PM.Directory PM.Stream PM.TileManager PM.TileManagerProofs
               PM.DirWriter PM.DirReader PM.Archive PM.FinishSpec PM.FinishProofs PM.RoundTripProofs.
From Coq Require Import Sorting.Sorted.
Open Scope N_scope.

Theorem C01_roundtrip_partial : forall cx, codec_inv cx -> forall asy p tiles U root,
  Inv cx (p_tm p) -> logical (p_tm p) = Ok tiles ->
  hash_inj_on cx U -> (forall c, In c U -> nlen c < two32) ->
  Forall (fun t => In (snd t) U /\ fst t < two63 /\ 1 <= nlen (snd t)) tiles -> nlen tiles + 1 < two32 ->
  StronglySorted (fun a b => fst a < fst b) tiles ->
  p_icomp p <> CUnknown -> p_meta p <> [] -> json_parse cx (p_meta p) = Ok (Some (p_meta p)) ->
  (forall b z, b <> [] -> compress cx asy (p_icomp p) b = Ok z -> z <> []) ->
  p_minz p < 256 -> p_maxz p < 256 -> p_cz p < 256 ->
  header_bytes = 127 -> max_dir_depth = Some 3 ->
  encode_dir cx asy (p_icomp p) (fr_dir (spec_finish tiles)) = Ok root -> nlen root <= max_root_dir_length ->
  (forall mb, compress cx asy (p_icomp p) (p_meta p) = Ok mb ->
              127 + nlen root + nlen mb + nlen (fr_data (spec_finish tiles)) + 1 < two64) ->
  exists img p', to_bytes cx asy p = Ok img /\ from_reader cx img full_range = Ok p' /\
    (forall id c, In (id, c) tiles -> get_tile (p_tm p') id = Ok (Some c)) /\
    (forall id, ~ In id (map fst tiles) -> get_tile (p_tm p') id = Ok None) /\
    p_meta p' = p_meta p /\ p_ttype p' = p_ttype p /\ p_tcomp p' = p_tcomp p /\ p_icomp p' = p_icomp p /\
    p_minz p' = p_minz p /\ p_maxz p' = p_maxz p /\ p_cz p' = p_cz p /\
    p_min_lon p' = quantize_coord (p_min_lon p) /\ p_min_lat p' = quantize_coord (p_min_lat p) /\
    p_max_lon p' = quantize_coord (p_max_lon p) /\ p_max_lat p' = quantize_coord (p_max_lat p) /\
    p_clon p' = quantize_coord (p_clon p) /\ p_clat p' = quantize_coord (p_clat p).
Proof. exact roundtrip_fits. Qed.

(** the image that is written: header, root directory, metadata, tile data, back to back *)
Theorem C01_layout : forall cx asy p res root mb,
  finish cx (p_tm p) = Ok res ->
  encode_dir cx asy (p_icomp p) (fr_dir res) = Ok root -> nlen root <= max_root_dir_length ->
  compress cx asy (p_icomp p) (p_meta p) = Ok mb ->
  header_bytes = 127 -> 127 + nlen root + nlen mb + nlen (fr_data res) < two64 ->
  forall hb, encode_header (mkH 3 127 (nlen root) (127 + nlen root) (nlen mb) (127 + nlen root + nlen mb) 0
                 (127 + nlen root + nlen mb) (nlen (fr_data res))
                 (fr_addressed res) (fr_entries res) (fr_contents res) true
                 (p_icomp p) (p_tcomp p) (p_ttype p) (p_minz p) (p_maxz p)
                 (p_min_lon p) (p_min_lat p) (p_max_lon p) (p_max_lat p) (p_cz p) (p_clon p) (p_clat p)) = Ok hb ->
  to_bytes cx asy p = Ok (hb ++ root ++ mb ++ fr_data res).
Proof. exact to_bytes_fits. Qed.

(** non-vacuity: a concrete archive, written and read back by evaluation *)
Example C01_example :
  let tm3 := fold_left (fun s '(i, d) => match add_tile ctx_id s i d with Ok s' => s' | _ => s end) [(5, [1;2]); (6, [1;2]); (9, [7])] (tm_empty None) in
  let p := mkPM TPng CNone CGzip 0 3 1 (of_Z 0) (of_Z 0) (of_Z 0) (of_Z 0) (of_Z 0) (of_Z 0) [123; 125] tm3 in
  (do img <- to_bytes ctx_id false p; do p' <- from_reader ctx_id img full_range;
   Ok (get_tile (p_tm p') 5, get_tile (p_tm p') 6, get_tile (p_tm p') 9, get_tile (p_tm p') 7, p_meta p'))
  = Ok (Ok (Some [1;2]), Ok (Some [1;2]), Ok (Some [7]), Ok None, [123; 125]).
Proof. vm_compute. reflexivity. Qed.
