(** C18 — The archive writer honours the stream's starting position.

    Proved, for every archive, API family, pre-existing stream image and starting position P:
    - [C18_bytes_from_start]: a successful [to_writer] leaves the stream at P + n and the n bytes from P on are the
      first n bytes of the archive the same call writes into an empty stream at position 0 (which also succeeds),
      n being the archive's length (header + root + metadata + leaves + tile data);
    - [C18_start_position]: the bytes before P are untouched (zero-extended if the stream was shorter), the
      127-byte header sits at P, every section offset in it is relative to P (root at 127, the sections
      consecutive) and the stream is left at P + tile_data_offset + tile_data_length;
    - [C18_all_writes_after_start]: every write of the call is at or after P.
    By a two-run induction over the doubling loop and the writer ([leaf_loop_two], [write_directories_two]):
    both runs take the same decisions because these depend on lengths only. *)
Require Import PM.Base PM.Oracles PM.Params PM.Header PM.Stream PM.Archive PM.SpillProofs PM.WriterLogProofs PM.StartPosProofs PM.TileManager PM.Float.
Open Scope N_scope.

Theorem C18_start_position : forall cx asy p st st', to_writer cx asy p st = Ok st' ->
  let P := ws_pos st in
  before (ws_img st') P = before (ws_img st) P /\
  (exists hb h, length hb = 127%nat /\ section (ws_img st') P 127 = hb /\ encode_header h = Ok hb /\
                h_root_off h = header_bytes /\ h_meta_off h = h_root_off h + h_root_len h /\
                h_leaf_off h = h_meta_off h + h_meta_len h /\ h_data_off h = h_leaf_off h + h_leaf_len h /\
                ws_pos st' = P + h_data_off h + h_data_len h).
Proof. exact to_writer_start_position. Qed.

(** the bytes from P on are the archive written at 0 *)
Theorem C18_bytes_from_start : forall cx asy p st st', to_writer cx asy p st = Ok st' ->
  let P := ws_pos st in
  exists b n, to_bytes cx asy p = Ok b /\ ws_pos st' = P + n /\ n <= nlen b /\ 127 <= n /\
    firstn (N.to_nat n) (skipn (N.to_nat P) (ws_img st')) = firstn (N.to_nat n) b.
Proof. intros cx asy p st st' H. exact (to_writer_bytes_from_start cx asy p st st' H eq_refl). Qed.

(** before the fix the header went to absolute offset 0; now every write of the call is at or after P *)
Theorem C18_all_writes_after_start : forall cx asy p st st', to_writer cx asy p st = Ok st' ->
  exists mid hb,
    ws_log st' = EvSeek (ws_pos st') :: (if asy then [EvFlush] else []) ++ EvWrite false (ws_pos st) hb :: EvSeek (ws_pos st) :: mid
                 ++ EvSeek (ws_pos st + header_bytes) :: EvPos :: ws_log st /\
    writes_ge (ws_pos st + header_bytes) mid /\ length hb = 127%nat.
Proof. exact to_writer_log. Qed.

Example C18_example :
  match to_writer ctx_id false (pm_new None) (ws_new [9; 9; 9; 9; 9] 3) with
  | Ok st' => (firstn 3 (ws_img st'), ws_pos st' =? 3 + nlen (skipn 3 (ws_img st')), firstn 7 (skipn 3 (ws_img st')))
  | _ => ([], false, [])
  end = ([9; 9; 9], true, magic).
Proof. vm_compute. reflexivity. Qed.

Example C18_example_bytes :
  let tm3 := fold_left (fun s '(i, d) => match add_tile ctx_id s i d with Ok s' => s' | _ => s end) [(5, [1;2]); (6, [1;2]); (9, [7])] (tm_empty None) in
  let p := mkPM TPng CNone CGzip 0 3 1 (Float.of_Z 0) (Float.of_Z 0) (Float.of_Z 0) (Float.of_Z 0) (Float.of_Z 0) (Float.of_Z 0) [123; 125] tm3 in
  (do st' <- to_writer ctx_id true p (ws_new [9; 9; 9; 9; 9; 9; 9] 4); do b <- to_bytes ctx_id false p;
   Ok (firstn 4 (ws_img st'), N.eqb (ws_pos st') (4 + nlen b), forallb (fun '(x, y) => N.eqb x y) (combine (skipn 4 (ws_img st')) b), N.eqb (nlen (skipn 4 (ws_img st'))) (nlen b)))
  = Ok ([9; 9; 9; 9], true, true, true).
Proof. vm_compute. reflexivity. Qed.
