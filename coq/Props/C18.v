(** C18 — The archive writer honours the stream's starting position.

    Proved: for every archive, API family, pre-existing stream image and starting position P, a
    successful [to_writer] leaves the bytes before P untouched (zero-extended if the stream was shorter),
    puts the 127-byte header at P, records every section offset in it relative to P (root at 127, the
    sections consecutive), and leaves the stream at P + tile_data_offset + tile_data_length — the
    archive's end.
    Not yet a theorem (full statement): that the bytes from P on are byte-identical to the archive
    written at position 0; this clause is decided by the correspondence run (model vs Rust image, position
    and write/seek log at P in {0, 1, 10, 127, 128, 4096, random}, pre-filled and empty streams, with
    and without leaf spill) and the direct oracle. *)
Require Import PM.Base PM.Oracles PM.Params PM.Header PM.Stream PM.Archive PM.SpillProofs PM.WriterLogProofs.
Open Scope N_scope.

Theorem C18_start_position_partial : forall cx asy p st st', to_writer cx asy p st = Ok st' ->
  let P := ws_pos st in
  before (ws_img st') P = before (ws_img st) P /\
  (exists hb h, length hb = 127%nat /\ section (ws_img st') P 127 = hb /\ encode_header h = Ok hb /\
                h_root_off h = header_bytes /\ h_meta_off h = h_root_off h + h_root_len h /\
                h_leaf_off h = h_meta_off h + h_meta_len h /\ h_data_off h = h_leaf_off h + h_leaf_len h /\
                ws_pos st' = P + h_data_off h + h_data_len h).
Proof. exact to_writer_start_position. Qed.

(** before the fix the header went to absolute offset 0; now every write of the call is at or after P *)
Theorem C18_all_writes_after_start : forall cx asy p st st', to_writer cx asy p st = Ok st' ->
  exists mid hb,
    ws_log st' = EvSeek (ws_pos st') :: (if asy then [EvFlush] else []) ++ EvWrite false (ws_pos st) hb :: EvSeek (ws_pos st) :: mid
                 ++ EvSeek (ws_pos st + header_bytes) :: EvPos :: ws_log st /\
    writes_ge (ws_pos st + header_bytes) mid /\ length hb = 127%nat.
Proof. exact to_writer_log. Qed.

Example C18_example :
  match to_writer ctx_id false (pm_new None) (ws_new [9; 9; 9; 9; 9] 3) with
  | Ok st' => (firstn 3 (ws_img st'), ws_pos st' =? 3 + nlen (skipn 3 (ws_img st')), firstn 7 (skipn 3 (ws_img st')))
  | _ => ([], false, [])
  end = ([9; 9; 9], true, magic).
Proof. vm_compute. reflexivity. Qed.
