(** C14 — Compression helpers are exact inverses for every codec and chunking.
    The DEFLATE / brotli / zstd implementations are outside any Coq model here; for the three real
    codecs the inverse law [codec_inv] is the premise (validated on every correspondence case and by
    the direct oracle: one-shot and streamed, sync and async, cross-decoded by the upstream crates and,
    for gzip, by Python's zlib).  What is proved is the glue of src/util/compress.rs around them. *)
Require Import PM.Base PM.Oracles.
Open Scope N_scope.

(** requesting the 'unknown' compression is always an error, in every entry point *)
Theorem C14_unknown : forall cx asy b,
  (exists e, compress cx asy CUnknown b = Err e) /\ (exists e, decompress_all cx CUnknown b = Err e) /\
  (exists e, decompress_lazy cx CUnknown b = Err e).
Proof. intros. repeat split; eexists; reflexivity. Qed.

(** no compression: exact identity, whatever the chunking of the writes *)
Theorem C14_none : forall cx asy chunks,
  compress cx asy CNone (concat chunks) = Ok (concat chunks) /\ decompress_all cx CNone (concat chunks) = Ok (concat chunks).
Proof. intros. split; reflexivity. Qed.

(** every codec: compress then decompress returns the original bytes, given the codec's inverse law *)
Theorem C14_inverse : forall cx asy c b, codec_inv cx -> c <> CUnknown ->
  forall z, compress cx asy c b = Ok z -> decompress_all cx c z = Ok b.
Proof. exact compress_decompress. Qed.

(** the laws are satisfiable *)
Theorem C14_laws_satisfiable : codec_inv ctx_id /\ codec_size ctx_id.
Proof. split; [exact ctx_id_inv|exact ctx_id_size]. Qed.
