(** C03 — Spec-valid archives from other writers open to exactly the content they address.

    Proved:
    - [C03_open_meets_spec]: for every byte image whose header decodes, whose metadata section is absent or a JSON
      object, and whose directory tree is spec-valid ([wf_dir]: every directory decodes; entries strictly
      ascending with non-overlapping runs; every leaf stays between its pointer's tile id and the next entry's;
      at most three levels of leaves below the root; leaves anywhere in the leaf section, sections anywhere in
      the file, any supported codec) — [from_reader] succeeds, reports the header's settings and the stored
      metadata, and for EVERY tile id answers exactly what the lookup procedure of the PMTiles v3
      specification ([spec_lookup]: in each directory take the last entry whose id is <= the target; a run
      answers for its ids, a pointer hands over to its leaf) addresses: the entry-length bytes at tile-data
      offset + entry offset, or 'no such tile';
    - [C03_reader_meets_spec]: the same for [read_directories] alone, at any depth budget;
    - [C03_find_*]: the single-directory clause — looking an id up in a valid directory finds the entry whose
      run covers it and no other.
    Premise beyond validity: every addressed tile's absolute offset is below 2^64 and its length is not 0
    (both also demanded by the format).  The listing [tile_ids] is the set of ids with a lookup result. *)
Require Import PM.Base PM.Oracles PM.Params PM.Directory PM.DirectoryProofs PM.LookupProofs PM.Stream PM.Header PM.TileManager PM.DirReader PM.Archive PM.SpecLookup PM.SpecLookupProofs.
Open Scope N_scope.

Theorem C03_find_complete : forall es id e, valid_dir es -> In e es -> covers e id -> find_entry es id = Ok (Some e).
Proof. intros es id e [Hok Ha]. now apply find_entry_complete with None. Qed.

Theorem C03_find_sound : forall es id e, valid_dir es -> find_entry es id = Ok (Some e) -> In e es /\ covers e id.
Proof. intros es id e [Hok _]. now apply find_entry_sound. Qed.

Theorem C03_find_unique : forall es e e' id, valid_dir es -> In e es -> In e' es -> covers e id -> covers e' id -> e = e'.
Proof. intros es e e' id [_ Ha]. now apply covers_unique with None. Qed.

Theorem C03_find_no_crash : forall es id c, valid_dir es -> find_entry es id <> Crash c.
Proof. intros es id c [Hok _]. now apply find_entry_no_crash. Qed.

(** the reader's map is the specification's lookup on every valid directory tree *)
Theorem C03_reader_meets_spec : forall cx c img leaf_off fuel off len lo hi acc,
  wf_dir cx c img leaf_off fuel off len lo hi ->
  exists t, read_dir_rec cx fuel c img off len leaf_off full_range acc = Ok t /\
    forall id, exists r, spec_lookup cx c img leaf_off fuel off len id = Ok r /\
      aget id t = (match r with Some ol => Some ol | None => aget id acc end) /\ (r <> None -> lo <= id < hi).
Proof. exact read_meets_spec. Qed.

(** the opened archive serves exactly what the specification's lookup addresses *)
Theorem C03_open_meets_spec : forall cx img h rest meta,
  decode_header img = Ok (h, rest) ->
  (if h_meta_len h =? 0 then Ok empty_object else read_meta cx (h_icomp h) (section img (h_meta_off h) (h_meta_len h))) = Ok meta ->
  wf_dir cx (h_icomp h) img (h_leaf_off h) 4 (h_root_off h) (h_root_len h) 0 two64 ->
  (forall id o l, spec_lookup cx (h_icomp h) img (h_leaf_off h) 4 (h_root_off h) (h_root_len h) id = Ok (Some (o, l)) ->
                  h_data_off h + o < two64 /\ l <> 0) ->
  exists p', from_reader cx img full_range = Ok p' /\
    p_meta p' = meta /\ p_ttype p' = h_ttype h /\ p_tcomp p' = h_tcomp h /\ p_icomp p' = h_icomp h /\
    p_minz p' = h_minz h /\ p_maxz p' = h_maxz h /\ p_cz p' = h_cz h /\
    p_min_lon p' = h_min_lon h /\ p_min_lat p' = h_min_lat h /\ p_max_lon p' = h_max_lon h /\
    p_max_lat p' = h_max_lat h /\ p_clon p' = h_clon h /\ p_clat p' = h_clat h /\
    forall id, exists r, spec_lookup cx (h_icomp h) img (h_leaf_off h) 4 (h_root_off h) (h_root_len h) id = Ok r /\
      get_tile (p_tm p') id =
      match r with
      | Some (o, l) => do b <- read_at img (h_data_off h + o) l; Ok (Some b)
      | None => Ok None
      end.
Proof. intros cx img h rest meta Hd. exact (open_meets_spec cx img h rest meta Hd eq_refl). Qed.

(** non-vacuity: a two-level tree (the leaf stored BEFORE the root, a run of 2, a gap) is spec-valid, and the
    reader and the specification's lookup agree on it *)
Definition ex_leaf : bytes := match encode_dir ctx_id false CNone [mkEntry 5 0 3 2; mkEntry 9 3 1 1] with Ok b => b | _ => [] end.
Definition ex_root : bytes := match encode_dir ctx_id false CNone [mkEntry 5 0 (nlen ex_leaf) 0; mkEntry 20 4 2 1] with Ok b => b | _ => [] end.
Definition ex_img : bytes := ex_leaf ++ ex_root.
Example C03_example_wf : wf_dir ctx_id CNone ex_img 0 4 (nlen ex_leaf) (nlen ex_root) 0 two64.
Proof.
  cbn [wf_dir]. exists [mkEntry 5 0 (nlen ex_leaf) 0; mkEntry 20 4 2 1]. split; [vm_compute; reflexivity|].
  split; [lia|]. split; [cbn; lia|].
  cbn [wf_entries e_id e_run e_off e_len N.eqb]. split; [lia|]. split.
  - exists 0. split; [vm_compute; reflexivity|]. exists [mkEntry 5 0 3 2; mkEntry 9 3 1 1]. split; [vm_compute; reflexivity|].
    split; [unfold two64; lia|]. split; [cbn; lia|].
    cbn [wf_entries e_id e_run N.eqb Pos.eqb]. repeat split; unfold two64; try lia.
    + change (2 =? 0) with false. cbv iota. lia.
    + change (1 =? 0) with false. cbv iota. lia.
  - split; [unfold two64; lia|]. split; [change (1 =? 0) with false; cbv iota; unfold two64; lia|exact I].
Qed.
Example C03_example_tree :
  (read_dir_rec ctx_id 4 CNone ex_img (nlen ex_leaf) (nlen ex_root) 0 full_range [],
   map (spec_lookup ctx_id CNone ex_img 0 4 (nlen ex_leaf) (nlen ex_root)) [4; 5; 6; 7; 9; 10; 20; 21])
  = (Ok [(20, (4, 2)); (9, (3, 1)); (6, (0, 3)); (5, (0, 3))],
     [Ok None; Ok (Some (0, 3)); Ok (Some (0, 3)); Ok None; Ok (Some (3, 1)); Ok None; Ok (Some (4, 2)); Ok None]).
Proof. vm_compute. reflexivity. Qed.

Example C03_example : find_entry [mkEntry 1 0 5 2; mkEntry 3 9 9 0; mkEntry 10 5 1 3] 11 = Ok (Some (mkEntry 10 5 1 3))
  /\ find_entry [mkEntry 1 0 5 2; mkEntry 3 9 9 0; mkEntry 10 5 1 3] 3 = Ok None.
Proof. vm_compute. split; reflexivity. Qed.
