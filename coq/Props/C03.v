(** C03 — Spec-valid archives from other writers open to exactly the content they address.

    Full statement (kept visible): for every spec-valid archive [b] (any section order or padding, leaf
    trees up to depth 3, run lengths, shared / unordered offsets, empty metadata, any codec):
    [from_reader cx b full_range = Ok p] with [tile_ids p] = the ids its directories address and
    [get_tile p id] = the entry-length bytes at tile-data offset + entry offset.

    Proved so far ([C03_find_*]): the single-directory clause — looking an id up in a valid directory finds
    the entry whose run covers it and no other.  The archive-level clause is decided by the
    correspondence run (model reader vs Rust reader on archives emitted by the independent
    spec-level writer) and the direct oracle (independent spec reader); the theorem relating
    [read_directories] to the specification's greatest-entry lookup is work in progress. *)
Require Import PM.Base PM.Directory PM.DirectoryProofs PM.LookupProofs.
Open Scope N_scope.

Theorem C03_find_complete : forall es id e, valid_dir es -> In e es -> covers e id -> find_entry es id = Ok (Some e).
Proof. intros es id e [Hok Ha]. now apply find_entry_complete with None. Qed.

Theorem C03_find_sound : forall es id e, valid_dir es -> find_entry es id = Ok (Some e) -> In e es /\ covers e id.
Proof. intros es id e [Hok _]. now apply find_entry_sound. Qed.

Theorem C03_find_unique : forall es e e' id, valid_dir es -> In e es -> In e' es -> covers e id -> covers e' id -> e = e'.
Proof. intros es e e' id [_ Ha]. now apply covers_unique with None. Qed.

Theorem C03_find_no_crash : forall es id c, valid_dir es -> find_entry es id <> Crash c.
Proof. intros es id c [Hok _]. now apply find_entry_no_crash. Qed.

Example C03_example : find_entry [mkEntry 1 0 5 2; mkEntry 3 9 9 0; mkEntry 10 5 1 3] 11 = Ok (Some (mkEntry 10 5 1 3))
  /\ find_entry [mkEntry 1 0 5 2; mkEntry 3 9 9 0; mkEntry 10 5 1 3] 3 = Ok None.
Proof. vm_compute. split; reflexivity. Qed.
