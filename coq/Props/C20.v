(** C20 — Opening is lazy and every read stays inside the section it serves.
    [open_windows] lists, in request order, the (offset, length) windows the model of from_reader asks
    the stream for (each through seek + take): the header's 127 bytes, the metadata section, the root
    directory, every leaf directory visited.  The tile-data section is never among them unless a
    pointer entry declares a window into it — which the archive's own (non-overlapping) layout rules out.
    A lookup fetches exactly [offset, offset + length).
    [C20_open_needs_only_its_windows]: the opening procedure over the I/O interface ([IOReader.open_io], which on an
    ideal stream is exactly what [from_reader] computes — [C15_reader_is_the_model]) gives the same result when every
    request OUTSIDE those windows fails: the open cannot have read a byte elsewhere, in particular none of the
    tile-data section.

    Partial: the model exposes WHICH windows are requested; that the Rust readers (and the codec
    adapters' read-ahead under take) stay inside them is decided by the recording-reader oracle: read
    ranges of from_reader(_partially) / get_tile_by_id, sync and async, on library-written and foreign
    layouts (gaps, permuted sections, 4 codecs, leaf trees, tiles above 64 KiB). *)
Require Import PM.Base PM.Oracles PM.Params PM.Header PM.Directory PM.Stream PM.IO PM.IOProofs PM.DirReader PM.Archive PM.ReadWindows PM.IOReader PM.IOReaderProofs.
Open Scope N_scope.

(** the open depends on nothing outside the windows it requests *)
Theorem C20_open_needs_only_its_windows : forall cx bad img r ws,
  open_windows cx img r = Ok ws -> (forall w, In w ws -> bad (fst w) (snd w) = false) ->
  open_io cx (fail_on bad (img_fetch img)) r = open_io cx (img_fetch img) r.
Proof. intros cx bad img r ws. exact (open_io_only_windows cx bad img r ws eq_refl). Qed.

(** every directory window requested is the root window or one that a pointer entry (run length 0) of a
    directory already read declares: leaf_directories_offset + entry offset, entry length *)
Theorem C20_directory_windows : forall cx fuel c img off len leaf_off r ws w,
  dir_windows cx fuel c img off len leaf_off r = Ok ws -> In w ws -> declared cx c img leaf_off fuel off len w.
Proof. exact dir_windows_declared. Qed.

(** opening requests the header window first, then the metadata window if (and only if) the header
    declares a non-empty metadata section, then directory windows only *)
Theorem C20_open_windows : forall cx img r ws, open_windows cx img r = Ok ws ->
  exists h rest dws, decode_header img = Ok (h, rest) /\
    dir_windows cx (depth_fuel_of max_dir_depth) (h_icomp h) img (h_root_off h) (h_root_len h) (h_leaf_off h) r = Ok dws /\
    ws = (0, header_bytes) :: (if h_meta_len h =? 0 then [] else [(h_meta_off h, h_meta_len h)]) ++ dws.
Proof.
  intros cx img r ws H. unfold open_windows in H.
  destruct (decode_header img) as [[h rest]| |] eqn:Eh; cbn [bind] in H; try discriminate.
  destruct (dir_windows cx _ (h_icomp h) img (h_root_off h) (h_root_len h) (h_leaf_off h) r) as [dws| |] eqn:Ed; cbn [bind] in H; try discriminate.
  injection H as <-. exists h, rest, dws. repeat split; assumption.
Qed.

(** a tile lookup reads exactly the tile's byte range [offset, offset + length) — as a chain of consecutive
    reads, whatever the stream's fragmentation — and returns those bytes *)
Theorem C20_fetch_exact : forall off len s, 1 <= len -> off + len <= nlen (rd_img s) ->
  exists s', fetch off len s = Ok (section (rd_img s) off len, s') /\
             exists new, rd_log s' = new ++ rd_log s /\ chain (rev new) off (off + len).
Proof.
  intros off len s Hl Hav. unfold fetch.
  destruct (read_exact_ok (S (N.to_nat len)) len (mkRd (rd_img s) off (rd_sched s) (rd_log s))) as (s' & Hr & _ & _ & new & Hlog & Hch);
    try (cbn [rd_img rd_pos]; lia).
  exists s'. split; [exact Hr|]. exists new. split; [exact Hlog|exact Hch].
Qed.

Example C20_example :
  open_windows ctx_id (firstn 127 (match encode_header (mkH 3 127 5 0 0 132 9 141 3 2 2 2 true CNone CNone TPng 0 0 (Float.of_Z 0) (Float.of_Z 0) (Float.of_Z 0) (Float.of_Z 0) 0 (Float.of_Z 0) (Float.of_Z 0)) with Ok b => b | _ => [] end)
                        ++ [1; 5; 0; 9; 1] ++ [2; 5; 4; 1; 1; 3; 3; 1; 0] ++ [7; 7; 7]) full_range
  = Ok [(0, 127); (127, 5); (132, 9)].
Proof. vm_compute. reflexivity. Qed.
