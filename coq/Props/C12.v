(** C12 — Synchronous and asynchronous APIs are observationally equivalent.
    In the model the two API families share every reader (there is one [from_reader], one [decode_dir], one
    [decode_header]: the async-only parts — header read, metadata read_to_end, codec selection — have
    the same denotation on an ideal stream), and the writers take the family as a parameter [asy] that
    selects the codec oracle ([comp cx asy]) and flush-vs-close bookkeeping.

    Proved: the writers of the two families leave the stream with the same image and position (same
    error otherwise) whenever their encoders agree on the archive's internal compression — which is
    always the case without a codec ([C12_none_identical]: byte-identical archives); for gzip / brotli /
    zstd the encoders of the two families legitimately produce different bytes, and equality of the
    logical content after reading is C01 for each family.
    Partial: executors, wakers and the async-compression adapters are not modelled; that the Rust async
    twins behave like the model is established by running every correspondence case of C01/C03/C05/
    C06/C09/C11 through both families, and by the direct oracle comparing the families with each other
    (cross-reading included). *)
Require Import PM.Base PM.Oracles PM.Params PM.Directory PM.Stream PM.DirWriter PM.Archive PM.SyncAsyncProofs.
Open Scope N_scope.

Theorem C12_writers_agree : forall cx a1 a2 p s1 s2,
  (forall b, compress cx a1 (p_icomp p) b = compress cx a2 (p_icomp p) b) ->
  st_eq s1 s2 -> res_eq0 (to_writer cx a1 p s1) (to_writer cx a2 p s2).
Proof. exact to_writer_eq. Qed.

Theorem C12_none_identical : forall cx a1 a2 p, p_icomp p = CNone -> to_bytes cx a1 p = to_bytes cx a2 p.
Proof. exact to_bytes_none. Qed.

Theorem C12_write_directories : forall cx c a1 a2, (forall b, compress cx a1 c b = compress cx a2 c b) ->
  forall es ss s1 s2, st_eq s1 s2 -> res_eq (write_directories cx a1 c es ss s1) (write_directories cx a2 c es ss s2).
Proof. exact write_directories_eq. Qed.

Theorem C12_directory : forall cx c a1 a2, (forall b, compress cx a1 c b = compress cx a2 c b) ->
  forall es s1 s2, st_eq s1 s2 -> res_eq (write_dir cx a1 c es s1) (write_dir cx a2 c es s2).
Proof. exact write_dir_eq. Qed.

Example C12_example :
  to_bytes ctx_id true (pm_new None) = to_bytes ctx_id false (pm_new None) /\ is_ok (to_bytes ctx_id true (pm_new None)) = true.
Proof. vm_compute. split; reflexivity. Qed.
