(** C15 — I/O failures surface as errors, never as success or a crash.
    Model: every stream operation of a writer is an event of its operation log; all of them return their
    error to the caller ([?]) except the writes a synchronous codec writer issues from its Drop
    ([EvWrite true]).  Under a fail-stop fault from operation k on, the call returns an error iff some
    operation at or after k propagates ([reports_error]).

    Proved: for the archive writer and for write_directories the LAST operation always propagates, so
    every fault index yields an error — in particular the drop-time writes of the directory and
    metadata encoders are always followed by a propagating position query.  [C15_lost_in_drop] exhibits
    the one place where this fails in the model: Directory::to_writer on its own (sync, with a codec)
    ends with a drop-time write — the known finding D6.
    Partial: the readers' fault behaviour (every read/seek is followed by [?]) and panics are decided by
    the fault-injection oracle only (every fault index k < N of every scenario, sync and async). *)
Require Import PM.Base PM.Oracles PM.Params PM.Directory PM.Stream PM.DirWriter PM.Archive PM.WriterLogProofs.
Open Scope N_scope.

Theorem C15_archive_writer : forall cx asy p st st', to_writer cx asy p st = Ok st' ->
  exists new, ws_log st' = new ++ ws_log st /\
    forall k, (k < length new)%nat -> reports_error (rev new) k = true.
Proof.
  intros cx asy p st st' H. destruct (to_writer_log cx asy p st st' H) as (mid & hb & L & _ & _).
  eexists (EvSeek (ws_pos st') :: ((if asy then [EvFlush] else []) ++ EvWrite false (ws_pos st) hb :: EvSeek (ws_pos st) :: mid ++ [EvSeek (ws_pos st + header_bytes); EvPos])).
  split.
  - rewrite L. cbn [app]. f_equal. rewrite <- !app_assoc. cbn [app]. f_equal. f_equal. f_equal. rewrite <- app_assoc. reflexivity.
  - intros k Hk. cbn [rev]. apply reports_error_last; [reflexivity|]. rewrite app_length, rev_length. cbn [length] in *. lia.
Qed.

(** the sync directory writer with a codec, on its own: when the encoder keeps bytes back until it is
    dropped, a fault that starts inside those writes goes unreported *)
Theorem C15_lost_in_drop : exists cx es st st' n k,
  write_dir cx false CGzip es st = Ok (st', n) /\ (k < length (ws_log st'))%nat /\
  reports_error (rev (ws_log st')) k = false.
Proof.
  exists (mkCtx (fun _ _ b => b ++ [1; 2]) (decomp ctx_id) (json_parse ctx_id) (hash ctx_id) (fun _ _ => 2)),
         [], (ws_new [] 0).
  eexists. eexists. exists 2%nat. vm_compute. repeat split; reflexivity.
Qed.

(** in the model no I/O path ends in a panic: results are Ok / Err / Crash and the writers' Crash sites are
    arithmetic only (see C08 for the readers) *)
Example C15_example :
  match to_writer ctx_id true (pm_new None) (ws_new [] 0) with
  | Ok st' => forallb (reports_error (rev (ws_log st'))) (seq 0 (length (ws_log st')))
  | _ => false
  end = true.
Proof. vm_compute. reflexivity. Qed.
