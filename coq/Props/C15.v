(** C15 — I/O failures surface as errors, never as success or a crash.
    Model: every stream operation of a writer is an event of its operation log; all of them return their
    error to the caller ([?]) except the writes a synchronous codec writer issues from its Drop
    ([EvWrite true]).  Under a fail-stop fault from operation k on, the call returns an error iff some
    operation at or after k propagates ([reports_error]).

    Proved: for the archive writer and for write_directories the LAST operation always propagates, so
    every fault index yields an error — in particular the drop-time writes of the directory and
    metadata encoders are always followed by a propagating position query.  [C15_directory_writer]: the
    directory writer on its own issues propagating operations only (since the repair of D6 the synchronous
    one encodes into memory and hands the finished bytes over with write_all + flush);
    [C15_lost_in_drop_before_repair] exhibits what the streaming writer did before.
    Readers: [IOReader.open_io] is the reader over an abstract I/O interface in which every byte is obtained by a
    [fetch off len] request; [C15_reader_is_the_model] — on an ideal stream it computes exactly what
    [from_reader] builds its archive from; [C15_reader_fail_stop] — if ANY window the open requests (the 127
    header bytes, the metadata section, the root directory, every leaf directory visited; ReadWindows.v) fails,
    the open returns an error: not a success, not a crash; [C15_reader_degrades] — whatever subset of
    requests fails, the result is the fault-free success, the fault-free crash (there is none: C08) or an error.
    Lookups: [C15_lookup_is_the_model] / [C15_lookup_fail_stop] — a reader-backed tile is one exact fetch of its
    byte range; a fault on it is an error, never 'no such tile', never other bytes.
    Left to the fault-injection oracle (every fault index k < N of every scenario, sync and async): the writers' panics, and that the implementation's readers are built from
    fetches as modelled (tied by the fault-free correspondence and the fault enumeration). *)
Require Import PM.Base PM.Oracles PM.Params PM.Directory PM.Stream PM.DirWriter PM.Archive PM.WriterLogProofs PM.Header PM.TileManager PM.DirReader PM.ReadWindows PM.IOReader PM.IOReaderProofs.
Open Scope N_scope.

Theorem C15_archive_writer : forall cx asy p st st', to_writer cx asy p st = Ok st' ->
  exists new, ws_log st' = new ++ ws_log st /\
    forall k, (k < length new)%nat -> reports_error (rev new) k = true.
Proof.
  intros cx asy p st st' H. destruct (to_writer_log cx asy p st st' H) as (mid & hb & L & _ & _).
  eexists (EvSeek (ws_pos st') :: ((if asy then [EvFlush] else []) ++ EvWrite false (ws_pos st) hb :: EvSeek (ws_pos st) :: mid ++ [EvSeek (ws_pos st + header_bytes); EvPos])).
  split.
  - rewrite L. cbn [app]. f_equal. rewrite <- !app_assoc. cbn [app]. f_equal. f_equal. f_equal. rewrite <- app_assoc. reflexivity.
  - intros k Hk. cbn [rev]. apply reports_error_last; [reflexivity|]. rewrite app_length, rev_length. cbn [length] in *. lia.
Qed.

(** the directory writer on its own (sync and async, every codec): every operation it issues returns its
    error to the caller, so a fault starting at ANY of its operations is reported.  (Before the repair of
    D6 the synchronous writer streamed through the codec writer and the encoder's last bytes were written
    from Drop: see [C15_lost_in_drop_before_repair].) *)
Theorem C15_directory_writer : forall cx asy c es st st' n, write_dir cx asy c es st = Ok (st', n) ->
  exists new, ws_log st' = new ++ ws_log st /\ (0 < length new)%nat /\ forall k, (k < length new)%nat -> reports_error (rev new) k = true.
Proof.
  intros cx asy c es st st' n H. unfold write_dir in H.
  destruct (compress cx asy c []) as [x| |]; cbn [bind] in H; try discriminate.
  destruct (encode_dir_plain es) as [plain| |]; cbn [bind] in H; try discriminate.
  destruct (compress cx asy c plain) as [z| |]; cbn [bind] in H; try discriminate.
  injection H as <- _. unfold ws_write_dir, ws_write, ws_write_gen.
  destruct z as [|b z]; cbn [ws_log_ev ws_log].
  - exists [if asy then EvClose else EvFlush]. repeat split; [cbn; lia|].
    intros k Hk. cbn [length] in Hk. assert (k = 0)%nat by lia. subst k. destruct asy; reflexivity.
  - exists [if asy then EvClose else EvFlush; EvWrite false (ws_pos st) (b :: z)]. repeat split; [cbn; lia|].
    intros k Hk. cbn [rev app]. apply (reports_error_last [EvWrite false (ws_pos st) (b :: z)]); [now destruct asy|exact Hk].
Qed.

(** D6, the behaviour before the repair: the synchronous directory writer streaming through a codec writer
    that keeps bytes back until it is dropped; a fault that starts inside those writes went unreported *)
Theorem C15_lost_in_drop_before_repair : exists cx es st st' n k,
  write_dir_streaming cx CGzip es st = Ok (st', n) /\ (k < length (ws_log st'))%nat /\ reports_error (rev (ws_log st')) k = false.
Proof.
  exists (mkCtx (fun _ _ b => b ++ [1; 2]) (decomp ctx_id) (json_parse ctx_id) (hash ctx_id) (fun _ _ => 2)),
         [], (ws_new [] 0).
  eexists. eexists. exists 2%nat. vm_compute. repeat split; reflexivity.
Qed.

(** the reader over the I/O interface is the reader of the model *)
Theorem C15_reader_is_the_model : forall cx img r,
  from_reader cx img r =
  (do (hm, tiles) <- open_io cx (img_fetch img) r;
   let '(h, meta) := hm in
   do s <- register_tiles (h_data_off h) tiles (tm_empty (Some img));
   Ok (mkPM (h_ttype h) (h_tcomp h) (h_icomp h) (h_minz h) (h_maxz h) (h_cz h)
            (h_min_lon h) (h_min_lat h) (h_max_lon h) (h_max_lat h) (h_clon h) (h_clat h) meta s)).
Proof. intros cx img r. exact (open_io_ideal cx img r eq_refl). Qed.

(** a fault on any window the open requests makes the open return an error *)
Theorem C15_reader_fail_stop : forall cx bad, (forall b c, json_parse cx b <> Crash c) -> forall img r ws,
  open_windows cx img r = Ok ws -> (exists w, In w ws /\ bad (fst w) (snd w) = true) ->
  exists e, open_io cx (fail_on bad (img_fetch img)) r = Err e.
Proof. intros cx bad Hj img r ws. exact (open_io_fail_stop cx bad Hj img r ws eq_refl). Qed.

(** whatever requests fail: the fault-free result, or an error *)
Theorem C15_reader_degrades : forall cx bad fetch r,
  match open_io cx (fail_on bad fetch) r with
  | Ok x => open_io cx fetch r = Ok x
  | Crash c => open_io cx fetch r = Crash c
  | Err _ => True
  end.
Proof. exact open_io_degrades. Qed.

(** tile lookups over the same interface *)
Theorem C15_lookup_is_the_model : forall img (s : tm) id, backing s = Some img ->
  (forall off len, aget id (tile_by_id s) = Some (TOffLen off len) -> 1 <= len) ->
  get_tile_io (img_fetch img) s id = get_tile s id.
Proof. exact get_tile_io_ideal. Qed.
Theorem C15_lookup_fail_stop : forall (bad : N -> N -> bool) fetch (s : tm) id off len,
  aget id (tile_by_id s) = Some (TOffLen off len) -> bad off len = true ->
  get_tile_io (fail_on bad fetch) s id = Err EOther.
Proof. exact get_tile_io_fail_stop. Qed.

(** non-vacuity: the empty archive written by the model; failing the root directory window alone makes the open fail *)
Example C15_reader_example :
  let img := (match to_bytes ctx_id false (pm_new None) with Ok b => b | _ => [] end) in
  (open_windows ctx_id img full_range, open_io ctx_id (fail_on (fun o _ => o =? 127) (img_fetch img)) full_range)
  = (Ok [(0, 127); (128, 2); (127, 1)], Err EOther).
Proof. vm_compute. reflexivity. Qed.

(** in the model no I/O path ends in a panic: results are Ok / Err / Crash and the writers' Crash sites are
    arithmetic only (see C08 for the readers) *)
Example C15_example :
  match to_writer ctx_id true (pm_new None) (ws_new [] 0) with
  | Ok st' => forallb (reports_error (rev (ws_log st'))) (seq 0 (length (ws_log st')))
  | _ => false
  end = true.
Proof. vm_compute. reflexivity. Qed.
