(** C10 — Deduplication and run-length encoding are exact and minimal.

    This file holds the in-memory retention clause (every reachable builder state retains exactly one
    copy of each content some tile refers to and none that no tile refers to); the layout clauses
    (tile data = distinct contents once, shared offsets, maximal runs) are in the second half. *)
Require Import PM.Base PM.Oracles PM.Directory PM.TileManager PM.TileManagerProofs PM.Archive PM.History PM.HistoryProofs.
Open Scope N_scope.

(** the invariant holds initially and is preserved by every edit, hence in every reachable state *)
Theorem C10_retention_invariant : forall cx ops p m, Rep cx p m -> forallb map_op ops = true ->
  hist_collision_free cx p ops -> Inv cx (p_tm (fst (run cx p ops))).
Proof. intros cx ops p m HR Ho Hc. apply (history_refines cx ops p m HR Ho Hc). Qed.

(** what the invariant says: every stored content is the content of some tile that refers to it, every
    in-memory tile's content is stored, and no content is stored twice (distinct keys; equal contents
    have equal hashes, so one key) *)
Theorem C10_retention : forall cx s, Inv cx s ->
  (forall h d, aget h (data_by_hash s) = Some d ->
     exists id, aget id (tile_by_id s) = Some (THash h) /\ view s id = Ok (Some d)) /\
  (forall id h, aget id (tile_by_id s) = Some (THash h) -> exists d, aget h (data_by_hash s) = Some d) /\
  NoDup (akeys (data_by_hash s)).
Proof. exact retention. Qed.
