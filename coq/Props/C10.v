(** C10 — Deduplication and run-length encoding are exact and minimal.

    This file holds the in-memory retention clause (every reachable builder state retains exactly one
    copy of each content some tile refers to and none that no tile refers to); the layout clauses
    (tile data = distinct contents once, shared offsets, maximal runs) are in the second half. *)
Require Import PM.Base PM.Oracles PM.Directory PM.TileManager PM.TileManagerProofs PM.Archive PM.History PM.HistoryProofs.
Open Scope N_scope.

(** the invariant holds initially and is preserved by every edit, hence in every reachable state *)
Theorem C10_retention_invariant : forall cx ops p m, Rep cx p m -> forallb map_op ops = true ->
  hist_collision_free cx p ops -> Inv cx (p_tm (fst (run cx p ops))).
Proof. intros cx ops p m HR Ho Hc. apply (history_refines cx ops p m HR Ho Hc). Qed.

(** what the invariant says: every stored content is the content of some tile that refers to it, every
    in-memory tile's content is stored, and no content is stored twice (distinct keys; equal contents
    have equal hashes, so one key) *)
Theorem C10_retention : forall cx s, Inv cx s ->
  (forall h d, aget h (data_by_hash s) = Some d ->
     exists id, aget id (tile_by_id s) = Some (THash h) /\ view s id = Ok (Some d)) /\
  (forall id h, aget id (tile_by_id s) = Some (THash h) -> exists d, aget h (data_by_hash s) = Some d) /\
  NoDup (akeys (data_by_hash s)).
Proof. exact retention. Qed.

(** * layout: what [finish] lays out is the specification layout *)
Require Import PM.FinishSpec PM.FinishProofs.

(** [finish] equals [spec_finish] of the logical content (the (id, content) list sorted by id): hashes,
    internal map orders, in-memory vs reader-backed tiles do not matter.  Hypotheses: the content hash
    is injective on the contents that occur, contents are shorter than 2^32 bytes, ids below 2^63
    (all valid tile ids are), fewer than 2^32 - 1 tiles *)
Theorem C10_finish_is_spec : forall cx s tiles U, Inv cx s -> logical s = Ok tiles ->
  hash_inj_on cx U -> (forall c, In c U -> nlen c < two32) ->
  Forall (fun t => In (snd t) U /\ fst t < two63) tiles -> nlen tiles + 1 < two32 ->
  finish cx s = Ok (spec_finish tiles).
Proof. exact finish_is_spec. Qed.

(** the tile-data section is the distinct contents, each exactly once (first-occurrence order), so its
    length is the sum of the distinct contents' lengths; the counters are the numbers of tiles and of
    distinct contents *)
Theorem C10_data_once : forall tiles, fr_data (spec_finish tiles) = concat (first_occ (map snd tiles) []) /\
  fr_contents (spec_finish tiles) = nlen (first_occ (map snd tiles) []) /\
  fr_addressed (spec_finish tiles) = nlen tiles.
Proof. exact spec_finish_data. Qed.

(** no two adjacent entries could be merged further *)
Theorem C10_runs_maximal : forall tiles, no_mergeable (fr_dir (spec_finish tiles)).
Proof. exact spec_finish_runs_maximal. Qed.

(** run-length encoding loses nothing: expanding the entries gives every tile's (id, offset, length) back *)
Theorem C10_runs_exact : forall tiles, expand (fr_dir (spec_finish tiles)) = fst (place tiles [] 0).
Proof. exact spec_finish_expand. Qed.

Example C10_example :
  let r := spec_finish [(1, [7;7]); (2, [7;7]); (3, [9]); (5, [7;7])] in
  (fr_data r, fr_dir r, fr_contents r) = ([7;7;9], [mkEntry 1 0 2 2; mkEntry 3 2 1 1; mkEntry 5 0 2 1], 2).
Proof. vm_compute. reflexivity. Qed.
