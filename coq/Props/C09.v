(** C09 — Header encoding is exactly 127 bytes and lossless in both directions.
    [encode_header] / [decode_header] model Header::to_writer / Header::from_reader (deku layout written
    out in Header.v); coordinates are IEEE-754 binary64 values (Flocq), stored as i32 × 1e-7 degrees. *)
Require Import PM.Base PM.Oracles PM.Params PM.Float PM.FloatProofs PM.Header PM.HeaderProofs.
From Coq Require Import ZArith.
Open Scope N_scope.

(** a header always serialises to exactly 127 bytes *)
Theorem C09_length : forall h b, encode_header h = Ok b -> length b = 127%nat.
Proof. exact header_length. Qed.

(** parsing the serialisation returns equal field values (coordinates: the stored multiple of 1e-7),
    and the reader consumes exactly the 127 bytes: whatever follows them is left unread *)
Theorem C09_dec_enc : forall h rest, header_fields_ok h -> header_bytes = 127 ->
  exists b, encode_header h = Ok b /\ length b = 127%nat /\ decode_header (b ++ rest) = Ok (quantize h, rest).
Proof. exact header_dec_enc. Qed.

(** conversely, parsing any 127 bytes the parser accepts and serialising again reproduces the same bytes *)
Theorem C09_enc_dec : forall b h rest, wf_bytes b -> header_bytes = 127 ->
  decode_header b = Ok (h, rest) -> exists hb, b = hb ++ rest /\ encode_header h = Ok hb /\ length hb = 127%nat.
Proof. exact header_enc_dec. Qed.

(** ... which rests on: every one of the 2^32 values a stored coordinate can take survives
    i32 -> degrees -> i32 (two IEEE roundings and [f64::round], proved analytically, not by a sweep) *)
Theorem C09_coord_roundtrip : forall i : Z, (- 2147483648 <= i < 2147483648)%Z -> stored_of_deg (deg_of_stored i) = i.
Proof. exact stored_roundtrip. Qed.

(** fewer than 127 bytes are rejected *)
Theorem C09_rejects_short : forall b, (length b < 127)%nat -> header_bytes = 127 -> exists e, decode_header b = Err e.
Proof. exact header_short. Qed.
(** a wrong magic is rejected *)
Theorem C09_rejects_magic : forall b, firstn 7 b <> magic -> exists e, decode_header b = Err e.
Proof. exact header_rejects_magic. Qed.
(** anything accepted has the magic, version 3, a clustered byte 0/1, compression codes 0..4 and a
    tile-type code 0..5 (so a version other than 3 and unknown codes are rejected) *)
Theorem C09_accepts_only_valid : forall b h rest, wf_bytes b -> header_bytes = 127 ->
  decode_header b = Ok (h, rest) ->
  firstn 8 b = magic ++ [3] /\
  nth 96 b 0 <= 1 /\ nth 97 b 0 <= 4 /\ nth 98 b 0 <= 4 /\ nth 99 b 0 <= 5 /\
  nth 97 b 0 = comp_code (h_icomp h) /\ nth 98 b 0 = comp_code (h_tcomp h) /\ nth 99 b 0 = ttype_code (h_ttype h).
Proof. exact header_accepts_only_valid. Qed.

(** the constants the theorems are stated for are the ones in the source *)
Theorem C09_params : header_bytes = 127 /\ lat_long_factor = 10000000.
Proof. split; reflexivity. Qed.

(** what the code did before the fix: stored 21 came back as 20 *)
Example C09_truncation_refuted : stored_of_deg_trunc (deg_of_stored 21) = 20%Z /\ stored_of_deg (deg_of_stored 21) = 21%Z.
Proof. split; [exact trunc_refuted|exact round_fixes_witness]. Qed.

(** non-vacuity: a concrete header meets the hypotheses and round-trips by evaluation *)
Definition ex_header : header :=
  mkH 3 127 16 143 2 145 0 145 7 3 2 2 true CGzip CNone TPng 0 5
      (f64_of_bits 4634626229029306368) (f64_of_bits (-4588745807825469440 + 18446744073709551616)%Z)
      (of_Z 0) (of_Z 0) 3 (deg_of_stored 21) (of_Z 0).
Example C09_example :
  (do b <- encode_header ex_header; do (h, r) <- decode_header (b ++ [1; 2]); do b' <- encode_header h; Ok (length b, r, bytes_eqb b b'))
  = Ok (127%nat, [1; 2], true).
Proof. vm_compute. reflexivity. Qed.

(** coordinates supplied in degrees are stored as the nearest multiple of 1e-7: for EVERY finite double
    whose product with 1e7 lies in the i32 range the stored i32 is within 1/2 of the EXACT product
    (no exception: the double-rounding class of the former finding D7 is handled by the code's
    correction step, whose exactness is part of this proof) *)
Require Import PM.NearestProofs.
From Coq Require Import Reals.
From Flocq Require Import Core BinarySingleNaN.
Theorem C09_nearest : forall d : f64, is_finite d = true ->
  (Rabs (B2R d * 10000000) <= 2147483647)%R ->
  (Rabs (IZR (stored_of_deg d) - B2R d * 10000000) <= / 2)%R /\ (-2147483647 <= stored_of_deg d <= 2147483647)%Z.
Proof. exact stored_nearest. Qed.

(** what the code did before its second repair (D7): 35.19440175 was stored as 351944018 (the exact product
    is 351944017.4999999…, the f64 product exactly …017.5, and ties round away from zero); now 351944017 *)
Example C09_near_tie_witness :
  stored_of_deg_double_rounding (f64_of_bits 4630149989015962752) = 351944018%Z /\
  stored_of_deg (f64_of_bits 4630149989015962752) = 351944017%Z.
Proof. vm_compute. split; reflexivity. Qed.
