(** C05 — Directory encoding is lossless and byte-exact to the v3 specification.
    Only statements live here; each is closed by [exact] of a lemma proved elsewhere. *)
Require Import PM.Base PM.Varint PM.Oracles PM.Directory PM.DirectoryProofs.
Open Scope N_scope.

(** serialise-then-parse returns the identical entry list, for every supported compression and both
    API families ([asy]); the only assumption on the codec is that it inverts itself *)
Theorem C05_roundtrip : forall (cx : ctx) (asy : bool) (c : compression) (es : list entry),
  codec_inv cx -> c <> CUnknown -> valid_dir es -> nlen es < two64 ->
  exists b, encode_dir cx asy c es = Ok b /\ decode_dir cx c b = Ok es.
Proof. exact dir_roundtrip. Qed.

(** the uncompressed serialisation is byte-for-byte the specification's encoding *)
Theorem C05_byte_exact : forall (cx : ctx) (asy : bool) (es : list entry),
  valid_dir es -> encode_dir cx asy CNone es = Ok (spec_encode_dir es).
Proof. exact dir_plain_is_spec. Qed.

(** the parser decodes the independent (specification) encoder's output to the same entries;
    bytes following the directory do not matter *)
Theorem C05_decodes_spec : forall (cx : ctx) (es : list entry) (trailing : bytes),
  valid_dir es -> nlen es < two64 -> decode_dir cx CNone (spec_encode_dir es ++ trailing) = Ok es.
Proof. exact dir_decodes_spec. Qed.

(** the encoding consists of bytes *)
Theorem C05_bytes : forall es : list entry, wf_bytes (spec_encode_dir es).
Proof. exact spec_encode_wf. Qed.

(** varint layer: every u64 survives, whatever follows it *)
Theorem C05_varint : forall n rest, n < two64 -> read_varint64 (write_varint n ++ rest) = Ok (n, rest).
Proof. exact VarintProofs.varint64_roundtrip. Qed.

(** non-vacuity: a directory using every offset case (first entry, contiguous, zero at a later
    index, back-reference, leaf pointer, boundary-sized fields) is valid and round-trips by evaluation *)
Definition ex_dir : list entry :=
  [ mkEntry 5 0 3 1; mkEntry 6 3 70000 2; mkEntry 9 0 3 1; mkEntry 200 4611686018427387904 4294967295 4294967295;
    mkEntry 4611686018427387904 17 1 0 ].
Example C05_example_valid : valid_dirb ex_dir = true.
Proof. vm_compute. reflexivity. Qed.
Example C05_example_roundtrip :
  (do b <- encode_dir ctx_id false CGzip ex_dir; decode_dir ctx_id CGzip b) = Ok ex_dir.
Proof. vm_compute. reflexivity. Qed.

Print Assumptions C05_roundtrip.
Print Assumptions C05_byte_exact.
Print Assumptions C05_decodes_spec.
Print Assumptions C05_bytes.
Print Assumptions C05_varint.
