(** C13 — Results do not depend on how the stream fragments or delays I/O.
    IO.v models ONE call of read / write as transferring between 1 and the requested number of bytes, as
    dictated by an arbitrary schedule of per-call limits (a Pending answer re-issues the call unchanged
    and is not represented).  The code performs stream I/O only through four idioms — fixed-size
    [read_exact] (header, tile fetch), byte-wise reads (varints), [take(len)] + read-to-end (metadata,
    codec input) and [write_all] (all writes) — and each is proved independent of the schedule.
    [C13_open_schedule_independent] composes this for the whole opening procedure: the open over the I/O interface
    ([IOReader.open_io], on an ideal stream exactly what [from_reader] computes) whose every window is served by
    seek + take + reads into a buffer of any size >= 1, on a stream that fragments each request by an arbitrary
    schedule, computes what it computes on an in-memory buffer.

    Partial: that the Rust call sites are exactly these idioms (a plain [read] where [read_exact] is
    needed would be invisible on a full-transfer stream), Pending/waker behaviour and the codec
    adapters' own buffering are established by the direct oracle only: every scenario is executed under
    fragmentation schedules (chunk sizes 1, k, random; Pending patterns for the async family; every
    composition of the transfer sizes for directories up to 13/16 bytes) and compared with the result on
    an in-memory buffer. *)
Require Import PM.Base PM.Oracles PM.Stream PM.IO PM.IOProofs PM.DirReader PM.IOReader PM.IOReaderProofs.
Open Scope N_scope.

(** read_exact: whatever the schedule, the same bytes and the same final position — or UnexpectedEof in both *)
Theorem C13_read_exact : forall fuel n img pos sc1 sc2 lg1 lg2, (N.to_nat n <= fuel)%nat ->
  match read_exact fuel n (mkRd img pos sc1 lg1), read_exact fuel n (mkRd img pos sc2 lg2) with
  | Ok (b1, s1), Ok (b2, s2) => b1 = b2 /\ rd_pos s1 = rd_pos s2
  | Err _, Err _ => True
  | _, _ => False
  end.
Proof. exact read_exact_schedule_independent. Qed.

(** and those bytes are the requested window of the image *)
Theorem C13_read_exact_value : forall fuel n s, (N.to_nat n <= fuel)%nat -> 1 <= n -> rd_pos s + n <= nlen (rd_img s) ->
  exists s', read_exact fuel n s = Ok (section (rd_img s) (rd_pos s) n, s') /\
             rd_img s' = rd_img s /\ rd_pos s' = rd_pos s + n /\
             exists new, rd_log s' = new ++ rd_log s /\ chain (rev new) (rd_pos s) (rd_pos s + n).
Proof. exact read_exact_ok. Qed.

(** byte-wise reads (varints) are not affected at all *)
Theorem C13_read_byte : forall img pos sc1 sc2 lg1 lg2,
  fst (read_call 1 (mkRd img pos sc1 lg1)) = fst (read_call 1 (mkRd img pos sc2 lg2)) /\
  rd_pos (snd (read_call 1 (mkRd img pos sc1 lg1))) = rd_pos (snd (read_call 1 (mkRd img pos sc2 lg2))).
Proof. exact read_byte_schedule_independent. Qed.

(** take(limit) + read to end: everything up to the limit, for every schedule and buffer size *)
Theorem C13_read_to_end : forall fuel buf limit s, 1 <= buf -> (N.to_nat (N.min limit (avail s)) < fuel)%nat ->
  exists s', read_to_end fuel buf limit s = Ok (section (rd_img s) (rd_pos s) (N.min limit (avail s)), s') /\
             rd_pos s' = rd_pos s + N.min limit (avail s) /\ rd_img s' = rd_img s.
Proof. exact read_to_end_spec. Qed.

(** write_all: under every short-write schedule the stream ends up as after one full write *)
Theorem C13_write_all : forall fuel bs w, (length bs <= fuel)%nat ->
  exists w', write_all fuel bs w = Ok w' /\ ws_img (wr_st w') = ws_img (ws_write (wr_st w) bs) /\
             ws_pos (wr_st w') = ws_pos (wr_st w) + nlen bs.
Proof. exact write_all_spec. Qed.

(** the whole open, with every window fetched through a fragmenting stream *)
Theorem C13_open_schedule_independent : forall cx img sched buf r, 1 <= buf ->
  open_io cx (stream_fetch img sched buf) r = open_io cx (img_fetch img) r.
Proof. exact open_schedule_independent. Qed.

Example C13_example :
  (do (b, _) <- read_exact 10 5 (mkRd [1;2;3;4;5;6;7] 1 [2;1;9] []); Ok b) = Ok [2;3;4;5;6] /\
  (do w <- write_all 10 [7;8;9] (mkWr (ws_new [1;1;1;1;1] 1) [1;1]); Ok (ws_img (wr_st w))) = Ok [1;7;8;9;1].
Proof. vm_compute. split; reflexivity. Qed.
