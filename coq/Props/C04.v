(** C04 — Under any edit history the archive behaves like a map from tile ID to bytes.

    Full statement (kept visible): for every finite history over
      {add, replace, remove, lookup, list, count, save+reopen (sync|async), open-from-bytes}
    starting from an empty archive or from one opened from valid bytes, every output equals the
    output of the finite-map machine [spec_run] and the final archive represents the final map.

    Proved here ([..._partial]): the statement for every finite history over
      {add, replace, remove, lookup, list, count}
    from ANY archive value that represents a map (in particular the empty archive, [C04_empty], and —
    by [Rep]'s definition — any opened archive whose tiles all resolve).  What is missing for the
    full statement is the step "save+reopen preserves [Rep]", i.e. the composition theorem of C01
    (from_reader (to_bytes p) represents the same map); that step is covered by the correspondence
    run and the direct oracle (histories with saves, exhaustive to length 3/4, random to 600/5000
    operations), not by a theorem yet.  Premise [hist_collision_free]: the 64-bit content hash does
    not collide on the contents that occur ([collision_breaks_map] shows the premise is necessary). *)
Require Import PM.Base PM.Oracles PM.TileManager PM.TileManagerProofs PM.Archive PM.History PM.HistoryProofs.
From Coq Require Import Permutation.
Open Scope N_scope.

Theorem C04_refines_map_partial : forall cx ops p m, Rep cx p m -> forallb map_op ops = true ->
  hist_collision_free cx p ops ->
  Rep cx (fst (run cx p ops)) (fst (spec_run m ops)) /\
  Forall2 out_eq (snd (run cx p ops)) (snd (spec_run m ops)).
Proof. exact history_refines. Qed.

(** one step, spelled out: a lookup returns the content most recently added for that id, or nothing;
    listing and count agree with exactly that map *)
Theorem C04_step : forall cx p m o, Rep cx p m -> map_op o = true -> collision_free cx p o ->
  let '(p', x) := step cx p o in let '(m', y) := spec_step m o in Rep cx p' m' /\ out_eq x y.
Proof. exact step_refines. Qed.

(** giving several ids identical content, or editing or removing one of them, never changes what any
    other id returns *)
Theorem C04_independence : forall cx p m o id', Rep cx p m -> map_op o = true -> collision_free cx p o ->
  (match o with OAdd id _ | ORemove id => id <> id' | _ => True end) ->
  view (p_tm (fst (step cx p o))) id' = view (p_tm p) id'.
Proof. exact independence. Qed.

(** the empty archive represents the empty map (the hypotheses are satisfiable) *)
Theorem C04_empty : forall cx b, Rep cx (pm_new b) [].
Proof. exact rep_new. Qed.

(** non-vacuity: a concrete history with shared contents, evaluated *)
Example C04_example :
  let ops := [OAdd 7 [1;2]; OAdd 8 [1;2]; OAdd 9 [3]; ORemove 7; OGet 7; OGet 8; OAdd 8 [3]; OGet 9; OCount] in
  snd (run ctx_id (pm_new None) ops) = snd (spec_run [] ops).
Proof. vm_compute. reflexivity. Qed.

(** the premise about the content hash is necessary: with a hash that collides, the map semantics fail *)
Example C04_collision_breaks_map :
  let cx := mkCtx (comp ctx_id) (decomp ctx_id) (json_parse ctx_id) (fun _ => 0) (drop_tail ctx_id) in
  snd (run cx (pm_new None) [OAdd 7 [1]; OAdd 8 [2]; OGet 7]) = [RRes (Ok tt); RRes (Ok tt); RTile (Ok (Some [2]))].
Proof. vm_compute. reflexivity. Qed.
