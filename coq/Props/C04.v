(** C04 — Under any edit history the archive behaves like a map from tile ID to bytes.

    Full statement (kept visible): for every finite history over
      {add, replace, remove, lookup, list, count, save+reopen (sync|async), open-from-bytes}
    starting from an empty archive or from one opened from valid bytes, every output equals the
    output of the finite-map machine [spec_run] and the final archive represents the final map.

    Proved here:
    - [C04_refines_map_partial]: the statement for every finite history over {add, replace, remove, lookup,
      list, count} from ANY archive value that represents a map (in particular the empty archive,
      [C04_empty], and any opened archive whose tiles all resolve);
    - [C04_save_reopen]: saving (sync or async, with or without leaf directories) and opening the written
      bytes yields an archive that represents the SAME map, with the same metadata and settings (coordinates
      quantized as C09 states) — built on C01's composition theorem;
    - [C04_refines_map_saves_partial]: hence the statement for every finite history over
      {add, replace, remove, lookup, list, count, save+reopen}, each save reporting success for both the
      write and the reopen.
    Premises: [collision_free] at every add — the 64-bit content hash does not collide on the contents that
    occur ([C04_collision_breaks_map] shows the premise is necessary); at every save, [save_premises]
    (sizes below the format's limits, a supported internal compression, JSON-object metadata) and the
    success of the write itself, which [C04_save_succeeds] derives from size conditions ([save_sizes]) and the
    codec size law; for an open, spec-validity of the bytes (C03's [wf_dir]) and every addressed tile range
    inside the file ([C04_open_represents]: the opened archive represents the map the specification's lookup
    defines, so a history may start from, or continue with, any such open — each segment between opens is
    covered by [C04_refines_map_saves_partial]). *)
Require Import PM.Base PM.Oracles PM.TileManager PM.TileManagerProofs PM.Archive PM.History PM.HistoryProofs PM.Float PM.Header PM.HeaderProofs PM.DirReader PM.ReopenProofs PM.TotalityProofs PM.Stream PM.SpecLookup PM.OpenRepProofs.
From Coq Require Import Permutation.
Open Scope N_scope.

Theorem C04_refines_map_partial : forall cx ops p m, Rep cx p m -> forallb map_op ops = true ->
  hist_collision_free cx p ops ->
  Rep cx (fst (run cx p ops)) (fst (spec_run m ops)) /\
  Forall2 out_eq (snd (run cx p ops)) (snd (spec_run m ops)).
Proof. exact history_refines. Qed.

(** one step, spelled out: a lookup returns the content most recently added for that id, or nothing;
    listing and count agree with exactly that map *)
Theorem C04_step : forall cx p m o, Rep cx p m -> map_op o = true -> collision_free cx p o ->
  let '(p', x) := step cx p o in let '(m', y) := spec_step m o in Rep cx p' m' /\ out_eq x y.
Proof. exact step_refines. Qed.

(** giving several ids identical content, or editing or removing one of them, never changes what any
    other id returns *)
Theorem C04_independence : forall cx p m o id', Rep cx p m -> map_op o = true -> collision_free cx p o ->
  (match o with OAdd id _ | ORemove id => id <> id' | _ => True end) ->
  view (p_tm (fst (step cx p o))) id' = view (p_tm p) id'.
Proof. exact independence. Qed.

(** save + reopen: the reopened archive represents the same map and carries the same settings *)
Theorem C04_save_reopen : forall cx, codec_inv cx -> forall asy p m b,
  Rep cx p m -> save_premises cx asy p m -> to_bytes cx asy p = Ok b ->
  exists p', from_reader cx b full_range = Ok p' /\ Rep cx p' m /\
    p_meta p' = p_meta p /\ p_ttype p' = p_ttype p /\ p_tcomp p' = p_tcomp p /\ p_icomp p' = p_icomp p /\
    p_minz p' = p_minz p /\ p_maxz p' = p_maxz p /\ p_cz p' = p_cz p /\
    p_min_lon p' = quantize_coord (p_min_lon p) /\ p_min_lat p' = quantize_coord (p_min_lat p) /\
    p_max_lon p' = quantize_coord (p_max_lon p) /\ p_max_lat p' = quantize_coord (p_max_lat p) /\
    p_clon p' = quantize_coord (p_clon p) /\ p_clat p' = quantize_coord (p_clat p).
Proof. exact save_reopen_rep. Qed.

(** ... and the save itself succeeds (so the premise "the write returned Ok" of a history step can be discharged from
    size conditions alone): [save_sizes] bounds the sections by 2^64 and every leaf directory by 2^32 *)
Theorem C04_save_succeeds : forall cx, codec_inv cx -> codec_size cx -> forall asy p m,
  Rep cx p m -> save_premises cx asy p m -> save_sizes cx asy p -> exists b, to_bytes cx asy p = Ok b.
Proof.
  intros cx Hi Hs asy p m HR Hp Hz. apply (save_total cx Hs asy p m HR Hp Hz); vm_compute; discriminate.
Qed.

(** an archive opened from spec-valid bytes (C03's validity, every addressed tile range inside the file) represents the
    map the specification's lookup defines: histories may start from, or continue with, such an open *)
Theorem C04_open_represents : forall cx img h rest meta,
  decode_header img = Ok (h, rest) ->
  (if h_meta_len h =? 0 then Ok empty_object else read_meta cx (h_icomp h) (section img (h_meta_off h) (h_meta_len h))) = Ok meta ->
  wf_dir cx (h_icomp h) img (h_leaf_off h) 4 (h_root_off h) (h_root_len h) 0 two64 ->
  (forall id o l, spec_lookup cx (h_icomp h) img (h_leaf_off h) 4 (h_root_off h) (h_root_len h) id = Ok (Some (o, l)) ->
                  h_data_off h + o < two64 /\ l <> 0 /\ exists b, read_at img (h_data_off h + o) l = Ok b) ->
  exists p' m, from_reader cx img full_range = Ok p' /\ Rep cx p' m /\ p_meta p' = meta /\
    forall id, exists r, spec_lookup cx (h_icomp h) img (h_leaf_off h) 4 (h_root_off h) (h_root_len h) id = Ok r /\
      match r with
      | Some (o, l) => exists b, read_at img (h_data_off h + o) l = Ok b /\ aget id m = Some b
      | None => aget id m = None
      end.
Proof. intros cx img h rest meta Hd. exact (open_rep cx img h rest meta Hd eq_refl). Qed.

(** histories that also save and reopen *)
Theorem C04_refines_map_saves_partial : forall cx, codec_inv cx -> forall ops p m,
  Rep cx p m -> forallb map_or_save ops = true -> hist_ok cx p m ops ->
  Rep cx (fst (run cx p ops)) (fst (spec_run m ops)) /\
  Forall2 out_rel (snd (run cx p ops)) (snd (spec_run m ops)).
Proof. exact history_refines_saves. Qed.

(** the empty archive represents the empty map (the hypotheses are satisfiable) *)
Theorem C04_empty : forall cx b, Rep cx (pm_new b) [].
Proof. exact rep_new. Qed.

(** non-vacuity: a concrete history with shared contents, evaluated *)
Example C04_example :
  let ops := [OAdd 7 [1;2]; OAdd 8 [1;2]; OAdd 9 [3]; ORemove 7; OGet 7; OGet 8; OAdd 8 [3]; OGet 9; OCount] in
  snd (run ctx_id (pm_new None) ops) = snd (spec_run [] ops).
Proof. vm_compute. reflexivity. Qed.

(** the premise about the content hash is necessary: with a hash that collides, the map semantics fail *)
Example C04_collision_breaks_map :
  let cx := mkCtx (comp ctx_id) (decomp ctx_id) (json_parse ctx_id) (fun _ => 0) (drop_tail ctx_id) in
  snd (run cx (pm_new None) [OAdd 7 [1]; OAdd 8 [2]; OGet 7]) = [RRes (Ok tt); RRes (Ok tt); RTile (Ok (Some [2]))].
Proof. vm_compute. reflexivity. Qed.

(** non-vacuity with saves: the outputs of a history with two saves (sync and async) are those of the map *)
Example C04_example_saves :
  let ops := [OAdd 7 [1;2]; OAdd 8 [1;2]; OSave false; OGet 7; OAdd 9 [3]; ORemove 7; OSave true; OGet 7; OGet 8; OGet 9; OCount] in
  let p0 := mkPM TPng CNone CGzip 0 3 1 (of_Z 0) (of_Z 0) (of_Z 0) (of_Z 0) (of_Z 0) (of_Z 0) [123; 125] (tm_empty None) in
  map (fun x => match x with RSaved (Ok _) (Ok tt) => RUnit | _ => x end) (snd (run ctx_id p0 ops)) = snd (spec_run [] ops).
Proof. vm_compute. reflexivity. Qed.
