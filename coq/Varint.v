(** LEB128 varints exactly as integer-encoding 3.0.4 reads and writes them
    (reader.rs [read_varint], varint.rs [decode_var]/[encode_var]). *)
Require Import PM.Base.
Open Scope N_scope.

(** [encode_var]: while n >= 0x80 { MSB | (n as u8); n >>= 7 }; last byte n.
    A u64 needs at most 10 bytes; fuel 10 is never exhausted for n < 2^64 (proved). *)
Fixpoint enc (fuel : nat) (n : N) : bytes :=
  match fuel with
  | O => []
  | S f => if n <? 128 then [n] else (128 + n mod 128) :: enc f (n / 128)
  end.
Definition write_varint (n : N) : bytes := enc 10 n.

(** [read_varint::<VI>]: byte-wise; at most [fuel] = varint_max_size bytes (10 for u64/usize, 5 for u32);
    the value is accumulated with [<<] on u64 (excess bits silently dropped).
    [first] tells whether no byte was consumed yet (EOF then is UnexpectedEof "Reached EOF";
    EOF mid-varint ends in decode() = None, also UnexpectedEof). *)
Fixpoint dec (fuel : nat) (bs : bytes) (sh acc : N) : outcome (N * bytes) :=
  match fuel with
  | O => match bs with
         | [] => Err EEof          (* read == 0 -> break -> decode fails *)
         | _ :: _ => Err EInvalid  (* push: Unterminated varint *)
         end
  | S f =>
    match bs with
    | [] => Err EEof
    | b :: r =>
      let acc' := acc + ((b mod 128) * 2 ^ sh) mod two64 in
      if b <? 128 then Ok (acc', r) else dec f r (sh + 7) acc'
    end
  end.
Definition read_varint64 (bs : bytes) : outcome (N * bytes) := dec 10 bs 0 0.
(** [read_varint::<u32>]: five bytes at most, then [as u32]. *)
Definition read_varint32 (bs : bytes) : outcome (N * bytes) :=
  do (v, r) <- dec 5 bs 0 0; Ok (v mod two32, r).
