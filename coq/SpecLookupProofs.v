(** C03, archive level: on every spec-valid directory tree — any depth within the limit, leaves anywhere in the
    leaf section, run-length entries — the reader's map is exactly the PMTiles v3 lookup procedure. *)
From Coq Require Import List NArith Lia Bool.
Require Import PM.Base PM.Oracles PM.Params PM.Directory PM.Stream PM.TileManager PM.DirReader PM.FilterProofs PM.SpecLookup.
Import ListNotations.
Open Scope N_scope.

Lemma last_le_best es id : forall best, last_le es id best = match last_le es id None with Some x => Some x | None => best end.
Proof.
  induction es as [|e r IH]; intros best; [reflexivity|]. cbn [last_le].
  destruct (e_id e <=? id); [rewrite (IH (Some e)); destruct (last_le r id None); reflexivity|apply IH].
Qed.
Lemma last_le_none es id : Forall (fun e => id < e_id e) es -> last_le es id None = None.
Proof. induction 1 as [|e r He _ IH]; [reflexivity|]. cbn [last_le]. destruct (N.leb_spec (e_id e) id); [lia|exact IH]. Qed.

Section SpecLookupProofs.
  Context (cx : ctx) (c : compression) (img : bytes) (leaf_off : N).
  Notation resolve_entry := (resolve_entry leaf_off).
  Notation spec_lookup := (spec_lookup cx c img leaf_off).
  Notation wf_entries := (wf_entries leaf_off).
  Notation wf_dir := (wf_dir cx c img leaf_off).

  Lemma wf_entries_bounds wf_sub : forall es hi, wf_entries wf_sub es hi ->
    match es with [] => True | e :: r => Forall (fun x => e_id e < e_id x) r /\ Forall (fun x => e_id x < hi) (e :: r) end.
  Proof.
    induction es as [|e r IH]; intros hi H; [exact I|]. cbn [wf_entries] in H. destruct H as (H1 & _ & H3).
    specialize (IH hi H3). destruct r as [|e2 r2].
    - split; [constructor|constructor; [exact H1|constructor]].
    - destruct IH as [A B]. split.
      + constructor; [exact H1|]. eapply Forall_impl; [|exact A]. cbv beta. intros x Hx. lia.
      + constructor; [|exact B]. inversion B; subst. lia.
  Qed.

  (** the walk over the entries of one directory, given what is known about the directories it may enter *)
  Lemma walk_meets_spec (f : nat) (rec : N -> N -> list (N * (N * N)) -> outcome (list (N * (N * N)))) :
    (forall o l lo hi acc, wf_dir f o l lo hi ->
       exists t, rec o l acc = Ok t /\
         forall id, exists r, spec_lookup f o l id = Ok r /\
           aget id t = (match r with Some ol => Some ol | None => aget id acc end) /\ (r <> None -> lo <= id < hi)) ->
    forall es hi acc, hi <= two64 -> wf_entries (wf_dir f) es hi ->
      exists t, walk_entries rec leaf_off full_range es acc = Ok t /\
        forall id, exists r, (match last_le es id None with None => Ok None | Some e => resolve_entry (spec_lookup f) e id end) = Ok r /\
          aget id t = (match r with Some ol => Some ol | None => aget id acc end) /\
          (r <> None -> (match es with [] => False | e :: _ => e_id e <= id end) /\ id < hi).
  Proof.
    intros Hrec. induction es as [|e r IH]; intros hi acc Hhi Hwf.
    - exists acc. split; [reflexivity|]. intros id. exists None. cbn. repeat split; try reflexivity; congruence.
    - pose proof (wf_entries_bounds _ _ _ Hwf) as [Hgt Hlt]. cbn [wf_entries] in Hwf. destruct Hwf as (Hnb & He & Hr).
      set (nb := match r with [] => hi | e' :: _ => e_id e' end) in *.
      assert (Hnbhi : nb <= hi).
      { unfold nb. destruct r as [|e2 r2]; [lia|]. inversion Hlt as [|? ? _ Hl2]; subst. inversion Hl2; subst. lia. }
      (* one step: the accumulator after [e] *)
      assert (Hstep : exists t1, (if e_run e =? 0 then
                                    if range_end_inc full_range <? e_id e then Ok acc
                                    else do lo <- cadd64 leaf_off (e_off e); rec lo (e_len e) acc
                                  else Ok (expand_run full_range e acc)) = Ok t1 /\
                        forall id, (id < e_id e -> aget id t1 = aget id acc) /\
                          (e_id e <= id -> exists r1, resolve_entry (spec_lookup f) e id = Ok r1 /\
                             aget id t1 = (match r1 with Some ol => Some ol | None => aget id acc end) /\
                             (r1 <> None -> id < nb))).
      { unfold resolve_entry. destruct (N.eqb_spec (e_run e) 0) as [E0|E0].
        - destruct He as (o & Ho & Hsub). rewrite Ho. cbn [bind].
          assert (Er : (range_end_inc full_range <? e_id e) = false).
          { apply N.ltb_ge. unfold range_end_inc, full_range. cbn [r_end]. unfold u64_max. unfold two64 in *. lia. }
          rewrite Er. destruct (Hrec o (e_len e) (e_id e) nb acc Hsub) as (t1 & Ht1 & Hspec). exists t1. split; [exact Ht1|].
          intros id. destruct (Hspec id) as (r1 & R1 & A1 & B1). split.
          + intros Hbelow. rewrite A1. destruct r1 as [ol|]; [|reflexivity]. assert (e_id e <= id < nb) by (apply B1; discriminate). lia.
          + intros _. exists r1. split; [exact R1|]. split; [exact A1|]. intros Hn. apply B1 in Hn. lia.
        - exists (expand_run full_range e acc). split; [reflexivity|]. intros id. rewrite expand_run_aget, in_range_full, Bool.andb_true_r.
          unfold in_run. split.
          + intros Hbelow. destruct (N.leb_spec (e_id e) id); [lia|reflexivity].
          + intros Hge. destruct (N.leb_spec (e_id e) id); [|lia]. cbn [andb].
            destruct (N.ltb_spec id (e_id e + e_run e)).
            * exists (Some (e_off e, e_len e)). repeat split; try reflexivity. intros _. lia.
            * exists None. repeat split; try reflexivity; congruence. }
      destruct Hstep as (t1 & Ht1 & Hs1).
      destruct (IH hi t1 Hhi Hr) as (t & Ht & Hs).
      exists t. split.
      { cbn [walk_entries]. revert Ht1. destruct (e_run e =? 0).
        - destruct (range_end_inc full_range <? e_id e).
          + intros E. injection E as <-. exact Ht.
          + destruct (cadd64 leaf_off (e_off e)) as [lo| |]; cbn [bind]; try discriminate. intros E. rewrite E. cbn [bind]. exact Ht.
        - intros E. injection E as <-. exact Ht. }
      intros id. destruct (Hs id) as (r2 & R2 & A2 & B2). destruct (Hs1 id) as [Hlow Hhigh].
      cbn [last_le]. rewrite last_le_best.
      destruct (N.leb_spec (e_id e) id) as [Hge|Hbelow].
      + (* the target is at or after [e] *)
        destruct (last_le r id None) as [e2|] eqn:El.
        * (* a later entry starts at or before the target: [e] does not reach it *)
          exists r2. split; [exact R2|]. split.
          -- rewrite A2. destruct r2; [reflexivity|]. destruct (Hhigh Hge) as (r1 & _ & A1 & B1). rewrite A1.
            destruct r1 as [ol|]; [|reflexivity]. exfalso. assert (id < nb) by (apply B1; discriminate).
            (* but some entry of [r] has id <= target, and all of them are >= nb *)
            destruct r as [|e3 r3]; [discriminate|]. unfold nb in H.
            assert (G : forall l best x, last_le l id best = Some x -> (best = Some x) \/ (In x l /\ e_id x <= id)).
            { induction l as [|y l IHl]; intros best x Hx; [left; exact Hx|]. cbn [last_le] in Hx.
              destruct (IHl _ _ Hx) as [Eb|[Hin Hle]]; [|right; split; [now right|exact Hle]].
              destruct (N.leb_spec (e_id y) id); [injection Eb as <-; right; split; [now left|assumption]|left; exact Eb]. }
            destruct (G _ _ _ El) as [?|[Hin Hle]]; [discriminate|].
            inversion Hgt as [|? ? Hg3 Hg4]; subst. destruct Hin as [<-|Hin]; [lia|].
            pose proof (wf_entries_bounds _ _ _ Hr) as [Hgt3 _]. rewrite Forall_forall in Hgt3. specialize (Hgt3 _ Hin). lia.
          -- intros Hn. destruct (B2 Hn) as [_ Hb]. split; [exact Hge|exact Hb].
        * (* [e] is the last entry at or before the target *)
          destruct (Hhigh Hge) as (r1 & R1 & A1 & B1). exists r1. split; [exact R1|]. split.
          -- rewrite A2. assert (r2 = None) by congruence. subst r2. exact A1.
          -- intros Hn. split; [exact Hge|]. specialize (B1 Hn). lia.
      + (* the target is before [e], hence before everything *)
        assert (El : last_le r id None = None).
        { apply last_le_none. eapply Forall_impl; [|exact Hgt]. cbv beta. intros x Hx. lia. }
        rewrite El. exists None. split; [reflexivity|]. split.
        * rewrite A2. assert (r2 = None) by (rewrite El in R2; now injection R2 as <-). subst r2. now apply Hlow.
        * congruence.
  Qed.

  (** the reader's map is the specification's lookup, on every valid directory tree *)
  Theorem read_meets_spec : forall fuel off len lo hi acc, wf_dir fuel off len lo hi ->
    exists t, read_dir_rec cx fuel c img off len leaf_off full_range acc = Ok t /\
      forall id, exists r, spec_lookup fuel off len id = Ok r /\
        aget id t = (match r with Some ol => Some ol | None => aget id acc end) /\ (r <> None -> lo <= id < hi).
  Proof.
    induction fuel as [|f IH]; intros off len lo hi acc Hwf; [destruct Hwf|].
    cbn [wf_dir] in Hwf. destruct Hwf as (es & Hd & Hhi & Hlo & Hes).
    cbn [read_dir_rec spec_lookup]. rewrite Hd. cbn [bind].
    destruct (walk_meets_spec f (fun lo' len' a => read_dir_rec cx f c img lo' len' leaf_off full_range a) IH es hi acc Hhi Hes) as (t & Ht & Hs).
    exists t. split; [exact Ht|]. intros id. destruct (Hs id) as (r & R & A & B). exists r. split; [exact R|]. split; [exact A|].
    intros Hn. destruct (B Hn) as [B1 B2]. destruct es as [|e0 r0]; [destruct B1|]. lia.
  Qed.
End SpecLookupProofs.

(** * the opened archive serves exactly what the specification's lookup addresses *)
Require Import PM.Header PM.Archive PM.OpenFilterProofs PM.TileManagerProofs.
Section OpenMeetsSpec.
  Context (cx : ctx).

  Theorem open_meets_spec img h rest meta :
    decode_header img = Ok (h, rest) -> max_dir_depth = Some 3 ->
    (* metadata: absent, or a JSON object in the declared section *)
    (if h_meta_len h =? 0 then Ok empty_object else read_meta cx (h_icomp h) (section img (h_meta_off h) (h_meta_len h))) = Ok meta ->
    (* the directory tree is spec-valid (at most three levels of leaves below the root) *)
    wf_dir cx (h_icomp h) img (h_leaf_off h) 4 (h_root_off h) (h_root_len h) 0 two64 ->
    (* every addressed tile has an absolute offset below 2^64 *)
    (forall id o l, spec_lookup cx (h_icomp h) img (h_leaf_off h) 4 (h_root_off h) (h_root_len h) id = Ok (Some (o, l)) ->
                    h_data_off h + o < two64 /\ l <> 0) ->
    exists p', from_reader cx img full_range = Ok p' /\
      p_meta p' = meta /\ p_ttype p' = h_ttype h /\ p_tcomp p' = h_tcomp h /\ p_icomp p' = h_icomp h /\
      p_minz p' = h_minz h /\ p_maxz p' = h_maxz h /\ p_cz p' = h_cz h /\
      p_min_lon p' = h_min_lon h /\ p_min_lat p' = h_min_lat h /\ p_max_lon p' = h_max_lon h /\
      p_max_lat p' = h_max_lat h /\ p_clon p' = h_clon h /\ p_clat p' = h_clat h /\
      forall id, exists r, spec_lookup cx (h_icomp h) img (h_leaf_off h) 4 (h_root_off h) (h_root_len h) id = Ok r /\
        get_tile (p_tm p') id =
        match r with
        | Some (o, l) => do b <- read_at img (h_data_off h + o) l; Ok (Some b)
        | None => Ok None
        end.
  Proof.
    intros Hd Hdepth Hmeta Hwf Hoff. unfold from_reader. rewrite Hd. cbn [bind]. rewrite Hmeta. cbn [bind].
    unfold read_directories. rewrite Hdepth. cbn [depth_fuel_of]. change (S (N.to_nat 3)) with 4%nat.
    destruct (read_meets_spec cx (h_icomp h) img (h_leaf_off h) 4 (h_root_off h) (h_root_len h) 0 two64 [] Hwf) as (t & Ht & Hs).
    rewrite Ht. cbn [bind].
    assert (Nt : keys_nodup t) by (eapply read_dir_rec_nodup; [|exact Ht]; constructor).
    destruct (register_tiles_ok (h_data_off h) t (tm_empty (@Some bytes img))) as (s' & Rs).
    { intros id o l Hin. pose proof (aget_of_in _ _ _ Nt Hin) as Hg. destruct (Hs id) as (r & R & A & _).
      rewrite Hg in A. destruct r as [[o' l']|]; [|cbn in A; discriminate]. injection A as <- <-. now apply (Hoff id). }
    rewrite Rs. cbn [bind]. eexists. split; [reflexivity|].
    cbn [p_meta p_ttype p_tcomp p_icomp p_minz p_maxz p_cz p_min_lon p_min_lat p_max_lon p_max_lat p_clon p_clat p_tm].
    repeat (split; [reflexivity|]).
    destruct (register_tiles_spec _ _ _ _ Nt Rs) as (Bk & _ & _ & Tb).
    intros id. destruct (Hs id) as (r & R & A & _). exists r. split; [exact R|].
    unfold get_tile. rewrite Tb, A. cbn [aget tm_empty tile_by_id].
    destruct r as [[o l]|]; [|reflexivity]. cbn [tile_content]. rewrite Bk. cbn [tm_empty backing]. reflexivity.
  Qed.
End OpenMeetsSpec.
