(** Proofs about the Hilbert tile-id model: the LUT automaton equals the reference algorithm,
    zoom blocks, inverse, totality, children blocks, adjacency of consecutive ids. *)
Require Import PM.Base PM.Hilbert.
From Coq Require Import NArith ZArith List Lia Bool ZifyN ZifyBool ZifyNat.
Open Scope N_scope.
Local Arguments N.add : simpl never.
Local Arguments N.mul : simpl never.
Local Arguments N.pow : simpl never.
Local Arguments N.sub : simpl never.
Local Arguments N.testbit : simpl never.
Local Arguments N.lxor : simpl never.
Local Arguments N.eqb : simpl never.
Local Arguments N.div : simpl never.
Local Arguments N.modulo : simpl never.
Local Arguments N.ltb : simpl never.
Local Arguments N.leb : simpl never.

Ltac dlia := zify; Z.div_mod_to_equations; lia.

(** * Small arithmetic facts *)
Lemma pow22 k : 2 ^ k * 2 ^ k = 4 ^ k.
Proof. change 4 with (2 * 2). now rewrite N.pow_mul_l. Qed.
Lemma pow4_S k : 4 ^ N.of_nat (S k) = 4 * 4 ^ N.of_nat k.
Proof. now rewrite Nat2N.inj_succ, N.pow_succ_r'. Qed.
Lemma pow2_S k : 2 ^ N.of_nat (S k) = 2 * 2 ^ N.of_nat k.
Proof. now rewrite Nat2N.inj_succ, N.pow_succ_r'. Qed.
Lemma pow4_pos k : 0 < 4 ^ k.
Proof. apply N.neq_0_lt_0, N.pow_nonzero; lia. Qed.
Lemma pow2_pos k : 0 < 2 ^ k.
Proof. apply N.neq_0_lt_0, N.pow_nonzero; lia. Qed.
Lemma pow4_nz k : 4 ^ k <> 0.
Proof. apply N.pow_nonzero; lia. Qed.
Lemma pow2_nz k : 2 ^ k <> 0.
Proof. apply N.pow_nonzero; lia. Qed.

Lemma div_top P q r : P <> 0 -> r < P -> (P * q + r) / P = q.
Proof.
  intros HP Hr. rewrite (N.mul_comm P q), N.div_add_l by assumption.
  rewrite N.div_small by assumption. lia.
Qed.
Lemma mod_top P q r : P <> 0 -> r < P -> (P * q + r) mod P = r.
Proof.
  intros HP Hr. rewrite N.add_comm, (N.mul_comm P q), N.mod_add by assumption.
  now apply N.mod_small.
Qed.

Lemma testbit_top k b x : x < 2 ^ k -> N.testbit (2 ^ k * N.b2n b + x) k = b.
Proof.
  intros Hx. apply N.b2n_inj. rewrite N.testbit_spec'.
  rewrite div_top by (try apply pow2_nz; assumption).
  destruct b; reflexivity.
Qed.
Lemma testbit_low k j b x : j < k -> N.testbit (2 ^ k * b + x) j = N.testbit x j.
Proof.
  intros Hj. rewrite <- (N.mod_pow2_bits_low (2 ^ k * b + x) k j) by assumption.
  rewrite N.add_comm, (N.mul_comm (2 ^ k) b), N.mod_add by apply pow2_nz.
  now apply N.mod_pow2_bits_low.
Qed.

Lemma split_top k x : x < 2 ^ N.of_nat (S k) ->
  exists a x', x = 2 ^ N.of_nat k * N.b2n a + x' /\ x' < 2 ^ N.of_nat k.
Proof.
  intros Hx. rewrite pow2_S in Hx.
  exists (N.testbit x (N.of_nat k)), (x mod 2 ^ N.of_nat k). split.
  - rewrite N.testbit_spec'.
    assert (Hq : x / 2 ^ N.of_nat k < 2).
    { apply N.div_lt_upper_bound; [apply pow2_nz|lia]. }
    rewrite (N.mod_small _ 2) by assumption.
    apply N.div_mod, pow2_nz.
  - apply N.mod_lt, pow2_nz.
Qed.
Lemma split_h k h : h < 4 ^ N.of_nat (S k) ->
  exists q r, h = 4 ^ N.of_nat k * q + r /\ q < 4 /\ r < 4 ^ N.of_nat k.
Proof.
  intros Hh. rewrite pow4_S in Hh.
  exists (h / 4 ^ N.of_nat k), (h mod 4 ^ N.of_nat k). repeat split.
  - apply N.div_mod, pow4_nz.
  - apply N.div_lt_upper_bound; [apply pow4_nz|lia].
  - apply N.mod_lt, pow4_nz.
Qed.

(** * The automaton in closed (non-accumulating) form, and its inverse *)
Fixpoint encl (k : nat) (l x y : N) : N :=
  match k with
  | O => 0
  | S k' =>
    let q := yx2h l (N.testbit y (N.of_nat k')) (N.testbit x (N.of_nat k')) in
    4 ^ N.of_nat k' * q + encl k' (next_lut l q) x y
  end.
Fixpoint dec (k : nat) (l h : N) : N * N :=
  match k with
  | O => (0, 0)
  | S k' =>
    let q := h / 4 ^ N.of_nat k' in
    let '(bx, by_) := h2xy_lut l q in
    let '(x', y') := dec k' (next_lut l q) (h mod 4 ^ N.of_nat k') in
    (2 ^ N.of_nat k' * bx + x', 2 ^ N.of_nat k' * by_ + y')
  end.

Lemma encl_S k l x y : encl (S k) l x y =
  4 ^ N.of_nat k * yx2h l (N.testbit y (N.of_nat k)) (N.testbit x (N.of_nat k)) +
  encl k (next_lut l (yx2h l (N.testbit y (N.of_nat k)) (N.testbit x (N.of_nat k)))) x y.
Proof. reflexivity. Qed.
Lemma dec_S k l h : dec (S k) l h =
  let '(bx, by_) := h2xy_lut l (h / 4 ^ N.of_nat k) in
  let '(x', y') := dec k (next_lut l (h / 4 ^ N.of_nat k)) (h mod 4 ^ N.of_nat k) in
  (2 ^ N.of_nat k * bx + x', 2 ^ N.of_nat k * by_ + y').
Proof. reflexivity. Qed.

(** finite facts about the four reachable tables *)
Ltac case4 l :=
  let H := fresh in
  assert (H : l = 0 \/ l = 1 \/ l = 2 \/ l = 3) by lia;
  destruct H as [->|[->|[->| ->]]].

Lemma yx_lt l a b : l < 4 -> yx2h l a b < 4.
Proof. intros Hl. case4 l; destruct a, b; reflexivity. Qed.
Lemma nl_lt l q : l < 4 -> q < 4 -> next_lut l q < 4.
Proof. intros Hl Hq. case4 l; case4 q; reflexivity. Qed.
Lemma lut_inv1 l a b : l < 4 -> h2xy_lut l (yx2h l b a) = (N.b2n a, N.b2n b).
Proof. intros Hl. case4 l; destruct a, b; reflexivity. Qed.
Lemma lut_inv2 l q : l < 4 -> q < 4 ->
  exists a b, h2xy_lut l q = (N.b2n a, N.b2n b) /\ yx2h l b a = q.
Proof.
  intros Hl Hq.
  exists (fst (h2xy_lut l q) =? 1), (snd (h2xy_lut l q) =? 1).
  case4 l; case4 q; vm_compute; split; reflexivity.
Qed.
Lemma yx_inj l a b a' b' : l < 4 -> yx2h l b a = yx2h l b' a' -> a = a' /\ b = b'.
Proof.
  intros Hl. case4 l; destruct a, b, a', b'; vm_compute; intros E; try discriminate E; split; reflexivity.
Qed.

Lemma encl_ext k : forall l x y x' y',
  (forall j, j < N.of_nat k -> N.testbit x j = N.testbit x' j /\ N.testbit y j = N.testbit y' j) ->
  encl k l x y = encl k l x' y'.
Proof.
  induction k as [|k IH]; intros l x y x' y' Hb; [reflexivity|].
  rewrite !encl_S.
  destruct (Hb (N.of_nat k)) as [Ex Ey]; [lia|]. rewrite Ex, Ey.
  rewrite (IH _ x y x' y'); [reflexivity|]. intros j Hj. apply Hb. lia.
Qed.

Lemma encl_step k l a b x y : x < 2 ^ N.of_nat k -> y < 2 ^ N.of_nat k ->
  encl (S k) l (2 ^ N.of_nat k * N.b2n a + x) (2 ^ N.of_nat k * N.b2n b + y) =
  4 ^ N.of_nat k * yx2h l b a + encl k (next_lut l (yx2h l b a)) x y.
Proof.
  intros Hx Hy. rewrite encl_S, !testbit_top by assumption. f_equal.
  apply encl_ext. intros j Hj. split; apply testbit_low; assumption.
Qed.

Lemma dec_step k l q r : r < 4 ^ N.of_nat k ->
  dec (S k) l (4 ^ N.of_nat k * q + r) =
  let '(bx, by_) := h2xy_lut l q in
  let '(x', y') := dec k (next_lut l q) r in
  (2 ^ N.of_nat k * bx + x', 2 ^ N.of_nat k * by_ + y').
Proof.
  intros Hr. rewrite dec_S.
  rewrite div_top, mod_top by (try apply pow4_nz; assumption). reflexivity.
Qed.

Lemma encl_lt k : forall l x y, l < 4 -> encl k l x y < 4 ^ N.of_nat k.
Proof.
  induction k as [|k IH]; intros l x y Hl; [reflexivity|].
  rewrite encl_S, pow4_S.
  set (q := yx2h l _ _). assert (Hq : q < 4) by (apply yx_lt; assumption).
  specialize (IH (next_lut l q) x y (nl_lt _ _ Hl Hq)).
  assert (4 ^ N.of_nat k * q <= 4 ^ N.of_nat k * 3) by (apply N.mul_le_mono_l; lia).
  lia.
Qed.

Lemma dec_lt k : forall l h, l < 4 -> h < 4 ^ N.of_nat k ->
  fst (dec k l h) < 2 ^ N.of_nat k /\ snd (dec k l h) < 2 ^ N.of_nat k.
Proof.
  induction k as [|k IH]; intros l h Hl Hh; [split; reflexivity|].
  destruct (split_h _ _ Hh) as (q & r & -> & Hq & Hr).
  rewrite dec_step by assumption.
  destruct (lut_inv2 l q Hl Hq) as (a & b & -> & _).
  specialize (IH (next_lut l q) r (nl_lt _ _ Hl Hq) Hr).
  destruct (dec k (next_lut l q) r) as [x' y']. cbn [fst snd] in *.
  rewrite pow2_S. destruct a, b; cbn [N.b2n]; lia.
Qed.

Lemma dec_encl k : forall l x y, l < 4 -> x < 2 ^ N.of_nat k -> y < 2 ^ N.of_nat k ->
  dec k l (encl k l x y) = (x, y).
Proof.
  induction k as [|k IH]; intros l x y Hl Hx Hy.
  - change (2 ^ N.of_nat 0) with 1 in *. cbn [dec encl]. f_equal; lia.
  - destruct (split_top _ _ Hx) as (a & x' & -> & Hx').
    destruct (split_top _ _ Hy) as (b & y' & -> & Hy').
    rewrite encl_step by assumption.
    assert (Hq : yx2h l b a < 4) by (apply yx_lt; assumption).
    rewrite dec_step by (apply encl_lt, nl_lt; assumption).
    rewrite lut_inv1 by assumption.
    rewrite IH by (try apply nl_lt; assumption). reflexivity.
Qed.

Lemma encl_dec k : forall l h, l < 4 -> h < 4 ^ N.of_nat k ->
  encl k l (fst (dec k l h)) (snd (dec k l h)) = h.
Proof.
  induction k as [|k IH]; intros l h Hl Hh.
  - change (4 ^ N.of_nat 0) with 1 in Hh. cbn [dec encl]. lia.
  - destruct (split_h _ _ Hh) as (q & r & -> & Hq & Hr).
    rewrite dec_step by assumption.
    destruct (lut_inv2 l q Hl Hq) as (a & b & -> & Hyx).
    assert (Hn : next_lut l q < 4) by (apply nl_lt; assumption).
    pose proof (IH _ r Hn Hr) as E.
    pose proof (dec_lt k _ r Hn Hr) as [Bx By].
    destruct (dec k (next_lut l q) r) as [x' y']. cbn [fst snd] in *.
    rewrite encl_step by assumption. rewrite Hyx, E. reflexivity.
Qed.

(** * Model loops in terms of [encl]/[dec] *)
Lemma xy2h_loop_S s l x y h : xy2h_loop (S s) l x y h =
  xy2h_loop s (next_lut l (yx2h l (N.testbit y (N.of_nat (S s))) (N.testbit x (N.of_nat (S s))))) x y
    (4 * h + yx2h l (N.testbit y (N.of_nat (S s))) (N.testbit x (N.of_nat (S s)))).
Proof. reflexivity. Qed.
Lemma xy2h_loop_0 l x y h : xy2h_loop 0 l x y h = 4 * h + yx2h l (N.testbit y 0) (N.testbit x 0).
Proof. reflexivity. Qed.

Lemma xy2h_loop_encl s : forall l x y h,
  xy2h_loop s l x y h = 4 ^ N.of_nat (S s) * h + encl (S s) l x y.
Proof.
  induction s as [|s IH]; intros l x y h.
  - rewrite xy2h_loop_0, encl_S. cbn [encl].
    change (N.of_nat 0) with 0. change (N.of_nat 1) with 1.
    rewrite N.pow_0_r, N.pow_1_r. lia.
  - rewrite xy2h_loop_S, IH, (encl_S (S s)), (pow4_S (S s)). lia.
Qed.

Lemma h2xy_loop_S s l h x y : h2xy_loop (S s) l h x y =
  let q := (h / 4 ^ N.of_nat (S s)) mod 4 in
  let '(bx, by_) := h2xy_lut l q in
  h2xy_loop s (next_lut l q) h (2 * x + bx) (2 * y + by_).
Proof. cbn [h2xy_loop]. destruct (h2xy_lut l _); reflexivity. Qed.
Lemma h2xy_loop_0 l h x y : h2xy_loop 0 l h x y =
  let q := (h / 4 ^ 0) mod 4 in
  let '(bx, by_) := h2xy_lut l q in (2 * x + bx, 2 * y + by_).
Proof. cbn [h2xy_loop]. reflexivity. Qed.

Lemma h2xy_loop_dec s : forall l c h xa ya, h < 4 ^ N.of_nat (S s) ->
  h2xy_loop s l (4 ^ N.of_nat (S s) * c + h) xa ya =
  let '(x, y) := dec (S s) l h in
  (2 ^ N.of_nat (S s) * xa + x, 2 ^ N.of_nat (S s) * ya + y).
Proof.
  induction s as [|s IH]; intros l c h xa ya Hh.
  - change (N.of_nat 1) with 1 in *. rewrite N.pow_1_r in *.
    rewrite h2xy_loop_0, dec_S. cbn [dec]. change (N.of_nat 0) with 0.
    rewrite N.pow_0_r, !N.div_1_r.
    replace ((4 * c + h) mod 4) with h by dlia.
    cbv zeta. destruct (h2xy_lut l h) as [bx by_]. f_equal; lia.
  - destruct (split_h _ _ Hh) as (q & r & -> & Hq & Hr).
    rewrite h2xy_loop_S. cbv zeta.
    rewrite (pow4_S (S s)).
    replace (4 * 4 ^ N.of_nat (S s) * c + (4 ^ N.of_nat (S s) * q + r))
      with (4 ^ N.of_nat (S s) * (4 * c + q) + r) by lia.
    rewrite div_top by (try apply pow4_nz; assumption).
    replace ((4 * c + q) mod 4) with q by dlia.
    rewrite dec_step by assumption.
    destruct (h2xy_lut l q) as [bx by_].
    rewrite IH by assumption.
    destruct (dec (S s) (next_lut l q) r) as [x' y'].
    rewrite (pow2_S (S s)). f_equal; lia.
Qed.

(** * The reference algorithm as the same automaton (ported prototype) *)
Definition tr (sw cp : bool) (bx by_ : bool) : bool * bool :=
  let bx := xorb bx cp in let by_ := xorb by_ cp in
  if sw then (by_, bx) else (bx, by_).
Fixpoint auto (k : nat) (sw cp : bool) (x y d : N) : N :=
  match k with
  | O => d
  | S k' =>
    let '(rx, ry) := tr sw cp (N.testbit x (N.of_nat k')) (N.testbit y (N.of_nat k')) in
    let d' := d + 2 ^ N.of_nat k' * 2 ^ N.of_nat k' * digit rx ry in
    let sw' := if ry then sw else negb sw in
    let cp' := if ry then cp else if rx then negb cp else cp in
    auto k' sw' cp' x y d'
  end.

Definition rel (k : nat) (z : N) (sw cp : bool) (x y xc yc : N) : Prop :=
  xc < 2 ^ z /\ yc < 2 ^ z /\
  forall j, j < N.of_nat k ->
    (N.testbit xc j, N.testbit yc j) = tr sw cp (N.testbit x j) (N.testbit y j).

Lemma compl_bit z a j : a < 2 ^ z -> j < z -> N.testbit (2 ^ z - 1 - a) j = negb (N.testbit a j).
Proof.
  intros Ha Hj.
  destruct (N.eq_dec a 0) as [->|Hn].
  - rewrite N.sub_0_r, N.bits_0.
    replace (2 ^ z - 1) with (N.ones z) by (rewrite N.ones_equiv; lia).
    now rewrite N.ones_spec_low.
  - replace (2 ^ z - 1 - a) with (N.lnot a z).
    + now apply N.lnot_spec_low.
    + rewrite N.lnot_sub_low.
      * rewrite N.ones_equiv. lia.
      * apply N.log2_lt_pow2; lia.
Qed.

Lemma ref_auto k : forall z sw cp x y xc yc d,
  N.of_nat k <= z -> rel k z sw cp x y xc yc ->
  ref_loop k (2 ^ z) xc yc d = auto k sw cp x y d.
Proof.
  induction k as [|k IH]; intros z sw cp x y xc yc d Hk (Hx & Hy & Hb); [reflexivity|].
  cbn [ref_loop auto].
  assert (Hkk : N.of_nat k < N.of_nat (S k)) by lia.
  pose proof (Hb _ Hkk) as E.
  destruct (tr sw cp (N.testbit x (N.of_nat k)) (N.testbit y (N.of_nat k))) as [rx ry] eqn:T.
  injection E as -> ->.
  assert (P : 0 < 2 ^ z) by apply pow2_pos.
  unfold rot. destruct ry.
  - apply IH; [lia|]. repeat split; try assumption. intros j Hj. apply Hb. lia.
  - destruct rx.
    + apply IH; [lia|]. repeat split; try lia. intros j Hj.
      rewrite !compl_bit by (try assumption; lia).
      assert (Hj' : j < N.of_nat (S k)) by lia. specialize (Hb j Hj').
      unfold tr in *. destruct sw, cp; cbn in *; injection Hb as -> ->;
        destruct (N.testbit x j), (N.testbit y j); reflexivity.
    + apply IH; [lia|]. repeat split; try lia. intros j Hj.
      assert (Hj' : j < N.of_nat (S k)) by lia. specialize (Hb j Hj').
      unfold tr in *. destruct sw, cp; cbn in *; injection Hb as -> ->;
        destruct (N.testbit x j), (N.testbit y j); reflexivity.
Qed.

Lemma spec_is_auto z x y : x < 2 ^ N.of_nat z -> y < 2 ^ N.of_nat z ->
  hilbert_spec z x y = auto z false false x y 0.
Proof.
  intros Hx Hy. unfold hilbert_spec. apply ref_auto; [lia|].
  repeat split; try assumption. intros j _. unfold tr. now rewrite !xorb_false_r.
Qed.

Definition lut_of (sw cp : bool) : N := N.b2n (xorb sw cp) + 2 * N.b2n cp.

Lemma lut_digit sw cp bx by_ :
  yx2h (lut_of sw cp) by_ bx = let '(rx, ry) := tr sw cp bx by_ in digit rx ry.
Proof. destruct sw, cp, bx, by_; reflexivity. Qed.
Lemma lut_next sw cp bx by_ :
  let '(rx, ry) := tr sw cp bx by_ in
  next_lut (lut_of sw cp) (digit rx ry) =
  lut_of (if ry then sw else negb sw) (if ry then cp else if rx then negb cp else cp).
Proof. destruct sw, cp, bx, by_; reflexivity. Qed.

Lemma auto_S k sw cp x y d :
  auto (S k) sw cp x y d =
  let '(rx, ry) := tr sw cp (N.testbit x (N.of_nat k)) (N.testbit y (N.of_nat k)) in
  auto k (if ry then sw else negb sw) (if ry then cp else if rx then negb cp else cp) x y
       (d + 2 ^ N.of_nat k * 2 ^ N.of_nat k * digit rx ry).
Proof. reflexivity. Qed.

Lemma auto_encl k : forall sw cp x y d, auto k sw cp x y d = d + encl k (lut_of sw cp) x y.
Proof.
  induction k as [|k IH]; intros sw cp x y d.
  - cbn [auto encl]. lia.
  - rewrite auto_S, encl_S, lut_digit.
    pose proof (lut_next sw cp (N.testbit x (N.of_nat k)) (N.testbit y (N.of_nat k))) as Hn.
    destruct (tr sw cp (N.testbit x (N.of_nat k)) (N.testbit y (N.of_nat k))) as [rx ry].
    rewrite Hn, IH, pow22. lia.
Qed.

Lemma hspec_encl n x y : x < 2 ^ N.of_nat n -> y < 2 ^ N.of_nat n ->
  hilbert_spec n x y = encl n 0 x y.
Proof.
  intros Hx Hy. rewrite spec_is_auto by assumption. rewrite auto_encl.
  change (lut_of false false) with 0. lia.
Qed.

Lemma xy2h_spec n x y : (1 <= n <= 32)%nat -> x < 2 ^ N.of_nat n -> y < 2 ^ N.of_nat n ->
  xy2h x y n = hilbert_spec n x y.
Proof.
  intros Hn Hx Hy. rewrite hspec_encl by assumption.
  destruct n as [|s]; [lia|]. unfold xy2h.
  rewrite Nat.min_l by lia. rewrite xy2h_loop_encl. lia.
Qed.

Lemma h2xy_dec n h : (1 <= n <= 32)%nat -> h < 4 ^ N.of_nat n -> h2xy h n = dec n 0 h.
Proof.
  intros Hn Hh. destruct n as [|s]; [lia|]. unfold h2xy.
  rewrite Nat.min_l by lia.
  replace h with (4 ^ N.of_nat (S s) * 0 + h) at 1 by lia.
  rewrite h2xy_loop_dec by assumption.
  destruct (dec (S s) 0 h) as [x y]. f_equal; lia.
Qed.

Lemma hspec_lt n x y : x < 2 ^ N.of_nat n -> y < 2 ^ N.of_nat n -> hilbert_spec n x y < 4 ^ N.of_nat n.
Proof. intros Hx Hy. rewrite hspec_encl by assumption. apply encl_lt. lia. Qed.

(** * Zoom bases *)
Lemma zb_eq z : 3 * zoom_base z + 1 = 4 ^ z.
Proof.
  unfold zoom_base. induction z as [|z IH] using N.peano_ind; [reflexivity|].
  rewrite N.pow_succ_r'. set (p := 4 ^ z) in *. dlia.
Qed.
Lemma zb_S z : zoom_base (z + 1) = zoom_base z + 4 ^ z.
Proof.
  replace (z + 1) with (N.succ z) by lia.
  pose proof (zb_eq z). pose proof (zb_eq (N.succ z)) as H1.
  rewrite N.pow_succ_r' in H1. lia.
Qed.
Lemma zb_mono a b : a <= b -> zoom_base a <= zoom_base b.
Proof.
  intros Hab. pose proof (zb_eq a). pose proof (zb_eq b).
  assert (4 ^ a <= 4 ^ b) by (apply N.pow_le_mono_r; lia). lia.
Qed.
Lemma zb_32 : zoom_base 32 = 6148914691236517205.
Proof. reflexivity. Qed.
Lemma zb_lt64 z : z <= 32 -> zoom_base z < two64.
Proof. intros Hz. pose proof (zb_mono z 32 Hz) as H. rewrite zb_32 in H. unfold two64. lia. Qed.
Lemma zb_pos z : 1 <= z -> 1 <= zoom_base z.
Proof. intros Hz. apply (zb_mono 1 z Hz). Qed.
Lemma zb_unique z z' id :
  zoom_base z <= id < zoom_base (z + 1) -> zoom_base z' <= id < zoom_base (z' + 1) -> z = z'.
Proof.
  intros H1 H2.
  destruct (N.lt_trichotomy z z') as [Hlt|[Heq|Hgt]]; [exfalso|assumption|exfalso].
  - assert (zoom_base (z + 1) <= zoom_base z') by (apply zb_mono; lia). lia.
  - assert (zoom_base (z' + 1) <= zoom_base z) by (apply zb_mono; lia). lia.
Qed.

Lemma sum_pow4_ok k : forall i acc, i + N.of_nat k <= 32 -> acc + 1 = zoom_base i ->
  exists r, sum_pow4 k i acc = Ok r /\ r + 1 = zoom_base (i + N.of_nat k).
Proof.
  induction k as [|k IH]; intros i acc Hi Hacc.
  - exists acc. split; [reflexivity|]. now rewrite N.add_0_r.
  - cbn [sum_pow4]. unfold pow4_64.
    pose proof (zb_S i) as HS.
    assert (Hb : zoom_base (i + 1) < two64) by (apply zb_lt64; lia).
    destruct (N.ltb_spec (4 ^ i) two64) as [_|Hbad]; [|lia].
    cbn [bind]. unfold add64.
    destruct (N.ltb_spec (acc + 4 ^ i) two64) as [_|Hbad]; [|lia].
    cbn [bind].
    destruct (IH (i + 1) (acc + 4 ^ i)) as (r & Hr & Er); [lia|lia|].
    exists r. split; [assumption|]. rewrite Er. f_equal. lia.
Qed.

Lemma base_id_ok z : 1 <= z <= 32 -> base_id z = Ok (zoom_base z).
Proof.
  intros Hz. unfold base_id.
  destruct (sum_pow4_ok (N.to_nat z - 1) 1 0) as (r & Hr & Er); [lia|reflexivity|].
  rewrite Hr. cbn [bind]. unfold add64.
  replace (1 + N.of_nat (N.to_nat z - 1)) with z in Er by lia.
  pose proof (zb_lt64 z (proj2 Hz)).
  destruct (N.ltb_spec (1 + r) two64) as [_|Hbad]; [|lia].
  f_equal. lia.
Qed.

Lemma find_z_some k : forall i id, zoom_base i <= id -> id < zoom_base (i + N.of_nat k) ->
  exists z, find_z_loop k i (zoom_base i) id = Some z /\ i <= z < i + N.of_nat k /\
            zoom_base z <= id < zoom_base (z + 1).
Proof.
  induction k as [|k IH]; intros i id Hlo Hhi.
  - rewrite N.add_0_r in Hhi. lia.
  - cbn [find_z_loop]. rewrite <- zb_S.
    destruct (N.ltb_spec id (zoom_base (i + 1))) as [Hlt|Hge].
    + exists i. repeat split; try assumption; lia.
    + destruct (IH (i + 1) id Hge) as (z & Hz & Hr & Hb).
      { replace (i + 1 + N.of_nat k) with (i + N.of_nat (S k)) by lia. assumption. }
      exists z. repeat split; try tauto; lia.
Qed.
Lemma find_z_none k : forall i id, zoom_base (i + N.of_nat k) <= id ->
  find_z_loop k i (zoom_base i) id = None.
Proof.
  induction k as [|k IH]; intros i id Hge; [reflexivity|].
  cbn [find_z_loop]. rewrite <- zb_S.
  assert (zoom_base (i + 1) <= zoom_base (i + N.of_nat (S k))) by (apply zb_mono; lia).
  destruct (N.ltb_spec id (zoom_base (i + 1))) as [Hlt|_]; [lia|].
  apply IH. replace (i + 1 + N.of_nat k) with (i + N.of_nat (S k)) by lia. assumption.
Qed.

(** * The stated theorems *)
Lemma to_nat_of z : N.of_nat (N.to_nat z) = z.
Proof. apply N2Nat.id. Qed.

Theorem tile_id_block : forall z x y, z <= 31 -> x < 2 ^ z -> y < 2 ^ z ->
  zoom_base z <= spec_tile_id z x y < zoom_base (z + 1).
Proof.
  intros z x y Hz Hx Hy. unfold spec_tile_id. rewrite zb_S.
  pose proof (hspec_lt (N.to_nat z) x y) as H. rewrite to_nat_of in H.
  specialize (H Hx Hy). lia.
Qed.

Theorem tile_id_spec : forall z x y, z <= 31 -> x < 2 ^ z -> y < 2 ^ z ->
  tile_id z x y = Ok (spec_tile_id z x y).
Proof.
  intros z x y Hz Hx Hy. unfold tile_id.
  destruct (N.eqb_spec z 0) as [->|Hnz]; [reflexivity|].
  rewrite base_id_ok by lia. cbn [bind].
  rewrite xy2h_spec by (rewrite ?to_nat_of; try assumption; lia).
  pose proof (tile_id_block z x y Hz Hx Hy) as [_ Hb]. unfold spec_tile_id in *.
  assert (zoom_base (z + 1) < two64) by (apply zb_lt64; lia).
  unfold add64. destruct (N.ltb_spec (zoom_base z + hilbert_spec (N.to_nat z) x y) two64); [reflexivity|lia].
Qed.

Lemma find_z_32 z id : 1 <= z <= 31 -> zoom_base z <= id < zoom_base (z + 1) -> find_z 32 id = Ok z.
Proof.
  intros Hz Hid. unfold find_z. change (N.to_nat 32 - 1)%nat with 31%nat.
  change 1 with (zoom_base 1) at 2.
  destruct (find_z_some 31 1 id) as (z' & -> & _ & Hb).
  - assert (zoom_base 1 <= zoom_base z) by (apply zb_mono; lia). lia.
  - assert (zoom_base (z + 1) <= zoom_base (1 + N.of_nat 31)) by (apply zb_mono; lia). lia.
  - f_equal. symmetry. eapply zb_unique; eassumption.
Qed.

Lemma zxy_block z h : 1 <= z <= 31 -> h < 4 ^ z ->
  zxy 32 (zoom_base z + h) = Ok (z, fst (dec (N.to_nat z) 0 h), snd (dec (N.to_nat z) 0 h)).
Proof.
  intros Hz Hh. unfold zxy.
  pose proof (zb_pos z (proj1 Hz)).
  destruct (N.eqb_spec (zoom_base z + h) 0) as [E|_]; [lia|].
  rewrite (find_z_32 z) by (rewrite ?zb_S; lia). cbn [bind].
  rewrite base_id_ok by lia. cbn [bind]. unfold sub64.
  destruct (N.leb_spec (zoom_base z) (zoom_base z + h)) as [_|Hbad]; [|lia]. cbn [bind].
  replace (zoom_base z + h - zoom_base z) with h by lia.
  rewrite h2xy_dec by (rewrite ?to_nat_of; try assumption; lia).
  destruct (dec (N.to_nat z) 0 h) as [x y]. reflexivity.
Qed.

Theorem zxy_tile_id : forall z x y, z <= 31 -> x < 2 ^ z -> y < 2 ^ z ->
  zxy 32 (spec_tile_id z x y) = Ok (z, x, y).
Proof.
  intros z x y Hz Hx Hy.
  destruct (N.eq_dec z 0) as [->|Hnz].
  - change (2 ^ 0) with 1 in *. assert (x = 0) as -> by lia. assert (y = 0) as -> by lia. reflexivity.
  - unfold spec_tile_id.
    pose proof (hspec_lt (N.to_nat z) x y) as Hlt. rewrite to_nat_of in Hlt.
    rewrite zxy_block by (try apply Hlt; try assumption; lia).
    rewrite hspec_encl by (rewrite to_nat_of; assumption).
    rewrite dec_encl by (rewrite ?to_nat_of; try assumption; lia). reflexivity.
Qed.

Theorem zxy_total : forall id, id < zoom_base 32 ->
  exists z x y, zxy 32 id = Ok (z, x, y) /\ z <= 31 /\ x < 2 ^ z /\ y < 2 ^ z /\ tile_id z x y = Ok id.
Proof.
  intros id Hid.
  destruct (N.eq_dec id 0) as [->|Hnz].
  - exists 0, 0, 0. repeat split; lia.
  - destruct (find_z_some 31 1 id) as (z & _ & Hz & Hb).
    + change (zoom_base 1) with 1. lia.
    + exact Hid.
    + change (1 + N.of_nat 31) with 32 in Hz. rewrite zb_S in Hb.
      set (h := id - zoom_base z). assert (Eid : id = zoom_base z + h) by (unfold h; lia).
      assert (Hh : h < 4 ^ z) by (unfold h; lia).
      pose proof (dec_lt (N.to_nat z) 0 h) as Hd. rewrite to_nat_of in Hd.
      destruct Hd as [Dx Dy]; [lia|assumption|].
      pose proof (encl_dec (N.to_nat z) 0 h) as He. rewrite to_nat_of in He.
      specialize (He ltac:(lia) Hh).
      exists z, (fst (dec (N.to_nat z) 0 h)), (snd (dec (N.to_nat z) 0 h)).
      split; [rewrite Eid; apply zxy_block; [lia|assumption]|].
      split; [lia|]. split; [assumption|]. split; [assumption|].
      rewrite tile_id_spec by (try assumption; lia).
      unfold spec_tile_id. rewrite hspec_encl by (rewrite to_nat_of; assumption).
      rewrite He, Eid. reflexivity.
Qed.

Theorem zxy_too_large : forall id, zoom_base 32 <= id -> zxy 32 id = Err EMaxZ.
Proof.
  intros id Hid. unfold zxy. rewrite zb_32 in Hid.
  destruct (N.eqb_spec id 0) as [E|_]; [lia|].
  unfold find_z. change (N.to_nat 32 - 1)%nat with 31%nat.
  change 1 with (zoom_base 1) at 2.
  rewrite find_z_none; [reflexivity|].
  change (1 + N.of_nat 31) with 32. rewrite zb_32. assumption.
Qed.

(** * Children *)
Lemma encl_children k : forall l x y, l < 4 ->
  exists lf, lf < 4 /\ forall a b : bool,
    encl (S k) l (2 * x + N.b2n a) (2 * y + N.b2n b) = 4 * encl k l x y + yx2h lf b a.
Proof.
  induction k as [|k IH]; intros l x y Hl.
  - exists l. split; [assumption|]. intros a b.
    rewrite encl_S. cbn [encl]. change (N.of_nat 0) with 0.
    rewrite !N.testbit_0_r, N.pow_0_r. lia.
  - set (q := yx2h l (N.testbit y (N.of_nat k)) (N.testbit x (N.of_nat k))).
    assert (Hq : q < 4) by (apply yx_lt; assumption).
    destruct (IH (next_lut l q) x y (nl_lt _ _ Hl Hq)) as (lf & Hlf & E).
    exists lf. split; [assumption|]. intros a b.
    rewrite (encl_S (S k)). rewrite (Nat2N.inj_succ k), !N.testbit_succ_r.
    fold q. rewrite E. rewrite (encl_S k). fold q.
    rewrite N.pow_succ_r'. lia.
Qed.

Lemma bit_of a : a < 2 -> exists b : bool, a = N.b2n b.
Proof.
  intros Ha. assert (H : a = 0 \/ a = 1) by lia.
  destruct H as [->| ->]; [exists false|exists true]; reflexivity.
Qed.

Lemma child_bound z x a : x < 2 ^ z -> a < 2 -> 2 * x + a < 2 ^ N.of_nat (S (N.to_nat z)).
Proof. intros Hx Ha. rewrite pow2_S, to_nat_of. lia. Qed.

Lemma to_nat_succ z : N.to_nat (z + 1) = S (N.to_nat z).
Proof. lia. Qed.

Theorem children_block : forall z x y a b, z <= 30 -> x < 2 ^ z -> y < 2 ^ z -> a < 2 -> b < 2 ->
  exists q, q < 4 /\
  hilbert_spec (N.to_nat (z + 1)) (2 * x + a) (2 * y + b) = 4 * hilbert_spec (N.to_nat z) x y + q.
Proof.
  intros z x y a b Hz Hx Hy Ha Hb.
  rewrite to_nat_succ.
  rewrite !hspec_encl by (rewrite ?to_nat_of; try assumption; apply child_bound; assumption).
  destruct (bit_of a Ha) as (ba & ->). destruct (bit_of b Hb) as (bb & ->).
  destruct (encl_children (N.to_nat z) 0 x y) as (lf & Hlf & E); [lia|].
  exists (yx2h lf bb ba). split; [apply yx_lt; assumption|apply E].
Qed.

Theorem children_distinct : forall z x y a b a' b', z <= 30 -> x < 2 ^ z -> y < 2 ^ z -> a < 2 -> b < 2 -> a' < 2 -> b' < 2 ->
  hilbert_spec (N.to_nat (z + 1)) (2 * x + a) (2 * y + b) = hilbert_spec (N.to_nat (z + 1)) (2 * x + a') (2 * y + b') ->
  a = a' /\ b = b'.
Proof.
  intros z x y a b a' b' Hz Hx Hy Ha Hb Ha' Hb'.
  rewrite to_nat_succ.
  rewrite !hspec_encl by (apply child_bound; assumption).
  destruct (bit_of a Ha) as (ba & ->). destruct (bit_of b Hb) as (bb & ->).
  destruct (bit_of a' Ha') as (ba' & ->). destruct (bit_of b' Hb') as (bb' & ->).
  destruct (encl_children (N.to_nat z) 0 x y) as (lf & Hlf & E); [lia|].
  rewrite !E. intros H.
  assert (H' : yx2h lf bb ba = yx2h lf bb' ba') by lia.
  destruct (yx_inj lf ba bb ba' bb' Hlf H') as [-> ->]. split; reflexivity.
Qed.

(** * Adjacency of consecutive positions *)
Definition adj (p p' : N * N) : Prop :=
  let '(x, y) := p in let '(x', y') := p' in
  (x' = x /\ (y' = y + 1 \/ y = y' + 1)) \/ (y' = y /\ (x' = x + 1 \/ x = x' + 1)).

Ltac comp_luts := repeat match goal with
  | |- context [next_lut ?a ?b] =>
      let t := eval vm_compute in (next_lut a b) in change (next_lut a b) with t
  | |- context [h2xy_lut ?a ?b] =>
      let t := eval vm_compute in (h2xy_lut a b) in change (h2xy_lut a b) with t
  end.

Lemma dec_entry k : forall l, l < 4 ->
  dec k l 0 = ((2 ^ N.of_nat k - 1) * fst (h2xy_lut l 0), (2 ^ N.of_nat k - 1) * snd (h2xy_lut l 0)).
Proof.
  induction k as [|k IH]; intros l Hl.
  - change (2 ^ N.of_nat 0 - 1) with 0. cbn [dec]. f_equal; lia.
  - replace 0 with (4 ^ N.of_nat k * 0 + 0) at 1 by lia.
    rewrite dec_step by apply pow4_pos.
    rewrite IH by (apply nl_lt; lia).
    rewrite pow2_S. pose proof (pow2_pos (N.of_nat k)) as HM. set (M := 2 ^ N.of_nat k) in *.
    case4 l; comp_luts; cbn [fst snd]; f_equal; lia.
Qed.

Lemma dec_exit k : forall l, l < 4 ->
  dec k l (4 ^ N.of_nat k - 1) =
  ((2 ^ N.of_nat k - 1) * fst (h2xy_lut l 3), (2 ^ N.of_nat k - 1) * snd (h2xy_lut l 3)).
Proof.
  induction k as [|k IH]; intros l Hl.
  - change (2 ^ N.of_nat 0 - 1) with 0. cbn [dec]. f_equal; lia.
  - pose proof (pow4_pos (N.of_nat k)) as HP.
    replace (4 ^ N.of_nat (S k) - 1) with (4 ^ N.of_nat k * 3 + (4 ^ N.of_nat k - 1))
      by (rewrite pow4_S; lia).
    rewrite dec_step by lia.
    rewrite IH by (apply nl_lt; lia).
    rewrite pow2_S. pose proof (pow2_pos (N.of_nat k)) as HM. set (M := 2 ^ N.of_nat k) in *.
    case4 l; comp_luts; cbn [fst snd]; f_equal; lia.
Qed.

Lemma dec_adj k : forall l h, l < 4 -> h + 1 < 4 ^ N.of_nat k -> adj (dec k l h) (dec k l (h + 1)).
Proof.
  induction k as [|k IH]; intros l h Hl Hh.
  - change (4 ^ N.of_nat 0) with 1 in Hh. lia.
  - assert (Hh0 : h < 4 ^ N.of_nat (S k)) by lia.
    destruct (split_h _ _ Hh0) as (q & r & -> & Hq & Hr).
    pose proof (pow4_pos (N.of_nat k)) as HP.
    destruct (N.eq_dec (r + 1) (4 ^ N.of_nat k)) as [Er|Nr].
    + (* junction between quadrant q and q+1 *)
      assert (Hq3 : q < 3).
      { destruct (N.lt_ge_cases q 3) as [|Hge]; [assumption|exfalso].
        assert (q = 3) as -> by lia. rewrite pow4_S in Hh. lia. }
      assert (Er' : r = 4 ^ N.of_nat k - 1) by lia. subst r.
      replace (4 ^ N.of_nat k * q + (4 ^ N.of_nat k - 1) + 1)
        with (4 ^ N.of_nat k * (q + 1) + 0) by lia.
      rewrite !dec_step by lia.
      assert (Hc : (q = 0 /\ q + 1 = 1) \/ (q = 1 /\ q + 1 = 2) \/ (q = 2 /\ q + 1 = 3)) by lia.
      pose proof (pow2_pos (N.of_nat k)) as HM.
      destruct Hc as [[-> ->]|[[-> ->]|[-> ->]]];
        (rewrite dec_exit, dec_entry by (apply nl_lt; lia));
        set (M := 2 ^ N.of_nat k) in *;
        case4 l; comp_luts; cbn [fst snd]; unfold adj; lia.
    + replace (4 ^ N.of_nat k * q + r + 1) with (4 ^ N.of_nat k * q + (r + 1)) by lia.
      rewrite !dec_step by lia.
      specialize (IH (next_lut l q) r (nl_lt _ _ Hl Hq) ltac:(lia)).
      destruct (h2xy_lut l q) as [bx by_].
      destruct (dec k (next_lut l q) r) as [x1 y1].
      destruct (dec k (next_lut l q) (r + 1)) as [x2 y2].
      unfold adj in *.
      set (ox := 2 ^ N.of_nat k * bx). set (oy := 2 ^ N.of_nat k * by_). lia.
Qed.

Theorem consecutive_adjacent : forall z x y x' y', z <= 31 -> x < 2 ^ z -> y < 2 ^ z -> x' < 2 ^ z -> y' < 2 ^ z ->
  hilbert_spec (N.to_nat z) x' y' = hilbert_spec (N.to_nat z) x y + 1 ->
  (x' = x /\ (y' = y + 1 \/ y = y' + 1)) \/ (y' = y /\ (x' = x + 1 \/ x = x' + 1)).
Proof.
  intros z x y x' y' Hz Hx Hy Hx' Hy'.
  rewrite !hspec_encl by (rewrite to_nat_of; assumption).
  intros E.
  pose proof (encl_lt (N.to_nat z) 0 x' y') as Hlt. specialize (Hlt ltac:(lia)).
  rewrite E in Hlt.
  pose proof (dec_adj (N.to_nat z) 0 _ ltac:(lia) Hlt) as A.
  rewrite <- E in A.
  rewrite !dec_encl in A by (rewrite ?to_nat_of; try assumption; lia).
  exact A.
Qed.

Print Assumptions tile_id_spec.
Print Assumptions tile_id_block.
Print Assumptions zxy_tile_id.
Print Assumptions zxy_total.
Print Assumptions zxy_too_large.
Print Assumptions children_block.
Print Assumptions children_distinct.
Print Assumptions consecutive_adjacent.
