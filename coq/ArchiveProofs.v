(** Proofs about the archive-level functions of Archive.v. *)
Require Import PM.Base PM.Oracles PM.Params PM.Float PM.Header PM.Directory PM.Stream
               PM.TileManager PM.DirWriter PM.DirReader PM.Hilbert PM.HilbertProofs PM.Archive.
From Coq Require Import ZifyN ZifyBool ZifyNat.
Open Scope N_scope.

(** ** lookups by coordinates (C07, last clause) *)
Lemma in_grid_spec z x y : in_grid z x y = true <-> z <= 31 /\ x < 2 ^ z /\ y < 2 ^ z.
Proof.
  unfold in_grid. rewrite !Bool.andb_true_iff, N.ltb_lt, !N.eqb_eq.
  assert (Hp : 2 ^ z <> 0) by (apply N.pow_nonzero; lia).
  split.
  - intros [[Hz Hx] Hy]. split; [lia|].
    split; [apply N.div_small_iff in Hx|apply N.div_small_iff in Hy]; assumption.
  - intros (Hz & Hx & Hy). repeat split; [lia| |]; apply N.div_small; assumption.
Qed.

Lemma get_tile_xyz_outside p x y z : in_grid z x y = false -> get_tile_xyz p x y z = Ok None.
Proof. intros H. unfold get_tile_xyz. rewrite H. reflexivity. Qed.

Lemma get_tile_xyz_inside p x y z : z <= 31 -> x < 2 ^ z -> y < 2 ^ z ->
  get_tile_xyz p x y z = get_tile (p_tm p) (spec_tile_id z x y).
Proof.
  intros Hz Hx Hy. unfold get_tile_xyz.
  assert (G : in_grid z x y = true) by (apply in_grid_spec; auto). rewrite G. cbn [negb].
  rewrite tile_id_spec by assumption. reflexivity.
Qed.

Lemma read_at_no_crash img off len c : read_at img off len <> Crash c.
Proof. unfold read_at. destruct (off + len <=? nlen img); congruence. Qed.
Lemma tile_content_no_crash s t c : tile_content s t <> Crash c.
Proof.
  destruct t as [h|off len]; cbn [tile_content]; [congruence|].
  destruct (backing s) as [img|]; [|congruence].
  pose proof (read_at_no_crash img off len c). destruct (read_at img off len); cbn [bind]; congruence.
Qed.
Lemma get_tile_no_crash s id c : get_tile s id <> Crash c.
Proof. unfold get_tile. destruct (aget id (tile_by_id s)); [apply tile_content_no_crash|congruence]. Qed.

(** a lookup by coordinates never crashes, whatever the coordinates (z : u8 is not even needed) *)
Lemma get_tile_xyz_no_crash p x y z c : get_tile_xyz p x y z <> Crash c.
Proof.
  destruct (in_grid z x y) eqn:G.
  - apply in_grid_spec in G. destruct G as (Hz & Hx & Hy).
    rewrite get_tile_xyz_inside by assumption. apply get_tile_no_crash.
  - rewrite get_tile_xyz_outside by assumption. congruence.
Qed.
