(** Base definitions shared by the whole model: outcomes, checked machine arithmetic, bytes. *)
From Coq Require Export NArith ZArith List Bool Lia.
Export ListNotations.
Open Scope N_scope.

(** Bytes are natural numbers; a well-formed byte string has every element < 256.
    Encoders are proved to produce well-formed strings; decoders are total on any list. *)
Definition bytes := list N.
Definition wf_bytes (b : bytes) : Prop := Forall (fun x => x < 256) b.
Definition wf_bytesb (b : bytes) : bool := forallb (fun x => x <? 256) b.

(** Error kinds are informational only (never compared with the implementation beyond Ok/Err/Crash). *)
Inductive err := EEof | EInvalid | EOther | ECodec | EJson | EInput | EMaxZ | EIo.
(** Crash kinds: what the Rust code would do instead of returning. *)
Inductive crash := Overflow | CapacityOverflow | OutOfFuel | IndexOob | OracleMiss.

Inductive outcome (A : Type) : Type :=
| Ok (a : A)
| Err (e : err)
| Crash (c : crash).
Arguments Ok {A} a.
Arguments Err {A} e.
Arguments Crash {A} c.

Definition bind {A B} (m : outcome A) (f : A -> outcome B) : outcome B :=
  match m with
  | Ok a => f a
  | Err e => Err e
  | Crash c => Crash c
  end.
Notation "'do' x <- m ; k" := (bind m (fun x => k))
  (at level 200, x pattern, m at level 100, k at level 200, right associativity).

Definition is_ok {A} (m : outcome A) : bool := match m with Ok _ => true | _ => false end.
Definition is_crash {A} (m : outcome A) : bool := match m with Crash _ => true | _ => false end.
Definition is_err {A} (m : outcome A) : bool := match m with Err _ => true | _ => false end.

Definition two64 : N := 18446744073709551616.
Definition two32 : N := 4294967296.
Definition two63 : N := 9223372036854775808.
Definition u64_max : N := 18446744073709551615.
Definition u32_max : N := 4294967295.

(** Rust [a + b] on u64 with overflow checks: a panic (debug) / silent wrap (release) is a [Crash]. *)
Definition add64 (a b : N) : outcome N :=
  if a + b <? two64 then Ok (a + b) else Crash Overflow.
(** Rust [a - b] on unsigned. *)
Definition sub64 (a b : N) : outcome N :=
  if b <=? a then Ok (a - b) else Crash Overflow.
(** [checked_add(..).ok_or(InvalidData)] *)
Definition cadd64 (a b : N) : outcome N :=
  if a + b <? two64 then Ok (a + b) else Err EInvalid.
Definition csub64 (a b : N) : outcome N :=
  if b <=? a then Ok (a - b) else Err EInvalid.

(** little-endian fixed width *)
Fixpoint le_bytes (n : nat) (v : N) : bytes :=
  match n with
  | O => []
  | S k => (v mod 256) :: le_bytes k (v / 256)
  end.
Fixpoint le_value (b : bytes) : N :=
  match b with
  | [] => 0
  | x :: r => x + 256 * le_value r
  end.

(** generic helpers *)
Fixpoint mapM {A B} (f : A -> outcome B) (l : list A) : outcome (list B) :=
  match l with
  | [] => Ok []
  | x :: r => do y <- f x; do ys <- mapM f r; Ok (y :: ys)
  end.

Definition sum_lengths {A} (l : list (list A)) : N :=
  fold_right (fun x acc => N.of_nat (length x) + acc) 0 l.

Definition nlen {A} (l : list A) : N := N.of_nat (length l).
