(** Facts about the in-memory stream model (Stream.v) and the codec writer (DirWriter.v). *)
Require Import PM.Base PM.Oracles PM.Params PM.Directory PM.Stream PM.DirWriter.
From Coq Require Import ZifyN ZifyBool ZifyNat.
Open Scope N_scope.

Lemma pad_to_length n b : length (pad_to n b) = Nat.max n (length b).
Proof. unfold pad_to. rewrite app_length, repeat_length. lia. Qed.
Lemma firstn_pad_length n b : length (firstn n (pad_to n b)) = n.
Proof. rewrite firstn_length, pad_to_length. lia. Qed.

Lemma write_at_length img pos bs : length (write_at img pos bs) = Nat.max (N.to_nat pos + length bs) (length img).
Proof.
  unfold write_at. rewrite !app_length, firstn_pad_length, skipn_length. lia.
Qed.

(** the bytes before the write position are kept (zero-extended if the image was shorter) *)
Lemma write_at_prefix img pos bs : firstn (N.to_nat pos) (write_at img pos bs) = firstn (N.to_nat pos) (pad_to (N.to_nat pos) img).
Proof.
  unfold write_at. set (p := N.to_nat pos).
  rewrite firstn_app, firstn_pad_length, Nat.sub_diag. cbn [firstn]. rewrite app_nil_r.
  apply firstn_all2. rewrite firstn_pad_length. lia.
Qed.

Lemma firstn_exact {A} (l r : list A) n : length l = n -> firstn n (l ++ r) = l.
Proof. intros <-. rewrite firstn_app, Nat.sub_diag, firstn_all. cbn. apply app_nil_r. Qed.
Lemma skipn_exact {A} (l r : list A) n : length l = n -> skipn n (l ++ r) = r.
Proof. intros <-. rewrite skipn_app, Nat.sub_diag, skipn_all. reflexivity. Qed.

Lemma skipn_skipn' {A} (x y : nat) (l : list A) : skipn x (skipn y l) = skipn (y + x) l.
Proof. revert l. induction y as [|y IH]; intros l; [reflexivity|]. destruct l; [now rewrite !skipn_nil|]. cbn. apply IH. Qed.

(** two consecutive writes are one write of the concatenation *)
Lemma write_at_app img pos a b :
  write_at (write_at img pos a) (pos + nlen a) b = write_at img pos (a ++ b).
Proof.
  unfold nlen. set (p := N.to_nat pos).
  assert (Ep : N.to_nat (pos + N.of_nat (length a)) = (p + length a)%nat) by (unfold p; lia).
  set (pre := firstn p (pad_to p img)).
  assert (Lpre : length pre = p) by apply firstn_pad_length.
  assert (E1 : write_at img pos a = (pre ++ a) ++ skipn (p + length a) img).
  { unfold write_at. fold p. fold pre. now rewrite app_assoc. }
  rewrite E1. unfold write_at. rewrite Ep. fold p. fold pre.
  assert (Lpa : length (pre ++ a) = (p + length a)%nat) by (rewrite app_length; lia).
  assert (Epad : pad_to (p + length a) ((pre ++ a) ++ skipn (p + length a) img) = (pre ++ a) ++ skipn (p + length a) img).
  { unfold pad_to. rewrite app_length, Lpa.
    replace (p + length a - (p + length a + length (skipn (p + length a) img)))%nat with 0%nat by lia. cbn. apply app_nil_r. }
  rewrite Epad. rewrite (firstn_exact _ _ _ Lpa).
  replace (p + length a + length b)%nat with ((p + length a) + length b)%nat by lia.
  rewrite <- (skipn_skipn' (length b) (p + length a)).
  rewrite (skipn_exact _ _ _ Lpa). rewrite skipn_skipn'.
  rewrite <- !app_assoc. f_equal. f_equal. f_equal. rewrite app_length. f_equal. lia.
Qed.

Lemma write_at_nil img pos : (N.to_nat pos <= length img)%nat -> write_at img pos [] = img.
Proof.
  intros H. unfold write_at. cbn [app length]. rewrite Nat.add_0_r.
  unfold pad_to. replace (N.to_nat pos - length img)%nat with 0%nat by lia. cbn. rewrite app_nil_r.
  apply firstn_skipn.
Qed.

(** image and position after a plain write *)
Lemma ws_write_pos st bs : ws_pos (ws_write st bs) = ws_pos st + nlen bs.
Proof. unfold ws_write, ws_write_gen. destruct bs; cbn [ws_pos]; [unfold nlen; cbn; lia|reflexivity]. Qed.
Lemma ws_write_gen_pos sw st bs : ws_pos (ws_write_gen sw st bs) = ws_pos st + nlen bs.
Proof. unfold ws_write_gen. destruct bs; cbn [ws_pos]; [unfold nlen; cbn; lia|reflexivity]. Qed.

(** two consecutive writes, image-wise *)
Lemma ws_write_gen_app_img sw1 sw2 st a b :
  ws_img (ws_write_gen sw2 (ws_write_gen sw1 st a) b) = ws_img (ws_write_gen sw1 st (a ++ b)).
Proof.
  unfold ws_write_gen. destruct a as [|x a]; [cbn [app]; destruct b; reflexivity|]. destruct b as [|y b].
  - rewrite app_nil_r. reflexivity.
  - cbn [ws_img ws_pos app]. change (x :: a ++ y :: b) with ((x :: a) ++ (y :: b)). apply write_at_app.
Qed.

Section WithCtx.
  Context (cx : ctx).

  (** the codec writer puts exactly [z] at the current position and advances by its length, whatever
      the API family and however the bytes are split between flush time and drop time *)
  Lemma ws_write_codec_pos asy c st plain z : ws_pos (ws_write_codec cx asy c st plain z) = ws_pos st + nlen z.
  Proof.
    unfold ws_write_codec. destruct asy; [cbn [ws_log_ev ws_pos]; apply ws_write_pos|].
    destruct c; try (cbn [ws_log_ev ws_pos]; apply ws_write_pos).
    all: rewrite ws_write_gen_pos; cbn [ws_log_ev ws_pos]; rewrite ws_write_pos.
    all: set (t := N.to_nat (N.min (drop_tail cx _ plain) (nlen z))).
    all: rewrite <- N.add_assoc; f_equal; unfold nlen; rewrite <- Nat2N.inj_add, <- app_length, firstn_skipn; reflexivity.
  Qed.
  Lemma ws_write_codec_img asy c st plain z : ws_img (ws_write_codec cx asy c st plain z) = ws_img (ws_write st z).
  Proof.
    unfold ws_write_codec. destruct asy; [reflexivity|].
    destruct c; try reflexivity.
    all: set (t := N.to_nat (N.min (drop_tail cx _ plain) (nlen z))).
    all: set (k := (length z - t)%nat).
    all: change (ws_log_ev (ws_write st (firstn k z)) EvFlush) with
           (mkWS (ws_img (ws_write st (firstn k z))) (ws_pos (ws_write st (firstn k z))) (EvFlush :: ws_log (ws_write st (firstn k z)))).
    all: transitivity (ws_img (ws_write_gen true (ws_write_gen false st (firstn k z)) (skipn k z)));
      [unfold ws_write_gen at 1 3; destruct (skipn k z); reflexivity|].
    all: rewrite ws_write_gen_app_img, firstn_skipn; reflexivity.
  Qed.
  Lemma ws_write_dir_pos asy st z : ws_pos (ws_write_dir asy st z) = ws_pos st + nlen z.
  Proof. unfold ws_write_dir. cbn [ws_log_ev ws_pos]. apply ws_write_pos. Qed.
  Lemma ws_write_dir_img asy st z : ws_img (ws_write_dir asy st z) = ws_img (ws_write st z).
  Proof. reflexivity. Qed.
End WithCtx.
