(** C08, re-write clause: writing an archive never crashes — for ANY store whose tile ids are below
    2^64 - 1 and whose contents are 1 .. 2^32 - 1 bytes long, with fewer than 2^32 tiles — and an archive
    opened from ARBITRARY bytes is such a store.  No hash-injectivity premise: with colliding hashes the
    writer may reuse the wrong content, but it does not crash and the directory it builds is valid.

    The arithmetic that could go wrong in [finish]: [last.tile_id + last.run_length] (safe because the ids
    arrive in ascending order: the sum is at most the current id), [run_length += 1] (safe below 2^32 tiles),
    the data offsets (at most count * (2^32 - 1) < 2^64). *)
Require Import PM.Base PM.Varint PM.VarintProofs PM.Oracles PM.Params PM.Directory PM.DirectoryProofs PM.Stream PM.Header PM.TileManager
  PM.TileManagerProofs PM.DirWriter PM.DirReader PM.Archive PM.FinishSpec PM.FinishProofs PM.OpenFilterProofs
  PM.ContractProofs PM.TotalityProofs PM.ReopenProofs PM.ArchiveProofs.
From Coq Require Import Sorting.Sorted.
Open Scope N_scope.

(** * what the directory parser guarantees, whatever the bytes *)
Definition entry_bounds (e : entry) : Prop :=
  e_id e + e_run e < two64 /\ 1 <= e_len e /\ e_len e < two32.

Lemma check_runs_ok : forall ids runs, check_runs ids runs = Ok tt -> length ids = length runs ->
  Forall2 (fun i r => i + r < two64) ids runs.
Proof.
  induction ids as [|i ir IH]; intros [|r rr] H Hl; try discriminate; [constructor|].
  cbn [check_runs] in H. unfold cadd64 in H. destruct (N.ltb_spec (i + r) two64); cbn [bind] in H; [|discriminate].
  constructor; [assumption|]. apply IH; [exact H|]. cbn in Hl. lia.
Qed.

Section Col.
  Variable rd : bytes -> outcome (N * bytes).
  Variable P : N -> Prop.
  Hypothesis Hrd : forall bs v r, rd bs = Ok (v, r) -> P v.
  Lemma read_n_all : forall fuel n bs vs r, read_n rd fuel n bs = Ok (vs, r) -> Forall P vs /\ length vs = N.to_nat n.
  Proof.
    induction fuel as [|f IH]; intros n bs vs r H; cbn [read_n] in H.
    - destruct (N.eqb_spec n 0) as [->|]; [injection H as <- _; split; [constructor|reflexivity]|discriminate].
    - destruct (N.eqb_spec n 0) as [->|Hn]; [injection H as <- _; split; [constructor|reflexivity]|].
      destruct (rd bs) as [[v r1]| |] eqn:E; cbn [bind] in H; try discriminate.
      destruct (read_n rd f (n - 1) r1) as [[vs1 r2]| |] eqn:E2; cbn [bind] in H; try discriminate.
      injection H as <- _. destruct (IH _ _ _ _ E2) as [A B]. split; [constructor; [eapply Hrd; exact E|exact A]|].
      cbn [length]. rewrite B. lia.
  Qed.
End Col.

Lemma zip4_bounds : forall ids offs lens runs,
  Forall2 (fun i r => i + r < two64) ids runs -> Forall (fun l => 1 <= l) lens -> Forall (fun l => l < two32) lens ->
  Forall entry_bounds (zip4 ids offs lens runs).
Proof.
  induction ids as [|i ir IH]; intros offs lens runs H2 H1 H3; [constructor|].
  destruct offs as [|o or]; [constructor|]. destruct lens as [|l lr]; [constructor|]. destruct runs as [|r rr]; [constructor|].
  inversion H2; subst. inversion H1; subst. inversion H3; subst. cbn [zip4]. constructor.
  - unfold entry_bounds. cbn [e_id e_run e_len]. repeat split; assumption.
  - apply IH; assumption.
Qed.

Lemma sum_ids_length : forall deltas last ids, sum_ids last deltas = Ok ids -> length ids = length deltas.
Proof.
  induction deltas as [|d r IH]; intros last ids H; cbn [sum_ids] in H; [injection H as <-; reflexivity|].
  destruct (cadd64 last d) as [id| |]; cbn [bind] in H; try discriminate.
  destruct (sum_ids id r) as [ids'| |] eqn:E; cbn [bind] in H; try discriminate.
  injection H as <-. cbn [length]. f_equal. eapply IH. exact E.
Qed.

Theorem decode_plain_bounds bs es : decode_dir_plain bs = Ok es -> Forall entry_bounds es.
Proof.
  unfold decode_dir_plain. intros H.
  destruct (read_varint64 bs) as [[n r0]| |]; cbn [bind] in H; try discriminate.
  destruct (read_n read_varint64 (length r0) n r0) as [[deltas r1]| |] eqn:E1; cbn [bind] in H; try discriminate.
  destruct (sum_ids 0 deltas) as [ids| |] eqn:E2; cbn [bind] in H; try discriminate.
  destruct (read_n read_varint32 (length r1) n r1) as [[runs r2]| |] eqn:E3; cbn [bind] in H; try discriminate.
  destruct (check_runs ids runs) as [u| |] eqn:E4; cbn [bind] in H; try discriminate.
  destruct (read_n read_varint32 (length r2) n r2) as [[lens r3]| |] eqn:E5; cbn [bind] in H; try discriminate.
  destruct (check_lens lens) as [u'| |] eqn:E6; cbn [bind] in H; try discriminate.
  destruct (read_n read_varint64 (length r3) n r3) as [[vals r4]| |]; cbn [bind] in H; try discriminate.
  destruct (rebuild_offsets true 0 0 vals lens) as [offs| |]; cbn [bind] in H; try discriminate.
  injection H as <-. destruct u, u'.
  destruct (read_n_all read_varint64 (fun _ => True) (fun _ _ _ _ => I) _ _ _ _ _ E1) as [_ L1].
  destruct (read_n_all read_varint32 (fun v => v < two32) read_varint32_lt _ _ _ _ _ E3) as [_ L3].
  destruct (read_n_all read_varint32 (fun v => v < two32) read_varint32_lt _ _ _ _ _ E5) as [B5 _].
  apply zip4_bounds; [|now apply check_lens_ok|exact B5].
  apply check_runs_ok; [exact E4|]. rewrite (sum_ids_length _ _ _ E2). lia.
Qed.
Theorem decode_bounds cx c bs es : decode_dir cx c bs = Ok es -> Forall entry_bounds es.
Proof.
  unfold decode_dir. destruct (decompress_lazy cx c bs) as [[plain fl]| |]; cbn [bind]; try discriminate.
  apply decode_plain_bounds.
Qed.

(** * what the directory walk collects *)
Definition tiles_bounded (acc : list (N * (N * N))) : Prop :=
  forall id off len, aget id acc = Some (off, len) -> id + 1 < two64 /\ 1 <= len /\ len < two32.

Lemma expand_run_bounded r e acc : entry_bounds e -> tiles_bounded acc -> tiles_bounded (expand_run r e acc).
Proof.
  intros (B1 & B2 & B3) Hacc. unfold expand_run.
  set (f := fun st : N * list (N * (N * N)) => let '(i, a) := st in
              (i + 1, if in_range r i then aset i (e_off e, e_len e) a else a)).
  assert (G : forall k, k <= e_run e ->
            fst (N.iter k f (e_id e, acc)) = e_id e + k /\ tiles_bounded (snd (N.iter k f (e_id e, acc)))).
  { intros k. induction k as [|k IH] using N.peano_ind; intros Hk.
    - cbn. rewrite N.add_0_r. split; [reflexivity|exact Hacc].
    - rewrite N.iter_succ. destruct (IH ltac:(lia)) as [F T].
      destruct (N.iter k f (e_id e, acc)) as [i a]. cbn [fst snd] in *. subst i. cbn [f fst snd]. split; [lia|].
      destruct (in_range r (e_id e + k)); [|exact T].
      intros id off len Hg. destruct (N.eq_dec id (e_id e + k)) as [->|Hn].
      + rewrite aget_aset_eq in Hg. injection Hg as <- <-. repeat split; lia.
      + rewrite aget_aset_neq in Hg by exact Hn. eapply T. exact Hg. }
  apply (G (e_run e)). lia.
Qed.

Lemma walk_entries_bounded rec leaf_off r :
  (forall lo l a t, tiles_bounded a -> rec lo l a = Ok t -> tiles_bounded t) ->
  forall es acc t, Forall entry_bounds es -> tiles_bounded acc ->
    walk_entries rec leaf_off r es acc = Ok t -> tiles_bounded t.
Proof.
  intros Hrec. induction es as [|e es IH]; intros acc t Hes Hacc H; cbn [walk_entries] in H.
  - now injection H as <-.
  - inversion Hes as [|? ? He Hes']; subst. destruct (e_run e =? 0).
    + destruct (range_end_inc r <? e_id e); [eapply IH; eassumption|].
      destruct (cadd64 leaf_off (e_off e)) as [lo| |]; cbn [bind] in H; try discriminate.
      destruct (rec lo (e_len e) acc) as [acc'| |] eqn:E; cbn [bind] in H; try discriminate.
      eapply IH; [exact Hes'| |exact H]. eapply Hrec; eassumption.
    + eapply IH; [exact Hes'| |exact H]. now apply expand_run_bounded.
Qed.

Lemma read_dir_rec_bounded cx : forall fuel c img o l lo r acc t, tiles_bounded acc ->
  read_dir_rec cx fuel c img o l lo r acc = Ok t -> tiles_bounded t.
Proof.
  induction fuel as [|f IH]; intros c img o l lo r acc t Hacc H; cbn [read_dir_rec] in H; [discriminate|].
  destruct (decode_dir cx c (section img o l)) as [es| |] eqn:E; cbn [bind] in H; try discriminate.
  refine (walk_entries_bounded _ lo r _ es acc t _ Hacc H).
  - intros lo' l' a t' Ha Hr. cbv beta in Hr. eapply IH; eassumption.
  - eapply decode_bounds; exact E.
Qed.

(** * the store of an archive opened from arbitrary bytes *)
Section WithCtx.
  Context (cx : ctx).

  (** ids below 2^64 - 1, every readable content 1 .. 2^32 - 1 bytes long *)
  Definition store_bounded (s : tm) : Prop :=
    forall id t, aget id (tile_by_id s) = Some t ->
      id + 1 < two64 /\ forall content, tile_content s t = Ok (Some content) -> 1 <= nlen content /\ nlen content < two32.

  Lemma read_at_len img off len b : read_at img off len = Ok b -> nlen b = len.
  Proof.
    unfold read_at. destruct (N.leb_spec (off + len) (nlen img)) as [Hle|]; [|discriminate]. intros H. injection H as <-.
    unfold nlen in *. rewrite firstn_length, skipn_length. lia.
  Qed.

  Theorem opened_store_bounded img r p : from_reader cx img r = Ok p -> store_bounded (p_tm p) /\ p_icomp p <> CUnknown.
  Proof.
    intros H. unfold from_reader in H.
    destruct (decode_header img) as [[h rest]| |]; cbn [bind] in H; try discriminate.
    destruct (if h_meta_len h =? 0 then Ok empty_object else read_meta cx (h_icomp h) (section img (h_meta_off h) (h_meta_len h)))
      as [meta| |]; cbn [bind] in H; try discriminate.
    destruct (read_directories cx (h_icomp h) img (h_root_off h) (h_root_len h) (h_leaf_off h) r) as [t| |] eqn:Et; cbn [bind] in H; try discriminate.
    destruct (register_tiles (h_data_off h) t (tm_empty (Some img))) as [s| |] eqn:Rs; cbn [bind] in H; try discriminate.
    injection H as <-. cbn [p_tm p_icomp].
    assert (Nt : keys_nodup t) by (eapply read_dir_rec_nodup; [|exact Et]; constructor).
    assert (Bt : tiles_bounded t).
    { eapply read_dir_rec_bounded; [|exact Et]. intros id off len Hg. discriminate. }
    destruct (register_tiles_spec _ _ _ _ Nt Rs) as (Bk & _ & _ & Tb). split.
    - intros id t0 Ht. rewrite Tb in Ht. destruct (aget id t) as [[o l]|] eqn:Eg; [|cbn in Ht; discriminate].
      injection Ht as <-. destruct (Bt id o l Eg) as (B1 & B2 & B3). split; [exact B1|].
      intros content Hc. cbn [tile_content] in Hc. rewrite Bk in Hc. cbn [tm_empty backing] in Hc.
      destruct (read_at img (h_data_off h + o) l) as [b| |] eqn:Er; cbn [bind] in Hc; try discriminate.
      injection Hc as <-. rewrite (read_at_len _ _ _ _ Er). split; assumption.
    - intros Hu. unfold read_directories in Et. rewrite Hu in Et.
      destruct (read_dir_rec_unknown cx (depth_fuel_of max_dir_depth) img (h_root_off h) (h_root_len h) (h_leaf_off h) r []) as [e He].
      rewrite He in Et. discriminate.
  Qed.

  (** * [finish] on a bounded store *)
  (** the reversed entry list under construction *)
  Fixpoint rev_ok (dlen : N) (revs : list entry) : Prop :=
    match revs with
    | [] => True
    | e :: r =>
      (1 <= e_run e /\ e_run e < two32 /\ 1 <= e_len e /\ e_len e < two32 /\ e_off e + e_len e <= dlen) /\
      (match r with [] => True | p :: _ => e_id p + e_run p <= e_id e end) /\ rev_ok dlen r
    end.
  Lemma rev_ok_mono d d' revs : d <= d' -> rev_ok d revs -> rev_ok d' revs.
  Proof.
    intros Hd. induction revs as [|e r IH]; [trivial|]. cbn [rev_ok]. intros ((A & A' & B & C & D) & E & F).
    repeat split; try assumption; [lia|now apply IH].
  Qed.

  Record fin_inv (n hi : N) (acc : fin_acc) : Prop := mkFI {
    fi_revs : rev_ok (fa_data_len acc) (fa_entries acc);
    fi_top : match fa_entries acc with [] => True | e :: _ => e_id e + e_run e <= hi /\ e_run e <= n end;
    fi_map : forall h off len, aget h (fa_map acc) = Some (off, len) -> 1 <= len /\ len < two32 /\ off + len <= fa_data_len acc;
    fi_len : fa_data_len acc <= n * (two32 - 1);
    fi_cnt : fa_addressed acc <= n /\ fa_contents acc <= n /\ nlen (fa_entries acc) <= n;
    fi_data : fa_data_len acc = nlen (concat (rev (fa_data acc)))
  }.

  Lemma push_entry_inv n hi acc id off len dlen' :
    fin_inv n hi acc -> hi <= id -> id + 1 < two64 -> n + 1 < two32 ->
    1 <= len -> len < two32 -> off + len <= dlen' -> fa_data_len acc <= dlen' ->
    exists es, push_entry (fa_entries acc) id off len = Ok es /\
      rev_ok dlen' es /\ (match es with [] => False | e :: _ => e_id e + e_run e <= id + 1 /\ e_run e <= n + 1 end) /\
      nlen es <= n + 1.
  Proof.
    intros [Hr Ht _ _ (_ & _ & Hn) _] Hhi Hid Hcnt L1 L2 Lo Ld. unfold push_entry.
    destruct (fa_entries acc) as [|last r] eqn:E.
    - eexists. split; [reflexivity|]. cbn [rev_ok e_id e_run e_len e_off]. repeat split; try lia. unfold nlen. cbn. lia.
    - destruct Ht as [T1 T2]. unfold add64. destruct (N.ltb_spec (e_id last + e_run last) two64) as [_|Hge]; [|lia]. cbn [bind].
      pose proof (rev_ok_mono _ dlen' _ Ld Hr) as Hr'. cbn [rev_ok] in Hr'. destruct Hr' as ((A & A' & B & C & D) & P & Q).
      destruct ((id =? e_id last + e_run last) && (e_off last =? off) && (e_len last =? len)) eqn:Em.
      + apply andb_prop in Em. destruct Em as [Em E3]. apply andb_prop in Em. destruct Em as [E1 E2].
        apply N.eqb_eq in E1. apply N.eqb_eq in E2. apply N.eqb_eq in E3.
        destruct (N.ltb_spec (e_run last + 1) two32) as [_|Hge]; [|lia].
        eexists. split; [reflexivity|]. cbn [rev_ok e_id e_run e_len e_off]. repeat split; try lia; try assumption.
        unfold nlen in *. cbn [length] in *. lia.
      + eexists. split; [reflexivity|]. cbn [rev_ok e_id e_run e_len e_off]. repeat split; try lia; try assumption.
        unfold nlen in *. cbn [length] in *. lia.
  Qed.

  Lemma finish_step_inv s n hi acc id t :
    fin_inv n hi acc -> hi <= id -> id + 1 < two64 -> n + 1 < two32 ->
    (forall content, tile_content s t = Ok (Some content) -> 1 <= nlen content /\ nlen content < two32) ->
    match finish_step cx s acc (id, t) with
    | Crash _ => False
    | Err _ => True
    | Ok acc' => fin_inv (n + 1) (id + 1) acc'
    end.
  Proof.
    intros HI Hhi Hid Hcnt Hc. unfold finish_step.
    destruct (tile_content s t) as [[content|]| |] eqn:Et; cbn [bind]; [| |trivial|].
    2:{ destruct HI as [A B C D (E1 & E2 & E3) F]. constructor; try assumption.
        - destruct (fa_entries acc) as [|e r]; [trivial|]. destruct B. split; lia.
        - nia.
        - repeat split; lia. }
    2:{ destruct t as [h|o l]; cbn [tile_content] in Et; [discriminate|].
        destruct (backing s); [|discriminate]. destruct (read_at b o l) eqn:Er; cbn [bind] in Et; try discriminate.
        exact (read_at_no_crash _ _ _ _ Er). }
    destruct (Hc content eq_refl) as [C1 C2].
    set (h := match t with THash h => h | TOffLen _ _ => hash cx content end).
    destruct (aget h (fa_map acc)) as [[off len]|] eqn:Em.
    - destruct (fi_map _ _ _ HI h off len Em) as (L1 & L2 & L3).
      destruct (push_entry_inv n hi acc id off len (fa_data_len acc) HI Hhi Hid Hcnt L1 L2 L3 ltac:(lia)) as (es & -> & R1 & R2 & R3).
      cbn [bind]. destruct HI as [A B C D (E1 & E2 & E3) F]. constructor; cbn [fa_entries fa_data_len fa_map fa_addressed fa_contents fa_data]; try assumption.
      + destruct es as [|e r]; [destruct R2|exact R2].
      + nia.
      + repeat split; lia.
    - assert (Hm : nlen content mod two32 = nlen content) by (apply N.mod_small; exact C2).
      rewrite Hm.
      destruct (push_entry_inv n hi acc id (fa_data_len acc) (nlen content) (fa_data_len acc + nlen content) HI Hhi Hid Hcnt C1 C2 ltac:(lia) ltac:(lia))
        as (es & -> & R1 & R2 & R3).
      cbn [bind]. destruct HI as [A B C D (E1 & E2 & E3) F]. constructor; cbn [fa_entries fa_data_len fa_map fa_addressed fa_contents fa_data].
      + exact R1.
      + destruct es as [|e r]; [destruct R2|exact R2].
      + intros h' off' len' Hg. destruct (N.eq_dec h' h) as [->|Hn].
        * rewrite aget_aset_eq in Hg. injection Hg as <- <-. repeat split; lia.
        * rewrite aget_aset_neq in Hg by exact Hn. destruct (C h' off' len' Hg) as (X & Y & Z). repeat split; lia.
      + assert (two32 = 4294967296) by reflexivity. nia.
      + repeat split; lia.
      + cbn [rev]. rewrite concat_app. cbn [concat]. rewrite app_nil_r. unfold nlen in *. rewrite app_length. lia.
  Qed.

  Lemma finish_loop_inv s : forall l n hi acc,
    fin_inv n hi acc -> StronglySorted key_lt l ->
    (forall it, In it l -> hi <= fst it /\ fst it + 1 < two64 /\
        forall content, tile_content s (snd it) = Ok (Some content) -> 1 <= nlen content /\ nlen content < two32) ->
    n + N.of_nat (length l) < two32 ->
    match finish_loop cx s acc l with
    | Crash _ => False
    | Err _ => True
    | Ok acc' => (exists hi', fin_inv (n + N.of_nat (length l)) hi' acc' /\ hi' < two64)
                 \/ (l = [] /\ acc' = acc)
    end.
  Proof.
    induction l as [|[id t] l IH]; intros n hi acc HI Hs Hall Hcnt; cbn [finish_loop].
    - right. split; reflexivity.
    - inversion Hs as [|? ? Hs' Hlt]; subst.
      destruct (Hall (id, t) (or_introl eq_refl)) as (H1 & H2 & H3). cbn [fst snd] in *.
      cbn [length] in Hcnt.
      pose proof (finish_step_inv s n hi acc id t HI H1 H2 ltac:(lia) H3) as Hstep.
      destruct (finish_step cx s acc (id, t)) as [acc1| |]; cbn [bind]; [|trivial|exact Hstep].
      assert (Hall' : forall it, In it l -> id + 1 <= fst it /\ fst it + 1 < two64 /\
                forall content, tile_content s (snd it) = Ok (Some content) -> 1 <= nlen content /\ nlen content < two32).
      { intros it Hin. destruct (Hall it (or_intror Hin)) as (A & B & C). rewrite Forall_forall in Hlt.
        specialize (Hlt it Hin). unfold key_lt in Hlt. cbn [fst] in Hlt. split; [lia|split; [exact B|exact C]]. }
      specialize (IH (n + 1) (id + 1) acc1 Hstep Hs' Hall' ltac:(lia)).
      destruct (finish_loop cx s acc1 l) as [acc2| |]; [|trivial|exact IH].
      left. destruct IH as [(hi' & I2 & Hh)|[-> ->]].
      + exists hi'. split; [|exact Hh].
        assert (Heq : n + N.of_nat (length ((id, t) :: l)) = n + 1 + N.of_nat (length l)) by (cbn [length]; lia).
        rewrite Heq. exact I2.
      + exists (id + 1). split; [|exact H2].
        assert (Heq : n + N.of_nat (length [(id, t)]) = n + 1) by (cbn [length]; lia).
        rewrite Heq. exact Hstep.
  Qed.

  (** a reversed list that is [rev_ok] and whose top run ends below 2^64 is a valid directory *)
  Lemma rev_ok_entries dlen : dlen + 1 < two64 -> forall revs, rev_ok dlen revs ->
    (match revs with [] => True | e :: _ => e_id e + e_run e < two64 end) -> Forall entry_ok revs.
  Proof.
    intros Hd. induction revs as [|e r IH]; intros Hr Ht; [constructor|].
    cbn [rev_ok] in Hr. destruct Hr as ((A & A' & B & C & D) & P & Q). constructor.
    - unfold entry_ok. repeat split; lia.
    - apply IH; [exact Q|]. destruct r as [|p r']; [trivial|]. lia.
  Qed.
  Lemma rev_ok_ascending dlen : forall revs, rev_ok dlen revs -> forall tl,
    (match revs with [] => ascending None tl | e :: _ => ascending (Some e) tl end) -> ascending None (rev revs ++ tl).
  Proof.
    induction revs as [|e r IH]; intros Hr tl Htl; [exact Htl|].
    cbn [rev_ok] in Hr. destruct Hr as (_ & P & Q). cbn [rev]. rewrite <- app_assoc. cbn [app].
    apply (IH Q). destruct r as [|p r'].
    - cbn [ascending]. split; [trivial|exact Htl].
    - cbn [ascending]. cbn [rev_ok] in Q. destruct Q as ((A & _) & _). split; [split; lia|exact Htl].
  Qed.
  Lemma rev_ok_valid dlen revs : dlen + 1 < two64 -> rev_ok dlen revs ->
    (match revs with [] => True | e :: _ => e_id e + e_run e < two64 end) -> valid_dir (rev revs).
  Proof.
    intros Hd Hr Ht. split.
    - apply Forall_rev. now apply (rev_ok_entries dlen).
    - rewrite <- (app_nil_r (rev revs)). apply (rev_ok_ascending dlen); [exact Hr|]. destruct revs; exact I.
  Qed.

  (** ** the result of [finish] on a bounded store *)
  Theorem finish_bounded s : keys_nodup (tile_by_id s) -> store_bounded s -> nlen (tile_by_id s) + 1 < two32 ->
    match finish cx s with
    | Crash _ => False
    | Err _ => True
    | Ok res => valid_dir (fr_dir res) /\ nlen (fr_dir res) < two32 /\ nlen (fr_data res) + 1 < two64 - two32 /\ fr_addressed res < two32 /\ fr_entries res < two32 /\ fr_contents res < two32
    end.
  Proof.
    intros Hnd Hb Hcnt. unfold finish.
    set (l := IdSort.sort (tile_by_id s)).
    assert (Hperm : Permutation.Permutation (tile_by_id s) l) by apply IdSort.Permuted_sort.
    assert (Hlen : length l = length (tile_by_id s)) by (symmetry; now apply Permutation.Permutation_length).
    assert (H0 : fin_inv 0 0 (mkFA [] [] 0 0 0 [])).
    { constructor; cbn; try trivial; try lia; try (intros; discriminate); repeat split; lia. }
    pose proof (finish_loop_inv s l 0 0 _ H0 (sort_sorted_lt _ Hnd)) as HL.
    assert (Hall : forall it, In it l -> 0 <= fst it /\ fst it + 1 < two64 /\ forall content, tile_content s (snd it) = Ok (Some content) -> 1 <= nlen content /\ nlen content < two32).
    { intros [id t] Hin. cbn [fst snd]. apply (Permutation.Permutation_in _ (Permutation.Permutation_sym Hperm)) in Hin.
      pose proof (in_nodup_aget _ _ _ Hnd Hin) as Hg. destruct (Hb id t Hg) as [B1 B2]. split; [lia|split; [exact B1|exact B2]]. }
    specialize (HL Hall). unfold nlen in Hcnt. rewrite Hlen in HL. specialize (HL ltac:(lia)).
    destruct (finish_loop cx s (mkFA [] [] 0 0 0 []) l) as [acc| |]; cbn [bind]; [|trivial|exact HL].
    cbn [fr_dir fr_data fr_addressed fr_entries fr_contents].
    assert (HI : exists n hi, fin_inv n hi acc /\ hi < two64 /\ n + 1 < two32).
    { destruct HL as [(hi' & I2 & Hh)|[_ ->]].
      - exists (0 + N.of_nat (length (tile_by_id s))), hi'. split; [exact I2|split; [exact Hh|lia]].
      - exists 0, 0. split; [exact H0|split; reflexivity]. }
    destruct HI as (n & hi & [R T M D (C1 & C2 & C3) Dd] & Hh & Hn).
    assert (Hd : fa_data_len acc + 1 < two64 - two32).
    { assert (two32 = 4294967296) by reflexivity. assert (two64 = 18446744073709551616) by reflexivity. nia. }
    repeat split.
    - apply Forall_rev. apply (rev_ok_entries (fa_data_len acc)); [lia|exact R|]. destruct (fa_entries acc); [trivial|]. lia.
    - rewrite <- (app_nil_r (rev (fa_entries acc))). apply (rev_ok_ascending (fa_data_len acc)); [exact R|]. destruct (fa_entries acc); exact I.
    - unfold nlen in *. rewrite rev_length. lia.
    - rewrite <- Dd. exact Hd.
    - lia.
    - unfold nlen in *. rewrite rev_length. lia.
    - lia.
  Qed.
End WithCtx.

(** * re-writing an archive opened from arbitrary bytes *)
Require Import PM.HeaderProofs PM.SpillSpec PM.SpillProofs.
Section Rewrite.
  Context (cx : ctx).
  Hypothesis Hsize : codec_size cx.

  Lemma opened_zooms img r p : wf_bytes img -> header_bytes = 127 -> from_reader cx img r = Ok p ->
    p_minz p < 256 /\ p_maxz p < 256 /\ p_cz p < 256.
  Proof.
    intros Hw Hhb H. unfold from_reader, decode_header in H.
    destruct (decode_stored img) as [[sh rest]| |] eqn:Ed; cbn [bind] in H; try discriminate.
    destruct (encode_decode_stored img sh rest Hw Hhb Ed) as (_ & _ & _ & Hok).
    unfold sheader_ok in Hok.
    destruct (if h_meta_len (of_stored sh) =? 0 then Ok empty_object
              else read_meta cx (h_icomp (of_stored sh)) (section img (h_meta_off (of_stored sh)) (h_meta_len (of_stored sh))))
      as [meta| |]; cbn [bind] in H; try discriminate.
    destruct (read_directories cx (h_icomp (of_stored sh)) img (h_root_off (of_stored sh)) (h_root_len (of_stored sh)) (h_leaf_off (of_stored sh)) r)
      as [t| |]; cbn [bind] in H; try discriminate.
    destruct (register_tiles (h_data_off (of_stored sh)) t (tm_empty (Some img))) as [s| |]; cbn [bind] in H; try discriminate.
    injection H as <-. cbn [p_minz p_maxz p_cz of_stored h_minz h_maxz h_cz]. tauto.
  Qed.

  (** the physical sizes involved stay below 2^64 / 2^32 (sections of the output, leaf blobs) *)
  Definition rewrite_sizes (asy : bool) (p : pmtiles) : Prop :=
    forall res mb, finish cx (p_tm p) = Ok res -> compress cx asy (p_icomp p) (p_meta p) = Ok mb ->
      blobs_fit cx (p_icomp p) (fr_dir res) /\
      16384 + nlen mb + nlen (fr_data res) + 1 < two64 /\
      forall k blobs ptrs, leaves_spec cx (p_icomp p) (chunks k (fr_dir res)) 0 = Ok (blobs, ptrs) ->
                           16384 + nlen mb + nlen (concat blobs) + nlen (fr_data res) + 1 < two64.

  (** writing a bounded store never crashes, and succeeds whenever every tile can be read *)
  Theorem write_bounded_store asy p : Inv cx (p_tm p) -> store_bounded (p_tm p) -> p_icomp p <> CUnknown ->
    nlen (tile_by_id (p_tm p)) + 1 < two32 -> rewrite_sizes asy p ->
    p_minz p < 256 -> p_maxz p < 256 -> p_cz p < 256 ->
    header_bytes = 127 -> max_root_dir_length <= 16257 -> 1124 <= max_root_dir_length -> 1 <= default_leaf_size ->
    (exists b, to_bytes cx asy p = Ok b) \/
    (exists e, to_bytes cx asy p = Err e /\ finish cx (p_tm p) = Err e).
  Proof.
    intros HI Hb Hc Hcnt Hsz Z1 Z2 Z3 Hhb Hmax Hbud Hdl.
    pose proof (finish_bounded cx (p_tm p) (inv_nd_t _ _ HI) Hb Hcnt) as Hf.
    destruct (finish cx (p_tm p)) as [res|e|] eqn:Ef; [| |destruct Hf].
    - left. destruct Hf as (Hv & Hn & Hd & C1 & C2 & C3).
      assert (Hm : exists mb, compress cx asy (p_icomp p) (p_meta p) = Ok mb).
      { unfold compress. destruct (p_icomp p); try (eexists; reflexivity). congruence. }
      destruct Hm as [mb Hm]. destruct (Hsz res mb Ef Hm) as (Hbf & S0 & S1).
      assert (T32 : two32 < two63) by (vm_compute; reflexivity).
      assert (T64 : two32 < two64) by (vm_compute; reflexivity).
      apply (to_bytes_total cx Hsize asy p res mb Ef Hc Hv); try assumption; lia.
    - right. exists e. split; [|reflexivity]. unfold to_bytes, to_writer. rewrite Ef. reflexivity.
  Qed.

  Theorem rewrite_never_crashes img r p asy : wf_bytes img -> from_reader cx img r = Ok p ->
    nlen (tile_by_id (p_tm p)) + 1 < two32 -> rewrite_sizes asy p ->
    header_bytes = 127 -> max_root_dir_length <= 16257 -> 1124 <= max_root_dir_length -> 1 <= default_leaf_size ->
    (exists b, to_bytes cx asy p = Ok b) \/
    (exists e, to_bytes cx asy p = Err e /\ finish cx (p_tm p) = Err e).
  Proof.
    intros Hw Hopen Hcnt Hsz Hhb Hmax Hbud Hdl.
    destruct (opened_store_bounded cx img r p Hopen) as [Hb Hc].
    destruct (from_reader_shape cx img r p Hopen) as [HI _].
    destruct (opened_zooms img r p Hw Hhb Hopen) as (Z1 & Z2 & Z3).
    now apply write_bounded_store.
  Qed.
End Rewrite.
