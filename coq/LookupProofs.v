(** Single-directory lookup ([find_entry_for_tile_id]) on valid directories (C03, last clause);
    the inclusive range end used for leaf skipping (C11). *)
Require Import PM.Base PM.Oracles PM.Params PM.Directory PM.DirectoryProofs PM.Stream PM.TileManager PM.DirReader.
From Coq Require Import ZifyN ZifyBool ZifyNat.
Open Scope N_scope.

Definition covers (e : entry) (id : N) : Prop := 0 < e_run e /\ e_id e <= id /\ id < e_id e + e_run e.

Lemma ascending_later : forall r a e, ascending (Some a) r -> In e r -> e_id a < e_id e /\ e_id a + e_run a <= e_id e.
Proof.
  induction r as [|b r IH]; intros a e Ha Hin; [destruct Hin|].
  cbn [ascending] in Ha. destruct Ha as [[H1 H2] Hr]. destruct Hin as [->|Hin]; [auto|].
  destruct (IH b e Hr Hin) as [H3 H4]. lia.
Qed.

Lemma find_entry_none_before : forall es id last, ascending last es -> Forall entry_ok es ->
  (forall e, In e es -> id < e_id e) -> find_entry es id = Ok None.
Proof.
  induction es as [|a r IH]; intros id last Ha Hok Hlt; [reflexivity|].
  cbn [find_entry]. inversion Hok as [|? ? Hoa Hor]; subst. destruct Ha as [_ Ha].
  assert (Hr : find_entry r id = Ok None) by (apply (IH id (Some a)); auto; intros; apply Hlt; now right).
  destruct (e_run a =? 0); [exact Hr|].
  unfold add64. destruct Hoa as (Ho & _). destruct (N.ltb_spec (e_id a + e_run a) two64); [|lia]. cbn [bind].
  pose proof (Hlt a (or_introl eq_refl)).
  destruct (N.leb_spec (e_id a) id); [lia|]. cbn [andb]. exact Hr.
Qed.

Theorem find_entry_complete : forall es id e last, ascending last es -> Forall entry_ok es ->
  In e es -> covers e id -> find_entry es id = Ok (Some e).
Proof.
  induction es as [|a r IH]; intros id e last Ha Hok Hin Hc; [destruct Hin|].
  cbn [find_entry]. inversion Hok as [|? ? Hoa Hor]; subst. destruct Ha as [_ Ha].
  destruct Hc as (Hrun & Hlo & Hhi).
  destruct Hin as [->|Hin].
  - destruct (N.eqb_spec (e_run e) 0); [lia|].
    unfold add64. destruct Hoa as (Ho & _). destruct (N.ltb_spec (e_id e + e_run e) two64); [|lia]. cbn [bind].
    destruct (N.leb_spec (e_id e) id); [|lia]. destruct (N.ltb_spec id (e_id e + e_run e)); [|lia]. reflexivity.
  - destruct (ascending_later r a e Ha Hin) as [H1 H2].
    assert (Hr : find_entry r id = Ok (Some e)) by (apply (IH id e (Some a)); auto; repeat split; assumption).
    destruct (e_run a =? 0); [exact Hr|].
    unfold add64. destruct Hoa as (Ho & _). destruct (N.ltb_spec (e_id a + e_run a) two64); [|lia]. cbn [bind].
    destruct (N.ltb_spec id (e_id a + e_run a)); [lia|]. rewrite Bool.andb_false_r. exact Hr.
Qed.

Theorem find_entry_sound : forall es id e, Forall entry_ok es -> find_entry es id = Ok (Some e) -> In e es /\ covers e id.
Proof.
  induction es as [|a r IH]; intros id e Hok H; [discriminate|].
  cbn [find_entry] in H. inversion Hok as [|? ? Hoa Hor]; subst.
  destruct (N.eqb_spec (e_run a) 0) as [Hz|Hnz].
  - destruct (IH id e Hor H). split; [now right|assumption].
  - unfold add64 in H. destruct Hoa as (Ho & _). destruct (N.ltb_spec (e_id a + e_run a) two64); [|lia]. cbn [bind] in H.
    destruct (N.leb_spec (e_id a) id); destruct (N.ltb_spec id (e_id a + e_run a)); cbn [andb] in H.
    + injection H as <-. split; [now left|]. unfold covers. lia.
    + destruct (IH id e Hor H). split; [now right|assumption].
    + destruct (IH id e Hor H). split; [now right|assumption].
    + destruct (IH id e Hor H). split; [now right|assumption].
Qed.

Theorem find_entry_no_crash : forall es id c, Forall entry_ok es -> find_entry es id <> Crash c.
Proof.
  induction es as [|a r IH]; intros id c Hok; [cbn; congruence|].
  cbn [find_entry]. inversion Hok as [|? ? Hoa Hor]; subst.
  destruct (e_run a =? 0); [now apply IH|].
  unfold add64. destruct Hoa as (Ho & _). destruct (N.ltb_spec (e_id a + e_run a) two64); [|lia]. cbn [bind].
  destruct ((e_id a <=? id) && (id <? e_id a + e_run a)); [congruence|now apply IH].
Qed.

(** the entry found is the only one whose run covers the id *)
Theorem covers_unique : forall es e e' id last, ascending last es -> In e es -> In e' es -> covers e id -> covers e' id -> e = e'.
Proof.
  induction es as [|a r IH]; intros e e' id last Ha Hin Hin' Hc Hc'; [destruct Hin|].
  destruct Ha as [_ Ha]. unfold covers in *.
  destruct Hin as [->|Hin]; destruct Hin' as [->|Hin'].
  - reflexivity.
  - destruct (ascending_later r e e' Ha Hin'). lia.
  - destruct (ascending_later r e' e Ha Hin). lia.
  - now apply (IH e e' id (Some a)).
Qed.

(** C11: every id inside the filter range is at most the inclusive end used for skipping leaves *)
Lemma range_end_inc_bound r id : id < two64 -> in_range r id = true -> id <= range_end_inc r.
Proof.
  intros Hid H. unfold in_range in H. apply Bool.andb_true_iff in H. destruct H as [_ H].
  unfold range_end_inc. destruct (r_end r); [lia|lia|unfold u64_max; unfold two64 in Hid; lia].
Qed.
(** an exclusive end of 0 is an empty range and does not underflow (saturating subtraction) *)
Lemma range_excl_zero_empty s id : in_range (mkRange s (Excl 0)) id = false.
Proof. unfold in_range. cbn. rewrite Bool.andb_false_iff. right. lia. Qed.
