(** The tile store behaves like a map, and retains exactly the contents in use (C04, C10). *)
Require Import PM.Base PM.Oracles PM.Directory PM.TileManager.
From Coq Require Import ZifyN ZifyBool ZifyNat.
Open Scope N_scope.

(** * association lists *)
Section Alist.
  Context {V : Type}.
  Implicit Types (l : list (N * V)) (k : N).

  Lemma aget_aremove_eq k l : aget k (aremove k l) = None.
  Proof.
    induction l as [|[k' v] r IH]; [reflexivity|]. cbn [aremove].
    destruct (N.eqb_spec k k') as [->|Hn]; [exact IH|]. cbn [aget].
    destruct (N.eqb_spec k k'); [contradiction|exact IH].
  Qed.
  Lemma aget_aremove_neq k k' l : k' <> k -> aget k' (aremove k l) = aget k' l.
  Proof.
    intros Hn. induction l as [|[k0 v] r IH]; [reflexivity|]. cbn [aremove aget].
    destruct (N.eqb_spec k k0) as [->|Hn0].
    - destruct (N.eqb_spec k' k0); [contradiction|exact IH].
    - cbn [aget]. destruct (N.eqb_spec k' k0); [reflexivity|exact IH].
  Qed.
  Lemma aget_aset_eq k v l : aget k (aset k v l) = Some v.
  Proof. unfold aset. cbn [aget]. now rewrite N.eqb_refl. Qed.
  Lemma aget_aset_neq k k' v l : k' <> k -> aget k' (aset k v l) = aget k' l.
  Proof.
    intros Hn. unfold aset. cbn [aget]. destruct (N.eqb_spec k' k); [contradiction|].
    now apply aget_aremove_neq.
  Qed.

  Lemma aget_in_keys k l : aget k l <> None <-> In k (akeys l).
  Proof.
    induction l as [|[k' v] r IH]; cbn [aget akeys map fst In]; [tauto|].
    destruct (N.eqb_spec k k') as [->|Hn].
    - split; [auto|discriminate].
    - rewrite IH. unfold akeys. split; [auto|]. intros [E|H]; [congruence|exact H].
  Qed.
  Lemma aget_none_notin k l : aget k l = None <-> ~ In k (akeys l).
  Proof.
    rewrite <- aget_in_keys. destruct (aget k l) as [v|]; split; intros H.
    - discriminate. - exfalso. apply H. discriminate. - intros F. now apply F. - reflexivity.
  Qed.

  Definition keys_nodup l : Prop := NoDup (akeys l).
  Lemma akeys_aremove_incl k k0 l : In k0 (akeys (aremove k l)) -> In k0 (akeys l) /\ k0 <> k.
  Proof.
    intros H. apply aget_in_keys in H. destruct (N.eq_dec k0 k) as [->|Hn].
    - rewrite aget_aremove_eq in H. congruence.
    - rewrite aget_aremove_neq in H by assumption. split; [now apply aget_in_keys|assumption].
  Qed.
  Lemma nodup_aremove k l : keys_nodup l -> keys_nodup (aremove k l).
  Proof.
    unfold keys_nodup. induction l as [|[k' v] r IH]; intros H; [constructor|].
    cbn [aremove]. cbn [akeys map fst] in H. inversion H as [|? ? Hni Hnd]; subst.
    destruct (N.eqb_spec k k'); [now apply IH|].
    cbn [akeys map fst]. constructor; [|now apply IH].
    intros Hin. apply akeys_aremove_incl in Hin. tauto.
  Qed.
  Lemma nodup_aset k v l : keys_nodup l -> keys_nodup (aset k v l).
  Proof.
    intros H. unfold aset, keys_nodup. cbn [akeys map fst]. constructor; [|now apply nodup_aremove].
    intros Hin. apply akeys_aremove_incl in Hin. tauto.
  Qed.
  Lemma length_aremove_in k l : keys_nodup l -> In k (akeys l) -> S (length (aremove k l)) = length l.
  Proof.
    unfold keys_nodup. induction l as [|[k' v] r IH]; intros Hnd Hin; [destruct Hin|].
    cbn [akeys map fst] in *. inversion Hnd as [|? ? Hni Hnd']; subst. cbn [aremove].
    destruct (N.eqb_spec k k') as [->|Hn].
    - cbn [length]. f_equal.
      assert (E : aremove k' r = r).
      { clear -Hni. induction r as [|[k0 v0] r IH]; [reflexivity|]. cbn [aremove].
        cbn [map fst In] in Hni. destruct (N.eqb_spec k' k0) as [->|]; [tauto|]. f_equal. apply IH. tauto. }
      now rewrite E.
    - cbn [length]. f_equal. apply IH; [assumption|]. destruct Hin; [congruence|assumption].
  Qed.
  Lemma length_aremove_notin k l : ~ In k (akeys l) -> aremove k l = l.
  Proof.
    induction l as [|[k0 v0] r IH]; intros Hni; [reflexivity|]. cbn [aremove].
    cbn [akeys map fst In] in Hni. destruct (N.eqb_spec k k0) as [->|]; [tauto|]. f_equal. apply IH. tauto.
  Qed.
End Alist.

(** * id sets *)
Lemma set_remove_in x y s : In y (set_remove x s) <-> In y s /\ y <> x.
Proof.
  unfold set_remove. rewrite filter_In. split; intros [H1 H2]; split; try assumption.
  - destruct (N.eqb_spec x y); [discriminate|congruence].
  - destruct (N.eqb_spec x y); [congruence|reflexivity].
Qed.
Lemma set_remove_nodup x s : NoDup s -> NoDup (set_remove x s).
Proof. apply NoDup_filter. Qed.
Lemma set_add_in x y s : In y (set_add x s) <-> y = x \/ In y s.
Proof.
  unfold set_add. destruct (existsb (N.eqb x) s) eqn:E.
  - split; [auto|]. intros [->|H]; [|assumption].
    apply existsb_exists in E. destruct E as (z & Hz & Ez). apply N.eqb_eq in Ez. now subst.
  - cbn [In]. split; intros [H|H]; auto.
Qed.
Lemma set_add_nodup x s : NoDup s -> NoDup (set_add x s).
Proof.
  intros H. unfold set_add. destruct (existsb (N.eqb x) s) eqn:E; [assumption|].
  constructor; [|assumption]. intros Hin.
  assert (existsb (N.eqb x) s = true) by (apply existsb_exists; exists x; split; [assumption|apply N.eqb_refl]).
  congruence.
Qed.

(** * the invariant *)
Section WithCtx.
  Context (cx : ctx).

  Record Inv (s : tm) : Prop := mkInv {
    inv_nd_t : keys_nodup (tile_by_id s);
    inv_nd_d : keys_nodup (data_by_hash s);
    inv_nd_r : keys_nodup (ids_by_hash s);
    (* an in-memory tile's hash has stored bytes with that hash, and the tile is in the hash's reference set *)
    inv_hash : forall id h, aget id (tile_by_id s) = Some (THash h) ->
      exists d ids, aget h (data_by_hash s) = Some d /\ hash cx d = h /\ d <> [] /\
                    aget h (ids_by_hash s) = Some ids /\ In id ids;
    (* reference sets are non-empty, duplicate-free and hold exactly tiles with that hash *)
    inv_refs : forall h ids, aget h (ids_by_hash s) = Some ids ->
      ids <> [] /\ NoDup ids /\ forall id, In id ids -> aget id (tile_by_id s) = Some (THash h);
    (* bytes are stored exactly for the hashes that have a reference set *)
    inv_dom : forall h, aget h (data_by_hash s) = None <-> aget h (ids_by_hash s) = None
  }.

  Lemma inv_empty b : Inv (tm_empty b).
  Proof.
    constructor; cbn; try constructor; try discriminate; intros; try discriminate; tauto.
  Qed.

  (** the store as a map: what a lookup returns *)
  Definition view (s : tm) (id : N) : outcome (option bytes) := get_tile s id.

  (** ** remove *)
  Lemma remove_tile_spec s id : Inv s ->
    let s1 := snd (remove_tile s id) in
    Inv s1 /\ aget id (tile_by_id s1) = None /\ backing s1 = backing s /\
    (forall id', id' <> id -> aget id' (tile_by_id s1) = aget id' (tile_by_id s)) /\
    (forall id', id' <> id -> view s1 id' = view s id') /\
    fst (remove_tile s id) = (match aget id (tile_by_id s) with Some _ => true | None => false end).
  Proof.
    intros HI. unfold remove_tile.
    destruct (aget id (tile_by_id s)) as [[h|off len]|] eqn:Eid; cbn [snd fst].
    - (* in-memory tile *)
      destruct (inv_hash s HI id h Eid) as (d & ids & Hd & Hh & Hne & Hr & Hin).
      rewrite Hr.
      destruct (inv_refs s HI h ids Hr) as (Hnil & Hnd & Hmem).
      assert (Hother : forall id' h', id' <> id -> aget id' (tile_by_id s) = Some (THash h') -> h' = h -> In id' (set_remove id ids)).
      { intros id' h' Hn Ht ->. destruct (inv_hash s HI id' h Ht) as (d' & ids' & _ & _ & _ & Hr' & Hin').
        rewrite Hr in Hr'. injection Hr' as <-. apply set_remove_in. auto. }
      destruct (set_remove id ids) as [|i0 rest] eqn:Esr; cbn [snd fst].
      + (* last reference: the bytes go away *)
        split; [|split; [apply aget_aremove_eq|split; [reflexivity|split; [intros; now apply aget_aremove_neq|split; [|reflexivity]]]]].
        * constructor; cbn [tile_by_id data_by_hash ids_by_hash backing].
          -- apply nodup_aremove, HI. -- apply nodup_aremove, HI. -- apply nodup_aremove, HI.
          -- intros id' h' Ht.
             destruct (N.eq_dec id' id) as [->|Hn]; [rewrite aget_aremove_eq in Ht; discriminate|].
             rewrite aget_aremove_neq in Ht by assumption.
             assert (h' <> h) by (intros E; pose proof (Hother id' h' Hn Ht E) as F; destruct F).
             destruct (inv_hash s HI id' h' Ht) as (d' & ids' & A & B & C & D & E).
             exists d', ids'. rewrite !aget_aremove_neq by assumption. auto.
          -- intros h' ids' Hr'.
             destruct (N.eq_dec h' h) as [->|Hn]; [rewrite aget_aremove_eq in Hr'; discriminate|].
             rewrite aget_aremove_neq in Hr' by assumption.
             destruct (inv_refs s HI h' ids' Hr') as (A & B & C). split; [assumption|]. split; [assumption|].
             intros id' Hin'. specialize (C id' Hin').
             assert (id' <> id) by (intros ->; rewrite Eid in C; injection C; congruence).
             now rewrite aget_aremove_neq.
          -- intros h'. destruct (N.eq_dec h' h) as [->|Hn].
             ++ rewrite !aget_aremove_eq. tauto.
             ++ rewrite !aget_aremove_neq by assumption. apply HI.
        * intros id' Hn. unfold view, get_tile. cbn [tile_by_id]. rewrite aget_aremove_neq by assumption.
          destruct (aget id' (tile_by_id s)) as [[h'|o l]|] eqn:Et; [|reflexivity|reflexivity].
          cbn [tile_content data_by_hash].
          assert (h' <> h) by (intros E; pose proof (Hother id' h' Hn Et E) as F; destruct F).
          now rewrite aget_aremove_neq.
      + (* other tiles still use the bytes *)
        rewrite <- Esr. rewrite <- Esr in Hother.
        split; [|split; [apply aget_aremove_eq|split; [reflexivity|split; [intros; now apply aget_aremove_neq|split; [|reflexivity]]]]].
        * constructor; cbn [tile_by_id data_by_hash ids_by_hash backing].
          -- apply nodup_aremove, HI. -- apply HI. -- apply nodup_aset, HI.
          -- intros id' h' Ht.
             destruct (N.eq_dec id' id) as [->|Hn]; [rewrite aget_aremove_eq in Ht; discriminate|].
             rewrite aget_aremove_neq in Ht by assumption.
             destruct (inv_hash s HI id' h' Ht) as (d' & ids' & A & B & C & D & E).
             destruct (N.eq_dec h' h) as [->|Hnh].
             ++ exists d', (set_remove id ids). rewrite aget_aset_eq. repeat split; try assumption.
                apply (Hother id' h Hn Ht eq_refl).
             ++ exists d', ids'. rewrite aget_aset_neq by assumption. auto.
          -- intros h' ids' Hr'.
             destruct (N.eq_dec h' h) as [->|Hn].
             ++ rewrite aget_aset_eq in Hr'. injection Hr' as <-.
                split; [rewrite Esr; discriminate|]. split; [now apply set_remove_nodup|].
                intros id' Hin'. apply set_remove_in in Hin'. destruct Hin' as [Hi Hne'].
                rewrite aget_aremove_neq by assumption. now apply Hmem.
             ++ rewrite aget_aset_neq in Hr' by assumption.
                destruct (inv_refs s HI h' ids' Hr') as (A & B & C). split; [assumption|]. split; [assumption|].
                intros id' Hin'. specialize (C id' Hin').
                assert (id' <> id) by (intros ->; rewrite Eid in C; injection C; congruence).
                now rewrite aget_aremove_neq.
          -- intros h'. destruct (N.eq_dec h' h) as [->|Hn].
             ++ rewrite aget_aset_eq, Hd. split; discriminate.
             ++ rewrite aget_aset_neq by assumption. apply HI.
        * intros id' Hn. unfold view, get_tile. cbn [tile_by_id]. rewrite aget_aremove_neq by assumption.
          destruct (aget id' (tile_by_id s)) as [[h'|o l]|] eqn:Et; reflexivity.
    - (* reader-backed tile: only the id map changes *)
      split; [|split; [apply aget_aremove_eq|split; [reflexivity|split; [intros; now apply aget_aremove_neq|split; [|reflexivity]]]]].
      + constructor; cbn [tile_by_id data_by_hash ids_by_hash backing]; try apply HI.
        * apply nodup_aremove, HI.
        * intros id' h' Ht.
          destruct (N.eq_dec id' id) as [->|Hn]; [rewrite aget_aremove_eq in Ht; discriminate|].
          rewrite aget_aremove_neq in Ht by assumption. now apply (inv_hash s HI).
        * intros h' ids' Hr'. destruct (inv_refs s HI h' ids' Hr') as (A & B & C).
          split; [assumption|]. split; [assumption|]. intros id' Hin'. specialize (C id' Hin').
          assert (id' <> id) by (intros ->; rewrite Eid in C; discriminate).
          now rewrite aget_aremove_neq.
      + intros id' Hn. unfold view, get_tile. cbn [tile_by_id]. rewrite aget_aremove_neq by assumption.
        destruct (aget id' (tile_by_id s)) as [[h'|o l]|] eqn:Et; reflexivity.
    - (* absent *)
      split; [assumption|]. split; [assumption|]. split; [reflexivity|]. split; [reflexivity|]. split; reflexivity.
  Qed.

  Lemma remove_tile_data_sub s id h d :
    aget h (data_by_hash (snd (remove_tile s id))) = Some d -> aget h (data_by_hash s) = Some d.
  Proof.
    unfold remove_tile. destruct (aget id (tile_by_id s)) as [[h0|o l]|]; cbn [snd data_by_hash]; try tauto.
    destruct (set_remove id _); cbn [snd data_by_hash]; [|tauto].
    destruct (N.eq_dec h h0) as [->|Hn]; [rewrite aget_aremove_eq; discriminate|].
    now rewrite aget_aremove_neq.
  Qed.

  (** ** add *)
  Definition no_collision (s : tm) (data : bytes) : Prop :=
    forall d', aget (hash cx data) (data_by_hash s) = Some d' -> d' = data.

  Lemma add_tile_spec s id data : Inv s -> data <> [] -> no_collision s data ->
    exists s', add_tile cx s id data = Ok s' /\ Inv s' /\ backing s' = backing s /\
      aget id (tile_by_id s') = Some (THash (hash cx data)) /\ view s' id = Ok (Some data) /\
      (forall id', id' <> id -> aget id' (tile_by_id s') = aget id' (tile_by_id s)) /\
      (forall id', id' <> id -> view s' id' = view s id').
  Proof.
    intros HI Hne Hnc. unfold add_tile. destruct data as [|b0 dr] eqn:Edata; [congruence|]. rewrite <- Edata in *.
    clear Edata b0 dr.
    destruct (remove_tile_spec s id HI) as (HI1 & Hnone & Hback & Htile & Hview & _).
    set (s1 := snd (remove_tile s id)) in *.
    assert (Hnc1 : no_collision s1 data) by (intros d' Hd'; apply Hnc; now apply remove_tile_data_sub with id).
    set (h := hash cx data) in *.
    set (old := match aget h (ids_by_hash s1) with Some l => l | None => [] end).
    eexists. split; [reflexivity|].
    assert (Hold_nd : NoDup old).
    { unfold old. destruct (aget h (ids_by_hash s1)) eqn:E; [apply (inv_refs s1 HI1 h l E)|constructor]. }
    assert (Hold_mem : forall i, In i old -> aget i (tile_by_id s1) = Some (THash h)).
    { unfold old. intros i Hi. destruct (aget h (ids_by_hash s1)) eqn:E; [now apply (inv_refs s1 HI1 h l E)|destruct Hi]. }
    split; [|split; [exact Hback|split; [cbn [tile_by_id]; apply aget_aset_eq|split; [|split]]]].
    - constructor; cbn [tile_by_id data_by_hash ids_by_hash backing].
      + apply nodup_aset, HI1. + apply nodup_aset, HI1. + apply nodup_aset, HI1.
      + intros id' h' Ht. destruct (N.eq_dec id' id) as [->|Hn].
        * rewrite aget_aset_eq in Ht. injection Ht as <-.
          exists data, (set_add id old). rewrite !aget_aset_eq. repeat split; try assumption; try reflexivity.
          apply set_add_in. auto.
        * rewrite aget_aset_neq in Ht by assumption.
          destruct (inv_hash s1 HI1 id' h' Ht) as (d' & ids' & A & B & C & D & E).
          destruct (N.eq_dec h' h) as [->|Hnh].
          -- exists data, (set_add id old). rewrite !aget_aset_eq. repeat split; try assumption; try reflexivity.
             apply set_add_in. right. unfold old. now rewrite D.
          -- exists d', ids'. rewrite !aget_aset_neq by assumption. auto.
      + intros h' ids' Hr'. destruct (N.eq_dec h' h) as [->|Hnh].
        * rewrite aget_aset_eq in Hr'. injection Hr' as <-.
          split; [|split; [now apply set_add_nodup|]].
          -- intros E. assert (In id (set_add id old)) by (apply set_add_in; auto). rewrite E in H. destruct H.
          -- intros i Hi. apply set_add_in in Hi. destruct Hi as [->|Hi]; [apply aget_aset_eq|].
             destruct (N.eq_dec i id) as [->|Hni]; [apply aget_aset_eq|].
             rewrite aget_aset_neq by assumption. now apply Hold_mem.
        * rewrite aget_aset_neq in Hr' by assumption.
          destruct (inv_refs s1 HI1 h' ids' Hr') as (A & B & C). split; [assumption|]. split; [assumption|].
          intros i Hi. specialize (C i Hi).
          assert (i <> id) by (intros ->; rewrite Hnone in C; discriminate).
          now rewrite aget_aset_neq.
      + intros h'. destruct (N.eq_dec h' h) as [->|Hnh].
        * rewrite !aget_aset_eq. split; discriminate.
        * rewrite !aget_aset_neq by assumption. apply HI1.
    - unfold view, get_tile. cbn [tile_by_id]. rewrite aget_aset_eq. cbn [tile_content data_by_hash].
      now rewrite aget_aset_eq.
    - intros id' Hn. cbn [tile_by_id]. rewrite aget_aset_neq by assumption. now apply Htile.
    - intros id' Hn. rewrite <- Hview by assumption. unfold view, get_tile. cbn [tile_by_id].
      rewrite aget_aset_neq by assumption.
      destruct (aget id' (tile_by_id s1)) as [[h'|o l]|] eqn:Et; [|cbn [tile_content backing]; reflexivity|reflexivity].
      cbn [tile_content data_by_hash].
      destruct (N.eq_dec h' h) as [->|Hnh]; [|now rewrite aget_aset_neq].
      rewrite aget_aset_eq. destruct (inv_hash s1 HI1 id' h Et) as (d' & ids' & A & _).
      rewrite A. f_equal. f_equal. symmetry. now apply Hnc1.
  Qed.

  (** reader-backed tiles (registered when an archive is opened) *)
  Lemma add_offset_tile_spec s id off len : Inv s -> len <> 0 -> aget id (tile_by_id s) = None ->
    exists s', add_offset_tile s id off len = Ok s' /\ Inv s' /\ backing s' = backing s /\
      aget id (tile_by_id s') = Some (TOffLen off len) /\
      (forall id', id' <> id -> aget id' (tile_by_id s') = aget id' (tile_by_id s)) /\
      data_by_hash s' = data_by_hash s /\ ids_by_hash s' = ids_by_hash s.
  Proof.
    intros HI Hl Hnone. unfold add_offset_tile. destruct (N.eqb_spec len 0); [contradiction|].
    eexists. split; [reflexivity|].
    split; [|split; [reflexivity|split; [apply aget_aset_eq|split; [intros; now apply aget_aset_neq|split; reflexivity]]]].
    constructor; cbn [tile_by_id data_by_hash ids_by_hash backing]; try apply HI.
    - apply nodup_aset, HI.
    - intros id' h' Ht. destruct (N.eq_dec id' id) as [->|Hn]; [rewrite aget_aset_eq in Ht; discriminate|].
      rewrite aget_aset_neq in Ht by assumption. now apply (inv_hash s HI).
    - intros h' ids' Hr'. destruct (inv_refs s HI h' ids' Hr') as (A & B & C).
      split; [assumption|]. split; [assumption|]. intros i Hi. specialize (C i Hi).
      assert (i <> id) by (intros ->; rewrite Hnone in C; discriminate).
      now rewrite aget_aset_neq.
  Qed.

  (** ** listing and count agree with the map *)
  Lemma tile_ids_spec s id : In id (tile_ids s) <-> aget id (tile_by_id s) <> None.
  Proof. unfold tile_ids. symmetry. apply aget_in_keys. Qed.
  Lemma tile_ids_nodup s : Inv s -> NoDup (tile_ids s).
  Proof. intros HI. apply HI. Qed.
  Lemma num_tiles_spec s : num_tiles s = nlen (tile_ids s).
  Proof. unfold num_tiles, tile_ids, akeys, nlen. now rewrite map_length. Qed.

  (** ** the retention clause of C10: the stored contents are exactly the contents in use, one copy each *)
  Theorem retention s : Inv s ->
    (forall h d, aget h (data_by_hash s) = Some d ->
       exists id, aget id (tile_by_id s) = Some (THash h) /\ view s id = Ok (Some d)) /\
    (forall id h, aget id (tile_by_id s) = Some (THash h) -> exists d, aget h (data_by_hash s) = Some d) /\
    NoDup (akeys (data_by_hash s)).
  Proof.
    intros HI. split; [|split; [|apply HI]].
    - intros h d Hd. destruct (aget h (ids_by_hash s)) as [ids|] eqn:Er.
      + destruct (inv_refs s HI h ids Er) as (Hne & _ & Hmem).
        destruct ids as [|i r]; [congruence|]. exists i. pose proof (Hmem i (or_introl eq_refl)) as Ht.
        split; [exact Ht|]. unfold view, get_tile. rewrite Ht. cbn [tile_content]. now rewrite Hd.
      + apply (inv_dom s HI) in Er. congruence.
    - intros id h Ht. destruct (inv_hash s HI id h Ht) as (d & _ & Hd & _). eauto.
  Qed.
End WithCtx.
