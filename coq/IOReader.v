(** The archive reader over an abstract I/O interface: every byte it uses is obtained by a [fetch off len] request
    (seek(Start(off)) + take(len) in the implementation).  With the ideal fetcher of an in-memory image it is the
    reader of Archive.v ([IOReaderProofs.open_io_ideal]); with a failing fetcher it models a stream that starts to
    fail (C15), and the requests it issues are the windows of ReadWindows.v (C20). *)
Require Import PM.Base PM.Oracles PM.Params PM.Float PM.Header PM.Directory PM.Stream PM.TileManager PM.DirReader PM.Archive.
Open Scope N_scope.

Definition fetcher := N -> N -> outcome bytes.
(** an ideal in-memory stream: a request beyond the end yields what is there *)
Definition img_fetch (img : bytes) : fetcher := fun off len => Ok (section img off len).
(** the same stream failing on the requests selected by [bad] *)
Definition fail_on (bad : N -> N -> bool) (fetch : fetcher) : fetcher :=
  fun off len => if bad off len then Err EOther else fetch off len.

Section WithCtx.
  Context (cx : ctx) (fetch : fetcher).

  Fixpoint read_dir_io (fuel : nat) (c : compression) (off len leaf_off : N) (r : range)
           (acc : list (N * (N * N))) : outcome (list (N * (N * N))) :=
    match fuel with
    | O => Err EInvalid
    | S f =>
      do sec <- fetch off len;
      do es <- decode_dir cx c sec;
      walk_entries (fun lo l a => read_dir_io f c lo l leaf_off r a) leaf_off r es acc
    end.

  (** header, metadata and the id -> (offset, length) map, as [from_reader] obtains them *)
  Definition open_io (r : range) : outcome (header * bytes * list (N * (N * N))) :=
    do hb <- fetch 0 header_bytes;
    do (h, _) <- decode_header hb;
    do meta <- (if h_meta_len h =? 0 then Ok empty_object
                else do sec <- fetch (h_meta_off h) (h_meta_len h); read_meta cx (h_icomp h) sec);
    do tiles <- read_dir_io (depth_fuel_of max_dir_depth) (h_icomp h) (h_root_off h) (h_root_len h) (h_leaf_off h) r [];
    Ok (h, meta, tiles).
End WithCtx.

(** a tile lookup over the same interface: an in-memory tile needs no I/O; a reader-backed tile is one exact fetch
    of its byte range (seek + read_exact: fewer bytes than its length is an error) *)
Definition get_tile_io (fetch : fetcher) (s : tm) (id : N) : outcome (option bytes) :=
  match aget id (tile_by_id s) with
  | None => Ok None
  | Some (THash h) => Ok (aget h (data_by_hash s))
  | Some (TOffLen off len) =>
    do b <- fetch off len;
    if nlen b =? len then Ok (Some b) else Err EEof
  end.
