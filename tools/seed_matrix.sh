#!/bin/sh
# seed_matrix.sh <repo-copy> [props...]: in THIS copy of /verif, point the harness at <repo-copy>, then for every
# seeded change apply it there, run the quick checks (all, or the listed ones) and record which report a violation.
# Meant for `vp run --with-repo -- tools/seed_matrix.sh $VP_RUN_REPO`; never touches /repo.
R="$1"; shift
PROPS="${*:-C01 C02 C03 C04 C05 C06 C07 C08 C09 C10 C11 C12 C13 C14 C15 C16 C17 C18 C19 C20}"
HERE="$(cd "$(dirname "$0")/.." && pwd)"
cd "$HERE" || exit 2
sed -i "s#path = \"/repo\"#path = \"$R\"#" harness/Cargo.toml
export PM_REPO="$R"
./check --setup >/dev/null 2>&1
echo "# baseline (unchanged tree)"
for p in $([ -n "$SEED_DIAG" ] && echo "" || echo "$PROPS"); do
  ./check $p --tier quick > out_$p.txt 2>&1; echo "base $p rc=$? $(grep -c VIOLATION out_$p.txt)"
done
for d in seeded/*/; do
  sid=$(basename "$d")
  if [ -n "$SEED_FILTER" ] && ! echo "$sid" | grep -Eq "$SEED_FILTER"; then continue; fi
  git -C "$R" apply "$HERE/${d}patch.diff" || { echo "$sid: patch does not apply"; continue; }
  line="$sid:"
  # SEED_DIAG=1: only the check of the property the change was written against
  if [ -n "$SEED_DIAG" ]; then RUNP="${sid%%_*}"; else RUNP="$PROPS"; fi
  for p in $RUNP; do
    ./check $p --tier quick > out_$p.txt 2>&1
    if grep -q "^VIOLATION" out_$p.txt; then
      if grep -q "no-failing-input-found" out_$p.txt; then line="$line $p(nofi)"; else line="$line $p"; fi
    fi
  done
  echo "$line"
  git -C "$R" checkout -- . ; git -C "$R" clean -fdq src
done
