#!/usr/bin/env python3
"""verify_seed.py <worktree> <mN> <seed-id>: confirms a seeded change in its scratch worktree
(suite passes with it; demo fails with it and passes without) and stores it under /verif/seeded/<seed-id>/."""
import json, os, shutil, subprocess, sys
wt, m, sid = sys.argv[1], sys.argv[2], sys.argv[3]
out = os.path.join(wt, "_out")
env = dict(os.environ, CARGO_NET_OFFLINE="true", RUST_BACKTRACE="0")
def sh(cmd, timeout=3000):
    p = subprocess.run(cmd, shell=True, cwd=wt, env=env, stdout=subprocess.PIPE, stderr=subprocess.STDOUT, text=True, timeout=timeout)
    return p.returncode, p.stdout
meta = json.load(open(os.path.join(out, m + ".json")))
sh("git checkout -- src; rm -rf tests/zz_demo.rs")
rc, o = sh(f"git apply {out}/{m}.diff")
assert rc == 0, "patch does not apply: " + o
rc_suite, o_suite = sh("cargo test --workspace --no-fail-fast --offline 2>&1 | grep -E '^test result|FAILED|failed' | head -20")
suite_ok = "FAILED" not in o_suite and "failed" not in o_suite.replace("0 failed", "")
rc_b, o_b = sh("cargo build --offline --features async 2>&1 | tail -3")
os.makedirs(os.path.join(wt, "tests"), exist_ok=True)
shutil.copy(os.path.join(out, m + "_demo.rs"), os.path.join(wt, "tests", "zz_demo.rs"))
rc1, o1 = sh("cargo test --offline --features async --test zz_demo 2>&1 | tail -15")
demo_fails_with = "FAILED" in o1 or "failed" in o1.replace("0 failed", "")
sh("git checkout -- src")
rc2, o2 = sh("cargo test --offline --features async --test zz_demo 2>&1 | tail -8")
demo_passes_without = "test result: ok" in o2 and "FAILED" not in o2
sh("rm -rf tests")
print(f"{sid}: suite_ok={suite_ok} async_build_rc={rc_b} demo_fails_with={demo_fails_with} demo_passes_without={demo_passes_without}")
if suite_ok and rc_b == 0 and demo_fails_with and demo_passes_without:
    d = os.path.join("/verif/seeded", sid); os.makedirs(d, exist_ok=True)
    shutil.copy(os.path.join(out, m + ".diff"), os.path.join(d, "patch.diff"))
    shutil.copy(os.path.join(out, m + "_demo.rs"), os.path.join(d, "demo.rs"))
    json.dump({"property": meta.get("property"), "summary": meta.get("summary"), "needs": meta.get("needs"),
               "author": "independent sub-agent given only the property text and a scratch worktree",
               "confirmed_by": "tools/verify_seed.py in the scratch worktree: existing suite (cargo test --workspace --offline) passes with the change; "
                               "async feature builds; demo (tests/zz_demo.rs, cargo test --features async --test zz_demo) fails with the change and passes without",
               "suite_output": o_suite.strip().splitlines()[:6], "demo_with_change": o1.strip().splitlines()[-6:],
               "demo_without_change": o2.strip().splitlines()[-3:]}, open(os.path.join(d, "meta.json"), "w"), indent=1)
    print("stored", d)
else:
    print(o_suite[-600:]); print(o1[-600:]); print(o2[-400:])
