#!/usr/bin/env python3
"""Writes MANIFEST.json from the table below (kept in one place so it stays valid)."""
import json, os
ROOT = os.path.dirname(os.path.dirname(os.path.abspath(__file__)))
CLAIMED = {
 "C05": dict(
   text="Coq theorems C05_roundtrip / C05_byte_exact / C05_decodes_spec / C05_bytes / C05_varint prove, for every valid entry list of any size, every supported compression and both API families, that the modelled encoder is byte-identical to the specification encoder and that the modelled parser inverts it; the model is tied to the Rust code by a differential run (model extracted to OCaml vs. Directory::to_writer/from_bytes, sync and async, all four codecs answered by the real libraries) plus a direct round-trip / independent-encoder oracle on the implementation.",
   note="Trusted: Coq kernel; hand-written model of directory.rs and integer-encoding's LEB128 (checked by the correspondence run, not proved equal to the Rust); law codec_inv for gzip/brotli/zstd (premise of C05_roundtrip, exercised on every case); extraction (ExtrOcamlBasic) + OCaml driver + Rust harness.",
   technique="Coq proof (induction over the entry list, LEB128 arithmetic by lia) + model/implementation correspondence run",
   design="7/C05"),
}
PENDING_REASON = "check not built yet in this revision of /verif (the design in DESIGN.md section 7 covers it); no claim is made until its theorems and correspondence run exist"
props = [json.loads(l)["id"] for l in open(os.path.join(ROOT, "properties.jsonl"))]
checks = []
for p in props:
    if p in CLAIMED:
        c = CLAIMED[p]
        checks.append({
            "property_id": p,
            "quick_cmd": f"./check {p} --tier quick",
            "thorough_cmd": f"./check {p} --tier thorough",
            "evidence_file": f"/verif/evidence/{p}.json",
            "replay_cmd_template": f"./check {p} --replay {{path}}",
            "engine": "coq+correspondence",
            "level_claimed": {"category": c.get("category", "proof"), "text": c["text"], "design_ref": "DESIGN.md section " + c["design"]},
            "level_note": c["note"],
            "technique": c["technique"],
        })
m = {
 "version": 1,
 "setup_cmd": "./check --setup",
 "hooks": {
   "guard": "cargo feature `verif` of pmtiles2",
   "enable": "the harness depends on pmtiles2 = { path = \"/repo\", features = [\"async\", \"verif\"] }",
   "baseline_off_cmd": "cd /repo && cargo test --workspace --no-fail-fast --offline",
   "source_commits": ["adb38c4"],
   "add_only": True,
 },
 "engines": [{
   "name": "coq+correspondence", "path": "/verif/check",
   "serves_properties": sorted(CLAIMED),
   "kind_free_text": "Coq 8.16 development (coq/), model extracted to OCaml (driver/), Rust harness (harness/) built against /repo's working tree; ./check orchestrates proof gate, correspondence gate and direct oracle",
 }],
 "checks": checks,
 "notes": "Fix commits in /repo (see known_findings.json): a3cb79b 1c84b78 43bfcde 67c63db d721c33 b5754cb.",
 "not_applicable": [{"property_id": p, "reason": PENDING_REASON} for p in props if p not in CLAIMED],
}
json.dump(m, open(os.path.join(ROOT, "MANIFEST.json"), "w"), indent=1)
print("claimed:", sorted(CLAIMED))
