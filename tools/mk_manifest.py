#!/usr/bin/env python3
"""Writes MANIFEST.json from the table below (kept in one place so it stays valid)."""
import json, os
ROOT = os.path.dirname(os.path.dirname(os.path.abspath(__file__)))
CLAIMED = {
 "C05": dict(
   text="Coq theorems C05_roundtrip / C05_byte_exact / C05_decodes_spec / C05_bytes / C05_varint prove, for every valid entry list of any size, every supported compression and both API families, that the modelled encoder is byte-identical to the specification encoder and that the modelled parser inverts it; the model is tied to the Rust code by a differential run (model extracted to OCaml vs. Directory::to_writer/from_bytes, sync and async, all four codecs answered by the real libraries) plus a direct round-trip / independent-encoder oracle on the implementation.",
   note="Trusted: Coq kernel; hand-written model of directory.rs and integer-encoding's LEB128 (checked by the correspondence run, not proved equal to the Rust); law codec_inv for gzip/brotli/zstd (premise of C05_roundtrip, exercised on every case); extraction (ExtrOcamlBasic) + OCaml driver + Rust harness.",
   technique="Coq proof (induction over the entry list, LEB128 arithmetic by lia) + model/implementation correspondence run",
   design="7/C05"),
 "C07": dict(
   text="Coq theorems C07_spec, C07_inverse, C07_total, C07_too_large, C07_block, C07_adjacent, C07_children(_distinct), C07_lookup_outside/inside/no_crash prove for all zooms 0-31 and all grid points (no bound) that the model of tile_id/zxy over hilbert_2d's LUT automaton equals the PMTiles v3 reference Hilbert algorithm, is inverted exactly, is total below the first id of zoom 32 and an error above, forms contiguous zoom blocks, is edge-adjacent along the curve, keeps children in one aligned block of four, and that coordinate lookups outside the grid answer 'no tile' and never crash. The model is tied to the Rust code by a differential run (exhaustive zooms 0-5/7, boundary and random points at every zoom 0-32, ids at every block edge, out-of-grid lookups against archives holding the aliased tile) and a direct oracle (independent reference algorithm, exhaustive for zooms 0-10 quick / 0-12 thorough incl. inverse, adjacency and children blocks).",
   note="Trusted: Coq kernel (closed under the global context); hand-written model of util/tile_id.rs and of hilbert_2d 1.1.0's LUTs (tied by the correspondence run); gen_params.py for MAX_Z and the grid guard; extraction + driver + harness.",
   technique="Coq proof (4-state automaton simulation by finite case analysis lifted by induction on the zoom; geometric-sum arithmetic) + correspondence run + exhaustive direct oracle",
   design="7/C07"),
 "C09": dict(
   text="Coq theorems C09_length, C09_dec_enc, C09_enc_dec, C09_coord_roundtrip, C09_rejects_short, C09_rejects_magic, C09_accepts_only_valid prove on the model of the deku header layout (IEEE-754 binary64 coordinates via Flocq) that every header serialises to exactly 127 bytes, that parsing the serialisation returns the field values (consuming exactly 127 bytes), that parsing any accepted 127 bytes and serialising again reproduces them - which rests on an analytic proof that all 2^32 stored coordinate values survive i32 -> degrees -> i32 - and that short input, wrong magic/version and unknown enum codes are rejected. The 'nearest multiple of 1e-7' clause is decided by the direct oracle with exact integer arithmetic (known finding D7: double rounding at half-step ties). Tie: differential run on random/boundary headers, every code 0-255 of the enum and flag bytes, every version byte, every truncation length; coordinate sweep through the implementation (2^20 values + stride quick, all 2^32 thorough).",
   note="Trusted: Coq kernel; Print Assumptions lists the standard-library axioms of the classical reals used by Flocq (sig_forall_dec, sig_not_dec, functional_extensionality_dep, classic); hand-written model of the deku-derived layout, of f64 arithmetic (Flocq Bdiv/Bmult/Bnearbyint/Btrunc, Rust's saturating cast); extraction + driver + harness; gen_params.py for HEADER_BYTES and LAT_LONG_FACTOR.",
   technique="Coq proof (byte-layout inversion lemmas; Flocq relative-error analysis of two roundings) + correspondence run + exact-arithmetic direct oracle",
   design="7/C09"),
 "C19": dict(
   text="Coq theorems C19_empty_tile, C19_zero_length_serialiser, C19_zero_length_parser (for every byte string: no parsed directory holds an entry of length 0), C19_meta_shape, C19_meta_object_only, C19_unknown_write, C19_unknown_open, C19_unknown_directory prove each rejection contract on the model as an error value (never a crash) with the archive value unchanged. Tie: differential run and direct oracle with the offending element at every index of directories of several sizes x 4 codecs x sync/async, an empty add at every point of an edit history (fresh, in-memory and reader-backed ids; state compared through the snapshot hook), every non-object JSON kind x 4 codecs, Unknown compression on write and open with and without metadata.",
   note="Trusted: Coq kernel (closed under the global context); hand-written model of tile_manager.rs / directory.rs / pmtiles.rs (tied by the correspondence run); serde_json enters as the json_parse oracle answered by the real library; extraction + driver + harness.",
   technique="Coq proof (direct from the model's definitions, inversion of the column parser) + correspondence run + direct oracle",
   design="7/C19"),
}
PENDING_REASON = "check not built yet in this revision of /verif (the design in DESIGN.md section 7 covers it); no claim is made until its theorems and correspondence run exist"
props = [json.loads(l)["id"] for l in open(os.path.join(ROOT, "properties.jsonl"))]
checks = []
for p in props:
    if p in CLAIMED:
        c = CLAIMED[p]
        checks.append({
            "property_id": p,
            "quick_cmd": f"./check {p} --tier quick",
            "thorough_cmd": f"./check {p} --tier thorough",
            "evidence_file": f"/verif/evidence/{p}.json",
            "replay_cmd_template": f"./check {p} --replay {{path}}",
            "engine": "coq+correspondence",
            "level_claimed": {"category": c.get("category", "proof"), "text": c["text"], "design_ref": "DESIGN.md section " + c["design"]},
            "level_note": c["note"],
            "technique": c["technique"],
        })
m = {
 "version": 1,
 "setup_cmd": "./check --setup",
 "hooks": {
   "guard": "cargo feature `verif` of pmtiles2",
   "enable": "the harness depends on pmtiles2 = { path = \"/repo\", features = [\"async\", \"verif\"] }",
   "baseline_off_cmd": "cd /repo && cargo test --workspace --no-fail-fast --offline",
   "source_commits": ["adb38c4"],
   "add_only": True,
 },
 "engines": [{
   "name": "coq+correspondence", "path": "/verif/check",
   "serves_properties": sorted(CLAIMED),
   "kind_free_text": "Coq 8.16 development (coq/), model extracted to OCaml (driver/), Rust harness (harness/) built against /repo's working tree; ./check orchestrates proof gate, correspondence gate and direct oracle",
 }],
 "checks": checks,
 "notes": "Fix commits in /repo (see known_findings.json): a3cb79b 1c84b78 43bfcde 67c63db d721c33 b5754cb. Known findings (open): D7 (C09, C01).",
 "not_applicable": [{"property_id": p, "reason": PENDING_REASON} for p in props if p not in CLAIMED],
}
json.dump(m, open(os.path.join(ROOT, "MANIFEST.json"), "w"), indent=1)
print("claimed:", sorted(CLAIMED))
