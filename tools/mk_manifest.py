#!/usr/bin/env python3
"""Writes MANIFEST.json from the table below (kept in one place so it stays valid)."""
import json, os
ROOT = os.path.dirname(os.path.dirname(os.path.abspath(__file__)))
CLAIMED = {
 "C05": dict(
   text="Coq theorems C05_roundtrip / C05_byte_exact / C05_decodes_spec / C05_bytes / C05_varint prove, for every valid entry list of any size, every supported compression and both API families, that the modelled encoder is byte-identical to the specification encoder and that the modelled parser inverts it; the model is tied to the Rust code by a differential run (model extracted to OCaml vs. Directory::to_writer/from_bytes, sync and async, all four codecs answered by the real libraries) plus a direct round-trip / independent-encoder oracle on the implementation.",
   note="Trusted: Coq kernel; hand-written model of directory.rs and integer-encoding's LEB128 (checked by the correspondence run, not proved equal to the Rust); law codec_inv for gzip/brotli/zstd (premise of C05_roundtrip, exercised on every case); extraction (ExtrOcamlBasic) + OCaml driver + Rust harness.",
   technique="Coq proof (induction over the entry list, LEB128 arithmetic by lia) + model/implementation correspondence run",
   design="7/C05"),
 "C07": dict(
   text="Coq theorems C07_spec, C07_inverse, C07_total, C07_too_large, C07_block, C07_adjacent, C07_children(_distinct), C07_lookup_outside/inside/no_crash prove for all zooms 0-31 and all grid points (no bound) that the model of tile_id/zxy over hilbert_2d's LUT automaton equals the PMTiles v3 reference Hilbert algorithm, is inverted exactly, is total below the first id of zoom 32 and an error above, forms contiguous zoom blocks, is edge-adjacent along the curve, keeps children in one aligned block of four, and that coordinate lookups outside the grid answer 'no tile' and never crash. The model is tied to the Rust code by a differential run (exhaustive zooms 0-5/7, boundary and random points at every zoom 0-32, ids at every block edge, out-of-grid lookups against archives holding the aliased tile) and a direct oracle (independent reference algorithm, exhaustive for zooms 0-10 quick / 0-12 thorough incl. inverse, adjacency and children blocks).",
   note="Trusted: Coq kernel (closed under the global context); hand-written model of util/tile_id.rs and of hilbert_2d 1.1.0's LUTs (tied by the correspondence run); gen_params.py for MAX_Z and the grid guard; extraction + driver + harness.",
   technique="Coq proof (4-state automaton simulation by finite case analysis lifted by induction on the zoom; geometric-sum arithmetic) + correspondence run + exhaustive direct oracle",
   design="7/C07"),
 "C09": dict(
   text="Coq theorems C09_length, C09_dec_enc, C09_enc_dec, C09_coord_roundtrip, C09_rejects_short, C09_rejects_magic, C09_accepts_only_valid prove on the model of the deku header layout (IEEE-754 binary64 coordinates via Flocq) that every header serialises to exactly 127 bytes, that parsing the serialisation returns the field values (consuming exactly 127 bytes), that parsing any accepted 127 bytes and serialising again reproduces them - which rests on an analytic proof that all 2^32 stored coordinate values survive i32 -> degrees -> i32 - and that short input, wrong magic/version and unknown enum codes are rejected. The 'nearest multiple of 1e-7' clause is decided by the direct oracle with exact integer arithmetic (known finding D7: double rounding at half-step ties). Tie: differential run on random/boundary headers, every code 0-255 of the enum and flag bytes, every version byte, every truncation length; coordinate sweep through the implementation (2^20 values + stride quick, all 2^32 thorough).",
   note="Trusted: Coq kernel; Print Assumptions lists the standard-library axioms of the classical reals used by Flocq (sig_forall_dec, sig_not_dec, functional_extensionality_dep, classic); hand-written model of the deku-derived layout, of f64 arithmetic (Flocq Bdiv/Bmult/Bnearbyint/Btrunc, Rust's saturating cast); extraction + driver + harness; gen_params.py for HEADER_BYTES and LAT_LONG_FACTOR.",
   technique="Coq proof (byte-layout inversion lemmas; Flocq relative-error analysis of two roundings) + correspondence run + exact-arithmetic direct oracle",
   design="7/C09"),
 "C19": dict(
   text="Coq theorems C19_empty_tile, C19_zero_length_serialiser, C19_zero_length_parser (for every byte string: no parsed directory holds an entry of length 0), C19_meta_shape, C19_meta_object_only, C19_unknown_write, C19_unknown_open, C19_unknown_directory prove each rejection contract on the model as an error value (never a crash) with the archive value unchanged. Tie: differential run and direct oracle with the offending element at every index of directories of several sizes x 4 codecs x sync/async, an empty add at every point of an edit history (fresh, in-memory and reader-backed ids; state compared through the snapshot hook), every non-object JSON kind x 4 codecs, Unknown compression on write and open with and without metadata.",
   note="Trusted: Coq kernel (closed under the global context); hand-written model of tile_manager.rs / directory.rs / pmtiles.rs (tied by the correspondence run); serde_json enters as the json_parse oracle answered by the real library; extraction + driver + harness.",
   technique="Coq proof (direct from the model's definitions, inversion of the column parser) + correspondence run + direct oracle",
   design="7/C19"),
}
CLAIMED.update({
 "C03": dict(
   text="Partial proof + full differential decision. Proved in Coq (C03_find_complete/sound/unique/no_crash): in every valid directory, looking an id up finds exactly the entry whose run covers it and no other. The archive-level clause (every spec-valid foreign archive opens to exactly the tiles its directories address, bytes = tile-data offset + entry offset, header and metadata as stored) is decided by running the Rust readers (sync and async) and the extracted Coq model of from_reader/read_directories on archives emitted by an independent spec-level writer (section permutations and gaps, leaf trees of depth 0-3, run lengths, back-referencing/unordered/duplicated offsets, empty metadata, 4 codecs) and on the upstream fixtures, and comparing both with an independent spec reader (greatest-entry lookup).",
   note="Trusted: Coq kernel (closed under the global context) for the directory-lookup theorems; for the archive-level clause the evidence is differential (model vs implementation vs independent reader), not a theorem yet - stated as such in Props/C03.v; extraction + driver + harness; codecs/JSON as oracles.",
   technique="Coq proof (induction over the ascending entry list) for single-directory lookup + correspondence run against the executable model + independent spec reader",
   design="7/C03"),
 "C04": dict(
   text="Coq theorems C04_refines_map_partial, C04_step, C04_independence, C04_empty: by an invariant over the three internal maps (Inv: distinct keys; every in-memory tile's hash has stored bytes with that hash and lists the tile in its reference set; reference sets non-empty, duplicate-free and exact; bytes stored exactly for referenced hashes) preserved by add/replace/remove, every finite history over {add, replace, remove, lookup, list, count} from any archive value representing a map produces exactly the outputs of a finite-map specification machine and ends representing the final map; editing one id never changes another. The save+reopen step is not yet carried by a theorem (needs C01's composition) and is decided by the correspondence run (model vs Rust, snapshots of the internal maps through the verif hook after every step) and the direct oracle (BTreeMap reference; exhaustive histories of length 3/4 over 3 ids x 3 colliding contents incl. saves, random histories to 600/5000 ops, foreign initial archives).",
   note="Trusted: Coq kernel (closed under the global context); hand-written model of tile_manager.rs; premise hist_collision_free (no 64-bit hash collision among the contents that occur; C04_collision_breaks_map shows it is necessary); extraction + driver + harness; hook verif_snapshot.",
   technique="Coq proof (invariant + refinement to a finite-map machine, induction over the history) + correspondence run + reference-map oracle",
   design="7/C04"),
 "C06": dict(
   text="Coq theorems C06_fits_or_spills_partial, C06_pointers_describe_chunks, C06_chunks_resolve: whenever write_directories succeeds it either wrote the whole list as the root with an empty leaf section (and the list's serialisation is within 16257 bytes) or wrote, at the starting position, a root within 16257 bytes that is the serialisation of leaf pointers only, with the stream left right behind it and nothing before the start changed; the pointers and leaf section describe consecutive chunks of the list (run 0, first tile id, offset, exact length, leaves back to back, each decoding to its chunk) and the chunks concatenate to the original entries - for every codec, API family, starting position and leaf size. Totality of the doubling loop is not proved (stated in Props/C06.v). Tie: model vs Rust on lists steered around the (16257, 16384] window for all codecs, start sizes {default, 1, 2, 7, 1000, > n}, positions {0, 1, 127, 5000}, sync/async; direct oracle resolving root and leaves with an independent decoder and with the library's own reader.",
   note="Trusted: Coq kernel (closed under the global context); model of write_directories.rs over the stream model; law codec_inv; premise that every leaf blob is shorter than 2^32 bytes (the Rust cast `as u32`); gen_params.py for MAX_ROOT_DIR_LENGTH and the default leaf size; extraction + driver + harness.",
   technique="Coq proof (induction on the loop fuel and on the chunk list; stream lemmas) + correspondence run + independent resolution oracle",
   design="7/C06"),
 "C08": dict(
   text="Coq theorems C08_header, C08_directory, C08_read_directories, C08_open, C08_lookup, C08_lookup_xyz, C08_zxy: in the model every unchecked +, -, pow, capacity request and unbounded recursion of the Rust code is an explicit Crash; for EVERY byte string, codec and range the header parser, directory parser, directory walk (depth-limited, checked additions), full and range-filtered open, lookups by id and by coordinates, and zxy on every u64 return a value or an error. Re-writing an opened archive is covered by the differential run and the oracle only. Tie and search: crafted hazard corpus (one archive per class: counts near 2^64, id/offset sums overflowing, zero first offset, cyclic and 40-deep leaf chains, offsets near 2^64, ...), every prefix and every boundary-value substitution of small valid archives, header-field and varint-field mutations, all in a sandboxed worker (panic, abort, stack overflow, OOM kill and time-out are attributed to the case).",
   note="Trusted: Coq kernel (closed under the global context); hand-written model (tied by the correspondence run on the None codec, Ok/Err/Crash compared); assumption that serde_json returns (json_total); allocator and stack behaviour are observed, not modelled; inputs declaring more than 300000 tiles are outside the claim.",
   technique="Coq proof (sweep over every Crash site of the model's readers; recursion on depth fuel) + correspondence run + sandboxed crash oracle",
   design="7/C08"),
 "C10": dict(
   text="Coq theorems C10_retention_invariant and C10_retention: in every state reachable by edits the builder stores exactly one copy of each content some in-memory tile refers to and none that no tile refers to (invariant Inv, by induction over the history). The layout clauses (tile-data length = sum of distinct contents, identical contents share one offset, maximal runs) are decided by the direct oracle on every written archive (independent spec reader) and by the correspondence run (Rust finish vs the extracted model, byte-exact archives), with duplicates between in-memory and reader-backed tiles and non-deduplicated foreign sources; their theorem (finish = specification layout) is in progress.",
   note="Trusted: Coq kernel (closed under the global context); model of tile_manager.rs; premise hist_collision_free; extraction + driver + harness; hook verif_snapshot for the retention clause on the implementation.",
   technique="Coq proof (store invariant by induction over the history) + correspondence run + independent-reader layout oracle",
   design="7/C10"),
 "C14": dict(
   category="other",
   text="The DEFLATE/brotli/zstd implementations cannot be modelled here; what is proved (C14_unknown, C14_none, C14_inverse) is the glue of util/compress.rs: Unknown is an error in every entry point, None is the identity for every chunking, and compress-then-decompress is the identity given the codec's inverse law. The law itself - the substance of the property for the three real codecs - is validated, not proved: empty, 1-byte, compressible, incompressible and multi-megabyte inputs x 4 codecs x one-shot / streamed with 1-byte, small and large write chunks and small reads x sync/async, cross-decoded by the upstream crates called directly and, for gzip, by Python's zlib.",
   note="Level `other`: a theorem about the glue plus differential validation of the codec law. Trusted: the codec crates; Coq kernel for the glue; harness.",
   technique="Coq proof of the selection/identity glue + differential validation of the codec inverse law against upstream and unrelated decoders",
   design="7/C14"),
})
CLAIMED["C10"]["text"] = "Coq theorems C10_retention_invariant / C10_retention (in every state reachable by edits the builder stores exactly one copy of each content some in-memory tile refers to and none that no tile refers to), C10_finish_is_spec (finish() equals the specification layout of the logical content - the (id, content) list sorted by id - whatever the hashes, the order of the internal maps and whether tiles are in memory or reader-backed), C10_data_once (the tile-data section is the distinct contents, each exactly once; counters = number of tiles / distinct contents), C10_runs_maximal (no two adjacent entries could be merged) and C10_runs_exact (expanding the runs gives back every tile's placement). Tie: Rust finish/to_writer vs the extracted model (byte-exact archives, snapshots of the internal maps after every edit) and an independent spec reader checking data length = sum of distinct contents, shared offsets and maximal runs on every written archive, with duplicates between in-memory and reader-backed tiles and non-deduplicated foreign sources."
CLAIMED["C10"]["technique"] = "Coq proof (store invariant by induction over the history; loop invariant relating the hash-keyed offset map to a content-keyed specification) + correspondence run + independent-reader layout oracle"
CLAIMED["C10"]["note"] = "Trusted: Coq kernel (closed under the global context); model of tile_manager.rs; premises: no 64-bit hash collision among the contents that occur (hash_inj_on), contents shorter than 2^32 bytes, ids below 2^63, fewer than 2^32-1 tiles; extraction + driver + harness; hook verif_snapshot."
CLAIMED["C16"] = dict(
   text="Coq theorems C16_canonical_partial and C16_logical_determined: two archive values with the same tiles (every lookup agrees), metadata and settings produce identical to_writer results (bytes, position, operation log) whatever the order of their internal hash maps (hence whatever process wrote them), the edit history that produced them and whether tiles are in memory or reader-backed - by finish = specification layout of the logical content and uniqueness of the id-sorted content list. The rewrite clause (to_writer(from_reader b) = b) is decided by the correspondence run (model vs Rust, byte-exact) and the direct oracle: pairs of histories reaching the same logical state (permuted insertions; detours through wrong contents, temporary twins, idempotent re-adds, removals, saves in between), rewrite idempotence per API family, leaf-spilling archives, and separate OS processes with differently seeded hash maps.",
   note="Trusted: Coq kernel (closed under the global context); models of tile_manager.rs and pmtiles.rs; premises as for C10 (hash_inj_on, sizes); serde_json's key-ordered map enters as the canonical metadata bytes; extraction + driver + harness.",
   technique="Coq proof (finish = spec layout; sorted-list uniqueness) + correspondence run + history-pair / cross-process oracle",
   design="7/C16")
CLAIMED["C11"] = dict(
   text="Coq theorems C11_partial_open and C11_read_directories: for every byte image, every codec and every range (any combination of inclusive, exclusive and open bounds, empty and inverted ranges, bounds at 0 and at u64::MAX), whenever the full open succeeds on an archive whose leaves respect their pointers (tree_ok: ids found under a pointer are >= the pointer's id - true of every valid archive), the range-filtered open succeeds, reports the same settings and metadata, and every lookup returns exactly what the full open returns inside the range and 'no such tile' outside it; proved by a simulation between the filtered and unfiltered directory walks (skipping a leaf is sound because everything it adds lies beyond the inclusive range end) lifted by induction on the depth fuel. Tie: from_bytes_partially / from_async_reader_partially and read_directories vs the extracted model and vs the restriction of the full open, on library-written (with and without leaf directories) and foreign archives, ranges with endpoints steered onto leaf first ids and run boundaries +-1, 0 and u64::MAX, all bound kinds.",
   note="Trusted: Coq kernel (closed under the global context); model of read_directories.rs / pmtiles.rs (tied by the correspondence run); hypothesis tree_ok on the archive; extraction + driver + harness.",
   technique="Coq proof (simulation of filtered vs unfiltered walk; induction over entries and depth fuel; N.iter lemma for run expansion) + correspondence run + restriction oracle",
   design="7/C11")
CLAIMED["C15"] = dict(
   category="fault_enumeration",
   text="Exhaustive fail-stop fault enumeration on the implementation, backed by a Coq theorem on the writer's operation log. For every scenario (archive write with 0/3/30 tiles x 4 codecs x sync/async, leaf-spilling archives; open + fetch of every tile on library-written and foreign archives; Directory / Header readers and writers; write_directories / read_directories) the fault-free run is recorded (N stream operations) and for every k < N the run in which operation k and all later ones fail is executed: the call must return Err, never Ok, never panic; additionally, after the stream started failing, retried and twin lookups must keep failing. Coq (C15_archive_writer): in the model's operation log of to_writer every drop-time (error-swallowing) write of a sync codec writer is followed by a propagating operation, so every fault index yields an error; C15_lost_in_drop exhibits the one exception, the stand-alone sync Directory::to_writer with a codec (known finding D6).",
   note="Level fault_enumeration: the decision is the exhaustive enumeration over k on the implementation; the theorem covers the writers' ordering argument only (readers' propagation is `?` on every call and is enumerated, not modelled). Trusted: instrumented stream wrappers in the harness; Coq kernel for the log theorem; model of the writers' operation order (tied by the write/seek log comparison of C17/C18).",
   technique="Exhaustive fault-index enumeration on instrumented streams + Coq proof on the writer's operation log (last operation propagates)",
   design="7/C15")
CLAIMED["C17"] = dict(
   text="Coq theorems C17_torn_before_header_rejected, C17_header_last, C17_prefixes_rejected: in the model's operation log of to_writer into a fresh stream every write before the header write lands at a position >= 127 (directories, metadata, leaves, tile data, including the abandoned first root of a spill), the header is ONE 127-byte write that comes after all of them and only a flush and a seek follow it; and EVERY image produced by writes at positions >= 127 only - any prefix, any fragmentation of the section writes, any partially completed write - is rejected by the reader (its first 127 bytes are absent or zero, so the magic check fails). Hence the only torn outputs that open are complete ones. Tie: the implementation's recorded write/seek log equals the model's (hist op w:, coalesced) for all codecs, sync/async, with and without leaf spill; direct oracle replays every prefix of the recorded operations and opens it with the Rust readers.",
   note="Trusted: Coq kernel (Print Assumptions: closed, or the Flocq/Reals axioms through the header codec); model of the writers' operation order (tied by the log comparison); header write atomic, as the property states; extraction + driver + harness.",
   technique="Coq proof (operation-log invariant 'all writes >= start+127 until the single header write'; zero-prefix images fail the magic check) + log correspondence + exhaustive prefix replay",
   design="7/C17")
CLAIMED["C18"] = dict(
   text="Coq theorems C18_start_position_partial and C18_all_writes_after_start: for every archive, API family, pre-existing stream image and starting position P, a successful to_writer leaves the bytes before P untouched, puts the 127-byte header at P, records every section offset relative to P (root at 127, sections consecutive) and leaves the stream at P + tile_data_offset + tile_data_length; every write of the call is at or after P. The remaining clause (bytes from P on are byte-identical to the archive written at 0) is decided by the correspondence run (model vs Rust image, position and write/seek log at P in {0, 1, 10, 127, 128, 4096, random}, pre-filled / shorter / empty streams, with and without leaf spill, sync and async) and the direct oracle comparing with the archive written at 0 and re-reading from P.",
   note="Trusted: Coq kernel; model of pmtiles.rs / write_directories.rs over the stream model with operation log (tied by image + log comparison); extraction + driver + harness.",
   technique="Coq proof (operation-log extension invariant, before/section lemmas on the stream model) + correspondence run + start-position oracle",
   design="7/C18")
PENDING_REASON = "check not built yet in this revision of /verif (the design in DESIGN.md section 7 covers it); no claim is made until its theorems and correspondence run exist"
props = [json.loads(l)["id"] for l in open(os.path.join(ROOT, "properties.jsonl"))]
checks = []
for p in props:
    if p in CLAIMED:
        c = CLAIMED[p]
        checks.append({
            "property_id": p,
            "quick_cmd": f"./check {p} --tier quick",
            "thorough_cmd": f"./check {p} --tier thorough",
            "evidence_file": f"/verif/evidence/{p}.json",
            "replay_cmd_template": f"./check {p} --replay {{path}}",
            "engine": "coq+correspondence",
            "level_claimed": {"category": c.get("category", "proof"), "text": c["text"], "design_ref": "DESIGN.md section " + c["design"]},
            "level_note": c["note"],
            "technique": c["technique"],
        })
m = {
 "version": 1,
 "setup_cmd": "./check --setup",
 "hooks": {
   "guard": "cargo feature `verif` of pmtiles2",
   "enable": "the harness depends on pmtiles2 = { path = \"/repo\", features = [\"async\", \"verif\"] }",
   "baseline_off_cmd": "cd /repo && cargo test --workspace --no-fail-fast --offline",
   "source_commits": ["adb38c4"],
   "add_only": True,
 },
 "engines": [{
   "name": "coq+correspondence", "path": "/verif/check",
   "serves_properties": sorted(CLAIMED),
   "kind_free_text": "Coq 8.16 development (coq/), model extracted to OCaml (driver/), Rust harness (harness/) built against /repo's working tree; ./check orchestrates proof gate, correspondence gate and direct oracle",
 }],
 "checks": checks,
 "notes": "Fix commits in /repo (see known_findings.json): a3cb79b 1c84b78 43bfcde 67c63db d721c33 b5754cb. Known findings (open): D7 (C09, C01).",
 "not_applicable": [{"property_id": p, "reason": PENDING_REASON} for p in props if p not in CLAIMED],
}
json.dump(m, open(os.path.join(ROOT, "MANIFEST.json"), "w"), indent=1)
print("claimed:", sorted(CLAIMED))
