#!/bin/sh
# try_seed.sh <seed-id> <property> [tier]: applies /verif/seeded/<seed-id>/patch.diff to /repo, runs the check, undoes it.
sid="$1"; prop="$2"; tier="${3:-quick}"
cd /repo || exit 2
git diff --quiet || { echo "/repo is dirty"; exit 2; }
git apply "/verif/seeded/$sid/patch.diff" || exit 2
cd /verif
out=$(./check "$prop" --tier "$tier" 2>&1 | tail -4)
rc=$?
cd /repo && git checkout -- . 
echo "== $sid vs $prop: $(echo "$out" | grep -E 'VIOLATION|ok:' | head -2)"
echo "$out" | grep -v VIOLATION | head -2 | cut -c1-400
