#!/bin/sh
# try_seed.sh <seed-id> <property> [tier]: applies /verif/seeded/<seed-id>/patch.diff to /repo, runs the check, undoes it.
sid="$1"; prop="$2"; tier="${3:-quick}"
cd /repo || exit 2
git diff --quiet || { echo "/repo is dirty"; exit 2; }
git apply "/verif/seeded/$sid/patch.diff" || exit 2
cd /verif
cp evidence/$prop.json /tmp/try_seed_evidence_$prop.json 2>/dev/null
./check "$prop" --tier "$tier" > /tmp/try_seed_out.txt 2>&1
# the evidence file of a run against a seeded change must not replace the one of the unchanged tree
cp /tmp/try_seed_evidence_$prop.json evidence/$prop.json 2>/dev/null
cd /repo && git checkout -- . && git clean -fdq src tests
echo "== $sid vs $prop: $(grep -E 'VIOLATION|ok:' /tmp/try_seed_out.txt | head -2)"
python3 - "$prop" "$tier" <<'PY'
import json,sys
try:
    r=json.load(open(f'/verif/work/replays/{sys.argv[1]}_{sys.argv[2]}_1.json'))
except Exception as e:
    print('  (no replay)'); sys.exit()
seen=set()
for v in r['all_violations']:
    d=v['description'][:220]; k=d[:60]
    if k in seen or 'Props/' in d: continue
    seen.add(k); print('  ',v['kind'], d)
    if len(seen)>=3: break
PY
