#!/bin/sh
# runp.sh <prop> [tier]: run a check and summarise distinct violations
p="$1"; t="${2:-quick}"
cd /verif
/usr/bin/time -f "%es" timeout 1500 ./check $p --tier $t 2>&1 | tail -3 | cut -c1-300
python3 - "$p" "$t" <<'PY'
import json,sys,os
p,t=sys.argv[1],sys.argv[2]
e=json.load(open(f'/verif/evidence/{p}.json'))
rp=f'/verif/work/replays/{p}_{t}_1.json'
if e.get('violations',0) and os.path.exists(rp):
    r=json.load(open(rp)); seen=set()
    for v in r['all_violations']:
        d=v['description'][:400]; k=d[:70]
        if k in seen or 'Props/' in d: continue
        seen.add(k); print('  ',v['kind'], d, '| case:', (v['cases'][0][:150] if v['cases'] else ''))
c=e['coverage']
print('  compared',c['traces_validated_against_impl'],'chk',c['direct_oracle_cases'],'timing',c['timing_s'])
PY
