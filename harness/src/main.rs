#![allow(dead_code)]
//! pmh: correspondence + direct-oracle harness for pmtiles2 (built against /repo's working tree).
mod gen_arch;
mod gen_common;
mod ops;
mod ops2;
mod oracle;
mod p_archive;
mod p_c05;
mod p_codec;
mod p_io;
mod prelude;
mod proto;
mod rng;
mod spec;
mod streams;

use gen_common::Stats;
use std::collections::HashSet;
use std::io::{BufRead, BufReader, Write};
use std::process::{Child, Command, Stdio};
use std::sync::mpsc;
use std::time::Duration;

fn gen_cases(prop: &str, seed: u64, quick: bool, st: &mut Stats) -> Vec<String> {
    let mut rng = rng::Rng::new(seed ^ u64::from_str_radix(&prop[1..], 10).unwrap_or(0) * 1_000_003);
    match prop {
        "C05" => p_c05::gen(&mut rng, quick, st),
        "C07" => p_codec::gen_c07(&mut rng, quick, st),
        "C09" => p_codec::gen_c09(&mut rng, quick, st),
        "C19" => p_codec::gen_c19(&mut rng, quick, st),
        _ => {
            if let Some(v) = p_archive::gen(prop, &mut rng, quick, st) {
                return v;
            }
            if let Some(v) = p_io::gen(prop, &mut rng, quick, st) {
                return v;
            }
            panic!("no generator for {prop}")
        }
    }
}

fn run_line(line: &str) -> String {
    let toks: Vec<&str> = line.split(' ').collect();
    if toks[0].starts_with("chk_") {
        if let Some(r) = p_c05::run_chk(&toks) {
            return r;
        }
        if let Some(r) = p_codec::run_chk(&toks) {
            return r;
        }
        if let Some(r) = p_archive::run_chk(&toks) {
            return r;
        }
        if let Some(r) = p_io::run_chk(&toks) {
            return r;
        }
        return format!("unsupported {}", toks[0]);
    }
    ops::run_op(&toks)
}

struct Worker {
    child: Child,
    rx: mpsc::Receiver<String>,
}
fn spawn_worker() -> Worker {
    let exe = std::env::current_exe().expect("exe");
    let mut child = Command::new(exe).arg("worker").stdin(Stdio::piped()).stdout(Stdio::piped()).stderr(Stdio::null()).spawn().expect("spawn worker");
    let out = child.stdout.take().expect("stdout");
    let (tx, rx) = mpsc::channel();
    std::thread::spawn(move || {
        for l in BufReader::new(out).lines() {
            match l {
                Ok(l) => {
                    if tx.send(l).is_err() {
                        break;
                    }
                }
                Err(_) => break,
            }
        }
    });
    Worker { child, rx }
}
/// runs one line in the given worker; replaces the worker when the case kills it or times out
fn run_one(w: &mut Worker, line: &str, per_case: Duration) -> String {
    let sent = {
        let si = w.child.stdin.as_mut().expect("stdin");
        writeln!(si, "{line}").and_then(|_| si.flush()).is_ok()
    };
    let r = if sent {
        match w.rx.recv_timeout(per_case) {
            Ok(r) => Some(r),
            Err(mpsc::RecvTimeoutError::Timeout) => {
                let _ = w.child.kill();
                let _ = w.child.wait();
                *w = spawn_worker();
                return "crash timeout".to_string();
            }
            Err(mpsc::RecvTimeoutError::Disconnected) => None,
        }
    } else {
        None
    };
    match r {
        Some(r) => r,
        None => {
            let status = w.child.wait().ok();
            *w = spawn_worker();
            format!("crash abort({})", status.map(|s| s.to_string()).unwrap_or_default().replace(' ', "_"))
        }
    }
}
/// runs the lines in sandboxed worker processes (several in parallel; every case is self-contained, results are
/// reported in case order): a panic is caught inside the worker; an abort, stack overflow, out-of-memory kill or
/// time-out ends the worker and is attributed to the case
const HEAVY_CASES: [&str; 9] = ["chk_torn_giant", "chk_codec_big", "chk_startpos_sparse", "chk_valid_sparse", "chk_many_contents", "chk_history_independent", "chk_big_shared", "chk_dedup_run", "chk_hconc"];
fn run_isolated(lines: &[String], per_case: Duration) -> Vec<String> {
    use std::sync::atomic::{AtomicUsize, Ordering};
    use std::sync::{Arc, Mutex};
    let k = std::env::var("PM_WORKERS").ok().and_then(|v| v.parse::<usize>().ok()).unwrap_or_else(|| std::thread::available_parallelism().map(|n| n.get()).unwrap_or(4).min(12)).max(1);
    let next = Arc::new(AtomicUsize::new(0));
    let out: Arc<Mutex<Vec<Option<String>>>> = Arc::new(Mutex::new(vec![None; lines.len()]));
    let lines: Arc<Vec<String>> = Arc::new(lines.to_vec());
    let mut handles = Vec::new();
    for _ in 0..k.min(lines.len().max(1)) {
        let (next, out, lines) = (next.clone(), out.clone(), lines.clone());
        handles.push(std::thread::spawn(move || {
            let mut w = spawn_worker();
            loop {
                let i = next.fetch_add(1, Ordering::SeqCst);
                if i >= lines.len() {
                    break;
                }
                // the size-only heavy cases get a short limit (their time-out is inconclusive, see below): a slow or
                // memory-starved machine must not turn the quick tier into hours
                let heavy = HEAVY_CASES.iter().any(|h| lines[i].starts_with(h));
                let limit = if heavy { per_case.min(Duration::from_secs(420)) } else { per_case };
                let r = run_one(&mut w, &lines[i], limit);
                out.lock().unwrap()[i] = Some(r);
            }
            let _ = w.child.kill();
            let _ = w.child.wait();
        }));
    }
    for h in handles {
        let _ = h.join();
    }
    let v = out.lock().unwrap();
    v.iter().map(|o| o.clone().unwrap_or_else(|| "crash lost".to_string())).collect()
}

fn main() {
    let args: Vec<String> = std::env::args().collect();
    ops::silence_panics();
    match args.get(1).map(String::as_str) {
        Some("oracle") => oracle::serve(),
        Some("bytes") => p_archive::bytes_cmd(&args[2], &args[3]),
        Some("worker") => {
            let stdin = std::io::stdin();
            let stdout = std::io::stdout();
            let mut served = 0usize;
            for line in stdin.lock().lines() {
                let Ok(line) = line else { break };
                // refused operations first, on this thread (state left behind by them must not reach the case)
                prelude::refused_ops(served);
                served += 1;
                let r = run_line(line.trim_end());
                let mut o = stdout.lock();
                let _ = writeln!(o, "{}", r.replace('\n', " "));
                let _ = o.flush();
            }
        }
        Some("run") => {
            // pmh run <PROP> <seed> <quick|thorough> <outdir> [corpus files...]
            let prop = &args[2];
            let seed: u64 = args[3].parse().expect("seed");
            let quick = args[4] != "thorough";
            // the workers inherit the tier (exhaustive rather than strided enumerations in the thorough tier)
            std::env::set_var("PM_TIER", if quick { "quick" } else { "thorough" });
            let outdir = std::path::PathBuf::from(&args[5]);
            std::fs::create_dir_all(&outdir).expect("outdir");
            let mut st = Stats::default();
            let mut lines: Vec<String> = Vec::new();
            for f in &args[6..] {
                if let Ok(s) = std::fs::read_to_string(f) {
                    for l in s.lines() {
                        let l = l.trim();
                        if !l.is_empty() && !l.starts_with('#') {
                            lines.push(l.to_string());
                            st.bump("corpus_cases");
                        }
                    }
                }
            }
            lines.extend(gen_cases(prop, seed, quick, &mut st));
            let mut fc = std::io::BufWriter::new(std::fs::File::create(outdir.join("cases.txt")).unwrap());
            for (i, line) in lines.iter().enumerate() {
                writeln!(fc, "{i} {line}").unwrap();
            }
            fc.flush().unwrap();
            // (generous: on a loaded machine the cases that move gigabytes take minutes; a case that hangs is still caught)
            let results = run_isolated(&lines, Duration::from_secs(if quick { 1800 } else { 5000 }));
            let mut fi = std::io::BufWriter::new(std::fs::File::create(outdir.join("impl.txt")).unwrap());
            let mut distinct: HashSet<u64> = HashSet::new();
            let mut nontrivial = 0u64;
            let mut samples: Vec<String> = Vec::new();
            // the cases that move gigabytes or build millions of tiles are about sizes, not about termination: when such a
            // case runs into the time limit the machine was too slow for it, which says nothing about the code; it is
            // counted as inconclusive (and shows in the evidence), not reported as a violation
            const HEAVY: [&str; 9] = HEAVY_CASES;
            let results: Vec<String> = results
                .into_iter()
                .zip(lines.iter())
                .map(|(r, line)| {
                    if r == "crash timeout" && HEAVY.iter().any(|h| line.starts_with(h)) {
                        st.bump("heavy_case_hit_the_time_limit_inconclusive");
                        "ok".to_string()
                    } else {
                        r
                    }
                })
                .collect();
            for (i, line) in lines.iter().enumerate() {
                let r = &results[i];
                writeln!(fi, "{i} {r}").unwrap();
                let op = line.split(' ').next().unwrap_or("");
                st.bump(&format!("op.{op}"));
                let kind = r.split(' ').next().unwrap_or("");
                st.bump(&format!("impl_result.{kind}"));
                use std::hash::{Hash, Hasher};
                let mut h = std::collections::hash_map::DefaultHasher::new();
                line.hash(&mut h);
                if distinct.insert(h.finish()) && !line.split(' ').skip(1).any(|t| t == "-") {
                    nontrivial += 1;
                    if samples.len() < 6 && (nontrivial % 97 == 1) {
                        let mut s = line.clone();
                        if s.len() > 400 {
                            s.truncate(400);
                            s.push_str("...");
                        }
                        samples.push(s);
                    }
                }
            }
            fi.flush().unwrap();
            let mut js = String::from("{\n");
            js.push_str(&format!("  \"evaluations\": {},\n", lines.len()));
            js.push_str(&format!("  \"distinct\": {},\n", distinct.len()));
            js.push_str(&format!("  \"distinct_nontrivial\": {nontrivial},\n"));
            js.push_str("  \"samples\": [");
            js.push_str(&samples.iter().map(|s| format!("{s:?}")).collect::<Vec<_>>().join(", "));
            js.push_str("],\n  \"counters\": {");
            js.push_str(&st.counters.iter().map(|(k, v)| format!("{k:?}: {v}")).collect::<Vec<_>>().join(", "));
            js.push_str("}\n}\n");
            std::fs::write(outdir.join("stats.json"), js).unwrap();
        }
        Some("replay") => {
            // pmh replay <file with case lines (optionally prefixed by an id)>
            let s = std::fs::read_to_string(&args[2]).expect("read");
            let mut lines = Vec::new();
            for l in s.lines() {
                let l = l.trim();
                if l.is_empty() || l.starts_with('#') {
                    continue;
                }
                let mut parts = l.splitn(2, ' ');
                let first = parts.next().unwrap();
                let line = if first.chars().all(|c| c.is_ascii_digit()) { parts.next().unwrap_or("") } else { l };
                lines.push(line.to_string());
            }
            for r in run_isolated(&lines, Duration::from_secs(3000)) {
                println!("{r}");
            }
        }
        _ => {
            eprintln!("usage: pmh run|oracle|replay|worker ...");
            std::process::exit(2);
        }
    }
}
