#![allow(dead_code)]
//! pmh: correspondence + direct-oracle harness for pmtiles2 (built against /repo's working tree).
mod gen_common;
mod ops;
mod ops2;
mod oracle;
mod p_c05;
mod proto;
mod rng;
mod streams;

use gen_common::Stats;
use std::collections::HashSet;
use std::io::Write;

fn gen_cases(prop: &str, seed: u64, quick: bool, st: &mut Stats) -> Vec<String> {
    let mut rng = rng::Rng::new(seed ^ u64::from_str_radix(&prop[1..], 10).unwrap_or(0) * 1_000_003);
    match prop {
        "C05" => p_c05::gen(&mut rng, quick, st),
        _ => panic!("no generator for {prop}"),
    }
}

fn run_line(line: &str) -> String {
    let toks: Vec<&str> = line.split(' ').collect();
    if toks[0].starts_with("chk_") {
        if let Some(r) = p_c05::run_chk(&toks) {
            return r;
        }
        return format!("unsupported {}", toks[0]);
    }
    ops::run_op(&toks)
}

fn main() {
    let args: Vec<String> = std::env::args().collect();
    ops::silence_panics();
    match args.get(1).map(String::as_str) {
        Some("oracle") => oracle::serve(),
        Some("run") => {
            // pmh run <PROP> <seed> <quick|thorough> <outdir> [corpus files...]
            let prop = &args[2];
            let seed: u64 = args[3].parse().expect("seed");
            let quick = args[4] != "thorough";
            let outdir = std::path::PathBuf::from(&args[5]);
            std::fs::create_dir_all(&outdir).expect("outdir");
            let mut st = Stats::default();
            let mut lines: Vec<String> = Vec::new();
            for f in &args[6..] {
                if let Ok(s) = std::fs::read_to_string(f) {
                    for l in s.lines() {
                        let l = l.trim();
                        if !l.is_empty() && !l.starts_with('#') {
                            lines.push(l.to_string());
                            st.bump("corpus_cases");
                        }
                    }
                }
            }
            lines.extend(gen_cases(prop, seed, quick, &mut st));
            let mut fc = std::io::BufWriter::new(std::fs::File::create(outdir.join("cases.txt")).unwrap());
            let mut fi = std::io::BufWriter::new(std::fs::File::create(outdir.join("impl.txt")).unwrap());
            let mut distinct: HashSet<u64> = HashSet::new();
            let mut nontrivial = 0u64;
            let mut samples: Vec<String> = Vec::new();
            for (i, line) in lines.iter().enumerate() {
                let r = run_line(line);
                writeln!(fc, "{i} {line}").unwrap();
                writeln!(fi, "{i} {r}").unwrap();
                let op = line.split(' ').next().unwrap_or("");
                st.bump(&format!("op.{op}"));
                let kind = r.split(' ').next().unwrap_or("");
                st.bump(&format!("impl_result.{kind}"));
                use std::hash::{Hash, Hasher};
                let mut h = std::collections::hash_map::DefaultHasher::new();
                line.hash(&mut h);
                if distinct.insert(h.finish()) && !line.split(' ').skip(1).any(|t| t == "-") {
                    nontrivial += 1;
                    if samples.len() < 6 && (nontrivial % 97 == 1) {
                        let mut s = line.clone();
                        if s.len() > 400 {
                            s.truncate(400);
                            s.push_str("...");
                        }
                        samples.push(s);
                    }
                }
            }
            fc.flush().unwrap();
            fi.flush().unwrap();
            let mut js = String::from("{\n");
            js.push_str(&format!("  \"evaluations\": {},\n", lines.len()));
            js.push_str(&format!("  \"distinct\": {},\n", distinct.len()));
            js.push_str(&format!("  \"distinct_nontrivial\": {nontrivial},\n"));
            js.push_str("  \"samples\": [");
            js.push_str(&samples.iter().map(|s| format!("{s:?}")).collect::<Vec<_>>().join(", "));
            js.push_str("],\n  \"counters\": {");
            js.push_str(
                &st.counters.iter().map(|(k, v)| format!("{k:?}: {v}")).collect::<Vec<_>>().join(", "),
            );
            js.push_str("}\n}\n");
            std::fs::write(outdir.join("stats.json"), js).unwrap();
        }
        Some("replay") => {
            // pmh replay <file with case lines (optionally prefixed by an id)>
            let s = std::fs::read_to_string(&args[2]).expect("read");
            for l in s.lines() {
                let l = l.trim();
                if l.is_empty() || l.starts_with('#') {
                    continue;
                }
                let mut parts = l.splitn(2, ' ');
                let first = parts.next().unwrap();
                let line = if first.chars().all(|c| c.is_ascii_digit()) { parts.next().unwrap_or("") } else { l };
                println!("{}", run_line(line));
            }
        }
        _ => {
            eprintln!("usage: pmh run|oracle|replay ...");
            std::process::exit(2);
        }
    }
}
