//! Token protocol shared with the OCaml model driver: numbers are hex, byte strings are hex
//! ("-" = empty), lists are comma separated ("-" = empty), entries are id.off.len.run.
use pmtiles2::Entry;

pub fn hex_bytes(b: &[u8]) -> String {
    if b.is_empty() {
        return "-".into();
    }
    const D: &[u8; 16] = b"0123456789abcdef";
    let mut s = String::with_capacity(b.len() * 2);
    for x in b {
        s.push(D[(x >> 4) as usize] as char);
        s.push(D[(x & 15) as usize] as char);
    }
    s
}
pub fn unhex_bytes(s: &str) -> Vec<u8> {
    if s == "-" {
        return Vec::new();
    }
    let b = s.as_bytes();
    let v = |c: u8| -> u8 {
        match c {
            b'0'..=b'9' => c - b'0',
            b'a'..=b'f' => c - b'a' + 10,
            b'A'..=b'F' => c - b'A' + 10,
            _ => panic!("bad hex"),
        }
    };
    (0..b.len() / 2).map(|i| v(b[2 * i]) * 16 + v(b[2 * i + 1])).collect()
}
pub fn hex_num(n: u128) -> String {
    format!("{n:x}")
}
pub fn unhex_num(s: &str) -> u128 {
    u128::from_str_radix(s, 16).expect("bad number")
}
pub fn unhex_u64(s: &str) -> u64 {
    u64::try_from(unhex_num(s)).expect("number exceeds u64")
}
pub fn entry_tok(e: &Entry) -> String {
    format!("{:x}.{:x}.{:x}.{:x}", e.tile_id, e.offset, e.length, e.run_length)
}
pub fn entries_tok(es: &[Entry]) -> String {
    if es.is_empty() {
        return "-".into();
    }
    es.iter().map(entry_tok).collect::<Vec<_>>().join(",")
}
pub fn parse_entry(s: &str) -> Entry {
    let p: Vec<&str> = s.split('.').collect();
    Entry {
        tile_id: unhex_u64(p[0]),
        offset: unhex_u64(p[1]),
        length: u32::try_from(unhex_num(p[2])).expect("len"),
        run_length: u32::try_from(unhex_num(p[3])).expect("run"),
    }
}
pub fn parse_entries(s: &str) -> Vec<Entry> {
    if s == "-" {
        return Vec::new();
    }
    if let Some(n) = s.strip_prefix('R') {
        // shorthand for a long, regular, valid list (only understood by the implementation side: direct oracles)
        let n = unhex_u64(n);
        return (0..n).map(|i| Entry { tile_id: 3 * i + 1, offset: 5 * i, length: 5, run_length: 1 + (i % 2) as u32 }).collect();
    }
    s.split(',').map(parse_entry).collect()
}
pub fn nums_tok(v: &[u64]) -> String {
    if v.is_empty() {
        return "-".into();
    }
    v.iter().map(|x| format!("{x:x}")).collect::<Vec<_>>().join(",")
}
pub fn parse_nums(s: &str) -> Vec<u64> {
    if s == "-" {
        return Vec::new();
    }
    s.split(',').map(unhex_u64).collect()
}

use pmtiles2::Compression;
pub fn comp_tok(c: Compression) -> &'static str {
    match c {
        Compression::Unknown => "unknown",
        Compression::None => "none",
        Compression::GZip => "gzip",
        Compression::Brotli => "brotli",
        Compression::ZStd => "zstd",
    }
}
pub fn parse_comp(s: &str) -> Compression {
    match s {
        "unknown" => Compression::Unknown,
        "none" => Compression::None,
        "gzip" => Compression::GZip,
        "brotli" => Compression::Brotli,
        "zstd" => Compression::ZStd,
        _ => panic!("bad compression {s}"),
    }
}
pub const ALL_COMP: [Compression; 4] = [
    Compression::None,
    Compression::GZip,
    Compression::Brotli,
    Compression::ZStd,
];
