//! SplitMix64: every random choice of a run derives from one seed.
#[derive(Clone)]
pub struct Rng(pub u64);
impl Rng {
    pub fn new(seed: u64) -> Self {
        Rng(seed.wrapping_mul(0x9E37_79B9_7F4A_7C15) ^ 0xD1B5_4A32_D192_ED03)
    }
    pub fn next(&mut self) -> u64 {
        self.0 = self.0.wrapping_add(0x9E37_79B9_7F4A_7C15);
        let mut z = self.0;
        z = (z ^ (z >> 30)).wrapping_mul(0xBF58_476D_1CE4_E5B9);
        z = (z ^ (z >> 27)).wrapping_mul(0x94D0_49BB_1331_11EB);
        z ^ (z >> 31)
    }
    /// uniform in [0, n)
    pub fn below(&mut self, n: u64) -> u64 {
        if n == 0 {
            0
        } else {
            self.next() % n
        }
    }
    pub fn range(&mut self, lo: u64, hi_incl: u64) -> u64 {
        lo + self.below(hi_incl - lo + 1)
    }
    pub fn chance(&mut self, num: u64, den: u64) -> bool {
        self.below(den) < num
    }
    pub fn pick<'a, T>(&mut self, v: &'a [T]) -> &'a T {
        &v[self.below(v.len() as u64) as usize]
    }
    pub fn bytes(&mut self, n: usize) -> Vec<u8> {
        (0..n).map(|_| self.next() as u8).collect()
    }
    pub fn bytes_range(&mut self, lo: u64, hi: u64) -> Vec<u8> {
        let n = self.range(lo, hi) as usize;
        self.bytes(n)
    }
    /// a value whose magnitude is spread over all bit widths up to `bits`
    pub fn spread(&mut self, bits: u32) -> u64 {
        let w = self.range(0, u64::from(bits));
        if w == 0 {
            0
        } else if w == 64 {
            self.next()
        } else {
            self.next() & ((1u64 << w) - 1)
        }
    }
    pub fn fork(&mut self) -> Rng {
        Rng(self.next())
    }
}
