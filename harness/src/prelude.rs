//! Operations the library refuses (or that lie outside a function's domain), run in the worker before every case,
//! on the thread the case runs on: whatever a refused call leaves behind (a scratch buffer, a memo entry, a cached
//! position) must not leak into the next call. The results are not judged here (C19 does that); a panic is caught.
use futures::executor::block_on;
use pmtiles2::{util, Compression, Directory, Entry, Header, PMTiles, TileType};
use std::panic::{catch_unwind, AssertUnwindSafe};

const CODECS: [Compression; 5] = [Compression::None, Compression::GZip, Compression::ZStd, Compression::Brotli, Compression::Unknown];

pub fn refused_ops(n: usize) {
    let _ = catch_unwind(AssertUnwindSafe(|| {
        // a directory with a zero-length entry behind a valid one: refused after part of it has been encoded
        let d: Directory = vec![
            Entry { tile_id: 3 + n as u64, offset: 0, length: 7, run_length: 2 },
            Entry { tile_id: 900 + n as u64, offset: 7, length: 0, run_length: 1 },
        ]
        .into();
        let c = CODECS[n % CODECS.len()];
        let mut v = Vec::new();
        let _ = d.to_writer(&mut v, c);
        let mut cur = futures::io::Cursor::new(Vec::new());
        let _ = block_on(d.to_async_writer(&mut cur, CODECS[(n / 5) % CODECS.len()]));
        // a header the serialiser refuses
        let mut h = Header::default();
        h.spec_version = 2 + (n % 7) as u8 * 2;
        let mut v = Vec::new();
        let _ = h.to_writer(&mut v);
        // bytes the parsers refuse
        let junk: Vec<u8> = (0..40 + n % 200).map(|i| (i * 37 + n) as u8).collect();
        let _ = Header::from_bytes(&junk);
        let _ = Directory::from_bytes(&junk, CODECS[(n / 3) % 4]);
        let _ = PMTiles::from_bytes(&junk[..]);
        let _ = util::decompress_all(CODECS[1 + n % 3], &junk);
        let _ = util::compress_all(Compression::Unknown, &junk);
        // an edit the archive refuses
        let mut p = PMTiles::new(TileType::Png, Compression::None);
        let _ = p.add_tile(n as u64, vec![1u8, 2, 3]);
        let _ = p.add_tile(n as u64, Vec::<u8>::new());
        let _ = p.get_tile(1 << 20, 0, 3);
        // ids and coordinates outside the functions' domains
        let _ = util::zxy(u64::MAX - n as u64);
        let _ = util::zxy(6_148_914_691_236_517_205 + n as u64);
    }));
    // a save that fails at one of its last operations (header write, final seek, ...), sync and async in turn
    let _ = catch_unwind(AssertUnwindSafe(|| {
        use crate::streams::{AsyncStream, Core, SyncStream};
        macro_rules! fill {
            ($p:expr) => {{
                let mut p = $p;
                let _ = p.add_tile(1, vec![9u8; 40]);
                let _ = p.add_tile(5, vec![8u8; 3]);
                p.max_zoom = 10;
                p
            }};
        }
        thread_local! { static SAVE_OPS: std::cell::Cell<usize> = const { std::cell::Cell::new(0) }; }
        let total = SAVE_OPS.with(|c| {
            if c.get() == 0 {
                let mut s = SyncStream(Core::new(Vec::new(), 0));
                let _ = fill!(PMTiles::new(TileType::Png, Compression::None)).to_writer(&mut s);
                c.set(s.0.ops.max(1));
            }
            c.get()
        });
        let mut core = Core::new(Vec::new(), 0);
        core.fail_from = Some(total.saturating_sub(1 + n % 4));
        if n % 2 == 0 {
            let mut s = SyncStream(core);
            let _ = fill!(PMTiles::new(TileType::Png, Compression::None)).to_writer(&mut s);
        } else {
            let mut s = AsyncStream(core);
            let _ = block_on(fill!(PMTiles::new_async(TileType::Png, Compression::None)).to_async_writer(&mut s));
        }
    }));
    let _ = catch_unwind(|| util::tile_id(32 + (n % 9) as u8, n as u64, 7));
    let _ = catch_unwind(|| util::tile_id((n % 32) as u8, u64::MAX - n as u64, 1 << 40));
}
