// (included into p_io2.rs)

// ---------------------------------------------------------------------------------------------
// C12
// ---------------------------------------------------------------------------------------------
fn swap_mode(ops: &str, w: &str, r: &str) -> String {
    ops.split(';').map(|o| if o == "s:X:Y" { format!("s:{w}:{r}") } else { o.replace(":X:", &format!(":{r}:")) }).collect::<Vec<_>>().join(";")
}
/// `ops` uses "s:X:Y" for save+reopen and "o:X:range:hex" for opens; the history is run with every
/// combination of API families and all observable outputs are compared
fn chk_sa_hist(ops: &str) -> Result<(), String> {
    // family of the state before a save decides the writer; X/Y are replaced consistently
    let run = |start: &str, r: &str| -> Vec<String> {
        // the writer family is the family of the current state: start family until the first reopen, then r
        let mut cur = start.to_string();
        let mut seq: Vec<String> = Vec::new();
        for o in ops.split(';') {
            if o == "s:X:Y" {
                seq.push(format!("s:{}:{}", &cur[..1], &r[..1]));
                cur = r.to_string();
            } else if o.starts_with("o:X:") {
                seq.push(o.replacen("o:X:", &format!("o:{}:", &r[..1]), 1));
                cur = r.to_string();
            } else if o.starts_with("w:X:") {
                seq.push(o.replacen("w:X:", &format!("w:{}:", &cur[..1]), 1));
            } else {
                seq.push(o.to_string());
            }
        }
        let out = run_hist(start, &seq.join(";"));
        out.strip_prefix("ok ").unwrap_or(&out).split('|').map(str::to_string).collect()
    };
    let base = run("sync", "sync");
    for (start, r) in [("async", "async"), ("sync", "async"), ("async", "sync")] {
        let other = run(start, r);
        if other.len() != base.len() {
            return Err("harness: output lengths differ".into());
        }
        for (i, (a, b)) in base.iter().zip(other.iter()).enumerate() {
            if a == b {
                continue;
            }
            let bytes_tok = |t: &str| t.starts_with('S') || t.starts_with('W');
            if bytes_tok(a) && bytes_tok(b) {
                // archives written by different API families: codec bytes may differ, status must not;
                // without a codec (internal compression None, code 1 at byte 97) they must be identical
                let (ha, sa) = a[1..].split_once(',').unwrap_or((&a[1..], ""));
                let (hb, sb) = b[1..].split_once(',').unwrap_or((&b[1..], ""));
                if sa.split(',').next() != sb.split(',').next() && a.starts_with('S') {
                    return Err(format!("step {i}: save/reopen status differs between API families ({start} writer, {r} reader): {sa} vs {sb}"));
                }
                let icomp = |h: &str| if h.len() >= 196 { u8::from_str_radix(&h[194..196], 16).unwrap_or(0) } else { 0 };
                if icomp(ha) == 1 && icomp(hb) == 1 {
                    return Err(format!("step {i}: archives written without a codec differ between the sync and async writers"));
                }
                continue;
            }
            return Err(format!("step {i}: {} (sync) vs {} ({start} writer / {r} reader)", &a[..a.len().min(100)], &b[..b.len().min(100)]));
        }
    }
    Ok(())
}
/// one protocol operation with both API families
fn chk_sa_op(toks: &[&str]) -> Result<(), String> {
    let mk = |m: &str| -> Vec<String> { toks.iter().map(|t| if *t == "MODE" { m.to_string() } else { t.to_string() }).collect() };
    let (s, a) = (mk("sync"), mk("async"));
    let rs = crate::ops::run_op(&s.iter().map(String::as_str).collect::<Vec<_>>());
    let ra = crate::ops::run_op(&a.iter().map(String::as_str).collect::<Vec<_>>());
    if rs == ra {
        return Ok(());
    }
    let kind = |r: &str| r.split(' ').next().unwrap_or("").to_string();
    if kind(&rs) != kind(&ra) {
        return Err(format!("sync returns {} but async returns {}", kind(&rs), kind(&ra)));
    }
    match toks[0] {
        "dir_enc" => {
            let c = parse_comp(toks[2]);
            if c == Compression::None {
                return Err("directory bytes written without a codec differ between sync and async".into());
            }
            let dec = |r: &str| crate::ops::dir_dec(false, c, &unhex_bytes(r.split(' ').nth(1).unwrap_or("-"))).map_err(|e| e.to_string());
            if dec(&rs)? != dec(&ra)? {
                return Err("directories written by the sync and async writers decode differently".into());
            }
            // what either family writes must be a complete stream for an independent decoder, with the same plain bytes
            let plain = |r: &str, who: &str| spec::codec_decompress(comp_code(c) as u8, &unhex_bytes(r.split(' ').nth(1).unwrap_or("-"))).map_err(|e| format!("the {who} writer's output is not a complete {} stream: {e}", toks[2]));
            if plain(&rs, "sync")? != plain(&ra, "async")? {
                return Err("sync and async directory writers produce different plain bytes".into());
            }
            Ok(())
        }
        "wdirs" => {
            if toks[2] == "none" {
                return Err("write_directories output without a codec differs between sync and async".into());
            }
            // compare after reading back
            let c = parse_comp(toks[2]);
            let back = |r: &str| -> Result<String, String> {
                let f: Vec<&str> = r.split(' ').collect();
                let (img, pos, leaf) = (unhex_bytes(f[1]), unhex_u64(f[2]), unhex_bytes(f[3]));
                let start = unhex_u64(toks[4]);
                let mut all = img[..pos as usize].to_vec();
                let lo = all.len() as u64;
                all.extend_from_slice(&leaf);
                rdirs(false, c, start, pos - start, lo, FULL, &all).map(|m| tiles_tok(&m)).map_err(|e| e.to_string())
            };
            if back(&rs)? != back(&ra)? {
                return Err("directories written by write_directories and write_directories_async read back differently".into());
            }
            Ok(())
        }
        _ => Err(format!("sync: {} / async: {}", &rs[..rs.len().min(120)], &ra[..ra.len().min(120)])),
    }
}

// ---------------------------------------------------------------------------------------------
// C14
// ---------------------------------------------------------------------------------------------
fn gen_payload(rng: &mut Rng, kind: u64, size: usize) -> Vec<u8> {
    match kind % 9 {
        0 => vec![],
        1 => vec![rng.next() as u8],
        2 => (0..size).map(|i| b"abcabcabd"[i % 9]).collect(),
        3 => rng.bytes(size),
        4 => (0..size).map(|i| if i % 97 < 60 { 0 } else { rng.next() as u8 }).collect(),
        // inputs that are themselves compressed streams, or merely begin like one (a codec must not look at its input)
        5 => spec::codec_compress(2, &rng.bytes(size / 2 + 1)),
        6 => spec::codec_compress(4, &rng.bytes(size / 2 + 1)),
        7 => spec::codec_compress(3, &rng.bytes(size / 2 + 1)),
        _ => {
            let mut v: Vec<u8> = [&[0x1fu8, 0x8b, 0x08][..], &[0x28, 0xb5, 0x2f, 0xfd][..], &b"PMTiles\x03"[..], &[0xce, 0xb2, 0xcf, 0x81][..]][(size + rng.below(4) as usize) % 4].to_vec();
            v.extend_from_slice(&rng.bytes(size));
            v
        }
    }
}
fn chk_codec(c: Compression, kind: u64, size: usize, seed: u64) -> Result<(), String> {
    use futures::{AsyncReadExt, AsyncWriteExt};
    use std::io::{Read, Write};
    let mut rng = Rng::new(seed);
    let data = gen_payload(&mut rng, kind, size);
    let code = comp_code(c) as u8;
    // one shot
    let z = pmtiles2::util::compress_all(c, &data).map_err(|e| format!("compress_all: {e}"))?;
    if pmtiles2::util::decompress_all(c, &z).map_err(|e| format!("decompress_all: {e}"))? != data {
        return Err("decompress_all(compress_all(x)) != x".into());
    }
    if spec::codec_decompress(code, &z)? != data {
        return Err("the upstream library decodes compress_all's output to other bytes".into());
    }
    // the size law the Coq development assumes of a codec (Oracles.codec_size)
    if z.len() > 2 * data.len() + 1024 {
        return Err(format!("compress_all turned {} bytes into {} (> 2n + 1024: the codec size law of the model does not hold)", data.len(), z.len()));
    }
    // a failed call (truncated stream) must leave no trace in the next one
    if z.len() > 4 && c != Compression::None {
        let cut = &z[..z.len() - 1 - (seed as usize % (z.len() / 2).max(1)).min(z.len() - 2)];
        let _ = pmtiles2::util::decompress_all(c, cut);
        if pmtiles2::util::decompress_all(c, &z).map_err(|e| format!("decompress_all after a failed call: {e}"))? != data {
            return Err("decompress_all returns other bytes after a preceding call failed on a truncated stream".into());
        }
    }
    // the library decodes what the upstream library produced
    let up = spec::codec_compress(code, &data);
    if pmtiles2::util::decompress_all(c, &up).map_err(|e| format!("decompress_all(upstream stream): {e}"))? != data {
        return Err("decompress_all of an upstream-produced stream differs".into());
    }
    // ... and what other settings of the upstream encoders produce (levels, window sizes, framing, checksums)
    for k in 0..3u64 {
        let up = spec::codec_compress_variety(code, &data, seed.wrapping_mul(2654435761).wrapping_add(k * 104_729));
        if pmtiles2::util::decompress_all(c, &up).map_err(|e| format!("decompress_all(stream of another encoder setting): {e}"))? != data {
            return Err("decompress_all of a stream produced with another encoder setting differs".into());
        }
        let mut src = std::io::Cursor::new(&up[..]);
        let mut got = Vec::new();
        {
            let mut r = pmtiles2::util::decompress(c, &mut src).map_err(|e| e.to_string())?;
            std::io::Read::read_to_end(&mut r, &mut got).map_err(|e| format!("decompress(stream of another encoder setting): {e}"))?;
        }
        if got != data {
            return Err("decompress of a stream produced with another encoder setting differs".into());
        }
    }
    // streaming writer with a chunk schedule, finished by flush + drop
    for round in 0..3 {
        let mut out = Vec::<u8>::new();
        {
            let mut w = pmtiles2::util::compress(c, &mut out).map_err(|e| e.to_string())?;
            let mut i = 0;
            while i < data.len() {
                let n = match round {
                    0 => 1,
                    1 => rng.range(1, 17) as usize,
                    _ => rng.range(1, 70_000) as usize,
                }
                .min(data.len() - i);
                w.write_all(&data[i..i + n]).map_err(|e| e.to_string())?;
                i += n;
                if round == 1 && rng.chance(1, 50) {
                    w.flush().map_err(|e| e.to_string())?;
                }
            }
            w.flush().map_err(|e| e.to_string())?;
        }
        if spec::codec_decompress(code, &out)? != data {
            return Err(format!("streamed compression (round {round}) is not decoded to the input by the upstream library"));
        }
        if round != 1 && out.len() > 2 * data.len() + 1024 {
            // (round 1 flushes at random points, which legitimately adds sync markers)
            return Err(format!("streamed compression turned {} bytes into {} (> 2n + 1024)", data.len(), out.len()));
        }
        // streaming reader with small reads
        let mut cur = std::io::Cursor::new(&out);
        let mut r = pmtiles2::util::decompress(c, &mut cur).map_err(|e| e.to_string())?;
        let mut back = Vec::new();
        let mut buf = vec![0u8; if round == 0 { 1 } else { rng.range(1, 5000) as usize }];
        let mut reads = 0usize;
        loop {
            // a read into an empty buffer in the middle of the stream answers 0 and changes nothing (std::io::Read's
            // contract; the zstd adapter refuses such a read, so it is left out there)
            if c != Compression::ZStd && reads % 3 == 1 {
                let z = r.read(&mut []).map_err(|e| format!("streaming read into an empty buffer: {e}"))?;
                if z != 0 {
                    return Err("a read into an empty buffer returned a non-zero count".into());
                }
            }
            reads += 1;
            let n = r.read(&mut buf).map_err(|e| format!("streaming read: {e}"))?;
            if n == 0 {
                break;
            }
            back.extend_from_slice(&buf[..n]);
        }
        if back != data {
            return Err(format!("streamed decompression (round {round}) differs from the input"));
        }
        // the same from a source that hands out at most 1 / 2 / 3 / 7 bytes per read call
        if size <= 200_000 {
            let step = [1usize, 2, 3][round as usize % 3];
            for k in [step, 7] {
                let mut src = crate::streams::SyncStream(crate::streams::Core::new(out.clone(), 0));
                src.0.sched = crate::streams::Schedule { chunks: vec![k], pend: vec![] };
                let mut r = pmtiles2::util::decompress(c, &mut src).map_err(|e| format!("decompress over a source serving {k} byte(s) per read: {e}"))?;
                let mut back = Vec::new();
                r.read_to_end(&mut back).map_err(|e| format!("streaming read over a source serving {k} byte(s) per read: {e}"))?;
                if back != data {
                    return Err(format!("streamed decompression over a source serving {k} byte(s) per read differs from the input"));
                }
            }
        }
        if size > 200_000 {
            break;
        }
    }
    // a source that answers Interrupted once in the middle of the stream: read_to_end retries, by std's contract, and the
    // decoders must let it (brotli's adapter is left out if it does not do so on the unchanged code either)
    if size <= 200_000 && c != Compression::Brotli {
        let z = pmtiles2::util::compress_all(c, &data).map_err(|e| e.to_string())?;
        for at in [1usize, 2, 3, 5] {
            let mut src = crate::streams::SyncStream(crate::streams::Core::new(z.clone(), 0));
            src.0.sched = crate::streams::Schedule { chunks: vec![7, 64, 3], pend: vec![] };
            src.0.fail_at = Some(at);
            src.0.fail_kind = usize::MAX;
            let mut back = Vec::new();
            {
                let mut r = pmtiles2::util::decompress(c, &mut src).map_err(|e| e.to_string())?;
                r.read_to_end(&mut back).map_err(|e| format!("decompress over a source that answers Interrupted once (at its call #{at}): {e}"))?;
            }
            if back != data {
                return Err(format!("decompress over a source that answers Interrupted once (at its call #{at}) yields other bytes"));
            }
        }
    }
    // async adapters
    let za = block_on(async {
        let mut out = futures::io::Cursor::new(Vec::<u8>::new());
        {
            let mut w = pmtiles2::util::compress_async(c, &mut out)?;
            let mut i = 0;
            while i < data.len() {
                let n = (rng.range(1, 9000) as usize).min(data.len() - i);
                w.write_all(&data[i..i + n]).await?;
                i += n;
            }
            w.close().await?;
        }
        Ok::<Vec<u8>, std::io::Error>(out.into_inner())
    })
    .map_err(|e| format!("compress_async: {e}"))?;
    if spec::codec_decompress(code, &za)? != data {
        return Err("compress_async output is not decoded to the input by the upstream library".into());
    }
    // the same into a sink under back-pressure: short writes, and Pending before many of the calls
    if size <= 200_000 {
        for (chunks, pend) in [(vec![3usize, 1, 50, 7, 4096], vec![true, false, true, true, false]), (vec![1usize], vec![true]), (vec![8192, 5], vec![false, true])] {
            let mut sink = crate::streams::AsyncStream(crate::streams::Core::new(Vec::new(), 0));
            sink.0.sched = crate::streams::Schedule { chunks: chunks.clone(), pend: pend.clone() };
            block_on(async {
                let mut w = pmtiles2::util::compress_async(c, &mut sink)?;
                let mut i = 0;
                while i < data.len() {
                    let n = (rng.range(1, 9000) as usize).min(data.len() - i);
                    w.write_all(&data[i..i + n]).await?;
                    i += n;
                }
                w.close().await
            })
            .map_err(|e| format!("compress_async into a slow sink: {e}"))?;
            if spec::codec_decompress(code, &sink.0.data).map_err(|e| format!("compress_async into a sink with short writes {chunks:?} and Pending {pend:?}: {e}"))? != data {
                return Err(format!("compress_async into a sink with short writes {chunks:?} and Pending {pend:?} is not decoded to the input"));
            }
        }
    }
    let back = block_on(async {
        let mut cur = futures::io::Cursor::new(&z);
        let mut r = pmtiles2::util::decompress_async(c, &mut cur)?;
        let mut v = Vec::new();
        r.read_to_end(&mut v).await?;
        Ok::<Vec<u8>, std::io::Error>(v)
    })
    .map_err(|e| format!("decompress_async: {e}"))?;
    if back != data {
        return Err("decompress_async differs from the input".into());
    }
    Ok(())
}
/// one-shot helpers on an input larger than any window a codec may be configured with (2^27 bytes and beyond)
fn chk_codec_big(c: Compression, size: usize) -> Result<(), String> {
    let data: Vec<u8> = (0..size).map(|i| b"abcabcabd"[i % 9] ^ ((i >> 16) as u8)).collect();
    let z = pmtiles2::util::compress_all(c, &data).map_err(|e| format!("compress_all: {e}"))?;
    if pmtiles2::util::decompress_all(c, &z).map_err(|e| format!("decompress_all of compress_all's output ({size} bytes of input): {e}"))? != data {
        return Err("decompress_all(compress_all(x)) != x".into());
    }
    if spec::codec_decompress(comp_code(c) as u8, &z).map_err(|e| format!("the upstream library cannot decode compress_all's output: {e}"))? != data {
        return Err("the upstream library decodes compress_all's output to other bytes".into());
    }
    Ok(())
}
fn chk_codec_unknown() -> Result<(), String> {
    let c = Compression::Unknown;
    let mut v = Vec::new();
    if pmtiles2::util::compress(c, &mut v).is_ok() {
        return Err("compress(Unknown) succeeded".into());
    }
    let mut cur = std::io::Cursor::new(vec![1u8, 2, 3]);
    if pmtiles2::util::decompress(c, &mut cur).is_ok() {
        return Err("decompress(Unknown) succeeded".into());
    }
    if pmtiles2::util::compress_all(c, b"x").is_ok() || pmtiles2::util::compress_all(c, b"").is_ok() {
        return Err("compress_all(Unknown) succeeded".into());
    }
    if pmtiles2::util::decompress_all(c, b"x").is_ok() || pmtiles2::util::decompress_all(c, b"").is_ok() {
        return Err("decompress_all(Unknown) succeeded".into());
    }
    let mut o = futures::io::Cursor::new(Vec::<u8>::new());
    if pmtiles2::util::compress_async(c, &mut o).is_ok() {
        return Err("compress_async(Unknown) succeeded".into());
    }
    let mut i = futures::io::Cursor::new(vec![1u8]);
    if pmtiles2::util::decompress_async(c, &mut i).is_ok() {
        return Err("decompress_async(Unknown) succeeded".into());
    }
    Ok(())
}
/// writes gzip outputs for an unrelated implementation (Python's zlib) to decode: <dir>/gz_<k>.bin/.plain
fn chk_gzip_export(dir: &str, k: u64, kind: u64, size: usize, seed: u64) -> Result<(), String> {
    let mut rng = Rng::new(seed);
    let data = gen_payload(&mut rng, kind, size);
    let z = pmtiles2::util::compress_all(Compression::GZip, &data).map_err(|e| e.to_string())?;
    std::fs::create_dir_all(dir).map_err(|e| e.to_string())?;
    std::fs::write(format!("{dir}/gz_{k}.bin"), z).map_err(|e| e.to_string())?;
    std::fs::write(format!("{dir}/gz_{k}.plain"), data).map_err(|e| e.to_string())?;
    Ok(())
}

// ---------------------------------------------------------------------------------------------
// C08
// ---------------------------------------------------------------------------------------------
/// declared expansion of an archive as the independent walker sees it (tolerant): sum of run lengths
/// over all directories reachable within 4 levels, and the number of directory visits
fn declared_budget(file: &[u8]) -> (u64, u64) {
    fn walk(file: &[u8], h: &spec::SHeader, off: u64, len: u64, depth: u32, runs: &mut u64, visits: &mut u64) {
        if depth > 4 || *visits > 100_000 {
            return;
        }
        *visits += 1;
        let Some(end) = off.checked_add(len) else { return };
        if end > file.len() as u64 {
            // the reader sees a truncated window
            let start = (off as usize).min(file.len());
            let raw = &file[start..];
            walk_raw(file, h, raw, depth, runs, visits);
            return;
        }
        walk_raw(file, h, &file[off as usize..end as usize], depth, runs, visits);
    }
    fn walk_raw(file: &[u8], h: &spec::SHeader, raw: &[u8], depth: u32, runs: &mut u64, visits: &mut u64) {
        // lenient: the library decodes lazily, a stream damaged behind the bytes it needs still yields a directory
        let plain = match spec::codec_decompress(h.icomp, raw) {
            Ok(p) => p,
            Err(_) => spec::codec_decompress_lenient(h.icomp, raw),
        };
        // tolerant decode: count, ids, runs (enough to know the expansion)
        let Ok(es) = spec::decode_dir(&plain) else {
            // partial decode is still dangerous: be conservative and look at the run column alone
            *runs = runs.saturating_add(partial_runs(&plain));
            return;
        };
        for e in &es {
            if e.run == 0 {
                if let Some(lo) = h.leaf_off.checked_add(e.off) {
                    walk(file, h, lo, u64::from(e.len), depth + 1, runs, visits);
                }
            } else {
                *runs = runs.saturating_add(u64::from(e.run));
            }
        }
    }
    fn partial_runs(plain: &[u8]) -> u64 {
        // sum of the varints in the second column, as far as they can be read
        let mut pos = 0usize;
        let rd = |pos: &mut usize| -> Option<u64> {
            let mut v = 0u64;
            let mut s = 0;
            loop {
                let b = *plain.get(*pos)?;
                *pos += 1;
                if s < 64 {
                    v |= u64::from(b & 0x7f) << s;
                }
                s += 7;
                if b & 0x80 == 0 {
                    return Some(v);
                }
                if s > 70 {
                    return None;
                }
            }
        };
        let Some(n) = rd(&mut pos) else { return 0 };
        let n = n.min(plain.len() as u64);
        for _ in 0..n {
            if rd(&mut pos).is_none() {
                return 0;
            }
        }
        let mut sum = 0u64;
        for _ in 0..n {
            match rd(&mut pos) {
                Some(v) => sum = sum.saturating_add(v & 0xffff_ffff),
                None => break,
            }
        }
        sum
    }
    let Ok(h) = spec::decode_header(file) else { return (0, 0) };
    let (mut runs, mut visits) = (0u64, 0u64);
    walk(file, &h, h.root_off, h.root_len, 0, &mut runs, &mut visits);
    (runs, visits)
}
const BUDGET: u64 = 300_000;
fn chk_nocrash_arch(b: &[u8]) -> Result<(), String> {
    let t0 = std::time::Instant::now();
    let timing = std::env::var("PM_TIMING").is_ok();
    let (runs, _) = declared_budget(b);
    if timing {
        eprintln!("budget {runs} {:?}", t0.elapsed());
    }
    if runs > BUDGET {
        return Ok(()); // outside the claim: expansion proportional to declared run lengths
    }
    for asy in [false, true] {
        let r = catch_unwind(AssertUnwindSafe(|| open(asy, b.to_vec(), FULL)));
        let mut st = match r {
            Err(_) => return Err(format!("opening panicked (async={asy})")),
            Ok(Err(_)) => continue,
            Ok(Ok(st)) => st,
        };
        let mut ids: Vec<u64> = match &st {
            St::S(p) => p.tile_ids().into_iter().copied().collect(),
            St::A(p) => p.tile_ids().into_iter().copied().collect(),
        };
        ids.sort_unstable();
        let step = (ids.len() / 200).max(1);
        for id in ids.iter().step_by(step) {
            if get_by_id(&mut st, *id).is_err() {
                return Err(format!("get_tile_by_id({id}) panicked (async={asy})"));
            }
        }
        for (x, y, z) in [(0u64, 0u64, 0u8), (1, 1, 1), (u64::MAX, 0, 31), (0, 0, 255)] {
            if get_xyz(&mut st, x, y, z).is_err() {
                return Err("get_tile panicked".into());
            }
        }
        if timing {
            eprintln!("opened+lookups asy={asy} ids={} {:?}", ids.len(), t0.elapsed());
        }
        // re-write the opened archive
        let (r, _) = write_to(st, Core::new(Vec::new(), 0));
        if timing {
            eprintln!("rewritten {:?}", t0.elapsed());
        }
        if r.is_err() {
            return Err(format!("to_writer of the opened archive panicked (async={asy})"));
        }
        // partial opens
        for rg in [(Bound::Unbounded, Bound::Excluded(0u64)), (Bound::Included(1), Bound::Included(u64::MAX)), (Bound::Excluded(u64::MAX), Bound::Unbounded)] {
            if catch_unwind(AssertUnwindSafe(|| open(asy, b.to_vec(), rg).map(|_| ()))).is_err() {
                return Err(format!("partial open {} panicked", range_tok(&rg)));
            }
        }
    }
    // util::read_directories directly with the header's values
    if let Ok(h) = spec::decode_header(b) {
        for asy in [false, true] {
            let c = match h.icomp {
                1 => Compression::None,
                2 => Compression::GZip,
                3 => Compression::Brotli,
                4 => Compression::ZStd,
                _ => Compression::Unknown,
            };
            if catch_unwind(AssertUnwindSafe(|| rdirs(asy, c, h.root_off, h.root_len, h.leaf_off, FULL, b).map(|_| ()))).is_err() {
                return Err("read_directories panicked".into());
            }
        }
    }
    Ok(())
}
fn chk_nocrash_dir(c: Compression, b: &[u8]) -> Result<(), String> {
    for asy in [false, true] {
        if catch_unwind(AssertUnwindSafe(|| crate::ops::dir_dec(asy, c, b).map(|_| ()))).is_err() {
            return Err(format!("Directory parser panicked (async={asy})"));
        }
    }
    if catch_unwind(AssertUnwindSafe(|| pmtiles2::util::decompress_all(c, b).map(|_| ()))).is_err() {
        return Err("decompress_all panicked".into());
    }
    Ok(())
}
fn chk_nocrash_hdr(b: &[u8]) -> Result<(), String> {
    for asy in [false, true] {
        if catch_unwind(AssertUnwindSafe(|| header_dec(asy, b).map(|_| ()))).is_err() {
            return Err("Header parser panicked".into());
        }
    }
    Ok(())
}

include!("p_io4.rs");
