//! Generators shared by several properties.
use crate::rng::Rng;
use pmtiles2::Entry;
use std::collections::BTreeMap;

#[derive(Default)]
pub struct Stats {
    pub counters: BTreeMap<String, u64>,
}
impl Stats {
    pub fn bump(&mut self, k: &str) {
        *self.counters.entry(k.to_string()).or_insert(0) += 1;
    }
    pub fn add(&mut self, k: &str, n: u64) {
        *self.counters.entry(k.to_string()).or_insert(0) += n;
    }
}

pub const BASE32: u64 = 6_148_914_691_236_517_205; // (4^32 - 1) / 3 : first id of zoom 32

/// A valid directory (strictly ascending ids, non-overlapping runs, lengths >= 1).
/// `leafy`: allow run_length 0 entries. `big`: allow boundary-sized fields.
pub fn valid_entries(rng: &mut Rng, n: usize, leafy: bool, big: bool, st: &mut Stats) -> Vec<Entry> {
    let mut es: Vec<Entry> = Vec::with_capacity(n);
    let mut next_id: u64 = if rng.chance(1, 3) { 0 } else { rng.spread(if big { 60 } else { 24 }) };
    for i in 0..n {
        let run: u32 = match rng.below(20) {
            0 if leafy => 0,
            1..=3 => rng.range(2, 40) as u32,
            4 if big => rng.spread(32) as u32,
            5 if big => u32::MAX,
            _ => 1,
        };
        let length: u32 = match rng.below(12) {
            0 => 1,
            1 if big => u32::MAX,
            2 if big => (rng.spread(32) as u32).max(1),
            3 => 127,
            4 => 128,
            _ => rng.range(1, 70_000) as u32,
        };
        let offset: u64 = if i == 0 {
            match rng.below(4) {
                0 => 0,
                1 => 1,
                _ => rng.spread(if big { 62 } else { 30 }),
            }
        } else {
            let p = es[i - 1];
            let contiguous = p.offset + u64::from(p.length);
            match rng.below(20) {
                0..=10 => {
                    st.bump("offset_contiguous");
                    contiguous
                }
                11 => {
                    st.bump("offset_zero_at_later_index");
                    0
                }
                12..=14 => {
                    st.bump("offset_backref");
                    es[rng.below(i as u64) as usize].offset
                }
                15 => {
                    st.bump("offset_contiguous_minus_or_plus_1");
                    if rng.chance(1, 2) { contiguous + 1 } else { contiguous.saturating_sub(1) }
                }
                _ => {
                    st.bump("offset_random");
                    rng.spread(if big { 62 } else { 34 })
                }
            }
        };
        es.push(Entry { tile_id: next_id, offset, length, run_length: run });
        let gap = match rng.below(10) {
            0..=5 => 0,
            6..=7 => rng.range(1, 5),
            8 => rng.spread(20),
            _ => rng.spread(if big { 50 } else { 30 }),
        };
        next_id = next_id + u64::from(run.max(1)) + gap;
        if next_id >= (1u64 << 62) {
            break;
        }
    }
    es
}

pub fn is_valid_dir(es: &[Entry]) -> bool {
    for (i, e) in es.iter().enumerate() {
        if e.length == 0 {
            return false;
        }
        if e.tile_id.checked_add(u64::from(e.run_length)).is_none() {
            return false;
        }
        if e.offset.checked_add(u64::from(e.length)).is_none() || e.offset == u64::MAX {
            return false;
        }
        if i > 0 {
            let p = es[i - 1];
            if !(p.tile_id < e.tile_id && p.tile_id + u64::from(p.run_length) <= e.tile_id) {
                return false;
            }
        }
    }
    true
}

/// Independent encoder written from the PMTiles v3 specification text (section "Directories").
pub fn spec_encode_dir(es: &[Entry]) -> Vec<u8> {
    fn varint(mut v: u64, out: &mut Vec<u8>) {
        loop {
            let b = (v & 0x7f) as u8;
            v >>= 7;
            if v == 0 {
                out.push(b);
                return;
            }
            out.push(b | 0x80);
        }
    }
    let mut out = Vec::new();
    varint(es.len() as u64, &mut out);
    let mut last = 0u64;
    for e in es {
        varint(e.tile_id - last, &mut out);
        last = e.tile_id;
    }
    for e in es {
        varint(u64::from(e.run_length), &mut out);
    }
    for e in es {
        varint(u64::from(e.length), &mut out);
    }
    for (i, e) in es.iter().enumerate() {
        if i > 0 && e.offset == es[i - 1].offset + u64::from(es[i - 1].length) {
            varint(0, &mut out);
        } else {
            varint(e.offset + 1, &mut out);
        }
    }
    out
}

/// Independent decoder written from the specification (returns None on malformed input).
pub fn spec_decode_dir(b: &[u8]) -> Option<Vec<Entry>> {
    fn varint(b: &[u8], pos: &mut usize) -> Option<u64> {
        let mut v: u64 = 0;
        let mut shift = 0u32;
        loop {
            let x = *b.get(*pos)?;
            *pos += 1;
            if shift >= 64 {
                return None;
            }
            v |= u64::from(x & 0x7f).checked_shl(shift)?;
            if x & 0x80 == 0 {
                return Some(v);
            }
            shift += 7;
        }
    }
    let mut pos = 0usize;
    let n = usize::try_from(varint(b, &mut pos)?).ok()?;
    if n > b.len() {
        return None;
    }
    let mut es = vec![Entry { tile_id: 0, offset: 0, length: 0, run_length: 0 }; n];
    let mut last = 0u64;
    for e in es.iter_mut() {
        last = last.checked_add(varint(b, &mut pos)?)?;
        e.tile_id = last;
    }
    for e in es.iter_mut() {
        e.run_length = u32::try_from(varint(b, &mut pos)?).ok()?;
    }
    for e in es.iter_mut() {
        e.length = u32::try_from(varint(b, &mut pos)?).ok()?;
    }
    for i in 0..n {
        let v = varint(b, &mut pos)?;
        es[i].offset = if v == 0 && i > 0 {
            es[i - 1].offset + u64::from(es[i - 1].length)
        } else {
            v.checked_sub(1)?
        };
    }
    Some(es)
}
