//! An independent PMTiles v3 reader and writer written from the specification text (v3.4), sharing no
//! code with pmtiles2: own header layout, own varints, own directory codec, and the upstream codec
//! crates called directly.  Used as the reference for the direct oracles (C02, C03, C11, C20, ...).
use std::collections::BTreeMap;
use std::io::{Read, Write};

#[derive(Clone, Copy, Debug, PartialEq, Eq)]
pub struct SEntry {
    pub id: u64,
    pub off: u64,
    pub len: u32,
    pub run: u32,
}

#[derive(Clone, Debug, PartialEq)]
pub struct SHeader {
    pub root_off: u64,
    pub root_len: u64,
    pub meta_off: u64,
    pub meta_len: u64,
    pub leaf_off: u64,
    pub leaf_len: u64,
    pub data_off: u64,
    pub data_len: u64,
    pub addressed: u64,
    pub entries: u64,
    pub contents: u64,
    pub clustered: bool,
    pub icomp: u8,
    pub tcomp: u8,
    pub ttype: u8,
    pub minz: u8,
    pub maxz: u8,
    pub coords: [i32; 6], // min lon, min lat, max lon, max lat, center lon, center lat (after cz)
    pub cz: u8,
}

pub fn put_varint(mut v: u64, out: &mut Vec<u8>) {
    loop {
        let b = (v & 0x7f) as u8;
        v >>= 7;
        if v == 0 {
            out.push(b);
            return;
        }
        out.push(b | 0x80);
    }
}
fn get_varint(b: &[u8], pos: &mut usize) -> Result<u64, String> {
    let mut v: u64 = 0;
    let mut shift = 0u32;
    loop {
        let x = *b.get(*pos).ok_or("varint: end of data")?;
        *pos += 1;
        if shift >= 64 || (shift == 63 && (x & 0x7f) > 1) {
            return Err("varint: too long".into());
        }
        v |= u64::from(x & 0x7f) << shift;
        if x & 0x80 == 0 {
            return Ok(v);
        }
        shift += 7;
    }
}

pub fn encode_dir(es: &[SEntry]) -> Vec<u8> {
    let mut out = Vec::new();
    put_varint(es.len() as u64, &mut out);
    let mut last = 0u64;
    for e in es {
        put_varint(e.id - last, &mut out);
        last = e.id;
    }
    for e in es {
        put_varint(u64::from(e.run), &mut out);
    }
    for e in es {
        put_varint(u64::from(e.len), &mut out);
    }
    for (i, e) in es.iter().enumerate() {
        if i > 0 && e.off == es[i - 1].off.wrapping_add(u64::from(es[i - 1].len)) {
            put_varint(0, &mut out);
        } else {
            put_varint(e.off.wrapping_add(1), &mut out);
        }
    }
    out
}
pub fn decode_dir(b: &[u8]) -> Result<Vec<SEntry>, String> {
    let mut pos = 0usize;
    let n = get_varint(b, &mut pos)?;
    if n > b.len() as u64 {
        return Err("directory: count exceeds data".into());
    }
    let n = n as usize;
    let mut es = vec![SEntry { id: 0, off: 0, len: 0, run: 0 }; n];
    let mut last = 0u64;
    for e in es.iter_mut() {
        last = last.checked_add(get_varint(b, &mut pos)?).ok_or("id overflow")?;
        e.id = last;
    }
    for e in es.iter_mut() {
        e.run = u32::try_from(get_varint(b, &mut pos)?).map_err(|_| "run too large")?;
    }
    for e in es.iter_mut() {
        e.len = u32::try_from(get_varint(b, &mut pos)?).map_err(|_| "length too large")?;
    }
    for i in 0..n {
        let v = get_varint(b, &mut pos)?;
        es[i].off = if v == 0 && i > 0 { es[i - 1].off.checked_add(u64::from(es[i - 1].len)).ok_or("offset overflow")? } else { v.checked_sub(1).ok_or("first offset 0")? };
    }
    Ok(es)
}

/// codecs through the upstream crates directly (1 none, 2 gzip, 3 brotli, 4 zstd)
pub fn codec_compress(c: u8, data: &[u8]) -> Vec<u8> {
    match c {
        1 => data.to_vec(),
        2 => {
            let mut e = flate2::write::GzEncoder::new(Vec::new(), flate2::Compression::new(6));
            e.write_all(data).unwrap();
            e.finish().unwrap()
        }
        3 => {
            let mut out = Vec::new();
            {
                let mut w = brotli::CompressorWriter::new(&mut out, 4096, 5, 22);
                w.write_all(data).unwrap();
            }
            out
        }
        4 => zstd::stream::encode_all(data, 3).unwrap(),
        _ => panic!("codec"),
    }
}
/// the same content as several concatenated frames where the codec's format allows it (zstd: a stream is a sequence of
/// frames); other codecs as [codec_compress]
pub fn codec_compress_frames(c: u8, data: &[u8]) -> Vec<u8> {
    // which variety of encoder output: chosen by the content, so the sections of one archive differ
    let v = data.iter().fold(data.len() as u64, |a, b| a.wrapping_mul(31).wrapping_add(u64::from(*b)));
    codec_compress_variety(c, data, v)
}
/// other writers' encoders: every output here is a valid stream of its format that decodes to `data`
/// (zstd: several frames; a streaming encoder that does not know the size in advance and announces a window of
/// 2^22 .. 2^27 bytes; ultra levels; checksums on or off - gzip: stored blocks, best compression - brotli: smallest and
/// largest window, lowest and highest quality)
pub fn codec_compress_variety(c: u8, data: &[u8], v: u64) -> Vec<u8> {
    match c {
        4 => {
            if v % 5 == 0 && data.len() >= 2 {
                let cut = data.len() / 2;
                let mut out = zstd::stream::encode_all(&data[..cut], 3).unwrap();
                out.extend_from_slice(&zstd::stream::encode_all(&data[cut..], 3).unwrap());
                return out;
            }
            let level = [1, 3, 19, 20, 22, -5][(v / 5 % 6) as usize];
            let mut e = zstd::stream::write::Encoder::new(Vec::new(), level).unwrap();
            let wl = [0u32, 22, 24, 26, 27, 10][(v / 30 % 6) as usize];
            if wl != 0 {
                e.window_log(wl).unwrap();
            }
            e.include_checksum(v / 180 % 2 == 0).unwrap();
            e.include_contentsize(false).unwrap();
            // written in pieces, size not announced: the frame header carries the window size, not the content size
            for piece in data.chunks(1 + (v % 97) as usize) {
                e.write_all(piece).unwrap();
            }
            e.finish().unwrap()
        }
        2 => {
            let level = [0u32, 1, 6, 9][(v % 4) as usize];
            let mut e = flate2::write::GzEncoder::new(Vec::new(), flate2::Compression::new(level));
            for piece in data.chunks(1 + (v % 53) as usize) {
                e.write_all(piece).unwrap();
            }
            e.finish().unwrap()
        }
        3 => {
            let (q, lgwin) = [(0u32, 10u32), (11, 24), (5, 16), (9, 22), (1, 24), (11, 10)][(v % 6) as usize];
            let mut out = Vec::new();
            {
                let mut w = brotli::CompressorWriter::new(&mut out, 1 + (v % 4096) as usize, q, lgwin);
                w.write_all(data).unwrap();
            }
            out
        }
        _ => codec_compress(c, data),
    }
}
pub fn codec_decompress(c: u8, data: &[u8]) -> Result<Vec<u8>, String> {
    let mut out = Vec::new();
    match c {
        1 => out.extend_from_slice(data),
        2 => {
            flate2::read::GzDecoder::new(data).read_to_end(&mut out).map_err(|e| format!("gzip: {e}"))?;
        }
        3 => {
            brotli::Decompressor::new(data, 4096).read_to_end(&mut out).map_err(|e| format!("brotli: {e}"))?;
        }
        4 => {
            out = zstd::stream::decode_all(data).map_err(|e| format!("zstd: {e}"))?;
        }
        _ => return Err(format!("unsupported internal compression code {c}")),
    }
    Ok(out)
}

/// whatever a streaming decoder yields before it fails (the library reads directories lazily, so a stream that is
/// damaged or cut off behind the bytes it needs is still decoded that far)
pub fn codec_decompress_lenient(c: u8, data: &[u8]) -> Vec<u8> {
    fn drain<R: Read>(mut r: R) -> Vec<u8> {
        let mut out = Vec::new();
        let mut buf = [0u8; 8192];
        loop {
            match r.read(&mut buf) {
                Ok(0) | Err(_) => break,
                Ok(n) => out.extend_from_slice(&buf[..n]),
            }
            if out.len() > 64 << 20 {
                break;
            }
        }
        out
    }
    match c {
        1 => data.to_vec(),
        2 => drain(flate2::read::GzDecoder::new(data)),
        3 => drain(brotli::Decompressor::new(data, 4096)),
        4 => match zstd::stream::read::Decoder::new(data) {
            Ok(d) => drain(d),
            Err(_) => Vec::new(),
        },
        _ => Vec::new(),
    }
}

pub fn encode_header(h: &SHeader) -> Vec<u8> {
    let mut b = Vec::with_capacity(127);
    b.extend_from_slice(b"PMTiles");
    b.push(3);
    for v in [h.root_off, h.root_len, h.meta_off, h.meta_len, h.leaf_off, h.leaf_len, h.data_off, h.data_len, h.addressed, h.entries, h.contents] {
        b.extend_from_slice(&v.to_le_bytes());
    }
    b.push(u8::from(h.clustered));
    b.extend_from_slice(&[h.icomp, h.tcomp, h.ttype, h.minz, h.maxz]);
    for v in &h.coords[0..4] {
        b.extend_from_slice(&v.to_le_bytes());
    }
    b.push(h.cz);
    for v in &h.coords[4..6] {
        b.extend_from_slice(&v.to_le_bytes());
    }
    assert_eq!(b.len(), 127);
    b
}
pub fn decode_header(b: &[u8]) -> Result<SHeader, String> {
    if b.len() < 127 {
        return Err("file shorter than a header".into());
    }
    if &b[0..7] != b"PMTiles" {
        return Err("bad magic".into());
    }
    if b[7] != 3 {
        return Err("bad version".into());
    }
    let u = |i: usize| u64::from_le_bytes(b[8 + 8 * i..16 + 8 * i].try_into().unwrap());
    let i4 = |p: usize| i32::from_le_bytes(b[p..p + 4].try_into().unwrap());
    if b[96] > 1 {
        return Err("clustered flag is not 0/1".into());
    }
    Ok(SHeader {
        root_off: u(0),
        root_len: u(1),
        meta_off: u(2),
        meta_len: u(3),
        leaf_off: u(4),
        leaf_len: u(5),
        data_off: u(6),
        data_len: u(7),
        addressed: u(8),
        entries: u(9),
        contents: u(10),
        clustered: b[96] == 1,
        icomp: b[97],
        tcomp: b[98],
        ttype: b[99],
        minz: b[100],
        maxz: b[101],
        coords: [i4(102), i4(106), i4(110), i4(114), i4(119), i4(123)],
        cz: b[118],
    })
}

pub struct View {
    pub header: SHeader,
    pub meta: serde_json::Map<String, serde_json::Value>,
    pub root: Vec<SEntry>,
    /// every tile entry reachable from the root, in directory order
    pub tile_entries: Vec<SEntry>,
    /// windows (absolute offset, length) of all directories visited, root first
    pub dir_windows: Vec<(u64, u64)>,
    pub depth: u32,
}

fn window<'a>(file: &'a [u8], off: u64, len: u64, what: &str) -> Result<&'a [u8], String> {
    let end = off.checked_add(len).ok_or(format!("{what}: offset+length overflows"))?;
    if end > file.len() as u64 {
        return Err(format!("{what} section [{off}, {end}) reaches outside the file of {} bytes", file.len()));
    }
    Ok(&file[off as usize..end as usize])
}

fn walk(file: &[u8], h: &SHeader, off: u64, len: u64, depth: u32, v: &mut View, strict: bool) -> Result<(), String> {
    if depth > 3 {
        return Err("leaf directories nested deeper than 3 levels below the root".into());
    }
    v.depth = v.depth.max(depth);
    let raw = window(file, off, len, "directory")?;
    v.dir_windows.push((off, len));
    let es = decode_dir(&codec_decompress(h.icomp, raw)?)?;
    if depth > 0 && es.is_empty() {
        return Err("empty leaf directory".into());
    }
    for (i, e) in es.iter().enumerate() {
        if e.len == 0 {
            return Err("entry with length 0".into());
        }
        if i > 0 {
            let p = es[i - 1];
            if !(p.id < e.id && p.id.checked_add(u64::from(p.run)).map_or(false, |x| x <= e.id)) {
                return Err(format!("entries not strictly ascending / overlapping runs at index {i}"));
            }
        }
    }
    if depth == 0 {
        v.root = es.clone();
    }
    for e in &es {
        if e.run == 0 {
            if strict && e.off.checked_add(u64::from(e.len)).map_or(true, |x| x > h.leaf_len) {
                return Err("leaf pointer reaches outside the leaf section".into());
            }
            let lo = h.leaf_off.checked_add(e.off).ok_or("leaf offset overflow")?;
            let before = v.tile_entries.len();
            // the lookup procedure descends into the last entry whose id is <= the target: a pointer must therefore
            // start after everything the directories before it cover, including the whole run of the last entry
            if let Some(last) = v.tile_entries.last() {
                if last.id.saturating_add(u64::from(last.run)) > e.id {
                    return Err(format!("leaf pointer id {} lies inside the run [{}, +{}) that precedes it", e.id, last.id, last.run));
                }
            }
            walk(file, h, lo, u64::from(e.len), depth + 1, v, strict)?;
            // every id inside a leaf is >= the pointer's id
            if let Some(first) = v.tile_entries.get(before) {
                if first.id < e.id {
                    return Err("leaf contains an id below its pointer's id".into());
                }
            }
        } else {
            if strict && e.off.checked_add(u64::from(e.len)).map_or(true, |x| x > h.data_len) {
                return Err(format!("tile range [{}, +{}) outside the tile data section of {} bytes", e.off, e.len, h.data_len));
            }
            e.id.checked_add(u64::from(e.run)).ok_or("run exceeds the id space")?;
            v.tile_entries.push(*e);
        }
    }
    Ok(())
}

/// Parses and validates an archive.  `strict` additionally enforces everything C02 lists for files the
/// writer produces (disjoint sections, 16 KiB budget, counters, clustered flag).
pub fn parse(file: &[u8], strict: bool) -> Result<View, String> {
    let h = decode_header(file)?;
    if !(1..=4).contains(&h.icomp) {
        return Err(format!("internal compression code {} is not usable", h.icomp));
    }
    let secs = [("root", h.root_off, h.root_len), ("metadata", h.meta_off, h.meta_len), ("leaf", h.leaf_off, h.leaf_len), ("data", h.data_off, h.data_len)];
    for (n, o, l) in secs {
        // a file whose tile data was cut off (the upstream "without_data" fixture) still has valid directories:
        // only the strict mode (files this library wrote) insists on the data section being present
        if strict || n != "data" {
            window(file, o, l, n)?;
        }
        if strict && l > 0 && o < 127 {
            return Err(format!("{n} section overlaps the header"));
        }
    }
    if strict {
        for i in 0..4 {
            for j in i + 1..4 {
                let (a, b) = (secs[i], secs[j]);
                if a.2 > 0 && b.2 > 0 && a.1 < b.1.saturating_add(b.2) && b.1 < a.1.saturating_add(a.2) {
                    return Err(format!("sections {} and {} overlap", a.0, b.0));
                }
            }
        }
        if h.root_off.saturating_add(h.root_len) > 16384 {
            return Err(format!("header + root directory end at byte {} > 16384", h.root_off.saturating_add(h.root_len)));
        }
    }
    let meta = if h.meta_len == 0 {
        if strict {
            return Err("the metadata section is empty: it must hold a JSON object".into());
        }
        serde_json::Map::new()
    } else {
        let raw = codec_decompress(h.icomp, window(file, h.meta_off, h.meta_len, "metadata")?)?;
        match serde_json::from_slice::<serde_json::Value>(&raw).map_err(|e| format!("metadata: {e}"))? {
            serde_json::Value::Object(m) => m,
            _ => return Err("metadata is not a JSON object".into()),
        }
    };
    let mut v = View { header: h.clone(), meta, root: vec![], tile_entries: vec![], dir_windows: vec![], depth: 0 };
    walk(file, &h, h.root_off, h.root_len, 0, &mut v, strict)?;
    // global order
    for w in v.tile_entries.windows(2) {
        if !(w[0].id < w[1].id && w[0].id.saturating_add(u64::from(w[0].run)) <= w[1].id) {
            return Err("tile entries across leaves are not ascending / overlap".into());
        }
    }
    if strict {
        let addressed: u64 = v.tile_entries.iter().fold(0u64, |a, e| a.saturating_add(u64::from(e.run)));
        let mut offs: Vec<u64> = v.tile_entries.iter().map(|e| e.off).collect();
        offs.sort_unstable();
        offs.dedup();
        if h.addressed != addressed {
            return Err(format!("num_addressed_tiles {} but directories address {}", h.addressed, addressed));
        }
        if h.entries != v.tile_entries.len() as u64 {
            return Err(format!("num_tile_entries {} but directories hold {}", h.entries, v.tile_entries.len()));
        }
        if h.contents != offs.len() as u64 {
            return Err(format!("num_tile_content {} but {} distinct offsets", h.contents, offs.len()));
        }
        if h.clustered {
            let mut end = 0u64;
            for e in &v.tile_entries {
                if e.off == end {
                    end = end.saturating_add(u64::from(e.len));
                } else if e.off > end {
                    return Err("clustered flag set but tile data is not laid out in tile-id order".into());
                }
            }
        }
    }
    Ok(v)
}

/// The specification's lookup procedure: greatest entry with id <= wanted, descend into leaves.
pub fn lookup(file: &[u8], h: &SHeader, id: u64) -> Result<Option<(u64, u32)>, String> {
    let (mut off, mut len) = (h.root_off, h.root_len);
    for _depth in 0..=3 {
        let es = decode_dir(&codec_decompress(h.icomp, window(file, off, len, "directory")?)?)?;
        let idx = es.partition_point(|e| e.id <= id);
        if idx == 0 {
            return Ok(None);
        }
        let e = es[idx - 1];
        if e.run > 0 {
            return Ok(if id - e.id < u64::from(e.run) { Some((e.off, e.len)) } else { None });
        }
        off = h.leaf_off.checked_add(e.off).ok_or("leaf offset overflow")?;
        len = u64::from(e.len);
    }
    Err("too deep".into())
}
pub fn tile_bytes<'a>(file: &'a [u8], h: &SHeader, ol: (u64, u32)) -> Result<&'a [u8], String> {
    window(file, h.data_off.checked_add(ol.0).ok_or("tile offset overflow")?, u64::from(ol.1), "tile")
}

/// all addressed tiles (expanded runs); refuses more than `budget` tiles
pub fn all_tiles(v: &View, budget: u64) -> Result<BTreeMap<u64, (u64, u32)>, String> {
    let total: u64 = v.tile_entries.iter().fold(0u64, |a, e| a.saturating_add(u64::from(e.run)));
    if total > budget {
        return Err("over budget".into());
    }
    let mut m = BTreeMap::new();
    for e in &v.tile_entries {
        for k in 0..u64::from(e.run) {
            m.insert(e.id + k, (e.off, e.len));
        }
    }
    Ok(m)
}
