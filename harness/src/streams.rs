//! Instrumented in-memory streams: operation log, fail-stop fault plan, fragmentation schedule and
//! (async) Pending injection.  Used for C13, C15, C17, C18, C20.
use std::io::{self, Read, Seek, SeekFrom, Write};
use std::pin::Pin;
use std::task::{Context, Poll};

#[derive(Clone, Debug, PartialEq, Eq)]
pub enum Ev {
    Read { pos: u64, len: usize },
    Write { pos: u64, len: usize },
    Seek { to: u64 },
    Pos,
    Flush,
    Close,
}

/// per-call transfer limits and pending pattern, cycled
/// the error kinds an injected fault may carry: a failing stream reports its failure in many ways (a dropped connection
/// typically as UnexpectedEof or BrokenPipe).  Interrupted is left out: by contract it asks for a retry.
pub const FAULT_KINDS: [io::ErrorKind; 12] = [
    io::ErrorKind::Other, io::ErrorKind::UnexpectedEof, io::ErrorKind::BrokenPipe, io::ErrorKind::InvalidData, io::ErrorKind::TimedOut, io::ErrorKind::NotFound,
    io::ErrorKind::InvalidInput, io::ErrorKind::PermissionDenied, io::ErrorKind::ConnectionReset, io::ErrorKind::ConnectionAborted, io::ErrorKind::Unsupported, io::ErrorKind::WriteZero,
];

#[derive(Clone, Debug, Default)]
pub struct Schedule {
    pub chunks: Vec<usize>, // each >= 1; empty = unlimited
    pub pend: Vec<bool>,    // async only: answer Pending (and wake) before serving the call
}

#[derive(Debug, Default)]
pub struct Core {
    pub data: Vec<u8>,
    pub pos: u64,
    pub log: Vec<Ev>,
    pub ops: usize,               // number of stream operations issued so far
    pub fail_from: Option<usize>, // operations with index >= this fail
    pub fail_at: Option<usize>,   // the operation with exactly this index fails (transient fault)
    pub fail_kind: usize,         // which io::ErrorKind an injected fault carries (index into FAULT_KINDS)
    pub sched: Schedule,
    pub calls: usize,
    pub pend_calls: usize,
    pub pending_now: bool,
    pub keep_data: bool,
    pub wdata: Vec<Vec<u8>>, // data of each Write event, in order (when keep_data)
    /// when non-zero: writes longer than this, and writes beyond the dense 2 GiB region, are logged
    /// (position and length) but their bytes are not stored (wdata gets an empty marker)
    pub sparse_over: usize,
    /// Some(b): injected fail-stop faults are bare error kinds (b) or carry a message (!b); None: alternating
    pub fail_bare: Option<bool>,
}

impl Core {
    pub fn new(data: Vec<u8>, pos: u64) -> Self {
        Core { data, pos, ..Default::default() }
    }
    fn fault(&mut self) -> io::Result<()> {
        let k = self.ops;
        self.ops += 1;
        // usize::MAX selects Interrupted (only used for single transient faults: a permanent one would make read_exact spin)
        let kind = if self.fail_kind == usize::MAX { io::ErrorKind::Interrupted } else { FAULT_KINDS[self.fail_kind % FAULT_KINDS.len()] };
        if self.fail_at == Some(k) {
            return Err(io::Error::new(kind, "injected transient fault"));
        }
        match self.fail_from {
            // (every other fault is a bare error kind without a message, as `kind.into()` gives it)
            Some(f) if k >= f => Err(if !self.fail_bare.unwrap_or((f / 4) % 2 == 1) { io::Error::new(kind, "injected fault") } else { io::Error::from(kind) }),
            _ => Ok(()),
        }
    }
    fn limit(&mut self, want: usize) -> usize {
        if self.sched.chunks.is_empty() || want == 0 {
            return want;
        }
        let c = self.sched.chunks[self.calls % self.sched.chunks.len()].max(1);
        self.calls += 1;
        want.min(c)
    }
    fn do_read(&mut self, buf: &mut [u8]) -> io::Result<usize> {
        self.fault()?;
        let want = self.limit(buf.len());
        let start = usize::try_from(self.pos).unwrap_or(usize::MAX).min(self.data.len());
        let n = want.min(self.data.len() - start);
        buf[..n].copy_from_slice(&self.data[start..start + n]);
        self.log.push(Ev::Read { pos: self.pos, len: n });
        self.pos += n as u64;
        Ok(n)
    }
    fn do_write(&mut self, buf: &[u8]) -> io::Result<usize> {
        self.fault()?;
        let n = self.limit(buf.len());
        if n == 0 {
            self.log.push(Ev::Write { pos: self.pos, len: 0 });
            return Ok(0);
        }
        let start = usize::try_from(self.pos).map_err(|_| io::Error::new(io::ErrorKind::InvalidInput, "pos"))?;
        if self.sparse_over > 0 && (n > self.sparse_over || start > (1 << 31)) {
            self.log.push(Ev::Write { pos: self.pos, len: n });
            if self.keep_data {
                self.wdata.push(Vec::new());
            }
            self.pos += n as u64;
            return Ok(n);
        }
        if start > (1 << 31) {
            return Err(io::Error::new(io::ErrorKind::InvalidInput, "write position beyond the harness limit"));
        }
        if self.data.len() < start {
            self.data.resize(start, 0);
        }
        let end = start + n;
        if self.data.len() < end {
            self.data.resize(end, 0);
        }
        self.data[start..end].copy_from_slice(&buf[..n]);
        self.log.push(Ev::Write { pos: self.pos, len: n });
        if self.keep_data {
            self.wdata.push(buf[..n].to_vec());
        }
        self.pos += n as u64;
        Ok(n)
    }
    /// a gathering write: as many bytes as the schedule allows, taken across the slices in order (a sink that
    /// implements vectored writes may end a short write inside any slice)
    fn do_write_vectored(&mut self, bufs: &[io::IoSlice<'_>]) -> io::Result<usize> {
        let total: usize = bufs.iter().map(|b| b.len()).sum();
        let mut joined: Vec<u8> = Vec::with_capacity(total.min(1 << 20));
        let cap = if self.sched.chunks.is_empty() { total } else { self.sched.chunks[self.calls % self.sched.chunks.len()].max(1).min(total) };
        for b in bufs {
            if joined.len() >= cap {
                break;
            }
            let take = (cap - joined.len()).min(b.len());
            joined.extend_from_slice(&b[..take]);
        }
        self.do_write(&joined)
    }
    fn do_seek(&mut self, to: SeekFrom) -> io::Result<u64> {
        self.fault()?;
        let (base, off) = match to {
            SeekFrom::Start(n) => {
                self.pos = n;
                self.log.push(Ev::Seek { to: n });
                return Ok(n);
            }
            SeekFrom::End(d) => (self.data.len() as u64, d),
            SeekFrom::Current(d) => (self.pos, d),
        };
        let np = if off >= 0 { base.checked_add(off as u64) } else { base.checked_sub(off.unsigned_abs()) };
        match np {
            Some(n) => {
                if matches!(to, SeekFrom::Current(0)) {
                    self.log.push(Ev::Pos);
                } else {
                    self.log.push(Ev::Seek { to: n });
                }
                self.pos = n;
                Ok(n)
            }
            None => Err(io::Error::new(io::ErrorKind::InvalidInput, "invalid seek")),
        }
    }
    fn do_flush(&mut self) -> io::Result<()> {
        self.fault()?;
        self.log.push(Ev::Flush);
        Ok(())
    }
    fn do_close(&mut self) -> io::Result<()> {
        self.fault()?;
        self.log.push(Ev::Close);
        Ok(())
    }
    /// async: should this call answer Pending first?
    fn pend(&mut self, cx: &mut Context<'_>) -> bool {
        if self.sched.pend.is_empty() {
            return false;
        }
        if self.pending_now {
            self.pending_now = false;
            return false;
        }
        let p = self.sched.pend[self.pend_calls % self.sched.pend.len()];
        self.pend_calls += 1;
        if p {
            self.pending_now = true;
            cx.waker().wake_by_ref();
        }
        p
    }
}

/// canonical write/seek log: writes and seeks only, contiguous writes merged
pub fn log_tok(log: &[Ev]) -> String {
    enum It {
        W(u64, u64),
        S(u64),
    }
    let mut items: Vec<It> = Vec::new();
    for e in log {
        match e {
            Ev::Write { pos, len } => {
                if let Some(It::W(p0, l0)) = items.last_mut() {
                    if *p0 + *l0 == *pos {
                        *l0 += *len as u64;
                        continue;
                    }
                }
                items.push(It::W(*pos, *len as u64));
            }
            Ev::Seek { to } => items.push(It::S(*to)),
            _ => {}
        }
    }
    if items.is_empty() {
        return "-".into();
    }
    items
        .iter()
        .map(|i| match i {
            It::W(p, l) => format!("w{p:x}+{l:x}"),
            It::S(p) => format!("s{p:x}"),
        })
        .collect::<Vec<_>>()
        .join(".")
}

/// union of the byte ranges read, as sorted disjoint (start, end) pairs
pub fn read_ranges(log: &[Ev]) -> Vec<(u64, u64)> {
    let mut v: Vec<(u64, u64)> =
        log.iter().filter_map(|e| if let Ev::Read { pos, len } = e { if *len > 0 { Some((*pos, *pos + *len as u64)) } else { None } } else { None }).collect();
    v.sort_unstable();
    let mut out: Vec<(u64, u64)> = Vec::new();
    for (a, b) in v {
        if let Some(l) = out.last_mut() {
            if a <= l.1 {
                l.1 = l.1.max(b);
                continue;
            }
        }
        out.push((a, b));
    }
    out
}

// ---------------------------------------------------------------------------------------------
pub struct SyncStream(pub Core);
impl Read for SyncStream {
    fn read(&mut self, buf: &mut [u8]) -> io::Result<usize> {
        self.0.do_read(buf)
    }
}
impl Write for SyncStream {
    fn write(&mut self, buf: &[u8]) -> io::Result<usize> {
        self.0.do_write(buf)
    }
    fn write_vectored(&mut self, bufs: &[io::IoSlice<'_>]) -> io::Result<usize> {
        self.0.do_write_vectored(bufs)
    }
    fn flush(&mut self) -> io::Result<()> {
        self.0.do_flush()
    }
}
impl Seek for SyncStream {
    fn seek(&mut self, pos: SeekFrom) -> io::Result<u64> {
        self.0.do_seek(pos)
    }
}

/// a shared handle so that the stream can be inspected after the library took ownership of it
#[derive(Clone)]
pub struct Shared(pub std::rc::Rc<std::cell::RefCell<Core>>);
impl Shared {
    pub fn new(c: Core) -> Self {
        Shared(std::rc::Rc::new(std::cell::RefCell::new(c)))
    }
}
impl Read for Shared {
    fn read(&mut self, buf: &mut [u8]) -> io::Result<usize> {
        self.0.borrow_mut().do_read(buf)
    }
}
impl Seek for Shared {
    fn seek(&mut self, pos: SeekFrom) -> io::Result<u64> {
        self.0.borrow_mut().do_seek(pos)
    }
}

pub struct AsyncStream(pub Core);
impl futures::io::AsyncRead for AsyncStream {
    fn poll_read(mut self: Pin<&mut Self>, cx: &mut Context<'_>, buf: &mut [u8]) -> Poll<io::Result<usize>> {
        if self.0.pend(cx) {
            return Poll::Pending;
        }
        Poll::Ready(self.0.do_read(buf))
    }
}
impl futures::io::AsyncWrite for AsyncStream {
    fn poll_write(mut self: Pin<&mut Self>, cx: &mut Context<'_>, buf: &[u8]) -> Poll<io::Result<usize>> {
        if self.0.pend(cx) {
            return Poll::Pending;
        }
        Poll::Ready(self.0.do_write(buf))
    }
    fn poll_write_vectored(mut self: Pin<&mut Self>, cx: &mut Context<'_>, bufs: &[io::IoSlice<'_>]) -> Poll<io::Result<usize>> {
        if self.0.pend(cx) {
            return Poll::Pending;
        }
        Poll::Ready(self.0.do_write_vectored(bufs))
    }
    fn poll_flush(mut self: Pin<&mut Self>, cx: &mut Context<'_>) -> Poll<io::Result<()>> {
        if self.0.pend(cx) {
            return Poll::Pending;
        }
        Poll::Ready(self.0.do_flush())
    }
    fn poll_close(mut self: Pin<&mut Self>, cx: &mut Context<'_>) -> Poll<io::Result<()>> {
        if self.0.pend(cx) {
            return Poll::Pending;
        }
        Poll::Ready(self.0.do_close())
    }
}
impl futures::io::AsyncSeek for AsyncStream {
    fn poll_seek(mut self: Pin<&mut Self>, cx: &mut Context<'_>, pos: futures::io::SeekFrom) -> Poll<io::Result<u64>> {
        if self.0.pend(cx) {
            return Poll::Pending;
        }
        let p = match pos {
            futures::io::SeekFrom::Start(n) => SeekFrom::Start(n),
            futures::io::SeekFrom::End(n) => SeekFrom::End(n),
            futures::io::SeekFrom::Current(n) => SeekFrom::Current(n),
        };
        Poll::Ready(self.0.do_seek(p))
    }
}

/// Send-able shared async handle (the async readers require Send)
#[derive(Clone)]
pub struct AShared(pub std::sync::Arc<std::sync::Mutex<Core>>);
impl AShared {
    pub fn new(c: Core) -> Self {
        AShared(std::sync::Arc::new(std::sync::Mutex::new(c)))
    }
}
impl futures::io::AsyncRead for AShared {
    fn poll_read(self: Pin<&mut Self>, cx: &mut Context<'_>, buf: &mut [u8]) -> Poll<io::Result<usize>> {
        let mut g = self.0.lock().unwrap();
        if g.pend(cx) {
            return Poll::Pending;
        }
        Poll::Ready(g.do_read(buf))
    }
}
impl futures::io::AsyncSeek for AShared {
    fn poll_seek(self: Pin<&mut Self>, cx: &mut Context<'_>, pos: futures::io::SeekFrom) -> Poll<io::Result<u64>> {
        let mut g = self.0.lock().unwrap();
        if g.pend(cx) {
            return Poll::Pending;
        }
        let p = match pos {
            futures::io::SeekFrom::Start(n) => SeekFrom::Start(n),
            futures::io::SeekFrom::End(n) => SeekFrom::End(n),
            futures::io::SeekFrom::Current(n) => SeekFrom::Current(n),
        };
        Poll::Ready(g.do_seek(p))
    }
}

// ---------------------------------------------------------------------------------------------
// fragmenting in-memory readers: what every archive check opens from.  A reader may legally return fewer bytes
// than asked for (C13); serving the archive checks through such readers makes every property's check sensitive to
// code that relies on a single read()/write() call transferring everything.
// ---------------------------------------------------------------------------------------------
thread_local! {
    /// when n > 0: the n-th next read call of a fragmenting reader on this thread fails (once)
    static FRAG_FAIL: std::cell::Cell<u32> = std::cell::Cell::new(0);
}
pub fn frag_fail_next(n: u32) {
    FRAG_FAIL.with(|c| c.set(n));
}
fn frag_fault() -> bool {
    FRAG_FAIL.with(|c| {
        let n = c.get();
        if n == 0 {
            return false;
        }
        c.set(n - 1);
        n == 1
    })
}
const FRAG_CYCLE: [usize; 7] = [3, 4096, 1, 100_000, 7, 65_536, 50];
pub struct Frag {
    cur: std::io::Cursor<Vec<u8>>,
    calls: usize,
}
impl Frag {
    pub fn new(b: Vec<u8>) -> Self {
        Frag { cur: std::io::Cursor::new(b), calls: 0 }
    }
}
impl io::Read for Frag {
    fn read(&mut self, buf: &mut [u8]) -> io::Result<usize> {
        if frag_fault() {
            return Err(io::Error::new(io::ErrorKind::Other, "injected transient fault"));
        }
        let k = FRAG_CYCLE[self.calls % FRAG_CYCLE.len()];
        self.calls += 1;
        let n = buf.len().min(k);
        self.cur.read(&mut buf[..n])
    }
}
impl io::Seek for Frag {
    fn seek(&mut self, pos: io::SeekFrom) -> io::Result<u64> {
        self.cur.seek(pos)
    }
}
pub struct AFrag {
    cur: futures::io::Cursor<Vec<u8>>,
    calls: usize,
}
impl AFrag {
    pub fn new(b: Vec<u8>) -> Self {
        AFrag { cur: futures::io::Cursor::new(b), calls: 0 }
    }
}
impl futures::io::AsyncRead for AFrag {
    fn poll_read(self: std::pin::Pin<&mut Self>, cx: &mut std::task::Context<'_>, buf: &mut [u8]) -> std::task::Poll<io::Result<usize>> {
        let this = self.get_mut();
        if frag_fault() {
            return std::task::Poll::Ready(Err(io::Error::new(io::ErrorKind::Other, "injected transient fault")));
        }
        let k = FRAG_CYCLE[this.calls % FRAG_CYCLE.len()];
        this.calls += 1;
        let n = buf.len().min(k);
        std::pin::Pin::new(&mut this.cur).poll_read(cx, &mut buf[..n])
    }
}
impl futures::io::AsyncSeek for AFrag {
    fn poll_seek(self: std::pin::Pin<&mut Self>, cx: &mut std::task::Context<'_>, pos: io::SeekFrom) -> std::task::Poll<io::Result<u64>> {
        std::pin::Pin::new(&mut self.get_mut().cur).poll_seek(cx, pos)
    }
}
