// (included into p_io3.rs) generators and dispatch for the stream-level properties

fn small_logical_ops(rng: &mut Rng, n: usize, st: &mut Stats, comp: Option<Compression>) -> String {
    let mut l = gen_logical(rng, n, false, st);
    if let Some(c) = comp {
        l.icomp = c;
    }
    let mut ops = settings_ops(&l);
    ops.extend(add_ops(&l, rng, true));
    ops.join(";")
}
fn mem_available_gib() -> u64 {
    std::fs::read_to_string("/proc/meminfo")
        .ok()
        .and_then(|m| {
            m.lines().find(|l| l.starts_with("MemAvailable:")).and_then(|l| l.split_whitespace().nth(1).and_then(|k| k.parse::<u64>().ok()))
        })
        .map(|kb| kb >> 20)
        .unwrap_or(0)
}
fn first_id(ops: &str) -> u64 {
    // the id of the last addition in an op string (most likely still present)
    ops.split(';')
        .rev()
        .find_map(|o| {
            let f: Vec<&str> = o.split(':').collect();
            if f.len() == 3 && f[0] == "a" {
                u64::from_str_radix(f[1], 16).ok()
            } else {
                None
            }
        })
        .unwrap_or(0)
}
fn spill_ops(rng: &mut Rng, n: usize, comp: Compression) -> String {
    let mut ops = vec![format!("c:{}", comp_tok(comp))];
    let mut id = rng.below(1000);
    for i in 0..n {
        let mut c = rng.bytes(1 + (i % 3));
        c.extend_from_slice(&(i as u32).to_le_bytes());
        ops.push(format!("a:{id:x}:{}", hex_bytes(&c)));
        id += 1 + rng.spread(if comp == Compression::None { 3 } else { 30 });
    }
    ops.join(";")
}
fn sample_archives(rng: &mut Rng, quick: bool, st: &mut Stats) -> Vec<Vec<u8>> {
    // library-written (all codecs, with and without leaves) and foreign layouts
    let mut v: Vec<Vec<u8>> = Vec::new();
    for (k, c) in ALL_COMP.iter().enumerate() {
        let mode = if k % 2 == 0 { "sync" } else { "async" };
        v.push(write_plain(mode, &small_logical_ops(rng, [0, 3, 12, 40][k], st, Some(*c))).expect("write"));
    }
    v.push(write_plain("sync", &spill_ops(rng, 4300, Compression::None)).expect("write"));
    v.push(write_plain("async", &spill_ops(rng, if quick { 2 * 4300 } else { 20_000 }, Compression::GZip)).expect("write"));
    if !quick {
        v.push(write_plain("sync", &spill_ops(rng, 12_000, Compression::ZStd)).expect("write"));
        v.push(write_plain("sync", &spill_ops(rng, 12_000, Compression::Brotli)).expect("write"));
    }
    for k in 0..(if quick { 10 } else { 40 }) {
        let mut o = foreign_opts(rng, k + 1, true);
        o.n = o.n.min(200);
        v.push(gen_foreign(rng, &o, st).bytes);
    }
    v
}

/// crafted hazard corpus for C08 (one archive / directory per hazard class)
/// an archive whose leaf directories form a chain of [n] levels (each leaf holds one pointer to the next, the last
/// one holds a tile), laid out front to back or back to front; built here because its hexadecimal form would not
/// fit a case line
fn chain_archive(n: usize, forward: bool) -> Vec<u8> {
    let dir1 = |id: u64, run: u64, len: u64, off: u64| -> Vec<u8> {
        let mut b = Vec::new();
        for v in [1, id, run, len, off + 1] {
            spec::put_varint(v, &mut b);
        }
        b
    };
    let tile = dir1(7, 1, 1, 0);
    let mut leaf: Vec<u8>;
    let root;
    if forward {
        // blob i (a pointer) precedes blob i+1; sizes depend on the offsets they encode: least fixed point
        let mut sizes: Vec<u64> = vec![5; n + 1];
        sizes[n] = tile.len() as u64;
        let mut offs: Vec<u64> = vec![0; n + 1];
        loop {
            for i in 1..=n {
                offs[i] = offs[i - 1] + sizes[i - 1];
            }
            let mut changed = false;
            for i in 0..n {
                let s = dir1(0, 0, sizes[i + 1], offs[i + 1]).len() as u64;
                if s != sizes[i] {
                    sizes[i] = s;
                    changed = true;
                }
            }
            if !changed {
                break;
            }
        }
        leaf = Vec::new();
        for i in 0..n {
            leaf.extend_from_slice(&dir1(0, 0, sizes[i + 1], offs[i + 1]));
        }
        leaf.extend_from_slice(&tile);
        root = dir1(0, 0, sizes[0], 0);
    } else {
        // back to front: the tile directory first, every pointer blob after the blob it names
        leaf = tile.clone();
        let (mut off, mut len) = (0u64, leaf.len() as u64);
        for _ in 0..n {
            let p = dir1(0, 0, len, off);
            off = leaf.len() as u64;
            len = p.len() as u64;
            leaf.extend_from_slice(&p);
        }
        root = dir1(0, 0, len, off);
    }
    let h = spec::SHeader {
        root_off: 127, root_len: root.len() as u64, meta_off: 127 + root.len() as u64, meta_len: 0,
        leaf_off: 127 + root.len() as u64, leaf_len: leaf.len() as u64, data_off: 127 + (root.len() + leaf.len()) as u64,
        data_len: 1, addressed: 1, entries: 1, contents: 1, clustered: true, icomp: 1, tcomp: 1, ttype: 1,
        minz: 0, maxz: 0, coords: [0; 6], cz: 0,
    };
    let mut f = spec::encode_header(&h);
    f.extend_from_slice(&root);
    f.extend_from_slice(&leaf);
    f.push(1);
    f
}

fn hazards() -> Vec<(String, Vec<u8>)> {
    let mut out: Vec<(String, Vec<u8>)> = Vec::new();
    let varint = |v: u64| {
        let mut b = Vec::new();
        spec::put_varint(v, &mut b);
        b
    };
    let dir = |cols: &[Vec<u64>; 4], count: u64| -> Vec<u8> {
        let mut b = varint(count);
        for c in cols {
            for v in c {
                b.extend_from_slice(&varint(*v));
            }
        }
        b
    };
    let arch = |root: &[u8], leaf: &[u8], data: &[u8], tweak: &dyn Fn(&mut spec::SHeader)| -> Vec<u8> {
        let mut h = spec::SHeader {
            root_off: 127, root_len: root.len() as u64, meta_off: 127 + root.len() as u64, meta_len: 0,
            leaf_off: 127 + root.len() as u64, leaf_len: leaf.len() as u64, data_off: 127 + (root.len() + leaf.len()) as u64,
            data_len: data.len() as u64, addressed: 1, entries: 1, contents: 1, clustered: true, icomp: 1, tcomp: 1, ttype: 1,
            minz: 0, maxz: 0, coords: [0; 6], cz: 0,
        };
        tweak(&mut h);
        let mut f = spec::encode_header(&h);
        f.extend_from_slice(root);
        f.extend_from_slice(leaf);
        f.extend_from_slice(data);
        f
    };
    let m = u64::MAX;
    // directories
    let dirs: Vec<(&str, Vec<u8>)> = vec![
        ("count 2^63", dir(&[vec![], vec![], vec![], vec![]], 1 << 63)),
        ("count 2^64-1", dir(&[vec![1], vec![1], vec![1], vec![1]], m)),
        ("count 2^60 with some data", dir(&[vec![1, 1, 1], vec![1, 1], vec![], vec![]], 1 << 60)),
        ("id sum overflow", dir(&[vec![m, 5], vec![1, 1], vec![1, 1], vec![1, 0]], 2)),
        ("id + run overflow", dir(&[vec![m - 2, 1], vec![5, 1], vec![1, 1], vec![1, 0]], 2)),
        ("id + run overflow last", dir(&[vec![m - 3, 1], vec![1, 5], vec![1, 1], vec![1, 0]], 2)),
        ("zero first offset", dir(&[vec![0], vec![1], vec![1], vec![0]], 1)),
        ("offset + length overflow", dir(&[vec![0, 1], vec![1, 1], vec![0xffff_ffff, 1], vec![m, 0]], 2)),
        ("offset u64::MAX", dir(&[vec![0], vec![1], vec![1], vec![m]], 1)),
        ("run 2^32-1", dir(&[vec![5], vec![0xffff_ffff], vec![1], vec![1]], 1)),
        ("unterminated varint", vec![0x80; 12]),
        ("11-byte varint", vec![0xff, 0xff, 0xff, 0xff, 0xff, 0xff, 0xff, 0xff, 0xff, 0xff, 0x01]),
        ("empty", vec![]),
        ("zero length entry", dir(&[vec![1], vec![1], vec![0], vec![1]], 1)),
        ("pointer at id 0 followed by id 0", dir(&[vec![0, 0], vec![0, 1], vec![5, 1], vec![1, 0]], 2)),
        ("tile at id 0 followed by pointer at id 0", dir(&[vec![0, 0], vec![1, 0], vec![1, 5], vec![1, 0]], 2)),
        ("three entries with zero deltas", dir(&[vec![7, 0, 0], vec![0, 0, 1], vec![5, 5, 1], vec![1, 0, 0]], 3)),
    ];
    for (n, d) in &dirs {
        out.push((format!("dir:{n}"), d.clone()));
        out.push((format!("arch-root:{n}"), arch(d, &[], &[1, 2, 3], &|_| {})));
    }
    // leaf pointer structures
    let ptr = |off: u64, len: u64| dir(&[vec![0], vec![0], vec![len], vec![off + 1]], 1);
    let self_ptr = ptr(0, 5);
    out.push(("arch:self-referential leaf".into(), arch(&ptr(0, self_ptr.len() as u64), &self_ptr, &[1], &|_| {})));
    // leaf pointing back at the root (leaf_off = root_off)
    let rootptr = ptr(0, 5);
    out.push(("arch:leaf pointer to root".into(), arch(&rootptr, &[], &[1], &|h| { h.leaf_off = 127; h.leaf_len = 5; })));
    // a long chain of leaves
    {
        let mut leaf: Vec<u8> = Vec::new();
        let mut blobs: Vec<Vec<u8>> = Vec::new();
        let n = 40;
        // blob i points to blob i+1; the last one holds a tile
        let tile = dir(&[vec![7], vec![1], vec![1], vec![1]], 1);
        let mut offs = vec![0u64; n + 1];
        let mut sizes = vec![0u64; n + 1];
        sizes[n] = tile.len() as u64;
        for i in (0..n).rev() {
            sizes[i] = 5;
        }
        for i in 1..=n {
            offs[i] = offs[i - 1] + sizes[i - 1];
        }
        for i in 0..n {
            let p = ptr(offs[i + 1], sizes[i + 1]);
            let mut p = p;
            p.resize(5, 0);
            blobs.push(p);
        }
        blobs.push(tile);
        for b in &blobs {
            leaf.extend_from_slice(b);
        }
        out.push(("arch:chain of 40 leaves".into(), arch(&ptr(0, 5), &leaf, &[1], &|_| {})));
    }
    // an absurd entry count together with an absurd declared directory length (either alone is harmless)
    {
        let huge = dir(&[vec![1], vec![1], vec![1], vec![1]], m - 1);
        out.push(("arch:count near 2^64 and root length near 2^64".into(), arch(&huge, &[], &[1], &|h| h.root_len = m - 200)));
        out.push(("arch:count near 2^64 and root length 2^62".into(), arch(&huge, &[], &[1], &|h| h.root_len = 1 << 62)));
        let ptr_huge = dir(&[vec![0], vec![0], vec![0xffff_ffff], vec![1]], 1);
        out.push(("arch:leaf with count near 2^64 behind a pointer of length 2^32-1".into(), arch(&ptr_huge, &huge, &[1], &|_| {})));
    }
    // a second leaf whose absolute offset is just above 2^63 (relative positioning must not overflow)
    {
        let good = dir(&[vec![7], vec![1], vec![1], vec![1]], 1);
        let two = dir(&[vec![0, 100], vec![0, 0], vec![good.len() as u64, 9], vec![1, (1u64 << 63) - 100]], 2);
        out.push(("arch:second leaf offset just above 2^63".into(), arch(&two, &good, &[1], &|_| {})));
    }
    out.push(("arch:leaf window ending beyond 2^64".into(), arch(&ptr(m - 300, 1000), &[], &[1], &|h| h.leaf_off = 200)));
    out.push(("arch:root window ending beyond 2^64".into(), arch(&ptr(0, 5), &[], &[1], &|h| { h.root_off = m - 50; h.root_len = 1000; })));
    out.push(("arch:leaf offset near 2^64".into(), arch(&ptr(m - 3, 9), &[], &[1], &|h| h.leaf_off = m - 1)));
    out.push(("arch:leaf_off + offset overflow".into(), arch(&ptr(m - 1, 9), &[], &[1], &|h| h.leaf_off = 200)));
    let one = dir(&[vec![0], vec![1], vec![3], vec![1]], 1);
    out.push(("arch:tile_data_offset near 2^64".into(), arch(&one, &[], &[1, 2, 3], &|h| h.data_off = m - 1)));
    out.push(("arch:tile_data_offset u64::MAX".into(), arch(&one, &[], &[1, 2, 3], &|h| h.data_off = m)));
    let far = dir(&[vec![0], vec![1], vec![3], vec![m]], 1);
    out.push(("arch:tile offset u64::MAX-1".into(), arch(&far, &[], &[1, 2, 3], &|h| h.data_off = 5)));
    out.push(("arch:root length 2^64-1".into(), arch(&one, &[], &[1, 2, 3], &|h| h.root_len = m)));
    out.push(("arch:root offset 2^64-1".into(), arch(&one, &[], &[1, 2, 3], &|h| h.root_off = m)));
    out.push(("arch:metadata length 2^63".into(), arch(&one, &[], &[1, 2, 3], &|h| { h.meta_len = 1 << 63; h.meta_off = 127; })));
    out.push(("arch:metadata length 2^64-1".into(), arch(&one, &[], &[1, 2, 3], &|h| { h.meta_len = m; h.meta_off = 130; })));
    out.push(("arch:metadata offset 2^64-1".into(), arch(&one, &[], &[1, 2, 3], &|h| { h.meta_len = 4; h.meta_off = m; })));
    let idmax = dir(&[vec![m], vec![0], vec![3], vec![1]], 1);
    out.push(("arch:id u64::MAX pointer".into(), arch(&idmax, &[], &[1, 2, 3], &|_| {})));
    let idmax1 = dir(&[vec![m - 1], vec![1], vec![3], vec![1]], 1);
    out.push(("arch:id u64::MAX-1 tile (rewrite)".into(), arch(&idmax1, &[], &[1, 2, 3], &|_| {})));
    let two_runs = dir(&[vec![m - 3, 1], vec![2, 1], vec![3, 3], vec![1, 0]], 2);
    out.push(("arch:ids at the top of the id space".into(), arch(&two_runs, &[], &[1, 2, 3, 4, 5, 6], &|_| {})));
    for c in 2..=4u8 {
        out.push((format!("arch:garbage under codec {c}"), arch(&[0x1f, 0x8b, 8, 0, 0, 0, 0xff, 0xff], &[], &[1], &|h| h.icomp = c)));
    }
    // very many distinct tiles that each declare a length of 2^32 - 1 (nothing may be sized from declared lengths)
    for n in [70_000u64, 300] {
        let many = dir(&[vec![1; n as usize], vec![1; n as usize], vec![0xffff_ffff; n as usize], (0..n).map(|i| 3 * i + 2).collect()], n);
        out.push((format!("arch:{n} tiles declaring 4 GiB each"), arch(&many, &[], &[1, 2, 3, 4, 5, 6, 7, 8, 9], &|_| {})));
    }
    out
}

fn mutate_archives(rng: &mut Rng, base: &[u8], quick: bool) -> Vec<Vec<u8>> {
    let mut v: Vec<Vec<u8>> = Vec::new();
    let vals = [0u8, 1, 0x7f, 0x80, 0xff];
    if base.len() <= 400 {
        for l in 0..base.len() {
            v.push(base[..l].to_vec());
        }
        for pos in 0..base.len() {
            for x in vals {
                if base[pos] != x {
                    let mut b = base.to_vec();
                    b[pos] = x;
                    v.push(b);
                }
            }
        }
    }
    // header fields -> boundary values
    for _ in 0..(if quick { 30 } else { 200 }) {
        let mut b = base.to_vec();
        let f = rng.below(11) as usize;
        let val: u64 = match rng.below(8) {
            0 => 0,
            1 => u64::MAX,
            2 => u64::MAX - rng.below(200),
            3 => 1 << 63,
            4 => base.len() as u64,
            5 => base.len() as u64 + 1,
            6 => rng.below(base.len() as u64 + 1),
            _ => rng.spread(64),
        };
        b[8 + 8 * f..16 + 8 * f].copy_from_slice(&val.to_le_bytes());
        if rng.chance(1, 3) {
            let f2 = rng.below(11) as usize;
            b[8 + 8 * f2..16 + 8 * f2].copy_from_slice(&rng.spread(64).to_le_bytes());
        }
        v.push(b);
    }
    // splices, truncations, byte noise in the directory area
    for _ in 0..(if quick { 20 } else { 150 }) {
        let mut b = base.to_vec();
        match rng.below(4) {
            0 => {
                let l = rng.below(b.len() as u64) as usize;
                b.truncate(l);
            }
            1 => {
                let (a, z) = (rng.below(b.len() as u64) as usize, rng.below(b.len() as u64) as usize);
                let (a, z) = (a.min(z), a.max(z));
                let seg = b[a..z].to_vec();
                let at = rng.below(b.len() as u64) as usize;
                b.splice(at..at, seg);
            }
            _ => {
                for _ in 0..rng.range(1, 4) {
                    let p = (127 + rng.below((b.len().saturating_sub(127)).max(1) as u64) as usize).min(b.len() - 1);
                    b[p] = [0u8, 1, 0x7f, 0x80, 0xff, 0xfe][rng.below(6) as usize];
                }
            }
        }
        v.push(b);
    }
    v
}
fn mutate_varint_fields(rng: &mut Rng, es: &[pmtiles2::Entry]) -> Vec<u8> {
    // re-encode a directory with some fields replaced by boundary values (possibly invalid)
    let b = |rng: &mut Rng, v: u64| -> u64 {
        match rng.below(12) {
            0 => 0,
            1 => u64::MAX,
            2 => 1 << 63,
            3 => (1 << 32) - 1,
            4 => 1 << 32,
            5 => u64::MAX - rng.below(100),
            _ => v,
        }
    };
    let mut out = Vec::new();
    let n = if rng.chance(1, 10) { b(rng, es.len() as u64) } else { es.len() as u64 };
    spec::put_varint(n, &mut out);
    let mut last = 0;
    for e in es {
        spec::put_varint(b(rng, e.tile_id - last), &mut out);
        last = e.tile_id;
    }
    for e in es {
        spec::put_varint(b(rng, u64::from(e.run_length)), &mut out);
    }
    for e in es {
        spec::put_varint(b(rng, u64::from(e.length)), &mut out);
    }
    for e in es {
        spec::put_varint(b(rng, e.offset + 1), &mut out);
    }
    out
}

pub fn gen(prop: &str, rng: &mut Rng, quick: bool, st: &mut Stats) -> Option<Vec<String>> {
    let mut c: Vec<String> = Vec::new();
    match prop {
        "C18" => {
            let ps: Vec<u64> = vec![0, 1, 10, 127, 128, 4096, rng.range(2, 9000), rng.range(2, 300)];
            let mut k = 0;
            for &p in &ps {
                for variant in 0..(if quick { 4 } else { 10 }) {
                    let mode = if k % 2 == 0 { "sync" } else { "async" };
                    k += 1;
                    let ops = match variant {
                        0 => small_logical_ops(rng, 0, st, None),
                        1 => small_logical_ops(rng, 5, st, None),
                        2 => small_logical_ops(rng, 60, st, Some(Compression::None)),
                        3 if p < 200 => spill_ops(rng, 4300, Compression::None),
                        _ => small_logical_ops(rng, 25, st, None),
                    };
                    // pre-filled beyond the archive, pre-filled up to P, shorter than P, empty
                    let pre: Vec<u8> = match (k / 2) % 4 {
                        0 => rng.bytes(p as usize + 300),
                        1 => rng.bytes(p as usize),
                        2 => rng.bytes((p / 2) as usize),
                        _ => vec![],
                    };
                    c.push(format!("chk_startpos {mode} {p:x} {} {ops}", hex_bytes(&pre)));
                    if variant != 3 || p == 10 {
                        c.push(format!("hist {mode} {ops};w:{}:{p:x}:{}", &mode[..1], hex_bytes(&pre)));
                    }
                    st.bump(&format!("start_position_{}", if p == 0 { "zero" } else { "nonzero" }));
                }
            }
            // root directory close to its 16257-byte limit, and starting positions beyond 16 KiB: limits are relative
            for (k, (n, p)) in [(4063usize, 64u64), (4064, 1), (4063, 20_000), (4062, 127), (30, 16_384), (30, 70_000), (0, 16_300)].iter().enumerate() {
                let mut ops = vec!["c:none".to_string()];
                for t in 0..*n {
                    ops.push(format!("a:{:x}:{:02x}{:02x}", 2 * t, t % 251, t / 251));
                }
                c.push(format!("chk_startpos {} {p:x} - {}", if k % 2 == 0 { "sync" } else { "async" }, ops.join(";")));
                st.bump("start_position_near_limits");
            }
            // archives of other writers (tiles sharing a start offset, unordered data, nested leaves) written at P
            for k in 0..(if quick { 8 } else { 40 }) {
                let mut o = foreign_opts(rng, k + 2, true);
                o.n = o.n.min(60);
                let f = gen_foreign(rng, &o, st);
                c.push(format!("chk_startpos_foreign {} {:x} {}", if k % 2 == 0 { "sync" } else { "async" }, [0u64, 1, 127, 4096, 700][k % 5], hex_bytes(&f.bytes)));
                st.bump("start_position_foreign_archives");
            }
            // an archive that was opened, given another internal compression, and written at P
            for (k, (c1, c2)) in [("gzip", "zstd"), ("none", "brotli"), ("zstd", "none"), ("brotli", "gzip")].iter().enumerate() {
                let mode = if k % 2 == 0 { "sync" } else { "async" };
                let m = &mode[..1];
                let ops = small_logical_ops(rng, 12, st, None);
                c.push(format!("chk_startpos {mode} {:x} - c:{c1};{ops};c:{c1};s:{m}:{m};c:{c2}", [0u64, 9, 300, 127][k]));
                c.push(format!("chk_startpos {mode} {:x} - c:{c1};{ops};c:{c1};s:{m}:{m};c:{c2};a:77:0102", [5u64, 0, 127, 4096][k]));
                st.bump("start_position_after_changing_the_compression_of_an_opened_archive");
            }
            // starting positions taken from the archive's own geometry (its length - 127, its offsets, ...)
            for (k, n) in [0usize, 1, 5, 60].iter().enumerate() {
                let mode = if k % 2 == 0 { "sync" } else { "async" };
                let ops = small_logical_ops(rng, *n, st, if k % 2 == 0 { Some(Compression::None) } else { None });
                c.push(format!("chk_startpos_rel {mode} {ops}"));
                st.bump("start_positions_from_archive_geometry");
            }
            c.push(format!("chk_startpos_rel async {}", spill_ops(rng, 4300, Compression::None)));
            // 5.2 million sparse tiles: the leaf size is doubled inside the write, at a non-zero start (about 1 GB)
            c.insert(0, format!("chk_startpos_sparse {} 1000 4f5880 27", if quick { "sync" } else { "async" }));
            st.bump("start_position_with_doubled_leaf_size");
            // archives with leaf directories at starting positions beyond 16 KiB
            for (k, p) in [16_384u64, 70_000].iter().enumerate() {
                let mode = if k % 2 == 0 { "sync" } else { "async" };
                c.push(format!("chk_startpos {mode} {p:x} - {}", spill_ops(rng, 4300 + 700 * k, Compression::None)));
                st.bump("start_position_spill_beyond_16k");
            }
        }
        "C17" => {
            let mut k = 0;
            for comp in ALL_COMP {
                for n in [0usize, 1, 7, 60] {
                    let mode = if k % 2 == 0 { "sync" } else { "async" };
                    k += 1;
                    let ops = small_logical_ops(rng, n, st, Some(comp));
                    c.push(format!("chk_torn {mode} {ops}"));
                    c.push(format!("hist {mode} {ops};w:{}:0:-", &mode[..1]));
                    if n > 0 {
                        // the archive written is one that was opened from bytes: merely re-saved,
                        // re-saved after a removal, and re-saved after an addition
                        let m = &mode[..1];
                        c.push(format!("chk_torn {mode} {ops};s:{m}:{m}"));
                        st.bump("torn_resaved");
                        if n > 1 {
                            c.push(format!("chk_torn {mode} {ops};s:{m}:{m};r:{:x}", first_id(&ops)));
                            c.push(format!("chk_torn {mode} {ops};s:{m}:{m};a:{:x}:c0ffee", 77u64 + k as u64));
                        }
                    }
                }
            }
            for (i, comp) in [Compression::None, Compression::GZip].iter().enumerate() {
                let mode = if i == 0 { "async" } else { "sync" };
                let n = if *comp == Compression::None { 4300 } else { 9000 };
                if quick && i == 1 {
                    continue;
                }
                let ops = spill_ops(rng, n, *comp);
                c.push(format!("chk_torn {mode} {ops}"));
                st.bump("torn_with_leaf_spill");
            }
            // headers that contain line feeds, carriage returns and NULs in their last 30 bytes (zoom levels of 10 and
            // 13, coordinates whose stored bytes are 0x0a / 0x0d): however a header is buffered, it reaches the stream whole
            for (i, (z, deg)) in [(10u8, 16.843_009f64), (13, 21.895_245_3), (10, -16.843_009), (0, 0.000_001), (10, 0.0)].iter().enumerate() {
                let mode = if i % 2 == 0 { "sync" } else { "async" };
                let d = f64_tok(*deg);
                let ops = format!("c:none;h:1:1:{z:x}:{z:x}:{z:x}:{d}:{d}:{d}:{d}:{d}:{d};a:3:0102;a:9:{}", hex_bytes(&rng.bytes(30)));
                c.push(format!("chk_torn {mode} {ops}"));
                st.bump("torn_with_line_feeds_in_the_header");
            }
            // tile data of a few KiB to a few hundred KiB (whole archives around the sizes of common copy buffers), and
            // contents with long runs of zeros - at the start, in the middle, at the very end of the data section
            for (i, sizes) in [vec![10_000usize], vec![8_192], vec![16_384], vec![16_385, 3], vec![5_000, 7_000], vec![4_096, 4_096, 4_097], vec![70_000, 100], vec![300_000]].iter().enumerate() {
                let mode = if i % 2 == 0 { "sync" } else { "async" };
                let mut ops = vec![format!("c:{}", comp_tok(ALL_COMP[i % 4]))];
                for (k, sz) in sizes.iter().enumerate() {
                    ops.push(format!("a:{:x}:{}", 3 + 2 * k, hex_bytes(&rng.bytes(*sz))));
                }
                c.push(format!("chk_torn {mode} {}", ops.join(";")));
                st.bump("torn_with_kilobytes_of_tile_data");
            }
            for (i, (head, zeros, tail)) in [(5usize, 8_192usize, 0usize), (0, 12_288, 0), (100, 20_000, 0), (0, 4_096, 1), (3, 9_000, 3), (0, 65_536, 0), (4_096, 4_096, 0)].iter().enumerate() {
                let mode = if i % 2 == 0 { "async" } else { "sync" };
                let mut t = rng.bytes(*head);
                t.extend(std::iter::repeat(0u8).take(*zeros));
                t.extend(rng.bytes(*tail).iter().map(|b| b | 1));
                // the tile with the zeros is the last one stored; a variant with another tile behind it
                let mut ops = vec!["c:none".to_string(), format!("a:1:{}", hex_bytes(&rng.bytes(50))), format!("a:9:{}", hex_bytes(&t))];
                c.push(format!("chk_torn {mode} {}", ops.join(";")));
                ops.push(format!("a:b:{}", hex_bytes(&rng.bytes(7))));
                c.push(format!("chk_torn {mode} {}", ops.join(";")));
                st.bump("torn_with_zero_filled_contents");
            }
            let ops = spill_ops(rng, 4300, Compression::None);
            c.push(format!("hist sync {ops};w:s:0:-"));
            // more than 4 GiB of tile data (about 10 GiB of memory while it runs)
            if mem_available_gib() >= 24 {
                c.insert(0, format!("chk_torn_giant {}", if quick { "sync" } else { "async" }));
                if !quick {
                    c.push("chk_torn_giant sync".to_string());
                }
                st.bump("torn_over_4GiB_of_tile_data");
            } else {
                st.bump("torn_over_4GiB_skipped_for_lack_of_memory");
            }
        }
        "C20" => {
            let mut arch = sample_archives(rng, quick, st);
            for (k, comp) in [Compression::None, Compression::GZip].iter().enumerate() {
                let sizes = [70_000usize, 65_536, 65_537, 131_073, 200_001];
                let mut ops = vec![format!("c:{}", comp_tok(*comp))];
                for (i, sz) in sizes.iter().enumerate() {
                    ops.push(format!("a:{:x}:{}", 3 + 2 * i, hex_bytes(&rng.bytes(*sz))));
                    ops.push(format!("a:{:x}:{}", 4 + 2 * i, hex_bytes(&rng.bytes(5))));
                }
                arch.push(write_plain(if k == 0 { "sync" } else { "async" }, &ops.join(";")).expect("write"));
                st.bump("archives_with_tiles_over_64KiB");
            }
            for (name, bytes, _, valid) in odd_archives(rng) {
                // (the re-addressing archive is not "valid" - ids are addressed twice - but what a lookup reads there is
                // decided by the directory order alone, which the specification-level reader follows too)
                if valid || name == "tile entry re-addressing an id of an earlier leaf" {
                    arch.push(bytes);
                }
            }
            // archives of another writer (tiles sharing a start offset with different lengths, unordered data)
            for k in 0..4 {
                let mut o = foreign_opts(rng, k + 1, true);
                o.n = 12 + 9 * k;
                o.icomp = [1u8, 2, 4, 3][k];
                arch.push(gen_foreign(rng, &o, st).bytes);
            }
            // a tile entry behind a leaf pointer re-addresses ids of that leaf (and vice versa): directory order decides
            for icomp in [1u8, 2] {
                let t = |id: u64, run: u32, off: u64, len: u32| spec::SEntry { id, off, len, run };
                let data: Vec<u8> = rng.bytes(200);
                let lz = spec::codec_compress(icomp, &spec::encode_dir(&[t(0, 8, 0, 10), t(9, 1, 10, 7)]));
                let re = [spec::SEntry { id: 0, off: 0, len: lz.len() as u32, run: 0 }, t(5, 1, 100, 8), t(9, 2, 120, 4), t(40, 1, 130, 3)];
                let b = raw_archive(icomp, &re, &lz, &data);
                for (k, (id, off, len)) in [(5u64, 100u64, 8u64), (4, 0, 10), (9, 120, 4), (10, 120, 4), (40, 130, 3), (0, 0, 10)].iter().enumerate() {
                    c.push(format!("chk_order_lookup {} {} {id:x} {off:x} {len:x}", if k % 2 == 0 { "sync" } else { "async" }, hex_bytes(&b)));
                }
                // the other way round: the tile entry first, then a leaf that re-addresses its id
                let re2 = [t(5, 1, 100, 8), spec::SEntry { id: 5, off: 0, len: lz.len() as u32, run: 0 }];
                let lz2 = spec::codec_compress(icomp, &spec::encode_dir(&[t(5, 2, 30, 6), t(9, 1, 10, 7)]));
                let re2 = [re2[0], spec::SEntry { len: lz2.len() as u32, ..re2[1] }];
                let b2 = raw_archive(icomp, &re2, &lz2, &data);
                for (k, (id, off, len)) in [(5u64, 30u64, 6u64), (6, 30, 6), (9, 10, 7)].iter().enumerate() {
                    c.push(format!("chk_order_lookup {} {} {id:x} {off:x} {len:x}", if k % 2 == 0 { "async" } else { "sync" }, hex_bytes(&b2)));
                }
                st.bump("ids_addressed_twice_directory_order_decides");
            }
            // told lengths that are too short for what the directory holds (root window, leaf pointers), without a codec
            {
                let t = |id: u64, run: u32, off: u64, len: u32| spec::SEntry { id, off, len, run };
                let data: Vec<u8> = rng.bytes(300);
                let root_tiles: Vec<spec::SEntry> = (0..20u64).map(|i| t(3 * i + 1, 1, 7 * i, 7)).collect();
                let full = raw_archive(1, &root_tiles, &[], &data);
                for cut in [1u64, 2, 3, 9, 40] {
                    let mut b = full.clone();
                    let mut h = spec::decode_header(&b).expect("header");
                    h.root_len -= cut.min(h.root_len - 1);
                    b[0..127].copy_from_slice(&spec::encode_header(&h));
                    for mode in ["sync", "async"] {
                        c.push(format!("chk_windows_told {mode} {}", hex_bytes(&b)));
                    }
                    st.bump("told_root_length_too_short");
                }
                let l1 = spec::encode_dir(&(0..15u64).map(|i| t(2 * i, 1, 5 * i, 5)).collect::<Vec<_>>());
                let l2 = spec::encode_dir(&(0..15u64).map(|i| t(100 + 2 * i, 1, 75 + 5 * i, 5)).collect::<Vec<_>>());
                let mut ls = l1.clone();
                ls.extend_from_slice(&l2);
                for cut in [1u32, 2, 7] {
                    // the second pointer's told length is short: reading on would run out of the leaf section into the tile data
                    let ptrs = [spec::SEntry { id: 0, off: 0, len: l1.len() as u32, run: 0 }, spec::SEntry { id: 100, off: l1.len() as u64, len: l2.len() as u32 - cut, run: 0 }];
                    let mut b = raw_archive(1, &ptrs, &ls, &data);
                    let mut h = spec::decode_header(&b).expect("header");
                    h.leaf_len -= u64::from(cut);
                    b[0..127].copy_from_slice(&spec::encode_header(&h));
                    for mode in ["sync", "async"] {
                        c.push(format!("chk_windows_told {mode} {}", hex_bytes(&b)));
                    }
                    st.bump("told_leaf_length_too_short");
                }
            }
            // archives holding tile 0 (first in the list, so that the range ..0 meets one)
            arch.insert(0, write_plain("sync", "c:none;a:0:aabb;a:1:ccdd;a:2:aabb;a:9:0102030405").expect("write"));
            arch.insert(1, write_plain("async", "a:0:aabbcc;a:5:ccdd").expect("write"));
            for (k, b) in arch.iter().enumerate() {
                let v = match spec::parse(b, false) {
                    Ok(v) => v,
                    Err(_) => continue,
                };
                let mut pts: Vec<u64> = v.tile_entries.iter().take(3).map(|e| e.id).collect();
                pts.extend(v.root.iter().filter(|e| e.run == 0).take(3).map(|e| e.id));
                pts.push(0);
                let mut ranges = vec![FULL, (Bound::Included(pts[0]), Bound::Unbounded), (Bound::Unbounded, Bound::Excluded(*pts.last().unwrap_or(&0) + 2)), (Bound::Included(pts[pts.len() / 2]), Bound::Included(pts[pts.len() / 2] + 50))];
                // empty and inverted ranges, and ranges ending just before the first tile
                match k % 4 {
                    0 => ranges.push((Bound::Unbounded, Bound::Excluded(0))),
                    1 => ranges.push((Bound::Included(0), Bound::Excluded(0))),
                    2 => ranges.push((Bound::Unbounded, Bound::Excluded(pts[0]))),
                    _ => ranges.push((Bound::Included(pts[0] + 1), Bound::Excluded(pts[0]))),
                }
                for (j, rg) in ranges.iter().enumerate() {
                    let mode = if (k + j) % 2 == 0 { "sync" } else { "async" };
                    c.push(format!("chk_lazy {mode} {} {}", range_tok(rg), hex_bytes(b)));
                    // without a codec the bytes read are exactly the windows the model requests
                    if v.header.icomp == 1 && b.len() < 60_000 {
                        c.push(format!("owin {mode} {} {}", range_tok(rg), hex_bytes(b)));
                    }
                }
            }
        }
        "C13" => {
            let mut archives = sample_archives(rng, true, st);
            // tiles larger than any plausible internal transfer unit (64 KiB, 128 KiB): short transfers inside one tile
            {
                let mut ops = vec!["c:none".to_string()];
                for (i, n) in [70_000usize, 3, 140_001, 65_536, 65_537].iter().enumerate() {
                    ops.push(format!("a:{:x}:{}", 5 * i + 1, hex_bytes(&rng.bytes(*n))));
                }
                archives.insert(1, write_plain("sync", &ops.join(";")).expect("write"));
                st.bump("archives_with_tiles_over_64k");
            }
            for (_, bytes, _, _) in odd_archives(rng) {
                archives.push(bytes);
            }
            // archives of another writer whose metadata section carries padding behind the compressed stream: whatever the
            // reader makes of it, it must make the same of it under every fragmentation
            for (k, comp) in [2u8, 3, 4, 1].iter().enumerate() {
                let mut s2 = Stats::default();
                let f = gen_foreign(rng, &ForeignOpts { n: 5, depth: (k % 2) as u32, icomp: *comp, permute: false, unordered: false, empty_meta: false, merge_runs: true, unknown_counts: false, multi_frame: false }, &mut s2);
                let h = &f.header;
                let mut meta = f.bytes[h.meta_off as usize..(h.meta_off + h.meta_len) as usize].to_vec();
                meta.extend_from_slice(&[0u8; 9][..1 + k * 2]);
                let mut h2 = h.clone();
                let mut b = f.bytes.clone();
                h2.meta_off = b.len() as u64;
                h2.meta_len = meta.len() as u64;
                b.extend_from_slice(&meta);
                b[0..127].copy_from_slice(&spec::encode_header(&h2));
                archives.insert(2, b);
                st.bump("archives_with_padded_metadata");
            }
            // ... and whose metadata text starts with a byte order mark
            for (k, comp) in [1u8, 2, 4].iter().enumerate() {
                let mut s2 = Stats::default();
                let f = gen_foreign(rng, &ForeignOpts { n: 4, depth: 0, icomp: *comp, permute: false, unordered: false, empty_meta: false, merge_runs: true, unknown_counts: false, multi_frame: false }, &mut s2);
                let mut text = vec![0xEFu8, 0xBB, 0xBF];
                text.extend_from_slice(&f.meta);
                let meta = spec::codec_compress(*comp, &text);
                let mut h2 = f.header.clone();
                let mut b = f.bytes.clone();
                h2.meta_off = b.len() as u64;
                h2.meta_len = meta.len() as u64;
                b.extend_from_slice(&meta);
                b[0..127].copy_from_slice(&spec::encode_header(&h2));
                archives.insert(2 + k, b);
                st.bump("archives_with_bom_metadata");
            }
            for (k, b) in archives.iter().enumerate() {
                for mode in ["sync", "async"] {
                    c.push(format!("chk_sched open {mode} {:x} {} u_u", rng.next(), hex_bytes(b)));
                    if k % 2 == 0 && b.len() < 400_000 {
                        c.push(format!("chk_sched rewrite {mode} {:x} {}", rng.next(), hex_bytes(b)));
                    }
                    if k % 3 == 0 {
                        c.push(format!("chk_sched open {mode} {:x} {} i3_u", rng.next(), hex_bytes(b)));
                    }
                    if let Ok(h) = spec::decode_header(b) {
                        c.push(format!("chk_sched rdirs {mode} {:x} {} {} {:x} {:x} {:x} u_u", rng.next(), hex_bytes(b), ["unknown", "none", "gzip", "brotli", "zstd"][h.icomp as usize % 5], h.root_off, h.root_len, h.leaf_off));
                        c.push(format!("chk_sched hdr_r {mode} {:x} {}", rng.next(), hex_bytes(&b[..127.min(b.len())])));
                    }
                }
            }
            // writers
            for k in 0..(if quick { 10 } else { 60 }) {
                let mode = if k % 2 == 0 { "sync" } else { "async" };
                let ops = if k % 5 == 4 { spill_ops(rng, 4300, Compression::None) } else { small_logical_ops(rng, [0, 2, 9, 40][k % 4], st, None) };
                c.push(format!("chk_sched write {mode} {:x} - {ops}", rng.next()));
                let f = crate::p_codec::rand_header_fields(rng);
                c.push(format!("chk_sched hdr_w {mode} {:x} - {}", rng.next(), f.join(" ")));
                let es = valid_entries(rng, 1 + k * 3, true, k % 3 == 0, st);
                let comp = ALL_COMP[k % 4];
                c.push(format!("chk_sched dir_w {mode} {:x} - {} {}", rng.next(), comp_tok(comp), entries_tok(&es)));
                let enc = crate::ops::dir_enc(false, comp, &es).expect("enc");
                c.push(format!("chk_sched dir_r {mode} {:x} {} {}", rng.next(), hex_bytes(&enc), comp_tok(comp)));
                c.push(format!("chk_sched wdirs {mode} {:x} - {} 2 {}", rng.next(), comp_tok(comp), entries_tok(&es)));
            }
            // directories whose varints have every width up to the widest (10 bytes: values from 2^63 on)
            {
                let mut es: Vec<pmtiles2::Entry> = Vec::new();
                let mut id = 0u64;
                for w in 1..=9u32 {
                    id += 1u64 << (7 * w - 1);
                    es.push(pmtiles2::Entry { tile_id: id, offset: (1u64 << (7 * w - 1)) + 3, length: (1u64 << (7 * w - 1).min(31)) as u32, run_length: 1 + (w % 2) });
                }
                es.push(pmtiles2::Entry { tile_id: (1 << 63) + 77, offset: (1 << 63) + 5, length: u32::MAX, run_length: u32::MAX });
                es.push(pmtiles2::Entry { tile_id: u64::MAX - 9, offset: u64::MAX - 1 - u64::from(u32::MAX), length: u32::MAX, run_length: 3 });
                let first_wide = vec![pmtiles2::Entry { tile_id: (1 << 63) + 1, offset: u64::MAX - 2, length: 1, run_length: 1 }];
                for (k, list) in [es, first_wide].iter().enumerate() {
                    for (j, comp) in ALL_COMP.iter().enumerate() {
                        let mode = if (k + j) % 2 == 0 { "sync" } else { "async" };
                        let other = if mode == "sync" { "async" } else { "sync" };
                        let enc = crate::ops::dir_enc(false, *comp, list).expect("enc");
                        c.push(format!("chk_sched dir_r {mode} {:x} {} {}", rng.next(), hex_bytes(&enc), comp_tok(*comp)));
                        c.push(format!("chk_sched dir_r {other} {:x} {} {}", rng.next(), hex_bytes(&enc), comp_tok(*comp)));
                        c.push(format!("chk_sched dir_w {mode} {:x} - {} {}", rng.next(), comp_tok(*comp), entries_tok(list)));
                    }
                }
                st.bump("directories_with_ten_byte_varints");
            }
            let big = valid_entries(rng, 9000, false, false, st);
            // a directory of more than 16 KiB on its own, and archives whose metadata exceeds 16 KiB / 64 KiB
            for (k, comp) in [Compression::None, Compression::None, Compression::GZip, Compression::ZStd].iter().enumerate() {
                let mode = if k % 2 == 0 { "async" } else { "sync" };
                c.push(format!("chk_sched dir_w {mode} {:x} - {} {}", rng.next(), comp_tok(*comp), entries_tok(&big)));
                let blob: String = (0..(20_000 + 30_000 * k)).map(|i| char::from(b'a' + (i % 26) as u8)).collect();
                let meta = format!("{{\"k\":\"{blob}\",\"n\":{k}}}");
                c.push(format!("chk_sched write {mode} {:x} - c:{};m:{};a:3:0102;a:9:{}", rng.next(), comp_tok(*comp), hex_bytes(meta.as_bytes()), hex_bytes(&rng.bytes(40))));
                st.bump("directories_and_metadata_over_16KiB_under_schedules");
            }
            c.push(format!("chk_sched wdirs sync {:x} - none - {}", rng.next(), entries_tok(&big)));
            c.push(format!("chk_sched wdirs async {:x} - gzip 40 {}", rng.next(), entries_tok(&big)));
            // the model's combinators (IO.v) against std / futures on scheduled streams
            for k in 0..(if quick { 150 } else { 2000 }) {
                let mode = if k % 2 == 0 { "sync" } else { "async" };
                let img = rng.bytes_range(0, 40);
                let pos = rng.below(img.len() as u64 + 3);
                let n = rng.below(img.len() as u64 + 4);
                let sched: Vec<u64> = (0..rng.below(12)).map(|_| rng.range(1, 6)).collect();
                c.push(format!("io_read_exact {mode} {n:x} {pos:x} {} {}", nums_tok(&sched), hex_bytes(&img)));
                c.push(format!("io_read_to_end {mode} {:x} {pos:x} {} {}", rng.below(img.len() as u64 + 5), nums_tok(&sched), hex_bytes(&img)));
                let bs = rng.bytes_range(0, 30);
                c.push(format!("io_write_all {mode} {pos:x} {} {} {}", nums_tok(&sched), hex_bytes(&img), hex_bytes(&bs)));
                st.bump("io_combinator_cases");
            }
            // exhaustive compositions of small inputs
            for k in 0..(if quick { 6 } else { 30 }) {
                let n = 1 + k % 3;
                let es: Vec<pmtiles2::Entry> = valid_entries(rng, n, true, false, st).into_iter().map(|mut e| { e.tile_id %= 100; e.offset %= 100; e.length = 1 + e.length % 100; e.run_length %= 100; e }).collect();
                let mut es = es;
                es.sort_by_key(|e| e.tile_id);
                es.dedup_by_key(|e| e.tile_id);
                let mut fixed: Vec<pmtiles2::Entry> = Vec::new();
                let mut next = 0u64;
                for mut e in es {
                    e.tile_id = e.tile_id.max(next);
                    next = e.tile_id + u64::from(e.run_length.max(1));
                    fixed.push(e);
                }
                let plain = crate::ops::dir_enc(false, Compression::None, &fixed).expect("enc");
                if plain.len() > (if quick { 13 } else { 16 }) {
                    continue;
                }
                for mode in ["sync", "async"] {
                    c.push(format!("chk_sched_all dir_r {mode} {:x} {} none", plain.len(), hex_bytes(&plain)));
                    c.push(format!("chk_sched_all dir_w {mode} {:x} - none {}", plain.len(), entries_tok(&fixed)));
                }
                st.bump("exhaustive_composition_inputs");
            }
        }
        "C15" => {
            let archives = sample_archives(rng, quick, st);
            for (k, b) in archives.iter().enumerate() {
                let mode = if k % 2 == 0 { "sync" } else { "async" };
                c.push(format!("chk_fault open {mode} {} u_u", hex_bytes(b)));
                c.push(format!("chk_fault_lookup {mode} {}", hex_bytes(b)));
                if b.len() < 200_000 {
                    // re-writing an opened archive while its input stream fails
                    c.push(format!("chk_fault rewrite {mode} {}", hex_bytes(b)));
                }
                if let Ok(h) = spec::decode_header(b) {
                    c.push(format!("chk_fault rdirs {mode} {} {} {:x} {:x} {:x} u_u", hex_bytes(b), ["unknown", "none", "gzip", "brotli", "zstd"][h.icomp as usize % 5], h.root_off, h.root_len, h.leaf_off));
                    c.push(format!("chk_fault hdr_r {mode} {}", hex_bytes(&b[..127.min(b.len())])));
                }
            }
            // small archives with leaf directories opened with end- and start-bounded ranges: every operation x every
            // error kind x with / without a message (an error must not be mistaken for an internal signal)
            {
                let t = |id: u64, run: u32, off: u64, len: u32| spec::SEntry { id, off, len, run };
                let data: Vec<u8> = rng.bytes(60);
                for icomp in [1u8, 2] {
                    let l1 = spec::codec_compress(icomp, &spec::encode_dir(&[t(0, 1, 0, 4), t(1, 3, 4, 6), t(7, 1, 10, 2)]));
                    let l2 = spec::codec_compress(icomp, &spec::encode_dir(&[t(30, 2, 20, 5), t(40, 1, 25, 9)]));
                    let mut ls = l1.clone();
                    ls.extend_from_slice(&l2);
                    let root = [spec::SEntry { id: 0, off: 0, len: l1.len() as u32, run: 0 }, spec::SEntry { id: 30, off: l1.len() as u64, len: l2.len() as u32, run: 0 }];
                    let b = raw_archive(icomp, &root, &ls, &data);
                    for (k, rg) in ["u_u", "i2_i5", "u_i5", "i1f_u", "u_e0", "i8_i1d"].iter().enumerate() {
                        c.push(format!("chk_fault_allkinds open {} {} {rg}", if k % 2 == 0 { "sync" } else { "async" }, hex_bytes(&b)));
                        st.bump("open_faults_every_kind_with_and_without_message");
                    }
                }
            }
            // hostile archives (whose fault-free open is an error): a fault at any operation must still not panic
            for (name, b) in hazards() {
                if name.starts_with("arch") && declared_budget(&b).0 <= 20_000 {
                    for mode in ["sync", "async"] {
                        c.push(format!("chk_fault_nopanic open {mode} {} u_u", hex_bytes(&b)));
                    }
                    st.bump("hostile_archives_under_faults");
                }
            }
            let mut k = 0;
            for comp in ALL_COMP {
                for n in [0usize, 3, 30] {
                    for mode in ["sync", "async"] {
                        let ops = small_logical_ops(rng, n, st, Some(comp));
                        c.push(format!("chk_fault write {mode} - {ops}"));
                        let es = valid_entries(rng, 1 + n * 2, true, false, st);
                        c.push(format!("chk_fault dir_w {mode} - {} {}", comp_tok(comp), entries_tok(&es)));
                        let enc = crate::ops::dir_enc(false, comp, &es).expect("enc");
                        c.push(format!("chk_fault dir_r {mode} {} {}", hex_bytes(&enc), comp_tok(comp)));
                        c.push(format!("chk_fault wdirs {mode} - {} - {}", comp_tok(comp), entries_tok(&es)));
                        k += 1;
                    }
                }
                let f = crate::p_codec::rand_header_fields(rng);
                c.push(format!("chk_fault hdr_w {} - {}", if k % 2 == 0 { "sync" } else { "async" }, f.join(" ")));
            }
            c.push(format!("chk_fault write sync - {}", spill_ops(rng, 4300, Compression::None)));
            c.push(format!("chk_fault write async - {}", spill_ops(rng, 9000, Compression::GZip)));
            let big = valid_entries(rng, 9000, false, false, st);
            // directories of more than 2^16 entries on their own
            c.push("chk_fault dir_w sync - zstd R11800".to_string());
            c.push("chk_fault dir_w async - gzip R11170".to_string());
            st.bump("directory_writer_over_65536_entries");
            c.push(format!("chk_fault wdirs sync - gzip 50 {}", entries_tok(&big)));
            c.push(format!("chk_fault wdirs async - none - {}", entries_tok(&big)));
        }
        "C12" => {
            // histories with saves, opens of foreign archives and partial opens
            for k in 0..(if quick { 30 } else { 250 }) {
                let n = [0usize, 1, 4, 20, 80][k % 5];
                let l = gen_logical(rng, n, k % 7 == 0, st);
                let mut ops = settings_ops(&l);
                ops.extend(add_ops(&l, rng, true));
                ops.push("s:X:Y".into());
                ops.push("q;l;n".into());
                for id in l.tiles.keys().take(25) {
                    ops.push(format!("g:{id:x}"));
                }
                ops.push("w:X:5:0102030405".into());
                c.push(format!("chk_sa_hist {}", ops.join(";")));
                st.bump(&format!("sa_hist_{}", comp_tok(l.icomp)));
            }
            for k in 0..(if quick { 16 } else { 120 }) {
                let mut o = foreign_opts(rng, k, true);
                o.n = o.n.min(200);
                let f = gen_foreign(rng, &o, st);
                let rg = if k % 2 == 0 { FULL } else { (Bound::Included(*f.leaf_first_ids.first().unwrap_or(&3)), Bound::Excluded(*f.run_bounds.last().unwrap_or(&9))) };
                let mut ops = vec![format!("o:X:{}:{}", range_tok(&rg), hex_bytes(&f.bytes)), "q;l;n".into()];
                for id in f.tiles.keys().take(20) {
                    ops.push(format!("g:{id:x}"));
                }
                ops.push("s:X:Y".into());
                ops.push("l;n".into());
                c.push(format!("chk_sa_hist {}", ops.join(";")));
            }
            c.push(format!("chk_sa_hist {};s:X:Y;l;n", spill_ops(rng, 4300, Compression::None)));
            // archives of another writer in which tiles share a start offset with different lengths (always present,
            // whatever the random sample holds): opened, looked up and saved by both families
            for icomp in [1u8, 2, 4] {
                let t = |id: u64, run: u32, off: u64, len: u32| spec::SEntry { id, off, len, run };
                let data: Vec<u8> = rng.bytes(64);
                let b = raw_archive(icomp, &[t(1, 1, 0, 10), t(2, 1, 0, 4), t(3, 2, 4, 6), t(9, 1, 0, 7), t(12, 1, 20, 9), t(13, 1, 20, 30)], &[], &data);
                c.push(format!("chk_sa_hist o:X:u_u:{};l;n;g:1;g:2;g:3;g:9;g:c;g:d;s:X:Y;l;n;g:2;g:9;g:d;w:X:0:-", hex_bytes(&b)));
                st.bump("foreign_tiles_sharing_a_start_offset");
            }
            // asynchronous lookups that are given up half-way (the synchronous API has no such thing: afterwards the two
            // families must still agree)
            for (k, b) in sample_archives(rng, true, st).iter().enumerate().take(6) {
                let _ = k;
                c.push(format!("chk_cancel {}", hex_bytes(b)));
                st.bump("cancelled_async_lookups");
            }
            c.push(format!("chk_cancel {}", hex_bytes(&write_plain("async", &format!("c:none;a:3:{};a:4:0102;a:9:{}", hex_bytes(&rng.bytes(70_000)), hex_bytes(&rng.bytes(300)))).expect("write"))));
            // unusual directory structures (overlapping runs, mixed directories): whatever one family makes of them, the
            // other must make the same
            for (name, bytes, pts, _valid) in odd_archives(rng) {
                let probes: Vec<String> = pts.iter().flat_map(|p| [format!("g:{p:x}"), format!("g:{:x}", p + 1)]).collect();
                let mut rgs: Vec<String> = vec!["u_u".into(), "i3_u".into(), "u_e6".into()];
                for p in pts.iter().skip(1).take(5) {
                    rgs.push(format!("i{p:x}_u"));
                    rgs.push(format!("e{p:x}_u"));
                    rgs.push(format!("u_i{p:x}"));
                    rgs.push(format!("i{:x}_i{:x}", p + 1, p + 30));
                }
                for rg in rgs {
                    c.push(format!("chk_sa_hist o:X:{rg}:{};l;n;{}", hex_bytes(&bytes), probes.join(";")));
                }
                st.bump(&format!("odd_{}", name.replace(' ', "_")));
            }
            // gzip sections made of several members (content split over two members; a complete member followed by another)
            for k in 0..4usize {
                let mut s2 = Stats::default();
                let f = gen_foreign(rng, &ForeignOpts { n: 6, depth: 0, icomp: 2, permute: false, unordered: false, empty_meta: false, merge_runs: true, unknown_counts: false, multi_frame: false }, &mut s2);
                let h = &f.header;
                let gz = |b: &[u8]| spec::codec_compress(2, b);
                let (off, len, is_meta) = if k % 2 == 0 { (h.meta_off, h.meta_len, true) } else { (h.root_off, h.root_len, false) };
                let plain = spec::codec_decompress(2, &f.bytes[off as usize..(off + len) as usize]).expect("gz");
                let sec: Vec<u8> = if k < 2 {
                    let cut = plain.len() / 2;
                    let mut v = gz(&plain[..cut]);
                    v.extend_from_slice(&gz(&plain[cut..]));
                    v
                } else {
                    let mut v = gz(&plain);
                    v.extend_from_slice(&gz(b"{\"x\":1}"));
                    v
                };
                let mut h2 = h.clone();
                let mut b = f.bytes.clone();
                if is_meta {
                    h2.meta_off = b.len() as u64;
                    h2.meta_len = sec.len() as u64;
                } else {
                    h2.root_off = b.len() as u64;
                    h2.root_len = sec.len() as u64;
                }
                b.extend_from_slice(&sec);
                b[0..127].copy_from_slice(&spec::encode_header(&h2));
                c.push(format!("chk_sa_hist o:X:u_u:{};q;l;n;g:0", hex_bytes(&b)));
                st.bump("gzip_multi_member_sections");
            }
            // range-filtered opens with bounds at 0 and at the top, on archives that contain tile 0
            for k in 0..(if quick { 6 } else { 40 }) {
                let mut ops0 = vec!["a:0:0101".to_string(), "a:1:0202".into(), format!("a:{:x}:0303", BASE32 - 1)];
                ops0.push(small_logical_ops(rng, 5 + k, st, Some(ALL_COMP[k % 4])));
                let b = write_plain(if k % 2 == 0 { "sync" } else { "async" }, &ops0.join(";")).expect("write");
                for rg in ["u_e0", "i0_e0", "i0_i0", "e0_u", "u_i0", "e0_e1", "i0_e1", "u_u", "i1_u", "e5555555555555553_u", "i5555555555555554_i5555555555555554", "u_effffffffffffffff", "effffffffffffffff_u", "i5_i3"] {
                    c.push(format!("chk_sa_hist o:X:{rg}:{};l;n;g:0;g:1;g:5555555555555554", hex_bytes(&b)));
                }
            }
            // metadata of many sizes (in particular beyond any internal buffer size), every codec
            for (k, size) in [0usize, 1, 100, 4000, 16_383, 16_384, 16_385, 20_000, 70_000, 300_000].iter().enumerate() {
                for (j, comp) in ALL_COMP.iter().enumerate() {
                    if quick && (k + j) % 2 == 1 && *size != 20_000 {
                        continue;
                    }
                    // {"k":"xyxy..."} with a text that does not compress to nothing
                    let mut text = String::with_capacity(*size);
                    while text.len() < *size {
                        text.push(char::from(b'a' + (rng.next() % 26) as u8));
                    }
                    let json = format!("{{\"k\":\"{text}\"}}");
                    c.push(format!("chk_sa_hist c:{};m:{};a:3:0102;s:X:Y;q;l;n;g:3", comp_tok(*comp), hex_bytes(json.as_bytes())));
                    st.bump("sa_metadata_sizes");
                }
            }
            // lookups by coordinates inside, at the edge of and outside the grid (zoom 32 has ids but no grid)
            {
                let mut ops: Vec<String> = Vec::new();
                for id in [0u64, 1, 4, BASE32 - 1, BASE32, BASE32 + 1, BASE32 + 5, crate::p_codec::ref_tile_id(31, 5, 3), crate::p_codec::ref_tile_id(5, 3, 7), crate::p_codec::ref_tile_id(5, 7, 3)] {
                    ops.push(format!("a:{id:x}:{:02x}{:02x}", id % 251, id % 7));
                }
                let mut probes: Vec<String> = Vec::new();
                for z in [0u8, 1, 5, 31, 32, 33, 64, 255] {
                    for (x, y) in [(0u64, 0u64), (1, 0), (0, 1), (3, 7), (7, 3), (5, 3), (u64::from(u32::MAX), 0), (1 << 31, 1 << 31), (u64::MAX, 0)] {
                        probes.push(format!("x:{x:x}:{y:x}:{z:x}"));
                    }
                }
                c.push(format!("chk_sa_hist {};{}", ops.join(";"), probes.join(";")));
                c.push(format!("chk_sa_hist {};s:X:Y;{}", ops.join(";"), probes.join(";")));
                st.bump("sa_coordinate_lookups");
            }
            // single operations
            for k in 0..(if quick { 60 } else { 600 }) {
                let es = valid_entries(rng, 1 + k % 50, true, k % 3 == 0, st);
                let comp = ALL_COMP[k % 4];
                c.push(format!("chk_sa_op dir_enc MODE {} {}", comp_tok(comp), entries_tok(&es)));
                let enc = crate::ops::dir_enc(k % 2 == 0, comp, &es).expect("enc");
                c.push(format!("chk_sa_op dir_dec MODE {} {}", comp_tok(comp), hex_bytes(&enc)));
                c.push(format!("chk_sa_op hdr_enc MODE {}", crate::p_codec::rand_header_fields(rng).join(" ")));
                c.push(format!("chk_sa_op hdr_dec MODE {}", hex_bytes(&spec::encode_header(&crate::p_codec::rand_sheader(rng)))));
                let es2 = valid_entries(rng, 1 + k % 50, false, false, st);
                c.push(format!("chk_sa_op wdirs MODE {} {} {:x} - {}", comp_tok(comp), ["-", "1", "5"][k % 3], [0u64, 127][k % 2], entries_tok(&es2)));
            }
            let big = valid_entries(rng, 9000, false, false, st);
            c.push(format!("chk_sa_op wdirs MODE none - 0 - {}", entries_tok(&big)));
            c.push(format!("chk_sa_op wdirs MODE zstd 100 7f - {}", entries_tok(&big)));
            for b in sample_archives(rng, true, st).iter().take(12) {
                if let Ok(h) = spec::decode_header(b) {
                    c.push(format!("chk_sa_op rdirs MODE {} {:x} {:x} {:x} u_u {}", ["unknown", "none", "gzip", "brotli", "zstd"][h.icomp as usize % 5], h.root_off, h.root_len, h.leaf_off, hex_bytes(b)));
                }
            }
        }
        "C14" => {
            let sizes: Vec<usize> = if quick { vec![0, 1, 2, 100, 5000, 70_000, 1_200_000] } else { vec![0, 1, 2, 17, 100, 5000, 70_000, 1_200_000, 6_000_000] };
            for comp in ALL_COMP {
                for (i, &s) in sizes.iter().enumerate() {
                    for kind in 0..9u64 {
                        if (kind <= 1) && i > 1 {
                            continue;
                        }
                        if kind >= 5 && (s > 70_000 || s == 2) {
                            continue;
                        }
                        if s > 1_000_000 && kind != 2 && kind != 3 {
                            continue;
                        }
                        c.push(format!("chk_codec {} {kind:x} {s:x} {:x}", comp_tok(comp), rng.next()));
                        st.bump(&format!("codec_{}", comp_tok(comp)));
                    }
                }
            }
            c.push("chk_codec_unknown".into());
            // inputs just beyond 2^27 bytes (window-size limits of the codecs' formats)
            for comp in [Compression::ZStd, Compression::GZip] {
                c.push(format!("chk_codec_big {} {:x}", comp_tok(comp), (1usize << 27) + 1));
                st.bump("codec_inputs_over_128MiB");
            }
            // an input just beyond 2^32 bytes (gzip records its length modulo 2^32; about 13 GiB of memory while it runs)
            if mem_available_gib() >= 24 {
                c.insert(0, format!("chk_codec_big gzip {:x}", (1u64 << 32) + 5));
                st.bump("codec_input_over_4GiB");
            } else {
                st.bump("codec_input_over_4GiB_skipped_for_lack_of_memory");
            }
            for k in 0..8u64 {
                c.push(format!("chk_gzip_export {k:x} {:x} {:x} {:x}", k % 5, [0usize, 1, 300, 70_000][k as usize % 4], rng.next()));
            }
            // the model's glue (Unknown => Err, None = identity) against the implementation
            for comp in ["unknown", "none", "gzip", "brotli", "zstd"] {
                for mode in ["sync", "async"] {
                    c.push(format!("dir_enc {mode} {comp} -"));
                    c.push(format!("dir_enc {mode} {comp} 1.0.1.1"));
                }
            }
        }
        "C08" => {
            for (name, b) in hazards() {
                st.bump("hazard_corpus");
                let hb = hex_bytes(&b);
                if name.starts_with("dir:") {
                    for comp in ALL_COMP {
                        c.push(format!("chk_nocrash_dir {} {hb}", comp_tok(comp)));
                    }
                    c.push(format!("dir_dec sync none {hb}"));
                    c.push(format!("dir_dec async none {hb}"));
                } else {
                    c.push(format!("chk_nocrash_arch {hb}"));
                    if !name.contains("codec") && declared_budget(&b).0 <= 20_000 {
                        c.push(format!("hist sync o:s:u_u:{hb};l;n;g:0;g:7;s:s:s;l"));
                        c.push(format!("hist async o:a:e0_u:{hb};l;n"));
                    }
                }
            }
            // small valid archives: every prefix, every boundary substitution; structure-aware mutations
            let mut bases: Vec<Vec<u8>> = Vec::new();
            bases.push(write_plain("sync", "c:none;a:0:0102;a:1:0102;a:5:07").expect("w"));
            bases.push(write_plain("sync", "c:gzip;a:3:0102;m:7b2261223a317d").expect("w"));
            for k in 0..(if quick { 6 } else { 30 }) {
                let mut o = foreign_opts(rng, k + 2, true);
                o.n = o.n.min(if k % 2 == 0 { 8 } else { 120 });
                bases.push(gen_foreign(rng, &o, st).bytes);
            }
            for (bi, base) in bases.iter().enumerate() {
                let none_codec = base.len() > 97 && base[97] == 1;
                for (mi, m) in mutate_archives(rng, base, quick).into_iter().enumerate() {
                    let hb = hex_bytes(&m);
                    c.push(format!("chk_nocrash_arch {hb}"));
                    c.push(format!("chk_nocrash_hdr {}", hex_bytes(&m[..m.len().min(140)])));
                    if none_codec && (mi % 9 == 0) && declared_budget(&m).0 <= 20_000 && bi % 2 == 0 {
                        c.push(format!("hist sync o:s:u_u:{hb};l;n;s:s:s;l"));
                    }
                    st.bump("archive_mutations");
                }
            }
            for k in 0..(if quick { 300 } else { 5000 }) {
                let es = valid_entries(rng, 1 + k % 12, true, true, st);
                let b = mutate_varint_fields(rng, &es);
                let hb = hex_bytes(&b);
                c.push(format!("chk_nocrash_dir none {hb}"));
                c.push(format!("dir_dec {} none {hb}", if k % 2 == 0 { "sync" } else { "async" }));
                st.bump("varint_field_mutations");
            }
            // leaf chains far deeper than any stack could follow (the depth limit must stop them)
            for n in [1usize, 2, 3, 4, 1000, 300_000] {
                c.push(format!("chk_nocrash_chain fwd {n:x}"));
                c.push(format!("chk_nocrash_chain back {n:x}"));
                st.bump("leaf_chains");
            }
            for id in [0u64, 1, BASE32 - 1, BASE32, u64::MAX, 1 << 63] {
                c.push(format!("zxy {id:x}"));
            }
        }
        _ => return None,
    }
    Some(c)
}

pub fn run_chk(toks: &[&str]) -> Option<String> {
    Some(match toks {
        ["chk_startpos", mode, p, pre, ops] => {
            let (p, pre) = (unhex_u64(p), unhex_bytes(pre));
            guard_chk(|| chk_startpos(mode, p, &pre, ops))
        }
        ["chk_startpos_rel", mode, ops] => guard_chk(|| chk_startpos_rel(mode, ops)),
        ["chk_startpos_foreign", mode, p, b] => {
            let (p, b) = (unhex_u64(p), unhex_bytes(b));
            guard_chk(|| chk_startpos_foreign(mode, p, &b))
        }
        ["chk_startpos_sparse", mode, p, n, g] => {
            let (p, n, g) = (unhex_u64(p), unhex_u64(n), unhex_u64(g));
            guard_chk(|| chk_startpos_sparse(mode, p, n, g))
        }
        ["chk_torn", mode, ops] => guard_chk(|| chk_torn(mode, ops)),
        ["chk_torn_giant", mode] => guard_chk(|| chk_torn_giant(mode)),
        ["chk_order_lookup", mode, b, id, off, len] => {
            let (b, id, off, len) = (unhex_bytes(b), unhex_u64(id), unhex_u64(off), unhex_u64(len));
            guard_chk(|| chk_order_lookup(mode, &b, id, off, len))
        }
        ["chk_cancel", b] => {
            let b = unhex_bytes(b);
            guard_chk(|| chk_cancel(&b))
        }
        ["chk_windows_told", mode, b] => {
            let b = unhex_bytes(b);
            guard_chk(|| chk_windows_told(mode, &b))
        }
        ["chk_lazy", mode, rg, b] => {
            let (rg, b) = (parse_range(rg), unhex_bytes(b));
            guard_chk(|| chk_lazy(mode, rg, &b))
        }
        ["chk_sched", kind, mode, seed, data, args @ ..] => {
            let (seed, data) = (unhex_u64(seed), unhex_bytes(data));
            guard_chk(|| chk_sched(kind, mode, seed, &data, args))
        }
        ["chk_sched_all", kind, mode, n, data, args @ ..] => {
            let (n, data) = (unhex_u64(n) as usize, unhex_bytes(data));
            guard_chk(|| chk_sched_all(kind, mode, &data, args, n))
        }
        ["chk_fault", kind, mode, data, args @ ..] => {
            let data = unhex_bytes(data);
            guard_chk(|| chk_fault(kind, mode, &data, args))
        }
        ["chk_fault_allkinds", kind, mode, data, args @ ..] => {
            let data = unhex_bytes(data);
            guard_chk(|| chk_fault_allkinds(kind, mode, &data, args))
        }
        ["chk_fault_nopanic", kind, mode, data, args @ ..] => {
            let data = unhex_bytes(data);
            guard_chk(|| chk_fault_nopanic(kind, mode, &data, args))
        }
        ["chk_fault_lookup", mode, data] => {
            let data = unhex_bytes(data);
            guard_chk(|| chk_fault_lookup(mode, &data))
        }
        ["chk_sa_hist", ops] => guard_chk(|| chk_sa_hist(ops)),
        ["chk_sa_op", rest @ ..] => guard_chk(|| chk_sa_op(rest)),
        ["chk_codec", c, kind, size, seed] => {
            let (c, kind, size, seed) = (parse_comp(c), unhex_u64(kind), unhex_u64(size) as usize, unhex_u64(seed));
            guard_chk(|| chk_codec(c, kind, size, seed))
        }
        ["chk_codec_unknown"] => guard_chk(chk_codec_unknown),
        ["chk_codec_big", c, size] => {
            let (c, size) = (parse_comp(c), unhex_u64(size) as usize);
            guard_chk(|| chk_codec_big(c, size))
        }
        ["chk_gzip_export", k, kind, size, seed] => {
            let dir = std::env::var("PM_WORKDIR").unwrap_or_else(|_| "/verif/work/C14".into());
            let (k, kind, size, seed) = (unhex_u64(k), unhex_u64(kind), unhex_u64(size) as usize, unhex_u64(seed));
            guard_chk(|| chk_gzip_export(&dir, k, kind, size, seed))
        }
        ["chk_nocrash_arch", b] => {
            let b = unhex_bytes(b);
            guard_chk(|| chk_nocrash_arch(&b))
        }
        ["chk_nocrash_dir", c, b] => {
            let (c, b) = (parse_comp(c), unhex_bytes(b));
            guard_chk(|| chk_nocrash_dir(c, &b))
        }
        ["chk_nocrash_hdr", b] => {
            let b = unhex_bytes(b);
            guard_chk(|| chk_nocrash_hdr(&b))
        }
        ["chk_nocrash_chain", dirn, n] => {
            let b = chain_archive(unhex_u64(n) as usize, *dirn == "fwd");
            guard_chk(|| chk_nocrash_arch(&b))
        }
        _ => return None,
    })
}
