//! C05: directory encoding is lossless and byte-exact.
use crate::gen_common::*;
use crate::ops::{dir_dec, dir_enc};
use crate::proto::*;
use crate::rng::Rng;
use pmtiles2::{Compression, Entry};

/// direct oracle: every codec and both API families round-trip; plain bytes equal the independent
/// encoder's; the parser reads the independent encoder's output.
pub fn chk_dir_roundtrip(es: &[Entry], all_codecs: bool) -> Result<(), String> {
    let spec = spec_encode_dir(es);
    for asy in [false, true] {
        let plain = dir_enc(asy, Compression::None, es).map_err(|e| format!("encode none failed: {e}"))?;
        if plain != spec {
            return Err(format!("plain bytes differ from the independent v3 encoder (async={asy})"));
        }
        let back = dir_dec(asy, Compression::None, &spec).map_err(|e| format!("decode of spec bytes failed: {e}"))?;
        if back != es {
            return Err(format!("decode(spec bytes) != entries (async={asy})"));
        }
        // trailing bytes after the directory must not matter for an uncompressed section read by length
    }
    let codecs: &[Compression] = if all_codecs { &ALL_COMP } else { &ALL_COMP[..1] };
    for &c in codecs {
        for asy_w in [false, true] {
            let enc = dir_enc(asy_w, c, es).map_err(|e| format!("encode {} failed: {e}", comp_tok(c)))?;
            for asy_r in [false, true] {
                let back = dir_dec(asy_r, c, &enc)
                    .map_err(|e| format!("decode {} failed: {e} (w async={asy_w}, r async={asy_r})", comp_tok(c)))?;
                if back != es {
                    return Err(format!("round trip {} changed entries (w async={asy_w}, r async={asy_r})", comp_tok(c)));
                }
            }
            let plain = pmtiles2::util::decompress_all(c, &enc).map_err(|e| format!("decompress: {e}"))?;
            if plain != spec {
                return Err(format!("decompressed {} bytes differ from the independent encoder", comp_tok(c)));
            }
        }
        // a slice that runs past the directory (the rest of a file, as in the doc example of Directory::from_bytes): the
        // parser stops after the last entry, whatever follows
        {
            let enc = dir_enc(false, c, es).map_err(|e| format!("encode {} failed: {e}", comp_tok(c)))?;
            for tail in [&b"\x00"[..], &b"PMTiles\x03 and the rest of a file \xff\xfe\x28\xb5\x2f\xfd"[..], &[0x1f, 0x8b, 0x08, 0, 0, 0][..]] {
                let mut open_ended = enc.clone();
                open_ended.extend_from_slice(tail);
                let d = pmtiles2::Directory::from_bytes(&open_ended, c)
                    .map_err(|e| format!("Directory::from_bytes of a {} directory followed by {} more bytes failed: {e}", comp_tok(c), tail.len()))?;
                if crate::ops::dir_entries(&d) != es {
                    return Err(format!("Directory::from_bytes of a {} directory followed by more bytes yields other entries", comp_tok(c)));
                }
            }
        }
        // the specification's bytes as another writer's encoder would compress them (other levels, window sizes, framing)
        if c != Compression::None {
            let v = spec.iter().fold(es.len() as u64, |a, b| a.wrapping_mul(131).wrapping_add(u64::from(*b)));
            for k in 0..2u64 {
                let foreign = crate::spec::codec_compress_variety(crate::ops2::comp_code(c) as u8, &spec, v.wrapping_add(k.wrapping_mul(7919)));
                for asy_r in [false, true] {
                    let back = dir_dec(asy_r, c, &foreign)
                        .map_err(|e| format!("decode of the specification's bytes compressed by another {} encoder failed: {e} (async={asy_r})", comp_tok(c)))?;
                    if back != es {
                        return Err(format!("the specification's bytes compressed by another {} encoder decode to other entries (async={asy_r})", comp_tok(c)));
                    }
                }
            }
        }
    }
    Ok(())
}

fn boundary_lists(quick: bool) -> Vec<Vec<Entry>> {
    // every case of the offset rule at index 0 and > 0, with boundary-sized fields
    let lens: &[u32] = if quick { &[1, 128] } else { &[1, 127, 128, u32::MAX] };
    let runs: &[u32] = &[1, 0, u32::MAX];
    let gaps: &[u64] = &[0, 1, 1 << 40];
    let mut out = Vec::new();
    // offset cases: 0 = contiguous (or 0 at index 0), 1 = offset 0, 2 = offset 1, 3 = contiguous+1, 4 = 2^62
    for n in 1..=3usize {
        let ncase = 5usize.pow(n as u32);
        let nlen = lens.len().pow(n as u32);
        for oc in 0..ncase {
            for lc in 0..nlen {
                let mut es: Vec<Entry> = Vec::new();
                let mut id: u64 = [0u64, 1, 16_383, (1 << 32) - 1][(oc + lc) % 4];
                let (mut o, mut l) = (oc, lc);
                for i in 0..n {
                    let ocase = o % 5;
                    o /= 5;
                    let length = lens[l % lens.len()];
                    l /= lens.len();
                    let run = runs[(oc / 7 + lc + i) % runs.len()];
                    let contiguous = if i == 0 { 0 } else { es[i - 1].offset + u64::from(es[i - 1].length) };
                    let offset = match ocase {
                        0 => contiguous,
                        1 => 0,
                        2 => 1,
                        3 => contiguous + 1,
                        _ => 1u64 << 62,
                    };
                    es.push(Entry { tile_id: id, offset, length, run_length: run });
                    id += u64::from(run.max(1)) + gaps[(oc + i) % gaps.len()];
                }
                out.push(es);
            }
        }
    }
    out
}

pub fn gen(rng: &mut Rng, quick: bool, st: &mut Stats) -> Vec<String> {
    let mut cases = Vec::new();
    let mut lists: Vec<Vec<Entry>> = vec![vec![]];
    let b = boundary_lists(quick);
    st.add("lists_boundary_exhaustive", b.len() as u64);
    lists.extend(b);
    let nrand = if quick { 300 } else { 4000 };
    for i in 0..nrand {
        let n = match i % 10 {
            0..=4 => rng.range(1, 12) as usize,
            5..=7 => rng.range(12, 200) as usize,
            8 => rng.range(200, 3000) as usize,
            _ => rng.range(1, 40) as usize,
        };
        let big = i % 3 == 0;
        lists.push(valid_entries(rng, n, true, big, st));
    }
    if !quick {
        for _ in 0..4 {
            let n = rng.range(20_000, 100_000) as usize;
            lists.push(valid_entries(rng, n, true, false, st));
        }
    }
    st.add("lists_random", nrand);
    // entries whose fields all need the widest varints (id deltas >= 2^56, runs and lengths >= 2^28, offsets >= 2^63)
    for n in [1usize, 2, 3, 4, 7] {
        let mut es: Vec<Entry> = Vec::new();
        let mut id: u64 = 1 << 56;
        for k in 0..n {
            let off: u64 = (1u64 << 63) + (k as u64) * ((1u64 << 32) + 12345) * 3 + rng.below(1000);
            es.push(Entry { tile_id: id, offset: off, length: u32::MAX - k as u32, run_length: if k % 3 == 2 { 0 } else { (1 << 28) + k as u32 } });
            id += (1u64 << 56) + (1 << 29);
            if id >= 1 << 62 {
                break;
            }
        }
        lists.push(es);
        st.add("lists_maximal_width", 1);
    }
    lists.push(vec![Entry { tile_id: 5, offset: u64::MAX - 7, length: 3, run_length: 1 }, Entry { tile_id: 9, offset: (1 << 63) - 1, length: 1, run_length: 2 }]);
    // very regular directories: under a codec they shrink to far less than one byte per entry
    for (i, n) in (if quick { vec![500usize, 3000, 20_000] } else { vec![500, 3000, 20_000, 60_000, 100_000] }).into_iter().enumerate() {
        let len = [1000u32, 7, 65_536][i % 3];
        let tiles: Vec<Entry> = (0..n).map(|k| Entry { tile_id: 10 + k as u64, offset: k as u64 * u64::from(len), length: len, run_length: 1 }).collect();
        let ptrs: Vec<Entry> = (0..n).map(|k| Entry { tile_id: 4096 * k as u64, offset: k as u64 * 500, length: 500, run_length: 0 }).collect();
        lists.push(tiles);
        lists.push(ptrs);
        st.add("lists_regular", 2);
    }
    for (k, es) in lists.iter().enumerate() {
        debug_assert!(is_valid_dir(es));
        let et = entries_tok(es);
        let small = es.len() <= 3000 || (es.len() <= 20_000 && es.windows(2).all(|w| w[1].length == w[0].length));
        // model-compared operations
        let codec_rot = ALL_COMP[1 + k % 3];
        let mut codecs = vec![Compression::None];
        if (k % 4 == 0 || es.len() > 3000) && small {
            codecs.push(codec_rot);
        }
        if small {
            for &c in &codecs {
                for mode in ["sync", "async"] {
                    cases.push(format!("dir_enc {mode} {} {et}", comp_tok(c)));
                }
                // bytes produced by the independent encoder (compressed by the real codec), read back
                let plain = spec_encode_dir(es);
                let bytes = pmtiles2::util::compress_all(c, &plain).expect("compress");
                for mode in ["sync", "async"] {
                    cases.push(format!("dir_dec {mode} {} {}", comp_tok(c), hex_bytes(&bytes)));
                }
                if c == Compression::None && k % 5 == 0 {
                    // trailing bytes after the directory are not part of it
                    let mut t = plain.clone();
                    t.extend_from_slice(&rng.bytes(3));
                    cases.push(format!("dir_dec sync none {}", hex_bytes(&t)));
                }
            }
            if !es.is_empty() && k % 3 == 0 {
                let e = es[rng.below(es.len() as u64) as usize];
                let id = e.tile_id + rng.below(u64::from(e.run_length) + 2);
                cases.push(format!("dir_find {et} {id:x}"));
            }
        }
        // direct oracle
        cases.push(format!("chk_dir_roundtrip {} {et}", u8::from(k % 4 == 0 || !quick || es.len() > 3000)));
    }
    // runs that end on the last tile of zoom 31 (the top of the tile-id space)
    {
        const LAST: u64 = 6_148_914_691_236_517_204;
        for es in [
            vec![Entry { tile_id: LAST, offset: 0, length: 9, run_length: 1 }],
            vec![Entry { tile_id: 7, offset: 0, length: 3, run_length: 2 }, Entry { tile_id: LAST - 9, offset: 3, length: 5, run_length: 10 }],
            vec![Entry { tile_id: LAST - 1, offset: 10, length: 1, run_length: 1 }, Entry { tile_id: LAST, offset: 11, length: 1, run_length: 1 }],
        ] {
            cases.push(format!("chk_dir_roundtrip 1 {}", entries_tok(&es)));
            for mode in ["sync", "async"] {
                cases.push(format!("dir_enc {mode} none {}", entries_tok(&es)));
                cases.push(format!("dir_dec {mode} none {}", hex_bytes(&spec_encode_dir(&es))));
            }
            st.bump("lists_ending_on_the_last_tile_id");
        }
    }
    // directory sizes whose compressed length sweeps across 4096 and 8192 bytes (staging buffers of those sizes)
    for &c in &ALL_COMP[1..] {
        for limit in [4096usize, 8192] {
            let mk = |n: usize| -> Vec<Entry> { (0..n).map(|k| Entry { tile_id: 5 + 3 * k as u64 + (k as u64 * k as u64 % 7), offset: 900 * k as u64, length: 900 - (k % 13) as u32, run_length: 1 + (k % 3) as u32 }).collect() };
            let size = |n: usize| dir_enc(false, c, &mk(n)).map(|b| b.len()).unwrap_or(0);
            let (mut lo, mut hi) = (1usize, 40_000usize);
            while lo + 1 < hi {
                let mid = (lo + hi) / 2;
                if size(mid) < limit { lo = mid } else { hi = mid }
            }
            let span = if quick { 12 } else { 60 };
            for n in lo.saturating_sub(span)..=lo + span {
                cases.push(format!("chk_dir_codec_exact {} {}", comp_tok(c), entries_tok(&mk(n))));
            }
            st.bump("compressed_sizes_around_buffer_limits");
        }
    }
    // directories of more than 2^17 entries, all contiguous (the shorthand R<n> is expanded inside the worker)
    for n in [131_071u64, 131_073, 140_000, 262_145] {
        cases.push(format!("chk_dir_roundtrip {} R{n:x}", u8::from(n == 131_073)));
        st.bump("lists_over_2pow17_entries");
    }
    cases
}

pub fn run_chk(toks: &[&str]) -> Option<String> {
    match toks {
        ["chk_dir_codec_exact", c, es] => {
            // the compressed directory, decoded to its very end by the library and by the upstream decoder, is the
            // specification's encoding (sync and async writers)
            let (c, es) = (parse_comp(c), parse_entries(es));
            Some(crate::ops::guard_chk(|| {
                let spec = spec_encode_dir(&es);
                for asy in [false, true] {
                    let enc = dir_enc(asy, c, &es).map_err(|e| format!("encode failed: {e}"))?;
                    let plain = pmtiles2::util::decompress_all(c, &enc).map_err(|e| format!("the {} bytes of a {} directory written by the {} writer do not decompress to the end: {e}", enc.len(), comp_tok(c), if asy { "async" } else { "sync" }))?;
                    if plain != spec {
                        return Err(format!("a {} directory of {} compressed bytes decompresses to other bytes than the specification's encoding", comp_tok(c), enc.len()));
                    }
                    if crate::spec::codec_decompress(crate::ops2::comp_code(c) as u8, &enc)? != spec {
                        return Err("the upstream decoder reads other bytes".into());
                    }
                }
                Ok(())
            }))
        }
        ["chk_dir_roundtrip", all, es] => {
            let es = parse_entries(es);
            Some(crate::ops::guard_chk(|| chk_dir_roundtrip(&es, *all == "1")))
        }
        _ => None,
    }
}
