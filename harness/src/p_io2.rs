// (included into p_io.rs)

// ---------------------------------------------------------------------------------------------
// generic "scenarios": one library call on an instrumented stream, rendered canonically
// ---------------------------------------------------------------------------------------------
/// A scenario runs one reader or writer entry point on the given stream core and returns a canonical
/// rendering of its result ("err" for Err) together with the core afterwards.
/// kinds: hdr_r, hdr_w, dir_r, dir_w, rdirs, wdirs, open (open + fetch every tile), write (archive)
fn scenario(kind: &str, mode: &str, args: &[&str], core: Core) -> (Result<String, String>, Core) {
    let asy = mode == "async";
    macro_rules! fin {
        ($r:expr, $core:expr) => {
            match $r {
                Err(_) => (Err("panic".to_string()), $core),
                Ok(Err(_)) => (Ok("err".to_string()), $core),
                Ok(Ok(s)) => (Ok(s), $core),
            }
        };
    }
    match kind {
        "hdr_r" => {
            if asy {
                let mut s = AsyncStream(core);
                let r = catch_unwind(AssertUnwindSafe(|| block_on(pmtiles2::Header::from_async_reader(&mut s)).map(|h| header_fields_tok(&h))));
                fin!(r, s.0)
            } else {
                let mut s = SyncStream(core);
                let r = catch_unwind(AssertUnwindSafe(|| pmtiles2::Header::from_reader(&mut s).map(|h| header_fields_tok(&h))));
                fin!(r, s.0)
            }
        }
        "hdr_w" => {
            let h = header_of_fields(args);
            if asy {
                let mut s = AsyncStream(core);
                let r = catch_unwind(AssertUnwindSafe(|| block_on(h.to_async_writer(&mut s)).map(|_| String::new())));
                fin!(r, s.0)
            } else {
                let mut s = SyncStream(core);
                let r = catch_unwind(AssertUnwindSafe(|| h.to_writer(&mut s).map(|_| String::new())));
                fin!(r, s.0)
            }
        }
        "dir_r" => {
            let c = parse_comp(args[0]);
            let len = core.data.len() as u64;
            if asy {
                let mut s = AsyncStream(core);
                let r = catch_unwind(AssertUnwindSafe(|| block_on(pmtiles2::Directory::from_async_reader(&mut s, len, c)).map(|d| entries_tok(&crate::ops::dir_entries(&d)))));
                fin!(r, s.0)
            } else {
                let mut s = SyncStream(core);
                let r = catch_unwind(AssertUnwindSafe(|| pmtiles2::Directory::from_reader(&mut s, len, c).map(|d| entries_tok(&crate::ops::dir_entries(&d)))));
                fin!(r, s.0)
            }
        }
        "dir_w" => {
            let c = parse_comp(args[0]);
            let d = crate::ops::dir_from(parse_entries(args[1]));
            if asy {
                let mut s = AsyncStream(core);
                let r = catch_unwind(AssertUnwindSafe(|| block_on(d.to_async_writer(&mut s, c)).map(|_| String::new())));
                fin!(r, s.0)
            } else {
                let mut s = SyncStream(core);
                let r = catch_unwind(AssertUnwindSafe(|| d.to_writer(&mut s, c).map(|_| String::new())));
                fin!(r, s.0)
            }
        }
        "wdirs" => {
            let c = parse_comp(args[0]);
            let start = if args[1] == "-" { None } else { Some(pmtiles2::util::WriteDirsOverflowStrategy::OnlyLeafPointers { start_size: Some(unhex_u64(args[1]) as usize) }) };
            let es = parse_entries(args[2]);
            if asy {
                let mut s = AsyncStream(core);
                let r = catch_unwind(AssertUnwindSafe(|| block_on(pmtiles2::util::write_directories_async(&mut s, &es, c, start)).map(|l| hex_bytes(&l))));
                fin!(r, s.0)
            } else {
                let mut s = SyncStream(core);
                let r = catch_unwind(AssertUnwindSafe(|| pmtiles2::util::write_directories(&mut s, &es, c, start).map(|l| hex_bytes(&l))));
                fin!(r, s.0)
            }
        }
        "rdirs" => {
            let c = parse_comp(args[0]);
            let (ro, rl, lo, rg) = (unhex_u64(args[1]), unhex_u64(args[2]), unhex_u64(args[3]), parse_range(args[4]));
            let render = |m: std::collections::HashMap<u64, pmtiles2::util::OffsetLength, _>| {
                let b: std::collections::BTreeMap<u64, (u64, u32)> = m.into_iter().map(|(k, v)| (k, (v.offset, v.length))).collect();
                tiles_tok(&b)
            };
            if asy {
                let mut s = AsyncStream(core);
                let r = catch_unwind(AssertUnwindSafe(|| block_on(pmtiles2::util::read_directories_async(&mut s, c, (ro, rl), lo, rg)).map(render)));
                fin!(r, s.0)
            } else {
                let mut s = SyncStream(core);
                let r = catch_unwind(AssertUnwindSafe(|| pmtiles2::util::read_directories(&mut s, c, (ro, rl), lo, rg).map(render)));
                fin!(r, s.0)
            }
        }
        "open" => {
            // open (optionally partially) and fetch every tile; the stream is shared with the archive
            let rg = if args.is_empty() { FULL } else { parse_range(args[0]) };
            if asy {
                let sh = AShared::new(core);
                let r = catch_unwind(AssertUnwindSafe(|| {
                    block_on(async {
                        let mut pm = PMTiles::from_async_reader_partially(sh.clone(), rg).await?;
                        let mut ids: Vec<u64> = pm.tile_ids().into_iter().copied().collect();
                        ids.sort_unstable();
                        let mut out = vec![hdr_tok(&St::A(AsyncPm::default())).len().to_string()];
                        out.clear();
                        out.push(format!("{:x}:{:x}:{}", ttype_code(pm.tile_type), comp_code(pm.internal_compression), hex_bytes(&serde_json::to_vec(&pm.meta_data).unwrap())));
                        for id in ids {
                            let t = pm.get_tile_by_id_async(id).await?;
                            out.push(format!("{id:x}={}", t.map_or("none".into(), |b| hex_bytes(&b))));
                        }
                        Ok::<String, std::io::Error>(out.join(","))
                    })
                }));
                let core = std::mem::take(&mut *sh.0.lock().unwrap());
                fin!(r, core)
            } else {
                let sh = Shared::new(core);
                let r = catch_unwind(AssertUnwindSafe(|| {
                    let mut pm = PMTiles::from_reader_partially(sh.clone(), rg)?;
                    let mut ids: Vec<u64> = pm.tile_ids().into_iter().copied().collect();
                    ids.sort_unstable();
                    let mut out = vec![format!("{:x}:{:x}:{}", ttype_code(pm.tile_type), comp_code(pm.internal_compression), hex_bytes(&serde_json::to_vec(&pm.meta_data).unwrap()))];
                    for id in ids {
                        let t = pm.get_tile_by_id(id)?;
                        out.push(format!("{id:x}={}", t.map_or("none".into(), |b| hex_bytes(&b))));
                    }
                    Ok::<String, std::io::Error>(out.join(","))
                }));
                let core = std::mem::take(&mut *sh.0.borrow_mut());
                fin!(r, core)
            }
        }
        "rewrite" => {
            // open from the (possibly failing / fragmenting) stream, then write the archive to a healthy in-memory output
            if asy {
                let sh = AShared::new(core);
                let r = catch_unwind(AssertUnwindSafe(|| {
                    block_on(async {
                        let pm = PMTiles::from_async_reader(sh.clone()).await?;
                        let mut out = futures::io::Cursor::new(Vec::<u8>::new());
                        pm.to_async_writer(&mut out).await?;
                        Ok::<String, std::io::Error>(hex_bytes(&out.into_inner()))
                    })
                }));
                let core = std::mem::take(&mut *sh.0.lock().unwrap());
                fin!(r, core)
            } else {
                let sh = Shared::new(core);
                let r = catch_unwind(AssertUnwindSafe(|| {
                    let pm = PMTiles::from_reader(sh.clone())?;
                    let mut out = std::io::Cursor::new(Vec::<u8>::new());
                    pm.to_writer(&mut out)?;
                    Ok::<String, std::io::Error>(hex_bytes(&out.into_inner()))
                }));
                let core = std::mem::take(&mut *sh.0.borrow_mut());
                fin!(r, core)
            }
        }
        "write" => match build_state(mode, args[0]) {
            Err(e) => (Err(format!("harness: {e}")), core),
            Ok(st) => {
                let (r, core) = write_to(st, core);
                fin!(r.map(|x| x.map(|_| String::new())), core)
            }
        },
        _ => (Err(format!("harness: unknown scenario {kind}")), core),
    }
}
fn is_reader(kind: &str) -> bool {
    matches!(kind, "hdr_r" | "dir_r" | "rdirs" | "open" | "rewrite")
}

// ---------------------------------------------------------------------------------------------
// C13
// ---------------------------------------------------------------------------------------------
fn sched_from(rng: &mut Rng, style: u64) -> Schedule {
    let chunks: Vec<usize> = match style % 6 {
        0 => vec![1],
        1 => vec![rng.range(2, 9) as usize],
        2 => (0..rng.range(2, 40)).map(|_| rng.range(1, 4) as usize).collect(),
        3 => (0..rng.range(2, 40)).map(|_| rng.range(1, 300) as usize).collect(),
        4 => vec![1, 1000, 2, 7, 1, 1, 64],
        _ => vec![],
    };
    let pend: Vec<bool> = match style % 4 {
        0 => vec![],
        1 => vec![true],
        2 => (0..rng.range(1, 30)).map(|_| rng.chance(1, 2)).collect(),
        _ => vec![false, false, true],
    };
    Schedule { chunks, pend }
}
fn chk_sched(kind: &str, mode: &str, seed: u64, data: &[u8], args: &[&str]) -> Result<(), String> {
    let (r0, c0) = scenario(kind, mode, args, Core::new(data.to_vec(), 0));
    let r0 = r0?;
    let mut rng = Rng::new(seed);
    for style in 0..12u64 {
        let mut core = Core::new(data.to_vec(), 0);
        core.sched = sched_from(&mut rng, style + seed);
        if mode == "sync" {
            core.sched.pend.clear();
        }
        let desc = format!("chunks {:?} pending {:?}", &core.sched.chunks[..core.sched.chunks.len().min(8)], &core.sched.pend[..core.sched.pend.len().min(8)]);
        let (r, c) = scenario(kind, mode, args, core);
        let r = r.map_err(|e| format!("{e} under schedule {desc}"))?;
        if r != r0 {
            return Err(format!("result differs under fragmentation schedule {desc}: {} vs {} on an in-memory buffer", &r[..r.len().min(80)], &r0[..r0.len().min(80)]));
        }
        if !is_reader(kind) && c.data != c0.data {
            let pos = c.data.iter().zip(c0.data.iter()).position(|(a, b)| a != b).unwrap_or(c.data.len().min(c0.data.len()));
            return Err(format!("output bytes differ under fragmentation schedule {desc} ({} vs {} bytes, first difference at {pos})", c.data.len(), c0.data.len()));
        }
    }
    Ok(())
}
/// every composition of the transfer sizes for a small input (n-1 cut points)
fn chk_sched_all(kind: &str, mode: &str, data: &[u8], args: &[&str], nbytes: usize) -> Result<(), String> {
    let (r0, c0) = scenario(kind, mode, args, Core::new(data.to_vec(), 0));
    let r0 = r0?;
    if nbytes > 18 {
        return Err("harness: input too large for exhaustive compositions".into());
    }
    let n = nbytes.max(1);
    for mask in 0u32..(1u32 << (n - 1)) {
        // composition: run lengths between cut points
        let mut chunks: Vec<usize> = Vec::new();
        let mut cur = 1usize;
        for i in 0..n - 1 {
            if mask >> i & 1 == 1 {
                chunks.push(cur);
                cur = 1;
            } else {
                cur += 1;
            }
        }
        chunks.push(cur);
        chunks.push(1 << 20);
        let mut core = Core::new(data.to_vec(), 0);
        core.sched = Schedule { chunks: chunks.clone(), pend: if mode == "async" && mask % 3 == 0 { vec![true, false] } else { vec![] } };
        let (r, c) = scenario(kind, mode, args, core);
        let r = r.map_err(|e| format!("{e} under composition {chunks:?}"))?;
        if r != r0 || (!is_reader(kind) && c.data != c0.data) {
            return Err(format!("result or output differs when the {n}-byte transfer is split as {:?}", &chunks[..chunks.len() - 1]));
        }
    }
    Ok(())
}

// ---------------------------------------------------------------------------------------------
// C15
// ---------------------------------------------------------------------------------------------
fn chk_fault(kind: &str, mode: &str, data: &[u8], args: &[&str]) -> Result<(), String> {
    // once with transfers served whole, once in short pieces (what a call still has to read or write when the
    // fault starts depends on it: a codec's trailing bytes, the rest of a write_all, ...)
    chk_fault_sched(kind, mode, data, args, &[])?;
    chk_fault_sched(kind, mode, data, args, &[3, 1, 7, 2, 64])
}
fn chk_fault_sched(kind: &str, mode: &str, data: &[u8], args: &[&str], chunks: &[usize]) -> Result<(), String> {
    let mk = || {
        let mut c = Core::new(data.to_vec(), 0);
        c.sched = crate::streams::Schedule { chunks: chunks.to_vec(), pend: vec![] };
        c
    };
    let (r0, c0) = scenario(kind, mode, args, mk());
    let r0 = r0?;
    if r0 == "err" {
        return Err("harness: the fault-free run fails".into());
    }
    let n = c0.ops;
    // positions of the last propagating operation: operations issued from a Drop are after the last flush
    let thorough = std::env::var("PM_TIER").map_or(false, |t| t == "thorough");
    let stride = if thorough { if n > 40_000 { n / 20_000 } else { 1 } } else if n > 600 { n / 300 } else { 1 };
    let mut k = 0usize;
    while k < n {
        let mut core = mk();
        core.fail_from = Some(k);
        core.fail_kind = if thorough { k / stride.max(1) } else { k };
        let (r, _) = scenario(kind, mode, args, core);
        let frag = if chunks.is_empty() { String::new() } else { format!(" (transfers in pieces of {chunks:?})") };
        match r {
            Err(e) => return Err(format!("{e} when the stream fails from operation {k} of {n} on{frag}")),
            Ok(s) if s != "err" => {
                // which operation was it?
                let what = c0_event_at(&c0, k);
                let lost = kind == "dir_w" && mode == "sync" && args[0] != "none" && after_last_flush(&c0, k);
                if lost {
                    return Err(format!("LOSTDROP Directory::to_writer({}) returned Ok although the stream failed from operation {k} of {n} ({what}) on: the encoder's finishing writes happen in Drop", args[0]));
                }
                return Err(format!("success reported although the stream failed from operation {k} of {n} ({what}) on{frag}"));
            }
            Ok(_) => {}
        }
        k += if k + 40 >= n { 1 } else { stride };
    }
    Ok(())
}
/// fail-stop during lookups: once the stream fails, every lookup of a reader-backed tile fails — the
/// first one, a retry of the same tile, and lookups of other tiles (incl. ones sharing its bytes)
/// scenarios whose fault-free run may itself be an error (hostile input): under a fault from any operation on, the call
/// still returns (a value or an error) - it never panics
fn chk_fault_nopanic(kind: &str, mode: &str, data: &[u8], args: &[&str]) -> Result<(), String> {
    let (r0, c0) = scenario(kind, mode, args, Core::new(data.to_vec(), 0));
    r0.map_err(|e| format!("{e} in the fault-free run"))?;
    for k in 0..c0.ops {
        for fk in [0usize, 1] {
            let mut core = Core::new(data.to_vec(), 0);
            core.fail_from = Some(k);
            core.fail_kind = fk;
            let (r, _) = scenario(kind, mode, args, core);
            r.map_err(|e| format!("{e} when the stream fails from operation {k} of {} on ({})", c0.ops, c0_event_at(&c0, k)))?;
        }
    }
    Ok(())
}
/// small scenarios: at every operation, every error kind, with and without a message
fn chk_fault_allkinds(kind: &str, mode: &str, data: &[u8], args: &[&str]) -> Result<(), String> {
    let (r0, c0) = scenario(kind, mode, args, Core::new(data.to_vec(), 0));
    if r0? == "err" {
        return Err("harness: the fault-free run fails".into());
    }
    for k in 0..c0.ops {
        for fk in 0..crate::streams::FAULT_KINDS.len() {
            for bare in [false, true] {
                let mut core = Core::new(data.to_vec(), 0);
                core.fail_from = Some(k);
                core.fail_kind = fk;
                core.fail_bare = Some(bare);
                match scenario(kind, mode, args, core).0 {
                    Err(e) => return Err(format!("{e} when the stream fails from operation {k} of {} on with {:?}", c0.ops, crate::streams::FAULT_KINDS[fk])),
                    Ok(s) if s != "err" => {
                        return Err(format!(
                            "success reported although the stream failed from operation {k} of {} ({}) on with {:?} ({})",
                            c0.ops, c0_event_at(&c0, k), crate::streams::FAULT_KINDS[fk], if bare { "a bare error kind" } else { "an error with a message" }
                        ))
                    }
                    Ok(_) => {}
                }
            }
        }
    }
    Ok(())
}
fn chk_fault_lookup(mode: &str, data: &[u8]) -> Result<(), String> {
    let v = spec::parse(data, false).map_err(|e| format!("harness: {e}"))?;
    let all = spec::all_tiles(&v, 1_000_000)?;
    let ids: Vec<u64> = all.keys().copied().collect();
    if ids.is_empty() {
        return Ok(());
    }
    let step = (ids.len() / 12).max(1);
    for (n, first) in ids.iter().step_by(step).enumerate() {
        // the tiles looked up after the stream started failing: the same one again, a twin, a neighbour
        let twin = all.iter().find(|(i, ol)| *i != first && **ol == all[first]).map(|(i, _)| *i);
        let mut seq = vec![*first, *first];
        if let Some(t) = twin {
            seq.push(t);
        }
        seq.push(ids[(n * 7 + 1) % ids.len()]);
        seq.push(*first);
        // faults starting at the seek or at the read of the first lookup
        for dk in 0..2 * crate::streams::FAULT_KINDS.len() {
            let (delay, fkind) = (dk % 2, dk / 2);
            if mode == "sync" {
                let sh = Shared::new(Core::new(data.to_vec(), 0));
                let mut pm = res(catch_unwind(AssertUnwindSafe(|| PMTiles::from_reader(sh.clone()))), "open")?;
                let now = sh.0.borrow().ops;
                sh.0.borrow_mut().fail_from = Some(now + delay);
                sh.0.borrow_mut().fail_kind = fkind;
                for (j, id) in seq.iter().enumerate() {
                    match catch_unwind(AssertUnwindSafe(|| pm.get_tile_by_id(*id))) {
                        Err(_) => return Err(format!("lookup of {id} panicked on a failing stream")),
                        Ok(Ok(_)) => return Err(format!("lookup #{j} of tile {id} reported success although the stream has been failing since the lookup of tile {first} (fault {delay} operations into it)")),
                        Ok(Err(_)) => {}
                    }
                }
            } else {
                let sh = AShared::new(Core::new(data.to_vec(), 0));
                let mut pm = res(catch_unwind(AssertUnwindSafe(|| block_on(PMTiles::from_async_reader(sh.clone())))), "open")?;
                let now = sh.0.lock().unwrap().ops;
                sh.0.lock().unwrap().fail_from = Some(now + delay);
                sh.0.lock().unwrap().fail_kind = fkind;
                for (j, id) in seq.iter().enumerate() {
                    match catch_unwind(AssertUnwindSafe(|| block_on(pm.get_tile_by_id_async(*id)))) {
                        Err(_) => return Err(format!("async lookup of {id} panicked on a failing stream")),
                        Ok(Ok(_)) => return Err(format!("async lookup #{j} of tile {id} reported success although the stream has been failing since the lookup of tile {first} (fault {delay} operations into it)")),
                        Ok(Err(_)) => {}
                    }
                }
            }
        }
    }
    Ok(())
}
fn c0_event_at(c: &Core, k: usize) -> String {
    c.log.get(k).map_or("?".to_string(), |e| format!("{e:?}"))
}
fn after_last_flush(c: &Core, k: usize) -> bool {
    let last_flush = c.log.iter().rposition(|e| matches!(e, Ev::Flush));
    last_flush.map_or(false, |f| k > f)
}

include!("p_io3.rs");
